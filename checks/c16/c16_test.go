// C16 — trimming keeps exactly what the kept services need; meaning is unchanged.
//
// The reference closure K is computed from the model (internal/idl), never
// from the trimmer: least set of definitions closed under field types,
// container key/element types, typedef targets, argument / result / exception
// types and base services, seeded by the kept methods of the services of the
// main file, the types of all constants, all typedefs and the preserved
// struct-likes of every file reachable from the main file.
//
// Oracle decisions taken to stay sound (see also DESIGN §5a):
//   - services of included files that are not a base of a kept service: the
//     property does not say whether they stay; nothing is asserted about them
//     without -m (with -m they must not keep a method: "only matching methods
//     remain").  Their argument types are no seeds (the README: "reachable
//     from service method signatures" of the trimmed file).
//   - an include F->G must survive when something kept in F names a
//     definition of G or G itself holds constants/enums/typedefs (README "What
//     is always kept"); it must be gone when nothing kept names G and neither
//     G nor anything G includes holds a constant, enum, typedef or preserved
//     struct-like.  In between (G only passes on to a file that holds
//     something) the property is silent and nothing is asserted.
//   - a file must survive when it is the main file, holds a constant or a
//     typedef, or holds a member of K or a kept service.  A file that only
//     holds enums is asserted through the include rule alone.
//   - -m patterns are exact names or anchored regexps; an exact (unanchored)
//     name is only generated when no other "Service.method" string of the
//     program matches it as a regexp, so the trimmer's substring / prefix
//     heuristics never decide.  "Svc.m" with m inherited keeps m in the base
//     service (this is what the README's "and their dependents" and the
//     property's "base-service methods they need" describe).
//   - with -m, whether a service keeps an `extends` that no kept method needs
//     is not asserted (the trimmer cuts it; keeping an empty base would be
//     equally valid).
//   - @preserve: only comment lines that are exactly `// @preserve` up to case
//     and blanks are generated; look-alikes are not part of the property.
package c16

import (
	"encoding/json"
	"flag"
	"fmt"
	"math"
	"os"
	"path/filepath"
	"regexp"
	"sort"
	"strconv"
	"strings"
	"sync"
	"testing"
	"time"

	"github.com/cloudwego/thriftgo/parser"
	"github.com/cloudwego/thriftgo/semantic"
	"github.com/cloudwego/thriftgo/tool/trimmer/dump"
	"github.com/cloudwego/thriftgo/tool/trimmer/trim"
	"pgregory.net/rapid"

	"verif/internal/idl"
	"verif/internal/tg"
	"verif/internal/vt"
)

const prop = "C16"

func TestMain(m *testing.M) { vt.Main(m) }

// ---------------------------------------------------------------- case type

type trimArgs struct {
	Methods   []string `json:"methods,omitempty"`           // -m values, as given
	Preserve  *bool    `json:"preserve,omitempty"`          // -p; nil = not given
	Preserved []string `json:"preserved_structs,omitempty"` // preserved_structs of the config
}

type svcExpect struct {
	Methods []string `json:"methods"`           // exactly these methods, in this order
	Extends string   `json:"extends,omitempty"` // "keep": must still extend its base; "" = not asserted
}

type fileExpect struct {
	MustSurvive bool                 `json:"must_survive"`
	Keep        []string             `json:"keep,omitempty"`     // "<kind> <name>": struct-likes in K
	Drop        []string             `json:"drop,omitempty"`     // struct-likes outside K
	Always      []string             `json:"always,omitempty"`   // constants, typedefs, enums
	Includes    map[string]string    `json:"includes,omitempty"` // included file -> keep | drop | any
	Services    map[string]svcExpect `json:"services,omitempty"` // services that must stay
	Strict      bool                 `json:"strict_methods,omitempty"`
}

type trimCase struct {
	Main    string                 `json:"main"`
	Files   map[string]string      `json:"files"`
	Args    trimArgs               `json:"args"`
	Entry   string                 `json:"entry"`   // api | bin
	Compile bool                   `json:"compile"` // also generate Go code from the trimmed program and type-check it
	Expect  map[string]*fileExpect `json:"expect"`
	// Reference is the program trimmed on the model side (what the oracle expects to be left).  It is only
	// used to tell a trimming defect from a Go backend defect when the trimmed program does not compile.
	Reference map[string]string `json:"reference_trimmed,omitempty"`
}

// ------------------------------------------------------------- real code

func front(main string, files map[string]string) (ast *parser.Thrift, err error) {
	defer func() {
		if r := recover(); r != nil {
			err = fmt.Errorf("front end panicked: %v", r)
		}
	}()
	ast, err = parser.ParseBatchString(main, files, nil)
	if err != nil {
		return nil, fmt.Errorf("parse: %w", err)
	}
	if path := parser.CircleDetect(ast); len(path) > 0 {
		return nil, fmt.Errorf("include circle: %s", path)
	}
	if _, err = semantic.NewChecker(semantic.Options{FixWarnings: true}).CheckAll(ast); err != nil {
		return nil, fmt.Errorf("check: %w", err)
	}
	if err = semantic.ResolveSymbols(ast); err != nil {
		return nil, fmt.Errorf("resolve: %w", err)
	}
	return ast, nil
}

var (
	cwdOnce  sync.Once
	emptyDir string
	homeDir  string
)

// inEmptyCwd runs f with an empty working directory: trim.TrimAST reads
// trim_config.yaml from the working directory.  The directory is restored
// afterwards (the type checker's source importer needs the module directory).
func inEmptyCwd(f func()) {
	cwdOnce.Do(func() {
		homeDir, _ = os.Getwd()
		emptyDir, _ = os.MkdirTemp("", "c16cwd")
	})
	if emptyDir != "" && homeDir != "" {
		os.Chdir(emptyDir)
		defer os.Chdir(homeDir)
	}
	f()
}

func runTrim(ast *parser.Thrift, a trimArgs) (err error) {
	defer func() {
		if r := recover(); r != nil {
			err = fmt.Errorf("TrimAST panicked: %v", r)
		}
	}()
	arg := &trim.TrimASTArg{Ast: ast, TrimMethods: append([]string(nil), a.Methods...), PreserveStructs: append([]string(nil), a.Preserved...)}
	if a.Preserve != nil {
		v := *a.Preserve
		arg.Preserve = &v
	}
	inEmptyCwd(func() { _, err = trim.TrimAST(arg) })
	return err
}

func allFiles(root *parser.Thrift) map[string]*parser.Thrift {
	m := map[string]*parser.Thrift{}
	var walk func(t *parser.Thrift)
	walk = func(t *parser.Thrift) {
		if t == nil || m[t.Filename] != nil {
			return
		}
		m[t.Filename] = t
		for _, inc := range t.Includes {
			walk(inc.Reference)
		}
	}
	walk(root)
	return m
}

func dumpAll(root *parser.Thrift) (out map[string]string, err error) {
	defer func() {
		if r := recover(); r != nil {
			err = fmt.Errorf("DumpIDL panicked: %v", r)
		}
	}()
	out = map[string]string{}
	for name, t := range allFiles(root) {
		s, err := dump.DumpIDL(t)
		if err != nil {
			return nil, fmt.Errorf("DumpIDL(%s): %v", name, err)
		}
		out[name] = s
	}
	return out, nil
}

// normalise: a double constant with an integral value may be dumped as an
// integer literal (tolerance granted by C17).
func normalise(root *parser.Thrift) {
	var cv func(v *parser.ConstValue)
	cv = func(v *parser.ConstValue) {
		if v == nil || v.TypedValue == nil {
			return
		}
		switch v.Type {
		case parser.ConstType_ConstDouble:
			d := v.TypedValue.GetDouble()
			if d == math.Trunc(d) && math.Abs(d) < 1<<53 {
				i := int64(d)
				v.Type = parser.ConstType_ConstInt
				v.TypedValue = &parser.ConstTypedValue{Int: &i}
			}
		case parser.ConstType_ConstList:
			for _, e := range v.TypedValue.List {
				cv(e)
			}
		case parser.ConstType_ConstMap:
			for _, e := range v.TypedValue.Map {
				cv(e.Key)
				cv(e.Value)
			}
		}
	}
	for _, t := range allFiles(root) {
		for _, c := range t.Constants {
			cv(c.Value)
		}
		for _, s := range t.GetStructLikes() {
			for _, f := range s.Fields {
				cv(f.Default)
			}
		}
		// default values of method arguments: DumpIDL does not write them (seen on the repository's
		// sample1b.thrift; the model never generates them) — a dumper matter (C17), not a trimming one
		for _, s := range t.Services {
			for _, f := range s.Functions {
				for _, a := range f.Arguments {
					a.Default = nil
				}
			}
		}
	}
}

// ---------------------------------------------------------------- the judge

// include indices are renumbered when an include disappears
var ignoreDef = map[string]bool{"ReservedComments": true, "Index": true}
var ignoreComments = map[string]bool{"ReservedComments": true}

type defIndex struct {
	defs map[string]interface{} // "<kind> <name>" -> node
	svcs map[string]*parser.Service
}

func indexFile(t *parser.Thrift) defIndex {
	ix := defIndex{defs: map[string]interface{}{}, svcs: map[string]*parser.Service{}}
	for _, s := range t.GetStructLikes() {
		ix.defs[s.Category+" "+s.Name] = s
	}
	for _, e := range t.Enums {
		ix.defs["enum "+e.Name] = e
	}
	for _, d := range t.Typedefs {
		ix.defs["typedef "+d.Alias] = d
	}
	for _, c := range t.Constants {
		ix.defs["const "+c.Name] = c
	}
	for _, s := range t.Services {
		ix.svcs[s.Name] = s
	}
	return ix
}

// checkResult compares a trimmed program (in memory or re-parsed) with the
// expectation and with the untouched original.
func checkResult(c trimCase, orig, res *parser.Thrift, what string) error {
	of, rf := allFiles(orig), allFiles(res)
	var paths []string
	for p := range c.Expect {
		paths = append(paths, p)
	}
	sort.Strings(paths)
	for _, p := range paths {
		if c.Expect[p].MustSurvive && rf[p] == nil {
			return fmt.Errorf("%s: file %s is gone, but it holds definitions that must be kept (%s)", what, p, strings.Join(append(append([]string{}, c.Expect[p].Keep...), c.Expect[p].Always...), ", "))
		}
	}
	var names []string
	for p := range rf {
		names = append(names, p)
	}
	sort.Strings(names)
	for _, p := range names {
		t := rf[p]
		exp, o := c.Expect[p], of[p]
		if exp == nil || o == nil {
			return fmt.Errorf("%s: trimmed program contains a file %q the original does not have", what, p)
		}
		ix, ox := indexFile(t), indexFile(o)
		same := func(k string) error {
			if d := idl.Diff(ox.defs[k], ix.defs[k], ignoreDef); d != "" {
				return fmt.Errorf("%s: %s in %s changed by trimming (original vs trimmed) at %s", what, k, p, d)
			}
			return nil
		}
		for _, k := range exp.Keep {
			if ix.defs[k] == nil {
				return fmt.Errorf("%s: %s of %s is needed (in the reference closure) but was removed", what, k, p)
			}
			if err := same(k); err != nil {
				return err
			}
		}
		for _, k := range exp.Always {
			if ix.defs[k] == nil {
				return fmt.Errorf("%s: %s of surviving file %s was removed (constants, typedefs and enums are always kept)", what, k, p)
			}
			if err := same(k); err != nil {
				return err
			}
		}
		for _, k := range exp.Drop {
			if ix.defs[k] != nil {
				return fmt.Errorf("%s: %s of %s survives although nothing kept needs it", what, k, p)
			}
		}
		surv := map[string]bool{}
		for _, inc := range t.Includes {
			if inc.Reference != nil {
				surv[inc.Reference.Filename] = true
			}
		}
		var incs []string
		for g := range exp.Includes {
			incs = append(incs, g)
		}
		sort.Strings(incs)
		for _, g := range incs {
			switch exp.Includes[g] {
			case "keep":
				if !surv[g] {
					return fmt.Errorf("%s: include of %s in %s was removed although it is needed", what, g, p)
				}
			case "drop":
				if surv[g] {
					return fmt.Errorf("%s: include of %s in %s survives although nothing kept refers into it and it holds nothing that is always kept", what, g, p)
				}
			}
		}
		var svcs []string
		for s := range exp.Services {
			svcs = append(svcs, s)
		}
		sort.Strings(svcs)
		for _, s := range svcs {
			se := exp.Services[s]
			sv, osv := ix.svcs[s], ox.svcs[s]
			if sv == nil {
				return fmt.Errorf("%s: service %s of %s must stay (methods %v) but was removed", what, s, p, se.Methods)
			}
			var got []string
			for _, f := range sv.Functions {
				got = append(got, f.Name)
			}
			if strings.Join(got, ",") != strings.Join(se.Methods, ",") {
				return fmt.Errorf("%s: service %s of %s has methods %v after trimming, expected %v", what, s, p, got, se.Methods)
			}
			for _, f := range sv.Functions {
				for _, g := range osv.Functions {
					if g.Name == f.Name {
						if d := idl.Diff(g, f, ignoreDef); d != "" {
							return fmt.Errorf("%s: method %s.%s changed by trimming at %s", what, s, f.Name, d)
						}
					}
				}
			}
			if se.Extends == "keep" && sv.Extends != osv.Extends {
				return fmt.Errorf("%s: service %s of %s no longer extends %q (now %q) although a kept method is inherited through it", what, s, p, osv.Extends, sv.Extends)
			}
		}
		if exp.Strict {
			for _, sv := range t.Services {
				if _, ok := exp.Services[sv.Name]; !ok && len(sv.Functions) > 0 {
					return fmt.Errorf("%s: service %s of %s keeps methods although no -m pattern matches any of them", what, sv.Name, p)
				}
			}
		}
	}
	return nil
}

// checkRefs: every index recorded in the in-memory AST addresses the include
// the written name starts with, and the named definition exists there (the
// Go backend works on this AST when trim_idl is given).
var builtin = map[string]bool{"bool": true, "byte": true, "i8": true, "i16": true, "i32": true, "i64": true, "double": true, "string": true,
	"binary": true, "map": true, "list": true, "set": true}

func checkRefs(root *parser.Thrift) error {
	for name, t := range allFiles(root) {
		has := func(u *parser.Thrift, n string, svc bool) bool {
			if svc {
				_, ok := u.GetService(n)
				return ok
			}
			if _, ok := u.GetTypedef(n); ok {
				return true
			}
			if _, ok := u.GetEnum(n); ok {
				return true
			}
			for _, s := range u.GetStructLikes() {
				if s.Name == n {
					return true
				}
			}
			return false
		}
		var typ func(where string, x *parser.Type) error
		typ = func(where string, x *parser.Type) error {
			if x == nil {
				return nil
			}
			if err := typ(where, x.KeyType); err != nil {
				return err
			}
			if err := typ(where, x.ValueType); err != nil {
				return err
			}
			switch {
			case builtin[x.Name]:
			case x.Reference != nil:
				i := int(x.Reference.Index)
				if i < 0 || i >= len(t.Includes) {
					return fmt.Errorf("%s of %s: type %s has include index %d, file has %d includes", where, name, x.Name, i, len(t.Includes))
				}
				inc := t.Includes[i]
				if semantic.IDLPrefix(inc.Path)+"."+x.Reference.Name != x.Name || !has(inc.Reference, x.Reference.Name, false) {
					return fmt.Errorf("%s of %s: type %s is bound to include %d (%s), which does not define it", where, name, x.Name, i, inc.Path)
				}
			case strings.Contains(x.Name, "."):
				return fmt.Errorf("%s of %s: qualified type %s has no include binding", where, name, x.Name)
			default:
				if !has(t, x.Name, false) {
					return fmt.Errorf("%s of %s: type %s is not defined in the trimmed file", where, name, x.Name)
				}
			}
			return nil
		}
		for _, d := range t.Typedefs {
			if err := typ("typedef "+d.Alias, d.Type); err != nil {
				return err
			}
		}
		for _, d := range t.Constants {
			if err := typ("const "+d.Name, d.Type); err != nil {
				return err
			}
		}
		for _, s := range t.GetStructLikes() {
			for _, f := range s.Fields {
				if err := typ(s.Category+" "+s.Name+"."+f.Name, f.Type); err != nil {
					return err
				}
			}
		}
		for _, s := range t.Services {
			for _, f := range s.Functions {
				w := "method " + s.Name + "." + f.Name
				if !f.Void {
					if err := typ(w, f.FunctionType); err != nil {
						return err
					}
				}
				for _, a := range f.Arguments {
					if err := typ(w, a.Type); err != nil {
						return err
					}
				}
				for _, a := range f.Throws {
					if err := typ(w, a.Type); err != nil {
						return err
					}
				}
			}
			if s.Extends == "" {
				continue
			}
			if s.Reference != nil {
				i := int(s.Reference.Index)
				if i < 0 || i >= len(t.Includes) {
					return fmt.Errorf("service %s of %s: base %s has include index %d, file has %d includes", s.Name, name, s.Extends, i, len(t.Includes))
				}
				inc := t.Includes[i]
				if semantic.IDLPrefix(inc.Path)+"."+s.Reference.Name != s.Extends || !has(inc.Reference, s.Reference.Name, true) {
					return fmt.Errorf("service %s of %s: base %s is bound to include %d (%s), which does not define it", s.Name, name, s.Extends, i, inc.Path)
				}
			} else if !has(t, s.Extends, true) {
				return fmt.Errorf("service %s of %s: base service %s is not defined in the trimmed file", s.Name, name, s.Extends)
			}
		}
	}
	return nil
}

func diffPrograms(a, b *parser.Thrift) string {
	fa, fb := allFiles(a), allFiles(b)
	var names []string
	for n := range fa {
		names = append(names, n)
		if fb[n] == nil {
			return fmt.Sprintf("file %s only on the first side", n)
		}
	}
	for n := range fb {
		if fa[n] == nil {
			return fmt.Sprintf("file %s only on the second side", n)
		}
	}
	sort.Strings(names)
	for _, n := range names {
		if d := idl.Diff(fa[n], fb[n], ignoreComments); d != "" {
			return n + ": " + d
		}
	}
	return ""
}

func judgeAPI(c trimCase) error {
	orig, err := front(c.Main, c.Files)
	if err != nil {
		return fmt.Errorf("harness: generated program rejected by the front end: %v", err)
	}
	t1, _ := front(c.Main, c.Files)
	if err := runTrim(t1, c.Args); err != nil {
		return fmt.Errorf("TrimAST failed on a valid program: %v", err)
	}
	if err := checkResult(c, orig, t1, "in-memory result"); err != nil {
		return err
	}
	if err := checkRefs(t1); err != nil {
		return fmt.Errorf("in-memory result is not a resolved AST: %v", err)
	}
	// idempotence, in process
	t2, _ := front(c.Main, c.Files)
	if err := runTrim(t2, c.Args); err != nil {
		return fmt.Errorf("TrimAST is not deterministic: second run on the same input failed: %v", err)
	}
	if err := runTrim(t2, c.Args); err != nil {
		return fmt.Errorf("trimming the trimmed AST again failed: %v", err)
	}
	if d := diffPrograms(t1, t2); d != "" {
		return fmt.Errorf("trimming the trimmed AST again changed it (trimmed once vs twice): %s", d)
	}
	// the dumped result is a valid IDL set with the same content
	dumped, err := dumpAll(t1)
	if err != nil {
		return err
	}
	d1, err := front(c.Main, dumped)
	if err != nil {
		return fmt.Errorf("dumped result is not a valid IDL set: %v\n%s", err, texts(dumped))
	}
	normalise(orig)
	normalise(d1)
	normalise(t1)
	if err := checkResult(c, orig, d1, "dumped result"); err != nil {
		return err
	}
	if d := diffPrograms(t1, d1); d != "" {
		return fmt.Errorf("the trimmed AST and its dump differ (in memory vs re-parsed): %s", d)
	}
	// idempotence on the written files
	d2, _ := front(c.Main, dumped)
	if err := runTrim(d2, c.Args); err != nil {
		return fmt.Errorf("trimming the dumped result again failed: %v", err)
	}
	normalise(d2)
	if d := diffPrograms(d1, d2); d != "" {
		return fmt.Errorf("trimming the dumped result again changed it: %s", d)
	}
	if c.Compile {
		return judgeCompile(c, dumped)
	}
	return nil
}

func texts(m map[string]string) string {
	var ks []string
	for k := range m {
		ks = append(ks, k)
	}
	sort.Strings(ks)
	var b strings.Builder
	for _, k := range ks {
		fmt.Fprintf(&b, "--- %s ---\n%s\n", k, vt.Truncate(m[k], 1200))
	}
	return b.String()
}

// configYAML renders the arguments as trim_config.yaml (the only way to hand
// preserved_structs to the binary and anything to trim_idl).
func configYAML(a trimArgs, withMethods bool) string {
	var b strings.Builder
	if withMethods && len(a.Methods) > 0 {
		b.WriteString("methods:\n")
		for _, m := range a.Methods {
			fmt.Fprintf(&b, "  - '%s'\n", m)
		}
	}
	if withMethods && a.Preserve != nil {
		fmt.Fprintf(&b, "preserve: %v\n", *a.Preserve)
	}
	if len(a.Preserved) > 0 {
		b.WriteString("preserved_structs:\n")
		for _, s := range a.Preserved {
			fmt.Fprintf(&b, "  - %s\n", s)
		}
	}
	return b.String()
}

// goCompiles runs `thriftgo -g <gen> -r` on the files and type-checks the output.
func goCompiles(dir, sub string, files map[string]string, main, gen string) (ok bool, msg string, err error) {
	bin, err := tg.Thriftgo()
	if err != nil {
		return false, "", fmt.Errorf("harness: %v", err)
	}
	idlDir := filepath.Join(dir, sub, "idl")
	out := filepath.Join(dir, sub, "out")
	if err := tg.WriteFiles(idlDir, files); err != nil {
		return false, "", fmt.Errorf("harness: %v", err)
	}
	r := tg.Exec(bin, idlDir, nil, 60*time.Second, "-g", gen, "-o", out, "-r", main)
	if r.TimedOut {
		return false, "", fmt.Errorf("harness: thriftgo timed out")
	}
	if r.Exit != 0 || strings.Contains(r.Output, "Recovered from panic") {
		return false, fmt.Sprintf("thriftgo -g %s exit %d: %s", gen, r.Exit, vt.Truncate(r.Output, 600)), nil
	}
	res := tg.TypeCheck(out, "")
	if len(res.Errors) > 0 {
		n := len(res.Errors)
		if n > 5 {
			res.Errors = res.Errors[:5]
		}
		return false, fmt.Sprintf("generated code does not compile (%d errors): %s", n, strings.Join(res.Errors, "; ")), nil
	}
	return true, "", nil
}

// judgeCompile: the trimmed program (as written) and the trim_idl route both
// give compiling Go code — whenever the untrimmed program does (C01 decides
// the rest).
func judgeCompile(c trimCase, trimmed map[string]string) error {
	dir, err := os.MkdirTemp("", "c16go")
	if err != nil {
		return fmt.Errorf("harness: %v", err)
	}
	defer os.RemoveAll(dir)
	ok, msg, err := goCompiles(dir, "orig", c.Files, c.Main, "go")
	if err != nil {
		return err
	}
	if !ok {
		if os.Getenv("C16_SURVEY") != "" {
			fmt.Fprintln(os.Stderr, "SURVEY orig:", strings.ReplaceAll(msg[max(0, len(msg)-300):], "\n", " "))
		}
		vt.Class("compile_sample_original_does_not_compile")
		return nil
	}
	vt.Class("compile_sample")
	files := map[string]string{}
	for k, v := range c.Files {
		files[k] = v
	}
	if y := configYAML(c.Args, true); y != "" {
		files["trim_config.yaml"] = y
	}
	okT, msgT, err := goCompiles(dir, "trimmed", trimmed, c.Main, "go")
	if err != nil {
		return err
	}
	okI, msgI, err := goCompiles(dir, "trimidl", files, c.Main, "go:trim_idl")
	if err != nil {
		return err
	}
	if okT && okI {
		return nil
	}
	// a valid trimmed program the Go backend cannot handle is C01's matter: the program trimmed on the
	// model side decides whose fault it is
	if len(c.Reference) > 0 {
		okR, _, err := goCompiles(dir, "reference", c.Reference, c.Main, "go")
		if err != nil {
			return err
		}
		if !okR {
			vt.Class("compile_sample_backend_fails_on_reference_trimmed_program")
			return nil
		}
	}
	if !okT {
		return fmt.Errorf("the original program generates compiling Go code, the trimmed one does not: %s\n%s", msgT, texts(trimmed))
	}
	return fmt.Errorf("the original program generates compiling Go code, with -g go:trim_idl it does not: %s", msgI)
}

var (
	trimBinOnce sync.Once
	trimBin     string
	trimBinErr  error
)

func trimmerBin() (string, error) {
	trimBinOnce.Do(func() {
		if p := os.Getenv("VERIF_TRIMMER"); p != "" {
			trimBin = p
			return
		}
		trimBin, trimBinErr = tg.BuildRepoBin("./tool/trimmer", "trimmer")
	})
	return trimBin, trimBinErr
}

func runBinary(bin, src, out string, a trimArgs, main string) tg.Result {
	var args []string
	for _, m := range a.Methods {
		args = append(args, "-m", m)
	}
	if a.Preserve != nil {
		args = append(args, "-p", fmt.Sprint(*a.Preserve))
	}
	args = append(args, "-r", src, "-o", out, main)
	return tg.Exec(bin, src, nil, 60*time.Second, args...)
}

func readTree(dir string) (map[string]string, error) {
	m := map[string]string{}
	for _, rel := range tg.ListFiles(dir) {
		if !strings.HasSuffix(rel, ".thrift") {
			continue
		}
		b, err := os.ReadFile(filepath.Join(dir, rel))
		if err != nil {
			return nil, err
		}
		m[filepath.ToSlash(rel)] = string(b)
	}
	return m, nil
}

func judgeBin(c trimCase) error {
	bin, err := trimmerBin()
	if err != nil {
		return fmt.Errorf("harness: %v", err)
	}
	orig, err := front(c.Main, c.Files)
	if err != nil {
		return fmt.Errorf("harness: generated program rejected by the front end: %v", err)
	}
	dir, err := os.MkdirTemp("", "c16bin")
	if err != nil {
		return fmt.Errorf("harness: %v", err)
	}
	defer os.RemoveAll(dir)
	src, out, out2 := filepath.Join(dir, "idl"), filepath.Join(dir, "out"), filepath.Join(dir, "out2")
	files := map[string]string{}
	for k, v := range c.Files {
		files[k] = v
	}
	yaml := configYAML(c.Args, false)
	if yaml != "" {
		files["trim_config.yaml"] = yaml
	}
	if err := tg.WriteFiles(src, files); err != nil {
		return fmt.Errorf("harness: %v", err)
	}
	r := runBinary(bin, src, out, c.Args, c.Main)
	if r.TimedOut {
		return fmt.Errorf("harness: trimmer timed out")
	}
	if r.Exit != 0 {
		return fmt.Errorf("trimmer %v failed on a valid program (exit %d): %s", r.Args, r.Exit, vt.Truncate(r.Output, 600))
	}
	written, err := readTree(out)
	if err != nil {
		return fmt.Errorf("harness: %v", err)
	}
	d1, err := front(c.Main, written)
	if err != nil {
		return fmt.Errorf("files written by trimmer %v are not a valid IDL set: %v\n%s", r.Args, err, texts(written))
	}
	if len(allFiles(d1)) != len(written) {
		return fmt.Errorf("trimmer wrote %d files, %d are reachable from %s", len(written), len(allFiles(d1)), c.Main)
	}
	normalise(orig)
	normalise(d1)
	if err := checkResult(c, orig, d1, "written result"); err != nil {
		return err
	}
	// trimming the written files again changes nothing
	if yaml != "" {
		if err := tg.WriteFiles(out, map[string]string{"trim_config.yaml": yaml}); err != nil {
			return fmt.Errorf("harness: %v", err)
		}
	}
	r2 := runBinary(bin, out, out2, c.Args, c.Main)
	if r2.Exit != 0 || r2.TimedOut {
		return fmt.Errorf("trimming the written result again failed (exit %d): %s", r2.Exit, vt.Truncate(r2.Output, 600))
	}
	written2, err := readTree(out2)
	if err != nil {
		return fmt.Errorf("harness: %v", err)
	}
	d2, err := front(c.Main, written2)
	if err != nil {
		return fmt.Errorf("result of the second trimming is not a valid IDL set: %v", err)
	}
	normalise(d2)
	if d := diffPrograms(d1, d2); d != "" {
		return fmt.Errorf("trimming the written result again changed it: %s", d)
	}
	if c.Compile {
		return judgeCompile(c, written)
	}
	return nil
}

func judge(c trimCase) error {
	switch c.Entry {
	case "api":
		return judgeAPI(c)
	case "bin":
		return judgeBin(c)
	}
	return fmt.Errorf("harness: unknown entry %q", c.Entry)
}

// ------------------------------------------------------- model-side oracle

var preserveComments = []string{"@preserve", "@Preserve", "@PRESERVE", "  @preserve  "}

func isPreserveComment(s string) bool {
	return strings.EqualFold(strings.TrimSpace(s), "@preserve")
}

type oracleInfo struct {
	removed, kept                                                      int
	onlyTypedef, onlyContainer, onlyCross, onlyBase, onlyExc, onlyPres int
	nontrivial                                                         bool
	sharedChainCut                                                     bool
	cutExtends                                                         []*idl.Def
	reference                                                          func() map[string]string
	svcKept, fnKept, fnDropped                                         int
	preserveEffective                                                  int
}

func key(d *idl.Def) string { return d.Kind.String() + " " + d.Name }

// expect computes the expectation for program p and arguments a.
func expect(p *idl.Program, a trimArgs) (map[string]*fileExpect, oracleInfo, error) {
	var info oracleInfo
	mainF := p.Files[0]
	files := p.ReachableFiles()
	inR := map[*idl.File]bool{}
	for _, f := range files {
		inR[f] = true
	}
	preserveOn := a.Preserve == nil || *a.Preserve
	listed := map[string]bool{}
	for _, n := range a.Preserved {
		listed[n] = true
	}
	preserved := func(d *idl.Def) bool {
		return d.Kind.IsStructLike() && preserveOn && (listed[d.Name] || isPreserveComment(d.Comment))
	}

	// kept services, kept methods
	keptFn := map[*idl.Func]bool{}
	keptSvc := map[*idl.Def]bool{}
	needUp := map[*idl.Def]bool{}  // the extends clause carries a kept inherited method
	cutBy := map[*idl.Def]bool{}   // some main-file service's walk finds nothing above (trimmer cuts the clause)
	ownSvc := map[*idl.Def]bool{}  // kept because of the main file's own services and methods
	baseFn := map[*idl.Func]bool{} // kept method that belongs to a base service outside the main file's own list
	filter := len(a.Methods) > 0
	var pats []*regexp.Regexp
	if filter {
		svcs := mainF.DefsOf(idl.KService)
		for _, m := range a.Methods {
			if !strings.Contains(m, ".") {
				if len(svcs) == 0 {
					return nil, info, fmt.Errorf("unqualified -m without a service")
				}
				// README: "defaults to the only service (single-service IDL) or the last service (multi-service IDL)"
				m = svcs[len(svcs)-1].Name + "." + m
			}
			re, err := regexp.Compile(m)
			if err != nil {
				return nil, info, err
			}
			pats = append(pats, re)
		}
	}
	for _, s := range mainF.DefsOf(idl.KService) {
		ch := idl.ServiceChain(s)
		if !filter {
			for i, b := range ch {
				keptSvc[b] = true
				if b.Extends != nil {
					needUp[b] = true
				}
				for _, f := range b.Funcs {
					keptFn[f] = true
					if i > 0 && b.File != mainF {
						baseFn[f] = true
					}
				}
			}
			continue
		}
		matched := make([]bool, len(ch))
		for i, b := range ch {
			for _, f := range b.Funcs {
				for j := 0; j <= i; j++ {
					for _, re := range pats {
						if re.MatchString(ch[j].Name + "." + f.Name) {
							keptFn[f] = true
							matched[i] = true
							if i > 0 && b.File != mainF {
								baseFn[f] = true
							}
						}
					}
				}
			}
		}
		for i := range ch {
			above := false
			for k := i + 1; k < len(ch); k++ {
				above = above || matched[k]
			}
			if matched[i] || above {
				keptSvc[ch[i]] = true
			}
			if above {
				needUp[ch[i]] = true
			} else if ch[i].Extends != nil {
				cutBy[ch[i]] = true
			}
		}
	}
	for _, s := range mainF.DefsOf(idl.KService) {
		if keptSvc[s] {
			ownSvc[s] = true
		}
	}

	// seeds
	var alwaysSeeds, fnSeeds, fnSeedsNoBase, fnSeedsNoExc []idl.TypeSeed
	var presDefs, onlyPresDefs []*idl.Def // always-kept definitions: typedefs and preserved struct-likes
	for _, f := range files {
		for _, d := range f.Defs {
			switch {
			case d.Kind == idl.KConst:
				alwaysSeeds = append(alwaysSeeds, idl.TypeSeed{From: f, T: d.Type})
			case d.Kind == idl.KTypedef:
				presDefs = append(presDefs, d) // the typedef itself; its target follows through the typedef edge
			case preserved(d):
				onlyPresDefs = append(onlyPresDefs, d)
				presDefs = append(presDefs, d)
			case d.Kind == idl.KService && keptSvc[d]:
				for _, fn := range d.Funcs {
					if !keptFn[fn] {
						continue
					}
					var ts, noExc []idl.TypeSeed
					if fn.Ret != nil {
						ts = append(ts, idl.TypeSeed{From: f, T: fn.Ret})
					}
					for _, x := range fn.Args {
						ts = append(ts, idl.TypeSeed{From: f, T: x.Type})
					}
					noExc = append(noExc, ts...)
					for _, x := range fn.Throws {
						ts = append(ts, idl.TypeSeed{From: f, T: x.Type})
					}
					fnSeeds = append(fnSeeds, ts...)
					fnSeedsNoExc = append(fnSeedsNoExc, noExc...)
					if !baseFn[fn] {
						fnSeedsNoBase = append(fnSeedsNoBase, ts...)
					}
				}
			}
		}
	}
	all := append(append([]idl.TypeSeed{}, alwaysSeeds...), fnSeeds...)
	kNoPres := idl.Reach(all, presDefs, idl.ReachOpt{})
	presDefs = append(presDefs, onlyPresDefs...)
	K := idl.Reach(all, presDefs, idl.ReachOpt{})
	kNoTd := idl.Reach(all, presDefs, idl.ReachOpt{NoTypedef: true})
	kNoCont := idl.Reach(all, presDefs, idl.ReachOpt{NoContainer: true})
	kNoTdCont := idl.Reach(all, presDefs, idl.ReachOpt{NoTypedef: true, NoContainer: true})
	kNoCross := idl.Reach(all, presDefs, idl.ReachOpt{NoCross: true})
	kNoBase := idl.Reach(append(append([]idl.TypeSeed{}, alwaysSeeds...), fnSeedsNoBase...), presDefs, idl.ReachOpt{})
	kNoExc := idl.Reach(append(append([]idl.TypeSeed{}, alwaysSeeds...), fnSeedsNoExc...), presDefs, idl.ReachOpt{})

	// what each file holds, transitively
	holdsDirect := func(f *idl.File) bool {
		for _, d := range f.Defs {
			if d.Kind == idl.KConst || d.Kind == idl.KEnum || d.Kind == idl.KTypedef {
				return true
			}
		}
		return false
	}
	var subtreeHolds func(f *idl.File, seen map[*idl.File]bool) bool
	subtreeHolds = func(f *idl.File, seen map[*idl.File]bool) bool {
		if seen[f] {
			return false
		}
		seen[f] = true
		if holdsDirect(f) {
			return true
		}
		for _, d := range f.Defs {
			if preserved(d) {
				return true
			}
		}
		for _, g := range f.Includes {
			if subtreeHolds(g, seen) {
				return true
			}
		}
		return false
	}

	exp := map[string]*fileExpect{}
	for _, f := range files {
		fe := &fileExpect{Includes: map[string]string{}, Services: map[string]svcExpect{}, Strict: filter}
		needed := map[*idl.File]bool{}
		note := func(d *idl.Def) {
			if d.File != f {
				needed[d.File] = true
			}
		}
		if f == mainF {
			fe.MustSurvive = true
		}
		for _, d := range f.Defs {
			switch {
			case d.Kind == idl.KConst || d.Kind == idl.KTypedef:
				fe.Always = append(fe.Always, key(d))
				fe.MustSurvive = true
				idl.DirectRefs(d.Type, note)
			case d.Kind == idl.KEnum:
				fe.Always = append(fe.Always, key(d))
			case d.Kind.IsStructLike():
				if K[d] {
					info.kept++
					fe.Keep = append(fe.Keep, key(d))
					fe.MustSurvive = true
					for _, fl := range d.Fields {
						idl.DirectRefs(fl.Type, note)
					}
					if !kNoTd[d] {
						info.onlyTypedef++
					}
					if !kNoCont[d] {
						info.onlyContainer++
					}
					if !kNoCross[d] {
						info.onlyCross++
					}
					if !kNoBase[d] {
						info.onlyBase++
					}
					if !kNoExc[d] {
						info.onlyExc++
					}
					if !kNoPres[d] {
						info.onlyPres++
					}
					if preserved(d) {
						info.preserveEffective++
					}
					if !kNoTdCont[d] && f != mainF {
						info.nontrivial = true
					}
				} else {
					info.removed++
					fe.Drop = append(fe.Drop, key(d))
				}
			case d.Kind == idl.KService:
				if !keptSvc[d] {
					info.fnDropped += len(d.Funcs)
					continue
				}
				info.svcKept++
				fe.MustSurvive = true
				se := svcExpect{Methods: []string{}}
				for _, fn := range d.Funcs {
					if !keptFn[fn] {
						info.fnDropped++
						continue
					}
					info.fnKept++
					se.Methods = append(se.Methods, fn.Name)
					idl.DirectRefs(fn.Ret, note)
					for _, x := range fn.Args {
						idl.DirectRefs(x.Type, note)
					}
					for _, x := range fn.Throws {
						idl.DirectRefs(x.Type, note)
					}
				}
				if d.Extends != nil {
					if needUp[d] {
						se.Extends = "keep"
						note(d.Extends)
						if cutBy[d] {
							// shape of known finding m-shared-base-extends-cut: the clause is needed through one
							// service of the main file while another one's walk finds nothing above
							info.sharedChainCut = true
						}
					} else if d.Extends.File != f {
						// clause not needed by any kept method: whether it stays is not asserted, but the include
						// it points into is not needed because of it (shape of known finding m-cut-extends-include-kept)
						info.cutExtends = append(info.cutExtends, d)
					}
				}
				fe.Services[d.Name] = se
			}
		}
		for _, g := range f.Includes {
			switch {
			case needed[g] || holdsDirect(g):
				fe.Includes[g.Path] = "keep"
			case !subtreeHolds(g, map[*idl.File]bool{}):
				fe.Includes[g.Path] = "drop"
			default:
				fe.Includes[g.Path] = "any"
			}
		}
		exp[f.Path] = fe
	}
	if info.removed == 0 {
		info.nontrivial = false
	}
	info.reference = func() map[string]string { return renderReference(p, files, exp, K, keptSvc, keptFn, needUp) }
	return exp, info, nil
}

// renderReference gives the program trimmed on the model side: prune in place, render, restore.
func renderReference(p *idl.Program, files []*idl.File, exp map[string]*fileExpect, K, keptSvc map[*idl.Def]bool, keptFn map[*idl.Func]bool, needUp map[*idl.Def]bool) map[string]string {
	type saved struct {
		defs []*idl.Def
		incs []*idl.File
		lits []string
	}
	type savedSvc struct {
		funcs []*idl.Func
		ext   *idl.Def
	}
	sf := map[*idl.File]saved{}
	ss := map[*idl.Def]savedSvc{}
	for _, f := range files {
		sf[f] = saved{f.Defs, f.Includes, f.IncludeLit}
		var defs []*idl.Def
		for _, d := range f.Defs {
			switch {
			case d.Kind.IsStructLike() && !K[d]:
				continue
			case d.Kind == idl.KService:
				if !keptSvc[d] {
					continue
				}
				ss[d] = savedSvc{d.Funcs, d.Extends}
				var fns []*idl.Func
				for _, fn := range d.Funcs {
					if keptFn[fn] {
						fns = append(fns, fn)
					}
				}
				d.Funcs = fns
				if !needUp[d] {
					d.Extends = nil
				}
			}
			defs = append(defs, d)
		}
		var incs []*idl.File
		var lits []string
		for i, g := range f.Includes {
			if exp[f.Path].Includes[g.Path] != "drop" {
				incs = append(incs, g)
				lits = append(lits, f.IncludeLit[i])
			}
		}
		f.Defs, f.Includes, f.IncludeLit = defs, incs, lits
	}
	out := map[string]string{}
	for _, f := range p.ReachableFiles() {
		out[f.Path] = idl.RenderFile(f, nil)
	}
	for f, v := range sf {
		f.Defs, f.Includes, f.IncludeLit = v.defs, v.incs, v.lits
	}
	for d, v := range ss {
		d.Funcs, d.Extends = v.funcs, v.ext
	}
	return out
}

// ------------------------------------------------------------ generators

func modelCfg(rt *rapid.T) idl.Cfg {
	c := idl.GoSafe()
	c.MaxFiles = rapid.IntRange(3, 4).Draw(rt, "maxfiles")
	c.MaxDefs = 3
	c.NastyLits = false         // C17 known finding dumper-placeholder: its literal texts are not generated here
	c.EnumViaTypedefFar = false // C05 known finding (a binding that denotes nothing), not a trimming matter
	c.FuncNamePool = true       // Get / GetAll, the same method name in several services: what -m has to tell apart
	return c
}

type svcView struct {
	svc     *idl.Def
	visible []string // own and inherited method names
	chain   []*idl.Def
}

func views(p *idl.Program) []svcView {
	var vs []svcView
	for _, s := range p.Files[0].DefsOf(idl.KService) {
		v := svcView{svc: s, chain: idl.ServiceChain(s)}
		for _, b := range v.chain {
			for _, f := range b.Funcs {
				v.visible = append(v.visible, f.Name)
			}
		}
		vs = append(vs, v)
	}
	return vs
}

func hasVisibleMethod(p *idl.Program) bool {
	for _, v := range views(p) {
		if len(v.visible) > 0 {
			return true
		}
	}
	return false
}

// candidates: every "Service.method" string the trimmer may test a pattern against.
func candidates(p *idl.Program) []string {
	var svcs, fns []string
	for _, f := range p.Files {
		for _, d := range f.DefsOf(idl.KService) {
			svcs = append(svcs, d.Name)
			for _, fn := range d.Funcs {
				fns = append(fns, fn.Name)
			}
		}
	}
	var out []string
	for _, s := range svcs {
		for _, f := range fns {
			out = append(out, s+"."+f)
		}
	}
	return out
}

// genMethods draws -m values and the class of each.
func genMethods(rt *rapid.T, p *idl.Program) ([]string, []string) {
	vs := views(p)
	var usable []svcView
	for _, v := range vs {
		if len(v.visible) > 0 {
			usable = append(usable, v)
		}
	}
	if len(usable) == 0 {
		return nil, nil
	}
	cands := candidates(p)
	unambiguous := func(exact string) bool {
		re := regexp.MustCompile(exact)
		for _, c := range cands {
			if c != exact && re.MatchString(c) {
				return false
			}
		}
		return true
	}
	var ms, kinds []string
	n := rapid.IntRange(1, 2).Draw(rt, "npatterns")
	for i := 0; i < n; i++ {
		v := rapid.SampledFrom(usable).Draw(rt, "svc")
		m := rapid.SampledFrom(v.visible).Draw(rt, "method")
		inherited := true
		for _, f := range v.svc.Funcs {
			if f.Name == m {
				inherited = false
			}
		}
		suffix := ""
		if inherited {
			suffix = "_inherited"
		}
		switch rapid.IntRange(0, 4).Draw(rt, "mkind") {
		case 0: // exact
			if unambiguous(v.svc.Name + "." + m) {
				ms = append(ms, v.svc.Name+"."+m)
				kinds = append(kinds, "exact"+suffix)
			} else {
				ms = append(ms, "^"+v.svc.Name+`\.`+m+"$")
				kinds = append(kinds, "exact_made_anchored")
			}
		case 1: // unqualified: the only service, or the last one of several (README)
			last := vs[len(vs)-1]
			if v.svc == last.svc && unambiguous(v.svc.Name+"."+m) {
				ms = append(ms, m)
				kinds = append(kinds, "unqualified"+suffix)
				if len(vs) > 1 {
					kinds[len(kinds)-1] = "unqualified_last_of_several" + suffix
				}
			} else {
				ms = append(ms, "^"+v.svc.Name+`\.`+m+"$")
				kinds = append(kinds, "anchored_single"+suffix)
			}
		case 2: // anchored alternation
			k := rapid.IntRange(1, len(v.visible)).Draw(rt, "nalts")
			alts := rapid.Permutation(v.visible).Draw(rt, "alts")[:k]
			ms = append(ms, "^"+v.svc.Name+`\.(`+strings.Join(alts, "|")+")$")
			kinds = append(kinds, "anchored_alternation")
		case 3: // anchored, naming a service of the chain
			b := rapid.SampledFrom(v.chain).Draw(rt, "chainsvc")
			if len(b.Funcs) == 0 {
				b = v.svc
				if len(b.Funcs) == 0 {
					ms = append(ms, "^"+v.svc.Name+`\.`+m+"$")
					kinds = append(kinds, "anchored_single"+suffix)
					break
				}
			}
			f := rapid.SampledFrom(b.Funcs).Draw(rt, "chainfn")
			ms = append(ms, "^"+b.Name+`\.`+f.Name+"$")
			if b != v.svc {
				kinds = append(kinds, "anchored_names_base_service")
			} else {
				kinds = append(kinds, "anchored_single")
			}
		default: // anchored wildcard over one service
			ms = append(ms, "^"+v.svc.Name+`\.[A-Za-z0-9_]+$`)
			kinds = append(kinds, "anchored_all_of_service")
		}
	}
	return ms, kinds
}

type drawn struct {
	c     trimCase
	info  oracleInfo
	kinds []string
	desc  string
	npres int
}

// referenced returns every definition some other definition of the program names
// (in a type expression or in a constant / default value).
func referenced(p *idl.Program) map[*idl.Def]bool {
	ref := map[*idl.Def]bool{}
	mark := func(d *idl.Def) {
		if d != nil {
			ref[d] = true
		}
	}
	var val func(v *idl.Value)
	val = func(v *idl.Value) {
		if v == nil {
			return
		}
		mark(v.RefConst)
		mark(v.RefEnum)
		mark(v.Via)
		for _, e := range v.List {
			val(e)
		}
		for _, e := range v.Keys {
			val(e)
		}
	}
	for _, f := range p.Files {
		for _, d := range f.Defs {
			idl.DirectRefs(d.Type, mark)
			val(d.Value)
			mark(d.Extends)
			for _, fl := range d.Fields {
				idl.DirectRefs(fl.Type, mark)
				val(fl.Default)
			}
			for _, fn := range d.Funcs {
				idl.DirectRefs(fn.Ret, mark)
				for _, x := range fn.Args {
					idl.DirectRefs(x.Type, mark)
					val(x.Default)
				}
				for _, x := range fn.Throws {
					idl.DirectRefs(x.Type, mark)
				}
			}
		}
	}
	return ref
}

// stripAlways makes some included files hold (almost) nothing that is always
// kept: their constants, typedefs and enums that nothing names are deleted, so
// that includes which must disappear are not rare.
func stripAlways(rt *rapid.T, p *idl.Program) {
	for _, f := range p.Files[1:] {
		if rapid.IntRange(0, 1).Draw(rt, "strip") != 0 {
			continue
		}
		for changed := true; changed; {
			changed = false
			ref := referenced(p)
			var keep []*idl.Def
			for _, d := range f.Defs {
				if (d.Kind == idl.KConst || d.Kind == idl.KTypedef || d.Kind == idl.KEnum) && !ref[d] {
					changed = true
					continue
				}
				keep = append(keep, d)
			}
			f.Defs = keep
		}
	}
}

func genCase(rt *rapid.T, entry string) drawn {
	p := idl.Gen(rt, modelCfg(rt))
	stripAlways(rt, p)
	files := p.ReachableFiles()
	// @preserve comments and the preserved list
	var sls []*idl.Def
	for _, f := range files {
		for _, d := range f.Defs {
			if d.Kind.IsStructLike() {
				sls = append(sls, d)
			}
		}
	}
	var a trimArgs
	npres := 0
	if len(sls) > 0 && rapid.Bool().Draw(rt, "usepreserve") {
		for _, d := range sls {
			if rapid.IntRange(0, 5).Draw(rt, "markpreserve") == 0 {
				d.Comment = rapid.SampledFrom(preserveComments).Draw(rt, "pcomment")
				npres++
			}
		}
	}
	if len(sls) > 0 && rapid.IntRange(0, 3).Draw(rt, "uselist") == 0 {
		n := rapid.IntRange(1, 2).Draw(rt, "nlisted")
		for i := 0; i < n; i++ {
			a.Preserved = append(a.Preserved, rapid.SampledFrom(sls).Draw(rt, "listed").Name)
		}
		if rapid.IntRange(0, 4).Draw(rt, "ghost") == 0 {
			a.Preserved = append(a.Preserved, "NoSuchStruct")
		}
	}
	switch rapid.IntRange(0, 3).Draw(rt, "preserve") {
	case 0:
		v := false
		a.Preserve = &v
	case 1:
		v := true
		a.Preserve = &v
	}
	useFilter := rapid.IntRange(0, 2).Draw(rt, "filter") > 0 && hasVisibleMethod(p)
	// known finding: without -m, a kept base service that lives in the same included file as the
	// (kept) service extending it is removed and the result is rejected
	sameInclude := func() {
		if !vt.Known(prop, "base-service-same-include") {
			return
		}
		for _, s := range p.Files[0].DefsOf(idl.KService) {
			for _, d := range idl.ServiceChain(s) {
				if d.File != p.Files[0] && d.Extends != nil && d.Extends.File == d.File {
					d.Extends = nil
					vt.Excluded("base-service-same-include")
				}
			}
		}
	}
	var kinds []string
	if useFilter {
		a.Methods, kinds = genMethods(rt, p)
	} else {
		sameInclude()
	}
	exp, info, err := expect(p, a)
	for round := 0; err == nil && round < 4; round++ {
		if info.sharedChainCut && vt.Known(prop, "m-shared-base-extends-cut") {
			// exactly that shape is given up: the program is trimmed without -m instead
			vt.Excluded("m-shared-base-extends-cut")
			a.Methods, kinds = nil, nil
			sameInclude()
		} else if len(info.cutExtends) > 0 && vt.Known(prop, "m-cut-extends-include-kept") {
			// the clause no kept method needs is not written at all (the expected result is the same)
			for _, d := range info.cutExtends {
				d.Extends = nil
			}
			vt.Excluded("m-cut-extends-include-kept")
		} else {
			break
		}
		exp, info, err = expect(p, a)
	}
	if err != nil {
		rt.Fatalf("harness: %v", err)
	}
	c := trimCase{Main: p.Files[0].Path, Files: map[string]string{}, Args: a, Entry: entry, Expect: exp, Reference: info.reference()}
	txt := p.Texts(nil)
	for _, f := range files {
		c.Files[f.Path] = txt[f.Path]
	}
	if _, err := front(c.Main, c.Files); err != nil {
		// a flaw of the shared generator (seen: the self-reference field id 30000+n drawn a second time as a
		// "big" id), not of the trimmer: the case is not in the domain
		vt.Class("harness_generated_program_rejected")
		rt.Skip("generated program rejected by the front end: " + err.Error())
	}
	return drawn{c: c, info: info, kinds: kinds, desc: p.Describe(), npres: npres}
}

func caseKey(c trimCase) string {
	var ks []string
	for k := range c.Files {
		ks = append(ks, k)
	}
	sort.Strings(ks)
	var b strings.Builder
	for _, k := range ks {
		b.WriteString(k + "\x00" + c.Files[k] + "\x00")
	}
	a, _ := json.Marshal(c.Args)
	b.Write(a)
	b.WriteString(c.Entry)
	return b.String()
}

func record(d drawn) {
	c, in := d.c, d.info
	vt.Eval()
	vt.Class("entry:" + c.Entry)
	vt.ClassIf(c.Compile, "entry:thriftgo_go_and_trim_idl")
	vt.ClassIf(in.removed > 0, "something_removed")
	vt.ClassIf(in.removed == 0, "nothing_removed")
	vt.ClassIf(in.onlyTypedef > 0, "kept_only_through_typedef")
	vt.ClassIf(in.onlyContainer > 0, "kept_only_through_container_element")
	vt.ClassIf(in.onlyCross > 0, "kept_only_through_other_file")
	vt.ClassIf(in.onlyBase > 0, "kept_only_through_base_service")
	vt.ClassIf(in.onlyExc > 0, "kept_only_through_exception")
	vt.ClassIf(in.onlyPres > 0, "kept_only_through_preserved_struct")
	vt.ClassIf(len(c.Args.Methods) == 0, "m:none")
	for _, k := range d.kinds {
		vt.Class("m:" + k)
	}
	vt.ClassIf(len(c.Args.Methods) > 0 && in.fnDropped > 0, "m:drops_methods")
	switch {
	case c.Args.Preserve == nil:
		vt.Class("preserve:unset")
	case *c.Args.Preserve:
		vt.Class("preserve:true")
	default:
		vt.Class("preserve:false")
	}
	vt.ClassIf(d.npres > 0, "@preserve_comment")
	vt.ClassIf(len(c.Args.Preserved) > 0, "preserved_struct_list")
	vt.ClassIf(in.preserveEffective > 0, "preserved_struct_kept")
	vt.ClassIf(len(in.cutExtends) > 0, "m:extends_into_include_not_needed")
	vt.ClassIf(in.sharedChainCut, "m:shared_base_chain")
	drops, keeps := 0, 0
	for _, fe := range c.Expect {
		for _, v := range fe.Includes {
			if v == "drop" {
				drops++
			}
			if v == "keep" {
				keeps++
			}
		}
	}
	vt.ClassIf(drops > 0, "include_must_go")
	vt.ClassIf(keeps > 0, "include_must_stay")
	vt.ClassIf(len(c.Files) >= 3, "files>=3")
	if in.nontrivial {
		vt.Nontrivial(caseKey(c))
		vt.Class("nontrivial")
	}
	vt.Sample(map[string]interface{}{"program": d.desc, "args": c.Args, "entry": c.Entry, "kept": in.kept, "removed": in.removed, "services_kept": in.svcKept, "methods_kept": in.fnKept})
}

func TestTrimAPI(t *testing.T) {
	rapid.Check(t, func(rt *rapid.T) {
		d := genCase(rt, "api")
		d.c.Compile = rapid.IntRange(0, 49).Draw(rt, "compile") == 23 && os.Getenv("C16_NOCOMPILE") == ""
		record(d)
		if err := judge(d.c); err != nil {
			vt.Fail(rt, prop, "trim", d.c, "%v", err)
		}
	})
}

// binCap: one case of the binary job costs two to five process starts (0.2-0.5 s); a plain
// `go test -rapid.checks=N` run is capped so that it stays inside go test's default timeout.
// The job table of cmd/vrun asks for fewer cases than the cap anyway.
const binCap = 150

func TestTrimBinary(t *testing.T) {
	if f := flag.Lookup("rapid.checks"); f != nil && os.Getenv("C16_BIN_NOCAP") == "" && !vt.Thorough() {
		if n, err := strconv.Atoi(f.Value.String()); err == nil && n > binCap {
			flag.Set("rapid.checks", strconv.Itoa(binCap))
			defer flag.Set("rapid.checks", strconv.Itoa(n))
		}
	}
	rapid.Check(t, func(rt *rapid.T) {
		d := genCase(rt, "bin")
		d.c.Compile = rapid.IntRange(0, 5).Draw(rt, "compile") == 3
		record(d)
		if err := judge(d.c); err != nil {
			vt.Fail(rt, prop, "trimbin", d.c, "%v", err)
		}
	})
}

func TestReplay(t *testing.T) {
	h := func(raw json.RawMessage) error {
		var c trimCase
		if err := vt.Decode(raw, &c); err != nil {
			return err
		}
		return judge(c)
	}
	vt.Replay(t, prop, map[string]vt.Handler{"trim": h, "trimbin": h})
}
