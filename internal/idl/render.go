package idl

import (
	"fmt"
	"strconv"
	"strings"

	"pgregory.net/rapid"
)

// Layout makes the choices the grammar leaves open: what stands between two
// tokens, which list separator is used, which quote encloses a literal.  A nil
// *Layout (or one without a rapid.T) is the canonical layout.
type Layout struct {
	T *rapid.T
	// statistics about what was used
	Seps      map[string]int
	Comments  int
	InnerComm int // comments placed inside a definition body
	Newlines  int
	SingleQ   int
	Tight     int // token boundaries rendered with no whitespace at all
	depth     int // >0 while inside a definition
}

func NewLayout(t *rapid.T) *Layout { return &Layout{T: t, Seps: map[string]int{}} }

type tok struct {
	s           string
	word        bool // identifier, keyword or number: needs whitespace next to another word
	sep         bool // position of an optional list separator
	open, close bool
}

type renderer struct {
	toks []tok
}

func (r *renderer) w(s string) { r.toks = append(r.toks, tok{s: s, word: true}) }
func (r *renderer) p(s string) { r.toks = append(r.toks, tok{s: s}) }
func (r *renderer) sep()       { r.toks = append(r.toks, tok{sep: true}) }
func (r *renderer) openDef()   { r.toks = append(r.toks, tok{open: true}) }
func (r *renderer) closeDef()  { r.toks = append(r.toks, tok{close: true}) }
func (r *renderer) lit(l Lit, lay *Layout) {
	q := l.Quote
	if lay == nil || lay.T == nil {
		q = '"'
	} else if q == '\'' {
		lay.SingleQ++
	}
	r.toks = append(r.toks, tok{s: string(q) + l.Src(q) + string(q)})
}

var commentTexts = []string{"c", "note: x", "struct S { }", "\"q\"", "1: i32 a", "", "'", "* *"}

func (l *Layout) gap(need bool) string {
	if l == nil || l.T == nil {
		return " "
	}
	c := rapid.IntRange(0, 11).Draw(l.T, "gap")
	txt := func() string { return rapid.SampledFrom(commentTexts).Draw(l.T, "ctext") }
	note := func() {
		l.Comments++
		if l.depth > 0 {
			l.InnerComm++
		}
	}
	switch c {
	case 0, 1, 2:
		if !need {
			l.Tight++
			return ""
		}
		return " "
	case 3, 4:
		return " "
	case 5:
		l.Newlines++
		return "\n"
	case 6:
		return "\t"
	case 7:
		l.Newlines++
		return "\r\n  "
	case 8:
		note()
		return "/*" + txt() + "*/"
	case 9:
		note()
		l.Newlines++
		return " //" + txt() + "\n"
	case 10:
		note()
		l.Newlines++
		return " #" + txt() + "\n"
	default:
		note()
		return " /* " + txt() + " */ \n\t"
	}
}

func (l *Layout) sepText() string {
	if l == nil || l.T == nil {
		return ","
	}
	s := rapid.SampledFrom([]string{"", ",", ";"}).Draw(l.T, "sep")
	l.Seps[s]++
	return s
}

func (r *renderer) String(l *Layout) string {
	var b strings.Builder
	prevWord := false
	first := true
	for _, t := range r.toks {
		if t.open {
			if l != nil {
				l.depth++
			}
			continue
		}
		if t.close {
			if l != nil {
				l.depth--
			}
			continue
		}
		s := t.s
		word := t.word
		if t.sep {
			s = l.sepText()
			if s == "" {
				continue
			}
			word = false
		}
		if !first {
			b.WriteString(l.gap(prevWord && word))
		} else if l != nil && l.T != nil {
			b.WriteString(l.gap(false))
		}
		first = false
		b.WriteString(s)
		prevWord = word
	}
	if l != nil && l.T != nil {
		b.WriteString(l.gap(false))
	} else {
		b.WriteString("\n")
	}
	return b.String()
}

// IntText spells an integer.
func IntText(v int64, spelling int) string {
	if v >= 0 {
		switch spelling {
		case 1:
			return "0x" + strconv.FormatInt(v, 16)
		case 2:
			return "0o" + strconv.FormatInt(v, 8)
		case 3:
			return "+" + strconv.FormatInt(v, 10)
		}
	}
	return strconv.FormatInt(v, 10)
}

// TypeRefText spells a reference to a type definition from file `from`.
func TypeRefText(from *File, d *Def) string {
	if d.File == from {
		return d.Name
	}
	return d.File.Prefix() + "." + d.Name
}

func (r *renderer) annos(as []Anno, l *Layout) {
	if as == nil {
		return
	}
	r.p("(")
	for _, a := range as {
		r.w(a.Key)
		r.p("=")
		r.lit(a.Val, l)
		r.sep()
	}
	r.p(")")
}

func (r *renderer) typ(from *File, t *Type, l *Layout) {
	switch {
	case t.Ref != nil:
		r.w(TypeRefText(from, t.Ref))
	case t.Base == "map":
		r.w("map")
		if t.HasCpp {
			r.w("cpp_type")
			r.lit(PlainLit(t.CppType), l)
		}
		r.p("<")
		r.typ(from, t.Key, l)
		r.p(",")
		r.typ(from, t.Elem, l)
		r.p(">")
	case t.Base == "set":
		r.w("set")
		if t.HasCpp {
			r.w("cpp_type")
			r.lit(PlainLit(t.CppType), l)
		}
		r.p("<")
		r.typ(from, t.Elem, l)
		r.p(">")
	case t.Base == "list":
		r.w("list")
		r.p("<")
		r.typ(from, t.Elem, l)
		r.p(">")
		if t.HasCpp {
			r.w("cpp_type")
			r.lit(PlainLit(t.CppType), l)
		}
	default:
		r.w(t.Base)
	}
	r.annos(t.Annos, l)
}

func (r *renderer) value(v *Value, l *Layout) {
	switch v.Kind {
	case VInt:
		r.w(IntText(v.Int, v.IntSpelling))
	case VDouble:
		r.w(v.DblText)
	case VLit:
		r.lit(v.Lit, l)
	case VIdent:
		r.w(v.Ident)
	case VList:
		r.p("[")
		for _, e := range v.List {
			r.value(e, l)
			r.sep()
		}
		r.p("]")
	case VMap:
		r.p("{")
		for i, e := range v.List {
			r.value(v.Keys[i], l)
			r.p(":")
			r.value(e, l)
			r.sep()
		}
		r.p("}")
	}
}

func (r *renderer) field(from *File, f *Field, l *Layout) {
	if f.Explicit {
		if f.HexID {
			r.w("0x" + strconv.FormatInt(int64(f.ID), 16))
		} else {
			r.w(strconv.Itoa(int(f.ID)))
		}
		r.p(":")
	}
	switch f.Req {
	case ReqRequired:
		r.w("required")
	case ReqOptional:
		r.w("optional")
	}
	r.typ(from, f.Type, l)
	r.w(f.Name)
	if f.Default != nil {
		r.p("=")
		r.value(f.Default, l)
	}
	r.annos(f.Annos, l)
	r.sep()
}

// commentLines renders a leading comment in canonical form.
func commentText(d *Def) string {
	if d.Comment == "" {
		return ""
	}
	return "// " + d.Comment
}

// RenderFile renders one file.
func RenderFile(f *File, l *Layout) string {
	r := &renderer{}
	for i := range f.Includes {
		r.w("include")
		r.lit(PlainLit(f.IncludeLit[i]), l)
	}
	for _, c := range f.CppIncludes {
		r.w("cpp_include")
		r.lit(PlainLit(c), l)
	}
	for _, ns := range f.Namespaces {
		r.w("namespace")
		if ns.Lang == "*" {
			r.p("*")
		} else {
			r.w(ns.Lang)
		}
		r.w(ns.Name)
		r.annos(ns.Annos, l)
	}
	for _, d := range f.Defs {
		if d.Comment != "" {
			// a leading comment is always its own line(s); it is the only comment the reflection check relies on
			r.p("\n" + commentText(d) + "\n")
		}
		r.openDef()
		switch d.Kind {
		case KConst:
			r.w("const")
			r.typ(f, d.Type, l)
			r.w(d.Name)
			r.p("=")
			r.value(d.Value, l)
			r.sep()
		case KTypedef:
			r.w("typedef")
			r.typ(f, d.Type, l)
			r.w(d.Name)
		case KEnum:
			r.w("enum")
			r.w(d.Name)
			r.p("{")
			for _, v := range d.Values {
				r.w(v.Name)
				if v.Explicit {
					r.p("=")
					r.w(IntText(v.Value, v.Spelling))
				}
				r.annos(v.Annos, l)
				r.sep()
			}
			r.p("}")
		case KStruct, KUnion, KException:
			r.w(d.Kind.String())
			r.w(d.Name)
			r.p("{")
			for _, fl := range d.Fields {
				r.field(f, fl, l)
			}
			r.p("}")
		case KService:
			r.w("service")
			r.w(d.Name)
			if d.Extends != nil {
				r.w("extends")
				r.w(TypeRefText(f, d.Extends))
			}
			r.p("{")
			for _, fn := range d.Funcs {
				if fn.Oneway {
					r.w("oneway")
				}
				if fn.Ret == nil {
					r.w("void")
				} else {
					r.typ(f, fn.Ret, l)
				}
				r.w(fn.Name)
				r.p("(")
				for _, a := range fn.Args {
					r.field(f, a, l)
				}
				r.p(")")
				if fn.HasThrows {
					r.w("throws")
					r.p("(")
					for _, a := range fn.Throws {
						r.field(f, a, l)
					}
					r.p(")")
				}
				r.annos(fn.Annos, l)
				r.sep()
			}
			r.p("}")
		}
		r.closeDef()
		r.annos(d.Annos, l)
	}
	return r.String(l)
}

// Summary describes the layout actually used (for evidence classes).
func (l *Layout) Summary() string {
	return fmt.Sprintf("seps=%v comments=%d inner=%d newlines=%d singleq=%d tight=%d", l.Seps, l.Comments, l.InnerComm, l.Newlines, l.SingleQ, l.Tight)
}
