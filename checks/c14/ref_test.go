package c14

// Reference path-set semantics (written from fieldmask/README.md and the
// property statement) and the path grammar.

import (
	"math"
	"sort"
	"strconv"
	"strings"
)

// one step of a path
type pstep struct {
	kind  int // 0 field, 1 index, 2 map key
	star  bool
	byID  bool
	fld   *field
	ints  []int
	strs  []string
	isStr bool
	pad   int // index / field id rendered with this many leading zeros
}

func quoteKey(s string) string { return strconv.Quote(s) }

func (p pstep) render() string {
	switch p.kind {
	case 0:
		if p.star {
			return ".*"
		}
		if p.byID {
			return "." + strings.Repeat("0", p.pad) + strconv.Itoa(p.fld.id)
		}
		return "." + p.fld.name
	case 1:
		if p.star {
			return "[*]"
		}
		return "[" + joinInts(p.ints, p.pad) + "]"
	default:
		if p.star {
			return "{*}"
		}
		if p.isStr {
			q := make([]string, len(p.strs))
			for i, s := range p.strs {
				q[i] = quoteKey(s)
			}
			return "{" + strings.Join(q, ",") + "}"
		}
		return "{" + joinInts(p.ints, p.pad) + "}"
	}
}

func joinInts(v []int, pad int) string {
	q := make([]string, len(v))
	for i, x := range v {
		q[i] = strings.Repeat("0", pad) + strconv.Itoa(x)
	}
	return strings.Join(q, ",")
}

func renderPath(steps []pstep) string {
	var b strings.Builder
	b.WriteString("$")
	for _, s := range steps {
		b.WriteString(s.render())
	}
	return b.String()
}

func (p pstep) keys() []string {
	switch {
	case p.star:
		return nil
	case p.kind == 0:
		return []string{"f" + strconv.Itoa(p.fld.id)}
	case p.isStr:
		out := make([]string, len(p.strs))
		for i, s := range p.strs {
			out[i] = "s" + s
		}
		return out
	default:
		out := make([]string, len(p.ints))
		for i, x := range p.ints {
			out[i] = "i" + strconv.Itoa(x)
		}
		return out
	}
}

// rnode is a node of the reference trie.
type rnode struct {
	kind     int // shape kind
	terminal bool
	star     *rnode
	kids     map[string]*rnode
}

func newRnode(kind int) *rnode { return &rnode{kind: kind, kids: map[string]*rnode{}} }

// conflicts reports whether adding the path would put a '*' (explicit, or the
// implicit one of a path that ends) and a specific key at the same position.
func (n *rnode) conflicts(steps []pstep) bool {
	if n == nil {
		return false
	}
	if len(steps) == 0 {
		return n.star != nil || len(n.kids) > 0
	}
	if n.terminal {
		return true
	}
	s := steps[0]
	if s.star {
		if len(n.kids) > 0 {
			return true
		}
		return n.star.conflicts(steps[1:])
	}
	if n.star != nil {
		return true
	}
	for _, k := range s.keys() {
		if n.kids[k].conflicts(steps[1:]) {
			return true
		}
	}
	return false
}

func (n *rnode) insert(sc *schema, cur shape, steps []pstep) {
	if len(steps) == 0 {
		n.terminal = true
		return
	}
	s := steps[0]
	next := stepShape(sc, cur, s)
	if s.star {
		if n.star == nil {
			n.star = newRnode(next.kind)
		}
		n.star.insert(sc, next, steps[1:])
		return
	}
	for _, k := range s.keys() {
		c := n.kids[k]
		if c == nil {
			c = newRnode(next.kind)
			n.kids[k] = c
		}
		c.insert(sc, next, steps[1:])
	}
}

// stepShape is the shape reached by taking step s from a value of shape cur.
func stepShape(sc *schema, cur shape, s pstep) shape {
	if s.kind == 0 {
		if s.star {
			return shape{kind: kScalar}
		}
		return sc.resolve(s.fld.ty)
	}
	return sc.resolve(cur.elem)
}

// query keys and expectations -------------------------------------------------

type qkey struct {
	K string `json:"k"` // "f" Field(int16), "i" Int, "s" Str
	I int    `json:"i,omitempty"`
	S string `json:"s,omitempty"`
}

func (q qkey) key() string {
	if q.K == "s" {
		return "s" + q.S
	}
	return q.K + strconv.Itoa(q.I)
}

type stepExp struct {
	Pass  int      `json:"pass"`           // 1 selected, 0 not selected, -1 not asserted
	Node  bool     `json:"node,omitempty"` // the reference has a mask node here: Type / All / children are asserted
	Type  string   `json:"type,omitempty"`
	All   bool     `json:"all,omitempty"`
	KidsI []int    `json:"kids_i,omitempty"`
	KidsS []string `json:"kids_s,omitempty"`
}

func (n *rnode) exp(pass int) stepExp {
	e := stepExp{Pass: pass}
	if n == nil {
		return e
	}
	e.Node = true
	e.Type = ftName[n.kind]
	e.All = n.terminal || n.star != nil || n.kind == kScalar || n.kind == kScalarMap
	for k := range n.kids {
		if k[0] == 's' {
			e.KidsS = append(e.KidsS, k[1:])
		} else {
			v, _ := strconv.Atoi(k[1:])
			e.KidsI = append(e.KidsI, v)
		}
	}
	sort.Ints(e.KidsI)
	sort.Strings(e.KidsS)
	return e
}

// walk computes the expected answers of a query sequence that starts at the
// root mask.  White list: an element is selected iff some path passes through
// it or ends at or above it.  Black list: an element is excluded iff a complete
// path ends at or above it.  After the first "not selected" answer nothing is
// asserted (a caller does not descend into a rejected element).
func walkRef(root *rnode, keys []qkey, black bool) []stepExp {
	out := make([]stepExp, len(keys))
	cur := root
	dead := false
	for i, q := range keys {
		switch {
		case dead:
			out[i] = stepExp{Pass: -1}
		case cur == nil: // nil mask: everything below is selected
			out[i] = stepExp{Pass: 1}
		case cur.terminal:
			if black {
				out[i] = stepExp{Pass: 0}
				dead = true
			} else {
				out[i] = stepExp{Pass: 1}
				cur = nil
			}
		case cur.star != nil:
			out[i] = cur.star.exp(1)
			cur = cur.star
		default:
			c := cur.kids[q.key()]
			switch {
			case !black && c == nil:
				out[i] = stepExp{Pass: 0}
				dead = true
			case !black:
				out[i] = c.exp(1)
				cur = c
			case c == nil:
				out[i] = stepExp{Pass: 1}
				cur = nil
			case c.terminal:
				out[i] = c.exp(0)
				dead = true
			default:
				out[i] = c.exp(1)
				cur = c
			}
		}
	}
	return out
}

// pathVerdict folds step expectations into the PathInMask answer.
func pathVerdict(exp []stepExp) int {
	for _, e := range exp {
		switch e.Pass {
		case 0:
			return 0
		case -1:
			return -1
		}
	}
	return 1
}

var (
	intPool = []int{0, 1, 2, 3, 4, 7, 64, 100000, math.MaxInt32, math.MaxInt32 + 1, math.MaxInt64}
	strPool = []string{"a", "b", "c", "", "x y", `q"t`, `b\s`, "é", "a,b}", "]{*", "$.a[1]", "\t", "0", `C:\dir\`, `\`, `q"\`}
	// keys that strconv.Quote spells with escapes JSON does not know
	oddStrPool = []string{"\a", "\x00", "\x7f", "\xff", "\v", "\U000e0001"}
)
