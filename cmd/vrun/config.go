package main

var checks = map[string]check{
	"C03": {
		ID: "C03", Pkg: "c03",
		Jobs: []job{
			{Run: "^TestFidelity$", Quick: 2500, QShards: 6, Thor: 25000, TShards: 14},
			{Run: "^TestLayoutIndependence$", Quick: 2000, QShards: 4, Thor: 15000, TShards: 14},
			{Run: "^TestTotality$", Quick: 4000, QShards: 6, Thor: 25000, TShards: 14},
		},
		Fuzz:   []fuzzJob{{Target: "FuzzParse", Dur: "300s"}},
		Rule:   "fidelity/layout: IDL models drawn by rapid and rendered under drawn layouts (separator, whitespace/comment at every token boundary, quote style, int/double spellings); non-trivial = document with >=5 definitions of >=3 kinds, >=2 separator styles and >=1 comment inside a definition, distinct by text. totality: raw bytes, token soups over the grammar's terminals, deep nesting (child process), valid documents with 1-3 edits; non-trivial = non-raw-bytes input longer than 20 bytes, distinct by content",
		Assume: []string{"integer spellings with a leading zero (ambiguous octal) and literals ending in a lone backslash are not generated", "names never start with 'required'/'optional' (the grammar reads those as requiredness)", "a watchdog expiry (30 s) must reproduce before it is reported"},
	},
	"C05": {
		ID: "C05", Pkg: "c05",
		Jobs: []job{
			{Run: "^TestResolve$", Quick: 1200, QShards: 8, Thor: 40000, TShards: 14},
			{Run: "^TestOrderIndependence$", Quick: 800, QShards: 6, Thor: 20000, TShards: 14},
		},
		Rule:   "multi-file IDL models drawn by rapid (1-4 files, include DAG with diamonds, same base names in different directories, typedef chains, constants in every spelling); non-trivial = program with a typedef chain of length >=2 crossing a file boundary and >=1 identifier constant reference, distinct by program text; order test: non-trivial = >=2 files and a different definition order",
		Assume: []string{"include literals are spelled so that thriftgo's lookup order (working directory first, including file's directory second) finds the intended file", "global names are unique over the whole program, so two includes with the same prefix never both define a referenced name"},
	},
	"C17": {
		ID: "C17", Pkg: "c17", NeedTrim: true,
		Jobs: []job{
			{Run: "^TestDumpRoundTrip$", Quick: 1200, QShards: 10, Thor: 40000, TShards: 15},
			{Run: "^TestTrimmerRewrite$", Quick: 40, QShards: 3, Thor: 400, TShards: 8},
		},
		Rule:   "IDL models (1-3 files) with annotations on every node kind, literals over an alphabet with both quotes, &, <, >, #, backslash pairs and HTML entities, negative ids, nested constant literals, doubles across magnitudes, cpp_include; parsed by the real front end, every file dumped with dump.DumpIDL and the dumped program re-parsed, re-checked and compared file by file; non-trivial = program with >=1 literal containing a quote character and >=1 containing '&' or a backslash, distinct by text",
		Assume: []string{"comments and cpp_type are not compared (the property does not list them)", "a double with an integral value may come back as an integer constant of equal value"},
	},
	"C12": {
		ID: "C12", Pkg: "c12",
		Jobs: []job{
			{Run: "^TestAssembly$", Quick: 5000, QShards: 6, Thor: 72000, TShards: 14},
		},
		Rule:   "histories of 1-5 Feed calls of 0-6 items (named file / unnamed patch / named patch) over names {a.go, a_1.go, a_2.go, d/a.go, b} followed by BuildResponse, judged against an independent reference model of the documented assembly rules; non-trivial = not loose, has a rename and an asserted patch on a file fed earlier than the renamed one, distinct by hash of the history",
		Assume: []string{"fresh names of renamed files and output order are not asserted, only uniqueness and intact content", "named patches aimed at a contested, unowned or not-yet-fed name are the code's documented FIXME: only the invariants are asserted for those histories", "patch contents never contain markers"},
	},
	"C20": {
		ID: "C20", Pkg: "c20", NeedBin: true,
		Jobs: []job{
			{Run: "^TestDocs$", Quick: 1, QShards: 1, Thor: 1, TShards: 1},
			{Run: "^TestExhaustive$", Quick: 1, QShards: 1, Thor: 1, TShards: 1},
			{Run: "^TestRandomLists$", Quick: 5000, QShards: 2, Thor: 100000, TShards: 8},
			{Run: "^TestBinary$", Quick: 60, QShards: 2, Thor: 400, TShards: 6},
		},
		Rule:   "exhaustive: every option in every accepted/rejected form alone, all ordered pairs of assignments, triples around every prefix-related name pair (computed from the option list), each through CodeUtils.HandleOptions and through args.Targets()+Pack; random: rapid lists of 3-12 assignments; binary: invalid values must fail the thriftgo binary; oracle = fold of the assignments over the documented defaults plus the documented implications; non-trivial = list contains two options where one name is a prefix of the other, or the same option twice with different values, distinct by mode and option list",
		Assume: []string{"README option table, -h text and the tags of golang.Features are the sources of truth and are cross-checked first", "combinations the README is ambiguous about (with_field_mask without with_reflection, streamx without thrift_streaming, both json tag styles) are not asserted either way", "unknown option names are never generated"},
	},
	"C19": {
		ID: "C19", Pkg: "c19", Tags: "verif", Race: true, MaxPar: 8,
		Jobs: []job{
			{Run: "^TestPersistSchedules$", Quick: 500, QShards: 8, Thor: 14300, TShards: 14},
			{Run: "^TestPersistGoBackend$", Quick: 300, QShards: 2, Thor: 5000, TShards: 4},
		},
		Rule: "n 0..40 jobs, GOMAXPROCS k 1..16, fault set (post-process error / target is a directory / parent or ancestor is a regular file), gate order permutation + pauses, yield script at the verif hook points; non-trivial = n>k and F non-empty with a failing job whose gate opens after a later job's gate, distinct by case JSON",
		Assume: []string{
			"distinct absolute paths",
			"write faults are EISDIR/ENOTDIR shapes (the process runs as root, so permission faults are unavailable)",
			"ENOSPC/EMFILE/EIO from the machine are not judged",
			"a watchdog expiry (20 s after the last gate) is reported only if a second run also expires or the first run is still blocked after the second run finished",
			"schedule-dependent failures may not reproduce on replay; orderings inside the Go runtime are perturbed, not enumerated"},
	},
	"C14": {
		ID: "C14", Pkg: "c14",
		Jobs: []job{
			{Run: "^TestMask$", Quick: 5000, QShards: 6, Thor: 100000, TShards: 14},
			{Run: "^TestSoup$", Quick: 4000, QShards: 4, Thor: 40000, TShards: 14},
			{Run: "^TestJSON$", Quick: 4000, QShards: 4, Thor: 40000, TShards: 14},
			{Run: "^TestUnmarshalHistory$", Quick: 1500, QShards: 4, Thor: 20000, TShards: 14},
			{Run: "^TestReferenceOnRepoVectors$", Quick: 1, QShards: 1, Thor: 1, TShards: 1},
		},
		Fuzz:   []fuzzJob{{Target: "FuzzPath", Dur: "240s"}, {Target: "FuzzMaskJSON", Dur: "240s"}},
		Rule:   "type descriptors from generated IDL schemas (all container/key kinds, negative and >63 field ids, typedefs, enums as keys) x path lists from a path grammar (valid, conflicting and invalid-by-construction classes) and byte soup over the path alphabet x white/black list x query sequences; JSON documents from mutated real marshals and soup; non-trivial = >=3 paths, >=1 of depth >=3, mixing two of {field, index, key, *}, distinct by IDL + path list + mode",
		Assume: []string{"exact answers are asserted only for conflict-free valid path sets; black-list sets with a path ending in '*' and struct '.*' get the no-panic / stability / round-trip oracles only", "nothing is asserted after the first 'not selected' step of a query", "mutated JSON input: only no-panic, UnmarshalJSON == caching Unmarshal, and marshal stability are asserted"},
	},
	"C02": {
		ID: "C02", Pkg: "c02", NeedBin: true, MaxPar: 8,
		Jobs: []job{
			{Run: "^TestWire$", Quick: 10, QShards: 8, Thor: 60, TShards: 14},
		},
		Rule:   "one rapid case = one generated program (1-2 files, every struct-like plus synthesized args/result) under a drawn presentation-only option set, built into a driver binary, then 10-30 (struct, value, perturbation) evaluations: Write bytes decoded by the strict reference decoder, reference encodings (both field orders) read back and dumped by reflection, unknown fields inserted at any nesting level, a field retagged with another wire type, a required field omitted, unions with 0 or 2 members; non-trivial = perturbation case, or a value with a nested container/struct and at least one unset optional; distinct by program, configuration, struct, value and mode",
		Assume: []string{"an optional field with a declared default that holds the default is the same value as an unset one (the property says so); nil and empty containers are the same for non-optional fields", "struct names are unique program-wide, so a Go type is matched to its IDL struct by the name its own Write passes to WriteStructBegin", "programs the compiler rejects or whose output does not compile are counted (status classes) and left to C01/C04"},
	},
	"C15": {
		ID: "C15", Pkg: "c15", NeedBin: true, MaxPar: 8,
		Jobs: []job{
			{Run: "^TestDescriptors$", Quick: 600, QShards: 8, Thor: 6000, TShards: 14},
			{Run: "^TestCodec$", Quick: 150, QShards: 6, Thor: 1500, TShards: 14},
			{Run: "^TestTwoTrees$", Quick: 400, QShards: 4, Thor: 6000, TShards: 14},
			{Run: "^TestGenerated$", Quick: 2, QShards: 6, Thor: 25, TShards: 14},
		},
		Rule:   "multi-file IDL models (annotations with repeated keys, comments, constants of every shape, typedef chains across files, same base names) parsed and resolved by the real front end; GetFileDescriptor compared field by field with a descriptor content computed from the model alone; lookups by name/id across includes after RegisterAST; Marshal/Unmarshal identity; generated half: one rapid case = one 2-3 file program generated with go:with_reflection (+0-2 presentation options), compiled with the reflective driver: embedded file descriptors, Go type <-> descriptor identity, lookups across packages through the run-time registry; non-trivial = >=2 files, repeated annotation keys and a typedef chain crossing files (in-process), or >=2 generated packages and >=1 cross-file reference followed through the run-time registry (generated), distinct by program text",
		Assume: []string{"representation details descriptor.thrift leaves open (comment markers, requiredness letter case, 'void' response type) are compared by content only", "map constants are compared as unordered entry sets", "reorder_fields and typed_enum_string are not drawn in the generated half (the descriptor follows the Go field order by design; String() identifies enum types)"},
	},
	"C01": {
		ID: "C01", Pkg: "c01", NeedBin: true, MaxPar: 12,
		Jobs: []job{
			{Run: "^TestCompiles$", Quick: 80, QShards: 8, Thor: 1200, TShards: 14},
			{Run: "^TestCompilesNames$", Quick: 60, QShards: 4, Thor: 800, TShards: 14},
		},
		Rule:   "IDL models (1-3 files, every definition kind, typedef chains, cross-include references, negative/implicit/hex ids, defaults and constants in every spelling, annotations, files without a go namespace) x go/fastgo x drawn option configurations (none, one option, 2-8 options in bare/=true/=false form, naming styles, slim/raw_struct templates, package_prefix) x -r on/off; thriftgo exit 0 => every written .go file parses and all generated packages type-check together (go/types, runtime libraries from source); non-trivial = compiled program with a cross-file reference or a non-default option, distinct by IDL text and command line",
		Assume: []string{"options that need resources absent offline are not drawn: code_ref*, exp_code_ref, keep_code_ref_name (idl-ref.yaml + foreign package), thrift_streaming/streamx (kitex is not cached), use_option (option IDL), skip_go_gen (writes nothing), apache_adaptor", "go namespaces are layered so that includes cannot form Go import cycles; files without a go namespace have unique base names; a throws entry never has id 0 (the id of `success`)", "names are unique program-wide (collision-renaming stress is not generated yet)", "a valid program that thriftgo rejects is counted (status:rejected_valid), not reported: C04 decides diagnostics"},
	},
	"C18": {
		ID: "C18", Pkg: "c18", NeedBin: true, MaxPar: 8,
		Jobs: []job{
			{Run: "^TestDeepEqual$", Quick: 8, QShards: 8, Thor: 30, TShards: 14},
		},
		Rule:   "one rapid case = one generated program under go:gen_deep_equal (+0-2 presentation-only options) built into a driver, then 30-100 pairs (copy, exactly one leaf changed at a drawn depth, independent values, same object, nil receivers/arguments/fields) judged against a reference structural equality, plus Write on sets with/without an injected duplicate (validate_set); non-trivial = the pair differs in exactly one leaf at depth >=2, or only in one map key; distinct by program, configuration, struct and both values",
		Assume: []string{"the expectation is computed under a strict and a liberal reading of the statement and asserted only where both agree (otherwise only no-panic and symmetry): optional binary unset vs empty, optional-with-default absent vs present-equal-to-default, nil pointer vs object", "NaN and -0 are not generated; sets are compared in order"},
	},
	"C11": {
		ID: "C11", Pkg: "c11", Tags: "verif", NeedBin: true, MaxPar: 10,
		Jobs: []job{
			{Run: "^TestRoundTrip$", Quick: 1500, QShards: 4, Thor: 15000, TShards: 14},
			{Run: "^TestCompression$", Quick: 1500, QShards: 4, Thor: 15000, TShards: 14},
			{Run: "^TestOptions$", Quick: 5000, QShards: 1, Thor: 100000, TShards: 4},
			{Run: "^TestEndToEnd$", Quick: 60, QShards: 4, Thor: 300, TShards: 14},
		},
		Rule:   "in-process: requests wrapping ASTs that the real front end produced from generated multi-file models (diamond includes, resolved references) with drawn strings; Marshal/Unmarshal identity, include compression + data trailer identity and restoration of the compiler's own tree, option string round trip. end to end: thriftgo runs a scripted plugin that dumps the decoded request (compared with the request the harness builds in-process) and answers per a drawn script: files, unnamed/named patches, warnings, error, exit status, truncated/garbage/empty stdout, delay beyond --plugin-time-limit; non-trivial = AST with a diamond include and >=1 resolved external reference, or a fault response; distinct by case",
		Assume: []string{"reorder_fields and trim_idl are not drawn (they rewrite the request AST before plugins run)", "garbage stdout is generated only when certainly malformed", "'no output after a fault' is asserted because generation fails before anything is persisted"},
	},
	"C07": {
		ID: "C07", Pkg: "c07", NeedBin: true, MaxPar: 8,
		Jobs: []job{
			{Run: "^TestDeterministic$", Quick: 50, QShards: 6, Thor: 200, TShards: 14},
		},
		Rule:   "GoSafe models (3-4 files) boosted with 2-5 annotation keys per node, 2-9-entry map constants and services throwing 2-5 exception types x 9 configuration classes (default, with_reflection, gen_type_meta, with_field_mask, fastgo, reserve_comments, template=slim, random go/fastgo option sets) x optional recording/patching plugin; k=4 (quick) / 12 (thorough) fresh processes under GOMAXPROCS 1/2/4/16 with -o directories of different name lengths, some dirty; the multiset (relative path, sha256) and the bytes a plugin receives must be identical; non-trivial = (node with >=2 annotation keys or map constant with >=2 entries) and >=2 generated files, distinct by files + args + plugin",
		Assume: []string{"stdout/stderr are not compared", "plugin cases keep one -o string (the request embeds it)", "a two-entry Go map shows its minority order in roughly one process in eight, so a single nondeterministic map is caught by k=4 with probability about 0.4 per program; witnesses replay with k>=80"},
	},
	"C06": {
		ID: "C06", Pkg: "c06", NeedBin: true, MaxPar: 8,
		Jobs: []job{
			{Run: "^TestValues$", Quick: 8, QShards: 8, Thor: 50, TShards: 14},
		},
		Rule:   "one rapid case = one generated program (constants and field defaults of every type shape in every spelling: literal, identifier, qualified identifier across includes, enum by name/number, int for double, 0/1/true/false, nested list/set/map literals, partial struct literals) under drawn representation options (enum_as_int_32, value_type_in_container, use_type_alias=false, naming styles, ignore_initialisms, nil_safe), built into a driver; every constant is compared with the model's evaluation of its initializer, every struct-like's NewX()/InitDefault()/getters/IsSet with its declared defaults; non-trivial = constant that is a container/struct literal or an identifier reference, or a default of an optional field; distinct by program and name",
		Assume: []string{"untyped Go constants are compared numerically; nil and empty containers/binaries are one value; maps as entry sets", "IsSet is asserted only where the property states it (optional scalar holding its default: false; value different from default and zero: true)", "constants are matched by a style-independent key (names are unique program-wide); ambiguous matches are counted and skipped"},
	},
	"C10": {
		ID: "C10", Pkg: "c10", NeedBin: true, MaxPar: 8,
		Jobs: []job{
			{Run: "^TestFast$", Quick: 8, QShards: 8, Thor: 30, TShards: 14},
		},
		Rule:   "one rapid case = one generated program under -g fastgo (+0-2 presentation options) built into a driver, then 10-20 (struct, value) pairs, each through the modes write (FastAppend/FastWrite/BLength vs reference decoder and standard Read), read (FastRead vs standard Read on standard and reference encodings, both field orders), unknown / retag / omit_required perturbations, and a sweep over every truncation point (<=512) and single-byte corruptions of type bytes (field, stop, element, map key/value); non-trivial = sweep case, or a value with >=1 optional-with-default field and >=1 container inside a container",
		Assume: []string{"FastWrite/FastAppend bytes are compared with the reference by decoded value (byte identity only without multi-entry maps)", "the violation is fast != standard (status, offset, object) or a panic; cases where the standard codec itself fails are counted and left to C02", "inputs announcing more than 2^20 elements are skipped on the read path so the watchdog cannot make runs flaky"},
	},
	"C16": {
		ID: "C16", Pkg: "c16", NeedBin: true, NeedTrim: true, MaxPar: 10,
		Jobs: []job{
			{Run: "^TestRepoCases$|^TestHandWritten$", Quick: 1, QShards: 1, Thor: 1, TShards: 1},
			{Run: "^TestTrimAPI$", Quick: 700, QShards: 8, Thor: 20000, TShards: 14},
			{Run: "^TestTrimBinary$", Quick: 40, QShards: 4, Thor: 400, TShards: 14},
		},
		Rule:   "multi-file IDL models with services and many struct-likes x trimmer arguments (none; -m exact, anchored regexps, unqualified names; preserve on/off; @preserve comments; preserved-struct list) through trim.TrimAST in-process and the trimmer binary (-r -o); oracle = reachability closure computed from the model (soundness: everything reachable kept; exactness: nothing else; includes), dumped result passes the front end, idempotence, kept struct-likes keep their fields, compile sample; non-trivial = >=1 struct-like removed and >=1 struct-like outside the main file kept only through a typedef or a container element, distinct by files + arguments + entry point",
		Assume: []string{"-m patterns are exact names or anchored regexps whose meaning is unambiguous; the trimmer's substring heuristics for unanchored patterns are not part of the property", "services of included files that are not a base of a kept service: nothing asserted without -m", "include survival is asserted only where the property is explicit (must stay if referenced or holding constants/enums/typedefs; must go if nothing kept names it and its subtree holds none of those)"},
	},
	"C04": {
		ID: "C04", Pkg: "c04", NeedBin: true, MaxPar: 12,
		Jobs: []job{
			{Run: "^TestInvalidIDL$", Quick: 60, QShards: 8, Thor: 1200, TShards: 14},
			{Run: "^TestInvalidCommandLine$", Quick: 40, QShards: 3, Thor: 300, TShards: 6},
		},
		Rule:   "a valid generated program (1-4 files) x exactly one rule-breaking edit from the property's catalogue at a drawn position (main or transitively included file; struct/union/exception/args/throws/typedef/const/enum/service; local, qualified or unknown-prefix reference; include cycle of length 1-4) x go/fastgo x -r on/off, and invalid command lines; oracle on the binary: exit status != 0, a diagnostic, empty output directory, no Go panic/fatal trace, no hang; the unedited program must exit 0 with its expected files; non-trivial = the edit sits in an included file or a nested position (args, throws, container or literal element), or the shortest include cycle is >=2, distinct by files + arguments",
		Assume: []string{"duplicate ids or names inside args/throws lists are not enforced by thriftgo and are not in the catalogue as generated", "backend-enforced edits (string for integer, unknown field / non-string key in a struct literal) in an included file are run with -r (without it an unused include is never evaluated)", "a valid program that is rejected is counted and skipped (C01's domain)"},
	},
	"C13": {
		ID: "C13", Pkg: "c13", NeedBin: true, MaxPar: 8,
		Jobs: []job{
			{Run: "^TestMask$", Quick: 6, QShards: 8, Thor: 25, TShards: 14},
			{Run: "^TestAnchor$", Quick: 1, QShards: 1, Thor: 1, TShards: 1},
		},
		Rule: "one rapid case = one program generated with go:with_field_mask,with_reflection plus one of {nothing, field_mask_halfway, field_mask_zero_required}, built into a driver, then 40-100 (root struct, value, path set, white/black) pairs; paths are drawn along the value (fields by name/id, indices in and out of range, present/absent int and string keys, *, depth <= 4, multi-key steps, conflict-free or (1/8) conflicting), plus nil-mask, empty-mask and mask-attached-to-child (halfway) modes; non-trivial = strict non-empty subset of a container of size >= 3 including its last element, or mask depth >= 3",
		Assume: []string{
			"exact equality only on conflict-free sets and, in black-list mode, without a path ending in '*'; other sets get well-formedness + sub-value + no error/panic",
			"read-under-mask: unselected parts equal a freshly constructed object (baseline taken from the driver's `new`; constructors are C06's business)",
			"conflicting sets are used only where no listed finding can apply",
		},
	},
	"C08": {
		ID: "C08", Pkg: "c08", NeedBin: true, MaxPar: 8,
		Jobs: []job{
			{Run: "^TestCalls$", Quick: 8, QShards: 8, Thor: 40, TShards: 14},
		},
		Rule:   "IDL models with services (void/value/oneway, 0-6 args, 0-3 throws incl. typedef'd exceptions, extends local / across files / same Go package, names that are Go keywords or generated identifiers) x 20-50 call sequences of 1-8 calls on one connection through generated client -> loop-back transport -> generated processor with a recording handler synthesised from the generated interface; handler args, caller result/exception/application exception, raw request and reply messages judged by the reference codec; non-trivial = service has a base or >=1 throws and the sequence mixes >=2 outcome kinds, distinct by program+service+calls",
		Assume: []string{"the IDL method <-> Go method correspondence is learnt by behaviour (the name the generated client puts on the wire)", "a oneway request may be typed CALL or ONEWAY (apache's TStandardClient sends CALL); only the absence of a reply is asserted", "constants are switched off so that programs C01/C06 findings would reject do not occur"},
	},
	"C09": {
		ID: "C09", Pkg: "c09", NeedBin: true, MaxPar: 8,
		Jobs: []job{
			{Run: "^TestRuntime$", Quick: 3000, QShards: 8, Thor: 30000, TShards: 14},
			{Run: "^TestEvolve$", Quick: 5, QShards: 8, Thor: 15, TShards: 14},
		},
		Rule:   "layer A (in-process): one unknown field of any Thrift type from a recursive generator (all wire types, nesting up to and beyond the documented depth limit) through unknown.Fields Append/Write must come back byte-exactly, beyond the limit the documented error; layer B: pairs (old, new) where old is derived from a generated new by removing optional/default fields at any depth, enum members and union members, generated as go (new) and go / go:keep_unknown_fields (old), built into three drivers; values of new travel along chains old->new->old up to length 3; non-trivial = the removed set contains a container- or struct-typed field below the top level (B), or a nested unknown field of depth >= 3 (A)",
		Assume: []string{"old may lack only non-required fields, enum members and union members that no constant or default mentions", "the carrying-unknown-fields flag is asserted for the top-level object only", "depth 65 may go either way (the documentation does not say whether the outermost value counts)"},
	},
}
