package ref

import (
	"encoding/json"

	"verif/internal/idl"
)

// TypeJ / StructJ / SchemaJ are the plain-data form of a schema, stored in
// replay files so that a saved case can be judged without the model.
type TypeJ struct {
	K    Kind    `json:"k"`
	Key  *TypeJ  `json:"key,omitempty"`
	Elem *TypeJ  `json:"elem,omitempty"`
	S    string  `json:"s,omitempty"`
	Enum []int64 `json:"enum,omitempty"`
}

type FieldJ struct {
	ID     int32       `json:"id"`
	Name   string      `json:"name"`
	Req    int         `json:"req"`
	Type   *TypeJ      `json:"type"`
	HasDef bool        `json:"has_def,omitempty"`
	Def    interface{} `json:"def,omitempty"`
	// what a freshly constructed object holds, when a check has replaced Def by another form of the default
	CtorDef interface{} `json:"ctor_def,omitempty"`
}

type StructJ struct {
	Name   string    `json:"name"`
	Kind   string    `json:"kind"`
	File   string    `json:"file"`
	Fields []*FieldJ `json:"fields"`
}

type SchemaJ struct {
	Structs []*StructJ `json:"structs"`
}

func exportType(t *Type) *TypeJ {
	if t == nil {
		return nil
	}
	j := &TypeJ{K: t.Kind, Key: exportType(t.Key), Elem: exportType(t.Elem)}
	if t.Struct != nil {
		j.S = t.Struct.Name
	}
	if t.Enum != nil {
		j.Enum = []int64{}
		for _, v := range t.Enum.Values {
			j.Enum = append(j.Enum, v.Value)
		}
	}
	return j
}

// Export turns the schema into plain data.
func (s *Schema) Export() *SchemaJ {
	out := &SchemaJ{}
	for _, st := range s.Structs {
		sj := &StructJ{Name: st.Name, Kind: st.Kind}
		if st.File != nil {
			sj.File = st.File.Path
		}
		for _, f := range st.Fields {
			fj := &FieldJ{ID: f.ID, Name: f.Name, Req: int(f.Req), Type: exportType(f.Type), HasDef: f.HasDef}
			if f.HasDef {
				fj.Def = ToJSON(f.Type, f.Default)
				if f.CtorDefault != nil && !Equal(f.CtorDefault, f.Default) {
					fj.CtorDef = ToJSON(f.Type, f.CtorDefault)
				}
			}
			sj.Fields = append(sj.Fields, fj)
		}
		out.Structs = append(out.Structs, sj)
	}
	return out
}

// Import rebuilds a schema from plain data.
func Import(j *SchemaJ) (*Schema, error) {
	s := &Schema{byDef: map[*idl.Def]*StructT{}}
	byName := map[string]*StructT{}
	for _, sj := range j.Structs {
		st := &StructT{Name: sj.Name, Kind: sj.Kind}
		byName[sj.Name] = st
		s.Structs = append(s.Structs, st)
	}
	var imp func(t *TypeJ) *Type
	imp = func(t *TypeJ) *Type {
		if t == nil {
			return nil
		}
		r := &Type{Kind: t.K, Key: imp(t.Key), Elem: imp(t.Elem)}
		if t.K == Struct {
			r.Struct = byName[t.S]
		}
		if t.K == Enum {
			d := &idl.Def{Kind: idl.KEnum}
			for _, v := range t.Enum {
				d.Values = append(d.Values, &idl.EnumVal{Value: v})
			}
			r.Enum = d
		}
		return r
	}
	for i, sj := range j.Structs {
		st := s.Structs[i]
		for _, fj := range sj.Fields {
			st.Fields = append(st.Fields, &FieldT{ID: fj.ID, Name: fj.Name, Req: idl.Req(fj.Req), Type: imp(fj.Type), HasDef: fj.HasDef})
		}
	}
	// defaults need the types
	for i, sj := range j.Structs {
		for k, fj := range sj.Fields {
			if fj.HasDef {
				// round-trip through JSON so numbers etc. have the generic decoded shape
				b, _ := json.Marshal(fj.Def)
				var raw interface{}
				json.Unmarshal(b, &raw)
				v, err := FromJSON(s.Structs[i].Fields[k].Type, raw)
				if err != nil {
					return nil, err
				}
				s.Structs[i].Fields[k].Default = v
				s.Structs[i].Fields[k].CtorDefault = v
				if fj.CtorDef != nil {
					b, _ := json.Marshal(fj.CtorDef)
					var raw2 interface{}
					json.Unmarshal(b, &raw2)
					cv, err := FromJSON(s.Structs[i].Fields[k].Type, raw2)
					if err != nil {
						return nil, err
					}
					s.Structs[i].Fields[k].CtorDefault = cv
				}
			}
		}
	}
	return s, nil
}

// ByName finds a struct schema by its IDL name.
func (s *Schema) ByName(n string) *StructT {
	for _, st := range s.Structs {
		if st.Name == n {
			return st
		}
	}
	return nil
}
