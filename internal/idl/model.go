// Package idl is an independent model of Thrift IDL programs: the generators
// build a model (never text), every reference in it points at its target
// definition, and everything the oracles need (expected parse tree, bindings,
// categories, schemas, constant values) is computed from the model alone,
// without touching thriftgo's parser or resolver.
package idl

import (
	"path"
	"strings"
)

type Kind int

const (
	KConst Kind = iota
	KTypedef
	KEnum
	KStruct
	KUnion
	KException
	KService
)

func (k Kind) String() string {
	return [...]string{"const", "typedef", "enum", "struct", "union", "exception", "service"}[k]
}

func (k Kind) IsStructLike() bool { return k == KStruct || k == KUnion || k == KException }

// Anno is one written annotation `key = "value"`.
type Anno struct {
	Key string
	Val Lit
}

// Lit is a string literal: Src is what stands between the quotes in the
// source text for the quote character Quote ('"' or '\”); Text is what the
// literal denotes (the delimiter unescaped, nothing else touched).
type Lit struct {
	Toks  []LitTok
	Quote byte
}

// LitTok is one unit of a literal: a plain string (no backslash, no quote
// character), an escape pair (`\\`, `\t`, ...), or a quote character.
type LitTok struct {
	Kind int    // 0 plain, 1 backslash pair (verbatim two chars), 2 quote character
	S    string // plain text, or the two characters of the pair, or the quote char
}

// Text is the denoted text.
func (l Lit) Text() string {
	var b strings.Builder
	for _, t := range l.Toks {
		b.WriteString(t.S)
	}
	return b.String()
}

// Src renders the literal body for the given enclosing quote.
func (l Lit) Src(q byte) string {
	var b strings.Builder
	for _, t := range l.Toks {
		if t.Kind == 2 && t.S[0] == q {
			b.WriteByte('\\')
		}
		b.WriteString(t.S)
	}
	return b.String()
}

// PlainLit makes a literal without escapes.
func PlainLit(s string) Lit { return Lit{Toks: []LitTok{{0, s}}, Quote: '"'} }

// Program is a set of files; Files[0] is the main file.
type Program struct {
	Files []*File
}

type Namespace struct {
	Lang  string
	Name  string
	Annos []Anno
}

type File struct {
	Index       int
	Path        string // relative to the program root, e.g. "main.thrift", "d1/base.thrift"
	Includes    []*File
	IncludeLit  []string // literal text used in each include statement
	CppIncludes []string
	Namespaces  []Namespace
	Defs        []*Def
}

// Prefix is the name other files use to qualify references into this file.
func (f *File) Prefix() string {
	b := path.Base(f.Path)
	return strings.TrimSuffix(b, path.Ext(b))
}

// GoPackage is the Go package path thriftgo derives for the file: the go
// namespace, else the `*` namespace, else the lower-cased base name.
func (f *File) GoPackage() string {
	ns, found := "", false
	for _, n := range f.Namespaces {
		if n.Lang == "go" {
			return n.Name
		}
		if n.Lang == "*" {
			ns, found = n.Name, true
		}
	}
	if found {
		return ns
	}
	return strings.ToLower(f.Prefix())
}

// IncludeIndex returns the position of g among f's includes, or -1.
func (f *File) IncludeIndex(g *File) int {
	for i, x := range f.Includes {
		if x == g {
			return i
		}
	}
	return -1
}

func (f *File) DefsOf(k Kind) []*Def {
	var r []*Def
	for _, d := range f.Defs {
		if d.Kind == k {
			r = append(r, d)
		}
	}
	return r
}

func (f *File) Lookup(name string) *Def {
	for _, d := range f.Defs {
		if d.Name == name {
			return d
		}
	}
	return nil
}

type Def struct {
	Kind    Kind
	Name    string
	File    *File
	Annos   []Anno
	Comment string // leading comment text lines (without markers), "" if none

	Type    *Type // typedef target, const type
	Value   *Value
	Values  []*EnumVal
	Fields  []*Field
	Extends *Def // base service
	Funcs   []*Func
}

type EnumVal struct {
	Name     string
	Value    int64
	Explicit bool
	Spelling int // 0 decimal, 1 hex, 2 octal (0o) — only for explicit non-negative values
	Annos    []Anno
}

type Req int

const (
	ReqDefault Req = iota
	ReqRequired
	ReqOptional
)

type Field struct {
	ID       int32
	Explicit bool // id written in the source
	HexID    bool // id written as 0x..
	Name     string
	Req      Req
	Type     *Type
	Default  *Value
	Annos    []Anno
}

type Func struct {
	Name      string
	Oneway    bool
	Ret       *Type // nil = void
	Args      []*Field
	Throws    []*Field
	HasThrows bool // "throws (...)" written (possibly empty)
	Annos     []Anno
}

// Type is a written type expression.
type Type struct {
	Base    string // bool byte i8 i16 i32 i64 double string binary list set map, "" for a named type
	Key     *Type
	Elem    *Type
	Ref     *Def // named type: the definition it names (typedef, enum, struct-like)
	CppType string
	HasCpp  bool
	Annos   []Anno
}

// Cat is a final category name as the resolver reports it.
func (t *Type) Final() *Type {
	for t.Ref != nil && t.Ref.Kind == KTypedef {
		t = t.Ref.Type
	}
	return t
}

// FinalCat returns the final category string: bool byte i16 i32 i64 double
// string binary map list set enum struct union exception.
func (t *Type) FinalCat() string {
	f := t.Final()
	if f.Ref != nil {
		return f.Ref.Kind.String()
	}
	if f.Base == "i8" {
		return "byte"
	}
	return f.Base
}

// ChainLen is the number of typedefs between the written name and the final type.
func (t *Type) ChainLen() int {
	n := 0
	for t.Ref != nil && t.Ref.Kind == KTypedef {
		t = t.Ref.Type
		n++
	}
	return n
}

// VKind is the written shape of a constant value.
type VKind int

const (
	VInt VKind = iota
	VDouble
	VLit
	VIdent
	VList
	VMap
)

// Value is a written constant value together with what it denotes.
type Value struct {
	Kind        VKind
	Int         int64
	IntSpelling int // 0 decimal, 1 hex, 2 octal, 3 explicit plus sign
	Dbl         float64
	DblText     string // the spelling of a double
	Lit         Lit
	// identifier
	Ident    string // full text as written
	RefConst *Def   // names a constant
	RefEnum  *Def   // names an enum value: the enum ...
	RefVal   string // ... and its member
	Via      *Def   // the enum was named through this typedef (nil if named directly)
	IsBoolKw bool   // true / false
	List     []*Value
	Keys     []*Value // map keys (parallel to List = map values)
}
