package c14

// Generators: path grammar (valid by construction, conflicts, invalid classes),
// byte/token soup over the path alphabet, JSON documents.

import (
	"bytes"
	"encoding/json"
	"fmt"
	"math"
	"sort"
	"strconv"
	"strings"
	"unicode/utf8"

	"github.com/cloudwego/thriftgo/fieldmask"
	"pgregory.net/rapid"

	"verif/internal/vt"
)

// excl notes that a known finding narrowed the current case; each finding is
// counted at most once per case (flushExcl, called by the tests).
var exclSet = map[string]bool{}

func excl(id string) { exclSet[id] = true }

func flushExcl() {
	ids := make([]string, 0, len(exclSet))
	for id := range exclSet {
		ids = append(ids, id)
		delete(exclSet, id)
	}
	sort.Strings(ids)
	for _, id := range ids {
		vt.Excluded(id)
	}
}

type pathStats struct {
	star, index, intKey, strKey, field, byID, bigID, negID, typedef, trailStar, structStar bool
	reachTD                                                                             bool // a path ends at or passes through a typedef'd type
	maxDepth                                                                            int
}

func (st *pathStats) add(sc *schema, root shape, steps []pstep) {
	if len(steps) > st.maxDepth {
		st.maxDepth = len(steps)
	}
	cur := root
	for i, s := range steps {
		if cur.td {
			st.typedef = true
		}
		switch {
		case s.star:
			st.star = true
			if s.kind == 0 {
				st.structStar = true
			}
			if i == len(steps)-1 {
				st.trailStar = true
			}
		case s.kind == 0:
			st.field = true
			st.byID = st.byID || s.byID
			st.bigID = st.bigID || s.fld.id > 63
			st.negID = st.negID || s.fld.id < 0
		case s.kind == 1:
			st.index = true
		case s.isStr:
			st.strKey = true
		default:
			st.intKey = true
		}
		cur = stepShape(sc, cur, s)
		if cur.td {
			st.reachTD = true
		}
	}
}

type pgen struct {
	rt    *rapid.T
	sc    *schema
	k     knownSet
	root  shape
	paths [][]pstep
}

func (g *pgen) shapeAfter(steps []pstep) shape {
	cur := g.root
	for _, s := range steps {
		cur = stepShape(g.sc, cur, s)
	}
	return cur
}

func (g *pgen) usableFields(st *strct) []*field {
	var out []*field
	for _, f := range st.fields {
		if f.id < 0 && g.k[fNegID] {
			continue
		}
		out = append(out, f)
	}
	return out
}

func (g *pgen) ints(label string) []int {
	n := rapid.IntRange(1, 3).Draw(g.rt, label+"_n")
	out := make([]int, n)
	for i := range out {
		out[i] = rapid.SampledFrom(intPool).Draw(g.rt, label)
	}
	return out
}

func (g *pgen) strs(label string) []string {
	n := rapid.IntRange(1, 3).Draw(g.rt, label+"_n")
	out := make([]string, n)
	for i := range out {
		if rapid.IntRange(0, 7).Draw(g.rt, label+"_odd") == 0 {
			if g.k[fStrKeyJSON] {
				excl(fStrKeyJSON)
			} else {
				s := rapid.SampledFrom(oddStrPool).Draw(g.rt, label)
				if utf8.ValidString(s) || !g.k[fStrKeyUTF8] {
					out[i] = s
					continue
				}
				excl(fStrKeyUTF8)
			}
		}
		out[i] = rapid.SampledFrom(strPool).Draw(g.rt, label)
	}
	return out
}

func (g *pgen) pad() int {
	if rapid.IntRange(0, 11).Draw(g.rt, "pad") == 0 {
		return rapid.IntRange(1, 2).Draw(g.rt, "npad")
	}
	return 0
}

// step draws one step from a value of shape cur; ok=false when no step is possible.
func (g *pgen) step(cur shape, allowStructStar, allowStar bool) (s pstep, ok bool) {
	star := allowStar && rapid.IntRange(0, 4).Draw(g.rt, "star") == 0
	switch cur.kind {
	case kStruct:
		fs := g.usableFields(cur.st)
		if len(fs) < len(cur.st.fields) {
			excl(fNegID)
		}
		if len(fs) == 0 {
			return s, false
		}
		if allowStructStar && rapid.IntRange(0, 5).Draw(g.rt, "structstar") == 0 {
			return pstep{kind: 0, star: true}, true
		}
		f := rapid.SampledFrom(fs).Draw(g.rt, "field")
		s = pstep{kind: 0, fld: f, byID: f.id >= 0 && rapid.IntRange(0, 2).Draw(g.rt, "byid") == 0}
		if s.byID {
			s.pad = g.pad()
		}
		return s, true
	case kList:
		if star {
			return pstep{kind: 1, star: true}, true
		}
		return pstep{kind: 1, ints: g.ints("index"), pad: g.pad()}, true
	case kIntMap:
		if star {
			return pstep{kind: 2, star: true}, true
		}
		return pstep{kind: 2, ints: g.ints("ikey"), pad: g.pad()}, true
	case kStrMap:
		if star {
			return pstep{kind: 2, star: true}, true
		}
		return pstep{kind: 2, isStr: true, strs: g.strs("skey")}, true
	case kScalarMap:
		if !allowStar {
			return s, false
		}
		return pstep{kind: 2, star: true}, true
	}
	return s, false
}

// genPath draws a path that is valid for the schema; it often shares a prefix
// with an earlier path so that the trie branches below the root.
func (g *pgen) genPath(maxDepth int, allowStructStar, allowStar bool) []pstep {
	var steps []pstep
	if len(g.paths) > 0 && rapid.IntRange(0, 2).Draw(g.rt, "reuse") > 0 {
		p := rapid.SampledFrom(g.paths).Draw(g.rt, "prefix_of")
		n := rapid.IntRange(0, len(p)).Draw(g.rt, "prefix_len")
		steps = append(steps, p[:n]...)
		if n > 0 && p[n-1].star && p[n-1].kind == 0 {
			steps = steps[:n-1]
		}
		if !allowStar {
			for i, s := range steps {
				if s.star {
					steps = steps[:i]
					break
				}
			}
		}
	}
	cur := g.shapeAfter(steps)
	for len(steps) < maxDepth {
		if len(steps) > 0 && rapid.IntRange(0, 4).Draw(g.rt, "stop") == 0 {
			break
		}
		s, ok := g.step(cur, allowStructStar, allowStar)
		if !ok {
			break
		}
		steps = append(steps, s)
		if s.star && s.kind == 0 {
			break
		}
		cur = stepShape(g.sc, cur, s)
	}
	return steps
}

func fieldByID(st *strct, id int) *field {
	for _, f := range st.fields {
		if f.id == id {
			return f
		}
	}
	return nil
}

func sortedKeys(m map[string]*rnode) []string {
	ks := make([]string, 0, len(m))
	for k := range m {
		ks = append(ks, k)
	}
	sort.Strings(ks)
	return ks
}

type walkInfo struct {
	keys      []qkey
	path      string // the walk spelled as a concrete path, "" when it has no spelling
	mismatch  bool   // the last key is of a kind the value there does not have: never asserted
	throughTD bool   // a step is taken below a typedef'd type
}

// genWalk draws a query sequence that follows the schema's types and, most of
// the time, the reference trie.
func (g *pgen) genWalk(root *rnode) walkInfo {
	var w walkInfo
	var b strings.Builder
	b.WriteString("$")
	spell := true
	cur, rn := g.root, root
	n := rapid.IntRange(1, 6).Draw(g.rt, "walk_len")
	for i := 0; i < n; i++ {
		var q qkey
		follow := ""
		if rn != nil && len(rn.kids) > 0 && rapid.IntRange(0, 2).Draw(g.rt, "follow") > 0 {
			follow = rapid.SampledFrom(sortedKeys(rn.kids)).Draw(g.rt, "kid")
		}
		if cur.td && i > 0 {
			w.throughTD = true
		}
		var next shape
		end := false
		switch cur.kind {
		case kStruct:
			var f *field
			if follow != "" {
				id, _ := strconv.Atoi(follow[1:])
				f = fieldByID(cur.st, id)
			}
			if f == nil {
				fs := g.usableFields(cur.st)
				if len(fs) == 0 || rapid.IntRange(0, 5).Draw(g.rt, "absent_field") == 0 {
					pool := append(append([]int{}, idPool...), negIDPool...)
					q = qkey{K: "f", I: rapid.SampledFrom(pool).Draw(g.rt, "fid")}
					if q.I < 0 && g.k[fNegID] {
						excl(fNegID)
						q.I = rapid.SampledFrom(idPool).Draw(g.rt, "fid2")
					}
					f = fieldByID(cur.st, q.I)
					if f != nil && f.id < 0 && g.k[fNegID] {
						f = nil
					}
					if f == nil {
						spell, end = false, true
					}
				} else {
					f = rapid.SampledFrom(fs).Draw(g.rt, "wfield")
				}
			}
			if f != nil {
				q = qkey{K: "f", I: f.id}
				if f.id >= 0 && rapid.Bool().Draw(g.rt, "spell_id") {
					b.WriteString("." + strconv.Itoa(f.id))
				} else {
					b.WriteString("." + f.name)
				}
				next = g.sc.resolve(f.ty)
			}
		case kList, kIntMap:
			if follow != "" {
				v, _ := strconv.Atoi(follow[1:])
				q = qkey{K: "i", I: v}
			} else {
				q = qkey{K: "i", I: rapid.SampledFrom(append([]int{-1}, intPool...)).Draw(g.rt, "wint")}
			}
			if q.I < 0 {
				spell = false
			}
			if cur.kind == kList {
				b.WriteString("[" + strconv.Itoa(q.I) + "]")
			} else {
				b.WriteString("{" + strconv.Itoa(q.I) + "}")
			}
			next = g.sc.resolve(cur.elem)
		case kStrMap:
			if follow != "" {
				q = qkey{K: "s", S: follow[1:]}
			} else {
				q = qkey{K: "s", S: rapid.SampledFrom(strPool).Draw(g.rt, "wstr")}
			}
			b.WriteString("{" + quoteKey(q.S) + "}")
			next = g.sc.resolve(cur.elem)
		case kScalarMap:
			if rapid.Bool().Draw(g.rt, "smap_int") {
				q = qkey{K: "i", I: rapid.SampledFrom(intPool).Draw(g.rt, "wint")}
				b.WriteString("{" + strconv.Itoa(q.I) + "}")
			} else {
				q = qkey{K: "s", S: rapid.SampledFrom(strPool).Draw(g.rt, "wstr")}
				b.WriteString("{" + quoteKey(q.S) + "}")
			}
			next = g.sc.resolve(cur.elem)
		default:
			end = true
		}
		if !end && cur.kind != kScalar && rapid.IntRange(0, 15).Draw(g.rt, "mismatch") == 0 {
			// a query of the wrong kind for this value (only "no panic" is asserted)
			var mq qkey
			switch {
			case cur.kind != kStruct && !g.k[fFieldNonStruct]:
				mq = qkey{K: "f", I: 1}
			case cur.kind == kStruct || cur.kind == kStrMap:
				mq = qkey{K: "i", I: 1}
			default:
				mq = qkey{K: "s", S: "a"}
			}
			if cur.kind != kStruct && g.k[fFieldNonStruct] {
				excl(fFieldNonStruct)
			}
			w.keys = append(w.keys, mq)
			w.mismatch = true
			spell = false
			break
		}
		if cur.kind == kScalar {
			break
		}
		w.keys = append(w.keys, q)
		if rn != nil {
			if rn.star != nil {
				rn = rn.star
			} else {
				rn = rn.kids[q.key()]
			}
		}
		if end {
			break
		}
		cur = next
	}
	if spell {
		w.path = b.String()
	}
	return w
}

type skipFacts struct{ typedefs, negIDs, starNested bool }

func starNested(paths [][]pstep) bool {
	for _, p := range paths {
		for i := 0; i+1 < len(p); i++ {
			if p[i].star && p[i].kind != 0 && p[i+1].kind != 0 {
				return true
			}
		}
	}
	return false
}

func judgeSkips(k knownSet, f skipFacts) []string {
	typedefs, negIDs := f.typedefs, f.negIDs
	var s []string
	for _, id := range []string{fForEachNil, fForEachEmpty, fFieldNonStruct} {
		if k[id] {
			s = append(s, id)
		}
	}
	if k[fStringTypedef] && typedefs {
		excl(fStringTypedef)
		s = append(s, skipString)
	} else if k[fNegID] && negIDs {
		excl(fNegID)
		s = append(s, skipString)
	} else if k[fStringNested] && f.starNested {
		excl(fStringNested)
		s = append(s, skipString)
	}
	return s
}

func throughTypedef(sc *schema, root shape, steps []pstep) bool {
	cur := root
	for _, s := range steps {
		if cur.td {
			return true
		}
		cur = stepShape(sc, cur, s)
	}
	return false
}

// expand splits every multi-key step: `$.a[1,2].x` -> `$.a[1].x`, `$.a[2].x`.
func expand(steps []pstep) [][]pstep {
	out := [][]pstep{nil}
	for _, s := range steps {
		var alts []pstep
		switch {
		case s.star || s.kind == 0:
			alts = []pstep{s}
		case s.isStr:
			for _, v := range s.strs {
				alts = append(alts, pstep{kind: s.kind, isStr: true, strs: []string{v}})
			}
		default:
			for _, v := range s.ints {
				alts = append(alts, pstep{kind: s.kind, ints: []int{v}, pad: s.pad})
			}
		}
		var nout [][]pstep
		for _, p := range out {
			for _, a := range alts {
				nout = append(nout, append(append([]pstep{}, p...), a))
			}
		}
		out = nout
		if len(out) > 24 {
			return [][]pstep{steps} // too many combinations: keep the path grouped
		}
	}
	return out
}

func genMaskCase(rt *rapid.T) (maskCase, pathStats) {
	k := known()
	sc := genSchema(rt)
	g := &pgen{rt: rt, sc: sc, k: k, root: shape{kind: kStruct, st: sc.structs[0]}}
	c := maskCase{IDL: sc.render(), Root: sc.structs[0].name, Mode: "valid"}
	c.Black = rapid.Bool().Draw(rt, "black")
	c.Cached = rapid.IntRange(0, 3).Draw(rt, "cached") == 0
	modeSel := rapid.IntRange(0, 9).Draw(rt, "mode")
	allowConflict := modeSel == 6
	wantInvalid := modeSel >= 7
	allowStructStar := rapid.IntRange(0, 7).Draw(rt, "allow_struct_star") == 0
	var st pathStats

	root := newRnode(kStruct)
	any := false
	np := rapid.IntRange(0, 7).Draw(rt, "npaths")
	if np == 0 && rapid.IntRange(0, 3).Draw(rt, "really_empty") > 0 {
		np = 1
	}
	if np == 0 && k[fEmptyRoundTrip] {
		excl(fEmptyRoundTrip)
		np = 1
	}
	conflict := false
	for i := 0; i < np; i++ {
		var steps []pstep
		if !c.Black && rapid.IntRange(0, 39).Draw(rt, "bare_root") == 0 {
			steps = nil
		} else {
			steps = g.genPath(rapid.IntRange(1, 6).Draw(rt, "maxdepth"), allowStructStar, true)
			if len(steps) == 0 {
				continue
			}
		}
		if root.conflicts(steps) {
			if !allowConflict {
				continue
			}
			conflict = true
		} else {
			root.insert(sc, g.root, steps)
			any = true
		}
		g.paths = append(g.paths, steps)
		st.add(sc, g.root, steps)
	}
	if len(g.paths) == 0 && k[fEmptyRoundTrip] {
		// every draw was dropped: fall back to the first usable field of the root
		if fs := g.usableFields(sc.structs[0]); len(fs) > 0 {
			steps := []pstep{{kind: 0, fld: fs[0]}}
			root.insert(sc, g.root, steps)
			any = true
			g.paths = append(g.paths, steps)
			st.add(sc, g.root, steps)
		}
	}
	for _, p := range g.paths {
		c.Paths = append(c.Paths, renderPath(p))
	}
	c.Skip = judgeSkips(k, skipFacts{st.reachTD || (st.structStar && len(sc.typedefs) > 0), len(sc.negNames()) > 0, starNested(g.paths)})
	switch {
	case conflict:
		c.Mode = "conflict"
	case st.structStar:
		// '.*' on a struct is not in the README's syntax table: no exact oracle
		c.Mode = "struct_star"
	}
	var ref *rnode
	if any {
		ref = root
	}
	c.Exact = c.Mode == "valid" && !(c.Black && st.trailStar)

	if wantInvalid && c.Mode == "valid" && rapid.IntRange(0, 3).Draw(rt, "conflict_after_star") == 0 {
		// a specific key after a '*' (or after a path that ends) at the same position,
		// in this order, is the documented conflict error (fieldmask/api_test.go TestErrors)
		want := rapid.SampledFrom([]int{kStruct, kList, kIntMap, kStrMap}).Draw(rt, "conflict_at")
		var cands [][]pstep
		for _, p := range g.reach(want) {
			if len(p) > 0 {
				cands = append(cands, p)
			}
		}
		if len(cands) > 0 {
			prefix := rapid.SampledFrom(cands).Draw(rt, "conflict_prefix")
			cur := g.shapeAfter(prefix)
			if spec, ok := g.step(cur, false, false); ok {
				a := append([]pstep{}, prefix...)
				if want != kStruct && rapid.Bool().Draw(rt, "explicit_star") {
					a = append(a, pstep{kind: spec.kind, star: true})
				}
				b := append(append([]pstep{}, prefix...), spec)
				c.Paths = []string{renderPath(a), renderPath(b)}
				c.Mode = "invalid:conflict_specific_after_star"
				c.Exact = false
				st = pathStats{}
				st.add(sc, g.root, a)
				st.add(sc, g.root, b)
				return c, st
			}
		}
	}
	if wantInvalid && c.Mode == "valid" {
		if bad, class := g.genInvalid(); bad != "" {
			pos := rapid.IntRange(0, len(c.Paths)).Draw(rt, "bad_pos")
			c.Paths = append(c.Paths[:pos:pos], append([]string{bad}, c.Paths[pos:]...)...)
			c.Mode = "invalid:" + class
			c.Exact = false
			return c, st
		}
	}

	// the same set, regrouped and permuted
	if c.Mode == "valid" {
		var alt []string
		for _, p := range g.paths {
			if rapid.Bool().Draw(rt, "split") {
				for _, e := range expand(p) {
					alt = append(alt, renderPath(e))
				}
			} else {
				alt = append(alt, renderPath(p))
			}
		}
		if len(alt) > 1 {
			alt = rapid.Permutation(alt).Draw(rt, "perm")
		}
		if alt == nil {
			alt = []string{}
		}
		c.Alt = alt
	}

	// queries
	re := ref.exp(1)
	if ref == nil {
		re = stepExp{Pass: 1}
	}
	c.RootExp = &re
	nw := rapid.IntRange(1, 6).Draw(rt, "nwalks")
	for i := 0; i < nw; i++ {
		w := g.genWalk(ref)
		if len(w.keys) == 0 {
			continue
		}
		exp := walkRef(ref, w.keys, c.Black)
		if w.mismatch {
			exp[len(exp)-1] = stepExp{Pass: -1}
		}
		c.Walks = append(c.Walks, walkQ{Keys: w.keys, Exp: exp})
		if w.path != "" {
			q := pathQ{Path: w.path, Exp: pathVerdict(exp)}
			if ref == nil {
				// README: "A empty mask means PASS ALL", yet no path is "in" an empty
				// mask: PathInMask on the empty mask is not asserted either way
				q.Exp = -1
			}
			if w.throughTD && k[fTypedefPath] {
				q.Exp = -1
				excl(fTypedefPath)
			}
			c.PathQs = append(c.PathQs, q)
		}
	}
	for i, p := range g.paths {
		hasStructStar := false
		for _, s := range p {
			hasStructStar = hasStructStar || (s.star && s.kind == 0)
		}
		if hasStructStar && k[fGetPathStar] {
			excl(fGetPathStar)
			continue
		}
		q := pathQ{Path: c.Paths[i], Exp: 1}
		if c.Black {
			q.Exp = 0
		}
		if len(p) == 0 || p[len(p)-1].star || hasStructStar {
			q.Exp = -1
		}
		if throughTypedef(sc, g.root, p) && k[fTypedefPath] {
			q.Exp = -1
			excl(fTypedefPath)
		}
		c.PathQs = append(c.PathQs, q)
	}
	return c, st
}

// reach lists a few valid paths that end at a value of the wanted shape kind.
func (g *pgen) reach(want int) [][]pstep {
	var out [][]pstep
	var rec func(cur shape, steps []pstep, depth int)
	rec = func(cur shape, steps []pstep, depth int) {
		if len(out) >= 8 {
			return
		}
		if cur.kind == want {
			out = append(out, append([]pstep{}, steps...))
		}
		if depth == 0 {
			return
		}
		var s pstep
		switch cur.kind {
		case kStruct:
			for _, f := range g.usableFields(cur.st) {
				s = pstep{kind: 0, fld: f}
				rec(stepShape(g.sc, cur, s), append(steps, s), depth-1)
			}
			return
		case kList:
			s = pstep{kind: 1, ints: []int{0}}
		case kIntMap:
			s = pstep{kind: 2, ints: []int{1}}
		case kStrMap:
			s = pstep{kind: 2, isStr: true, strs: []string{"a"}}
		case kScalarMap:
			s = pstep{kind: 2, star: true}
		default:
			return
		}
		rec(stepShape(g.sc, cur, s), append(steps, s), depth-1)
	}
	rec(g.root, nil, 4)
	return out
}

// genInvalid builds one path of a class that must be rejected.  Alternatives
// behind a known finding are drawn like the others and then counted as excluded.
func (g *pgen) genInvalid() (string, string) {
	// aim the prefix at a value of a drawn kind so that every class gets its share
	want := rapid.IntRange(0, 5).Draw(g.rt, "bad_at_kind")
	var steps []pstep
	if cands := g.reach(want); len(cands) > 0 && rapid.IntRange(0, 3).Draw(g.rt, "bad_aimed") > 0 {
		steps = rapid.SampledFrom(cands).Draw(g.rt, "bad_prefix")
	} else {
		steps = g.genPath(rapid.IntRange(0, 4).Draw(g.rt, "bad_depth"), false, false)
	}
	cur := g.shapeAfter(steps)
	base := renderPath(steps)
	type alt struct{ class, path, fid string }
	var alts []alt
	add := func(class, tail string) { alts = append(alts, alt{class, base + tail, ""}) }
	addF := func(fid, class, tail string) { alts = append(alts, alt{class, base + tail, fid}) }
	isMap := cur.kind == kIntMap || cur.kind == kStrMap || cur.kind == kScalarMap
	switch cur.kind {
	case kStruct:
		add("unknown_field_name", ".nope")
		for _, id := range []int{11, 66, 129, 31000, math.MaxInt32} {
			if fieldByID(cur.st, id) == nil {
				add("unknown_field_id", "."+strconv.Itoa(id))
				break
			}
		}
		if fs := g.usableFields(cur.st); len(fs) > 0 {
			add("malformed_double_dot", ".."+fs[0].name)
			add("malformed_space", ". "+fs[0].name)
			add("malformed_stray_close", "."+fs[0].name+"]")
			add("malformed_stray_close", "."+fs[0].name+"}")
		}
	default:
		add("wrong_kind_field", ".a")
	}
	if cur.kind != kList {
		add("wrong_kind_index", "[1]")
		add("wrong_kind_index", "[*]")
	} else {
		add("malformed_empty_index", "[]")
		add("malformed_garbage_after_bracket", "[1]x")
		add("malformed_stray_close", "[1]]")
		for _, t := range []string{"[a]", `["1"]`, "[-1]", "[1.5]", "[1 ]"} {
			add("malformed_index_not_integer", t)
		}
		for _, t := range []string{"[1", "[1,", "[*"} {
			addF(fLenientList, "malformed_unclosed", t)
		}
		for _, t := range []string{"[1,,2]", "[,1]", "[,]", "[1,]"} {
			addF(fLenientList, "malformed_empty_element", t)
		}
		addF(fLenientList, "malformed_star_mixed", "[1,*]")
	}
	if !isMap {
		add("wrong_kind_key", "{1}")
		add("wrong_kind_key", `{"a"}`)
		add("wrong_kind_key", "{*}")
	} else {
		add("malformed_empty_key", "{}")
		add("malformed_bare_key", "{a}")
		add("malformed_garbage_after_bracket", "{*}x")
		addF(fLenientList, "malformed_unclosed", "{*")
	}
	switch cur.kind {
	case kStrMap:
		add("key_kind_int_on_strmap", "{1}")
		add("key_kind_int_on_strmap", `{"a",1}`)
		addF(fBadQuote, "malformed_unterminated_quote", `{"a}`)
		addF(fBadQuote, "malformed_unterminated_quote", `{"a`)
		addF(fLenientList, "malformed_unclosed", `{"a"`)
		addF(fLenientList, "malformed_missing_comma", `{"a""b"}`)
	case kIntMap:
		add("key_kind_str_on_intmap", `{"a"}`)
		add("key_kind_str_on_intmap", `{1,"a"}`)
		addF(fLenientList, "malformed_unclosed", "{1")
	case kScalarMap:
		add("key_on_other_keyed_map", "{1}")
		add("key_on_other_keyed_map", `{"a"}`)
	}
	add("malformed_trailing_dot", ".")
	alts = append(alts, alt{"malformed_no_root", strings.TrimPrefix(base, "$"), fLenientRoot})
	alts = append(alts, alt{"malformed_double_root", "$" + base, fLenientRoot})
	if len(steps) > 0 {
		alts = append(alts, alt{"malformed_root_inside", base + "$", fLenientRoot})
		alts = append(alts, alt{"malformed_no_root_name", strings.TrimPrefix(base, "$."), ""})
	}
	// class first, then one spelling of it
	var classes []string
	for _, a := range alts {
		if !has(classes, a.class) {
			classes = append(classes, a.class)
		}
	}
	for _, c := range append([]string{}, classes...) {
		if strings.HasPrefix(c, "key_") || strings.HasPrefix(c, "unknown_") {
			classes = append(classes, c, c, c) // the semantic classes get more weight than the spellings of "malformed"
		}
	}
	for try := 0; try < 4; try++ {
		class := rapid.SampledFrom(classes).Draw(g.rt, "bad_class")
		var of []alt
		for _, a := range alts {
			if a.class == class {
				of = append(of, a)
			}
		}
		a := rapid.SampledFrom(of).Draw(g.rt, "bad")
		if a.fid != "" && g.k[a.fid] {
			excl(a.fid)
			continue
		}
		return a.path, a.class
	}
	return base + ".", "malformed_trailing_dot"
}

// ---------- soup ----------

var soupTokens = []string{
	"$", ".", "[", "]", "{", "}", ",", "*", "\"", "\\", "\\\"", " ", "-",
	"0", "1", "2", "63", "64", "007", "2147483647", "2147483648", "3000000000", "9223372036854775807", "9223372036854775808", "99999999999999999999", "123456789012345678901234567890",
	"a", "b", "x", "nope", "Foo", "_u", "1a", "a1", "é",
	`"a"`, `""`, `"q\"t"`, `"b\\s"`, `"a`, `a"`, `"\`, `"\x"`, `"é"`, "\"\a\"", `"a","b"`,
	"[*]", "{*}", ".*", "[1]", "[1,2]", "{1}", `{"a"}`, "[]", "{}", "[,]",
}

// lexShapes scans a path the way the library's tokenizer would and reports the
// shapes known findings are about (an over-approximation: the library stops
// at its first error, this scan does not).
func knownPathShape(p string, k knownSet, negNames ...string) string {
	if p == "" && k[fEmptyRoundTrip] {
		return fEmptyRoundTrip
	}
	seps := `$.[]{},*"\`
	pos := 0
	prevDot := false
	for pos < len(p) {
		c := p[pos]
		switch {
		case c == '"':
			i := pos
			open := false
		scan:
			for ; i < len(p); i++ {
				switch p[i] {
				case '\\':
					i++
				case '"':
					open = !open
					if !open {
						i++
						break scan
					}
				}
			}
			if i > len(p) {
				// a backslash as the very last byte of an open quote: the library slices
				// past the end before it ever unquotes
				if k[fQuoteEOF] {
					return fQuoteEOF
				}
				return ""
			}
			v, err := strconv.Unquote(p[pos:i])
			if err != nil {
				if k[fBadQuote] {
					return fBadQuote
				}
			} else if k[fStrKeyJSON] && !json.Valid([]byte(strconv.Quote(v))) {
				return fStrKeyJSON
			} else if k[fStrKeyUTF8] && !utf8.ValidString(v) {
				return fStrKeyUTF8
			}
			pos = i
			prevDot = false
		case strings.IndexByte(seps, c) >= 0:
			if c == '$' && pos > 0 && k[fLenientRoot] {
				return fLenientRoot
			}
			pos++
			prevDot = c == '.'
		default:
			i := pos
			isInt := true
			for ; i < len(p) && strings.IndexByte(seps, p[i]) < 0; i++ {
				if p[i] < '0' || p[i] > '9' {
					isInt = false
				}
			}
			tok := p[pos:i]
			if isInt {
				v, err := strconv.Atoi(tok)
				if err != nil && k[fAtoi] {
					return fAtoi
				}
				if err == nil && prevDot && v > math.MaxInt32 && k[fInt32] {
					return fInt32
				}
			} else if prevDot && k[fNegID] && has(negNames, tok) {
				return fNegID
			}
			pos = i
			prevDot = false
		}
	}
	return ""
}

func (s *schema) negNames() []string {
	var out []string
	for _, st := range s.structs {
		for _, f := range st.fields {
			if f.id < 0 {
				out = append(out, f.name)
			}
		}
	}
	return out
}

func genSoupCase(rt *rapid.T) maskCase {
	k := known()
	sc := genSchema(rt)
	g := &pgen{rt: rt, sc: sc, k: k, root: shape{kind: kStruct, st: sc.structs[0]}}
	c := maskCase{IDL: sc.render(), Root: sc.structs[0].name, Mode: "soup"}
	c.Black = rapid.Bool().Draw(rt, "black")
	c.Cached = rapid.IntRange(0, 7).Draw(rt, "cached") == 0
	var names []string
	for _, st := range sc.structs {
		for _, f := range st.fields {
			names = append(names, f.name, strconv.Itoa(f.id))
		}
	}
	neg := sc.negNames()
	tok := func() string {
		if len(names) > 0 && rapid.IntRange(0, 3).Draw(rt, "name_tok") == 0 {
			return rapid.SampledFrom(names).Draw(rt, "name")
		}
		return rapid.SampledFrom(soupTokens).Draw(rt, "tok")
	}
	np := rapid.IntRange(1, 4).Draw(rt, "npaths")
	for i := 0; i < np; i++ {
		var p string
		switch rapid.IntRange(0, 3).Draw(rt, "soup_kind") {
		case 0: // raw bytes over the alphabet
			bs := rapid.SliceOfN(rapid.SampledFrom([]byte(`$.[]{},*"\019aZ_ -`)), 1, 24).Draw(rt, "bytes")
			p = string(bs)
		case 1: // token soup, rooted
			var b strings.Builder
			if rapid.IntRange(0, 9).Draw(rt, "rooted") > 0 {
				b.WriteString("$")
			}
			n := rapid.IntRange(0, 10).Draw(rt, "ntok")
			for j := 0; j < n; j++ {
				b.WriteString(tok())
			}
			p = b.String()
		default: // a valid path with a few edits
			bs := []byte(renderPath(g.genPath(rapid.IntRange(1, 5).Draw(rt, "maxdepth"), true, true)))
			ne := rapid.IntRange(0, 3).Draw(rt, "nedits")
			for e := 0; e < ne && len(bs) > 0; e++ {
				pos := rapid.IntRange(0, len(bs)-1).Draw(rt, "pos")
				switch rapid.IntRange(0, 3).Draw(rt, "edit") {
				case 0:
					bs = append(bs[:pos:pos], bs[pos+1:]...)
				case 1:
					bs = append(bs[:pos:pos], append([]byte(tok()), bs[pos:]...)...)
				case 2:
					bs = bs[:pos]
				default:
					bs = append(bs, tok()...)
				}
			}
			p = string(bs)
		}
		if id := knownPathShape(p, k, neg...); id == fLenientRoot {
			// remove exactly the excluded shape: '$' after the first byte
			excl(id)
			p = p[:1] + strings.ReplaceAll(p[1:], "$", "")
		}
		if id := knownPathShape(p, k, neg...); id != "" {
			excl(id)
			continue
		}
		c.Paths = append(c.Paths, p)
		if !(k[fGetPathStar] && strings.Contains(p, ".*")) {
			c.PathQs = append(c.PathQs, pathQ{Path: p, Exp: -1})
		}
	}
	if len(c.Paths) == 0 {
		c.Paths = []string{"$"}
	}
	c.Skip = judgeSkips(k, skipFacts{len(sc.typedefs) > 0, len(sc.negNames()) > 0, strings.Contains(strings.Join(c.Paths, ""), "*")})
	for i := 0; i < 2; i++ {
		if w := g.genWalk(nil); len(w.keys) > 0 {
			c.Walks = append(c.Walks, walkQ{Keys: w.keys})
		}
	}
	return c
}

// ---------- fixed schema of the native fuzz target ----------

func fuzzIDL(k knownSet) string {
	neg := "  -2: i32 neg,\n"
	if k[fNegID] {
		neg = ""
	}
	return `typedef list<i32> IL
typedef S2 TS
typedef i32 Int
enum E { A = 1, B = 2 }
struct S2 { 1: i32 x, 2: string y, 3: list<S2> r, 64: map<string,S2> m }
struct S {
  1: i32 a,
` + neg + `  3: list<i32> l,
  4: map<string,S2> m,
  5: map<i32,S2> im,
  6: S2 s,
  7: IL tl,
  8: TS ts,
  9: map<E,i32> em,
  10: map<double,S2> dm,
  11: list<S2> ls,
  12: map<Int,list<S2>> tm,
  100: i32 big,
  300: S2 huge,
  0: set<string> z,
}
`
}

func fuzzWalks(k knownSet) []walkQ {
	ws := []walkQ{
		{Keys: []qkey{{K: "f", I: 1}}},
		{Keys: []qkey{{K: "f", I: 3}, {K: "i", I: 1}}},
		{Keys: []qkey{{K: "f", I: 4}, {K: "s", S: "a"}, {K: "f", I: 3}, {K: "i", I: 2}, {K: "f", I: 1}}},
		{Keys: []qkey{{K: "f", I: 5}, {K: "i", I: 1}, {K: "f", I: 64}, {K: "s", S: ""}}},
		{Keys: []qkey{{K: "f", I: 6}, {K: "f", I: 2}}},
		{Keys: []qkey{{K: "f", I: 300}, {K: "f", I: 1}}},
		{Keys: []qkey{{K: "f", I: 10}, {K: "i", I: 0}, {K: "f", I: 1}}},
		{Keys: []qkey{{K: "f", I: 0}, {K: "i", I: 0}}},
	}
	if !k[fNegID] {
		ws = append(ws, walkQ{Keys: []qkey{{K: "f", I: -2}}})
	}
	return ws
}

// ---------- JSON documents ----------

var jsonTokens = []string{
	"{", "}", "[", "]", ",", ":", `"path"`, `"type"`, `"is_black"`, `"children"`, `"$"`, `"*"`,
	`"Struct"`, `"List"`, `"StrMap"`, `"IntMap"`, `"Scalar"`, `"Invalid"`, `"Bogus"`, "true", "false", "null",
	"0", "1", "63", "64", "-1", "-64", "32768", "2147483647", "2147483648", "99999999999999999999", "1.5", "1e2", `"a"`, `""`, `"\u0000"`, " ",
}

var jsonTypes = []string{"Struct", "List", "StrMap", "IntMap", "Scalar", "Invalid", "Bogus", "struct"}

func knownDocShape(doc []byte, k knownSet) string {
	if k[fNegID] {
		for i := 0; i+1 < len(doc); i++ {
			if doc[i] == '-' && doc[i+1] >= '0' && doc[i+1] <= '9' {
				return fNegID
			}
		}
	}
	return ""
}

func genNode(rt *rapid.T, depth int, root bool) map[string]interface{} {
	n := map[string]interface{}{}
	pk := rapid.IntRange(0, 9).Draw(rt, "pathkind")
	switch {
	case root && pk > 0:
		n["path"] = "$"
	case pk <= 3:
		n["path"] = rapid.SampledFrom([]int{0, 1, 2, 63, 64, 65, 300, 32767, -1, -70000, 1 << 31, 1 << 40}).Draw(rt, "ipath")
	case pk <= 5:
		n["path"] = rapid.SampledFrom([]string{"a", "b", "", "*", "$", "1"}).Draw(rt, "spath")
	case pk == 6:
		n["path"] = "*"
	case pk == 7:
		n["path"] = rapid.SampledFrom([]interface{}{1.5, nil, true, []interface{}{}, map[string]interface{}{}}).Draw(rt, "opath")
	case pk == 8:
		// no path at all
	default:
		n["path"] = "$"
	}
	if rapid.IntRange(0, 11).Draw(rt, "notype") > 0 {
		n["type"] = rapid.SampledFrom(jsonTypes).Draw(rt, "type")
	}
	switch rapid.IntRange(0, 5).Draw(rt, "black") {
	case 0:
		n["is_black"] = true
	case 1:
		n["is_black"] = false
	case 2:
		n["is_black"] = rapid.SampledFrom([]interface{}{nil, 1, "true"}).Draw(rt, "oblack")
	}
	if depth < 4 {
		switch rapid.IntRange(0, 5).Draw(rt, "kids") {
		case 0, 1, 2:
			nk := rapid.IntRange(0, 3).Draw(rt, "nkids")
			kids := make([]interface{}, 0, nk)
			for i := 0; i < nk; i++ {
				kids = append(kids, genNode(rt, depth+1, false))
			}
			n["children"] = kids
		case 3:
			n["children"] = rapid.SampledFrom([]interface{}{nil, 1, "x", map[string]interface{}{}, []interface{}{nil}, []interface{}{1}}).Draw(rt, "okids")
		}
	}
	return n
}

func genJSONCase(rt *rapid.T) jsonCase {
	k := known()
	c := jsonCase{Skip: judgeSkips(k, skipFacts{})}
	tok := func() string { return rapid.SampledFrom(jsonTokens).Draw(rt, "jtok") }
	switch rapid.IntRange(0, 9).Draw(rt, "json_class") {
	case 0:
		c.Class = "bytes"
		c.Doc = rapid.SliceOfN(rapid.Byte(), 0, 120).Draw(rt, "bytes")
	case 1, 2:
		c.Class = "token_soup"
		var b strings.Builder
		n := rapid.IntRange(0, 40).Draw(rt, "ntok")
		for i := 0; i < n; i++ {
			b.WriteString(tok())
		}
		c.Doc = []byte(b.String())
	case 3, 4, 5:
		c.Class = "schema_shaped"
		c.Doc, _ = json.Marshal(genNode(rt, 0, true))
	default:
		c.Class = "mutated_marshal"
		var base []byte
		// a real marshal of a mask built from the path grammar
		for try := 0; try < 3 && base == nil; try++ {
			mc, _ := genMaskCase(rt)
			if mc.Mode != "valid" && mc.Mode != "conflict" && mc.Mode != "struct_star" {
				continue
			}
			desc, err := descriptor(mc.IDL, mc.Root)
			if err != nil {
				continue
			}
			_ = guard("", func() {
				m, err := fieldmask.Options{BlackListMode: mc.Black}.NewFieldMask(desc, mc.Paths...)
				if err == nil {
					base, _ = m.MarshalJSON()
				}
			})
		}
		if base == nil {
			base = []byte(`{"path":"$","type":"Struct","is_black":false,"children":[{"path":1,"type":"StrMap","is_black":false,"children":[{"path":"a","type":"Struct","is_black":false}]},{"path":64,"type":"List","is_black":false,"children":[{"path":"*","type":"Scalar","is_black":false}]}]}`)
		}
		doc := append([]byte{}, base...)
		ne := rapid.IntRange(0, 3).Draw(rt, "nedits")
		for e := 0; e < ne && len(doc) > 0; e++ {
			switch rapid.IntRange(0, 6).Draw(rt, "edit") {
			case 0: // retype a node
				old := `"` + rapid.SampledFrom(jsonTypes[:5]).Draw(rt, "oldtype") + `"`
				nw := `"` + rapid.SampledFrom(jsonTypes).Draw(rt, "newtype") + `"`
				doc = replaceNth(doc, old, nw, rapid.IntRange(0, 5).Draw(rt, "nth"))
			case 1: // rewrite a path value
				old := rapid.SampledFrom([]string{`"path":"*"`, `"path":"$"`, `"path":0`, `"path":1`, `"path":2`, `"path":3`, `"path":"a"`, `"path":""`}).Draw(rt, "oldpath")
				nw := `"path":` + rapid.SampledFrom([]string{`"*"`, `"$"`, "0", "-1", "-32768", "63", "64", "2147483648", "1.5", `"a"`, "null", "[]", "99999999999999999999"}).Draw(rt, "newpath")
				doc = replaceNth(doc, old, nw, rapid.IntRange(0, 5).Draw(rt, "nth"))
			case 2: // drop a key name
				old := rapid.SampledFrom([]string{`"path":`, `"type":`, `"children":`, `"is_black":`}).Draw(rt, "key")
				doc = replaceNth(doc, old, `"x":`, rapid.IntRange(0, 5).Draw(rt, "nth"))
			case 3:
				pos := rapid.IntRange(0, len(doc)-1).Draw(rt, "pos")
				ln := rapid.IntRange(1, 10).Draw(rt, "len")
				if pos+ln > len(doc) {
					ln = len(doc) - pos
				}
				doc = append(doc[:pos:pos], doc[pos+ln:]...)
			case 4:
				pos := rapid.IntRange(0, len(doc)-1).Draw(rt, "pos")
				doc = append(doc[:pos:pos], append([]byte(tok()), doc[pos:]...)...)
			case 5:
				doc = doc[:rapid.IntRange(0, len(doc)-1).Draw(rt, "pos")]
			default:
				doc[rapid.IntRange(0, len(doc)-1).Draw(rt, "pos")] = rapid.Byte().Draw(rt, "b")
			}
		}
		c.Doc = doc
	}
	if id := knownDocShape(c.Doc, k); id != "" {
		excl(id)
		c.Doc = bytes.ReplaceAll(c.Doc, []byte("-"), []byte(""))
	}
	return c
}

func replaceNth(doc []byte, old, nw string, nth int) []byte {
	idx := -1
	from := 0
	for i := 0; i <= nth; i++ {
		j := bytes.Index(doc[from:], []byte(old))
		if j < 0 {
			break
		}
		idx = from + j
		from = idx + len(old)
	}
	if idx < 0 {
		return doc
	}
	out := append([]byte{}, doc[:idx]...)
	out = append(out, nw...)
	return append(out, doc[idx+len(old):]...)
}

var _ = fmt.Sprint
