#!/bin/bash
# tools/seedeval.sh <Cxx> <A|B|C|D> <check> [<check>...]
# Applies seeded change /tmp/seed/<Cxx>/OUT/patch<A|B|C|D>.diff in the scratch worktree
# /tmp/seed/<Cxx>/wt, runs the given checks' quick tier against that worktree
# (VERIF_REPO redirection), reverts, and prints one line per check.
# Evidence files are restored and replay files produced by the run are moved
# to /tmp/seed/<Cxx>/eval_<letter>/ so that /verif stays as committed.
set -u
root=${SEEDROOT:-/tmp/seed}
prop=$1; letter=$2; shift 2
wt=$root/$prop/wt
out=$root/$prop/eval_$letter
mkdir -p "$out"
cd /verif || exit 2
patch=$root/$prop/OUT/patch$letter.diff
[ -f "$patch" ] || patch=/verif/seeded/$prop$letter/patch.diff
if [ ! -d "$wt" ]; then git -C /repo worktree add -q --detach "$wt" HEAD || exit 2; fi
git -C "$wt" checkout -q -- . || exit 2
# evaluate on top of the current /repo HEAD (fix: commits made after the seed was written must be present)
git -C "$wt" checkout -q --detach "$(git -C /repo rev-parse HEAD)" || exit 2
git -C "$wt" apply "$patch" || { echo "cannot apply"; exit 2; }
for chk in "$@"; do
  before=$(ls replay/$chk 2>/dev/null | sort)
  VERIF_REPO=$wt VERIF_REPO_DIR=$wt ./run.sh "$chk" quick > "$out/$chk.log" 2>&1
  code=$?
  nviol=$(grep -c '^VIOLATION' "$out/$chk.log")
  echo "seed $prop$letter check $chk: exit=$code violations=$nviol $(grep -m1 '^VIOLATION' "$out/$chk.log" | cut -c1-120)"
  # move new replay files away
  for f in $(ls replay/$chk 2>/dev/null); do
    if ! echo "$before" | grep -qx "$f"; then mkdir -p "$out/replay_$chk"; mv "replay/$chk/$f" "$out/replay_$chk/"; fi
  done
  git checkout -q -- "evidence/$chk.json" 2>/dev/null
done
git -C "$wt" checkout -q -- .
# remove the scratch worktree with its build output when asked to (SEED_CLEAN=1)
if [ "${SEED_CLEAN:-0}" = 1 ]; then git -C /repo worktree remove --force "$wt"; rm -rf "/verif/.build/alt-$(echo "$wt" | tr -cd 'A-Za-z0-9')"; fi
