package c14

// Schema model: a small generator of Thrift struct schemas (as IDL text) and
// the resolved "shape" of every type as the field-mask library sees it.

import (
	"fmt"
	"strings"

	"pgregory.net/rapid"

	"verif/internal/vt"
)

const (
	tBase = iota
	tList
	tSet
	tMap
	tStruct
	tEnum
	tTypedef
)

type ty struct {
	kind     int
	name     string // base name, struct / enum / typedef name
	key, val *ty
}

func (t *ty) String() string {
	switch t.kind {
	case tList:
		return "list<" + t.val.String() + ">"
	case tSet:
		return "set<" + t.val.String() + ">"
	case tMap:
		return "map<" + t.key.String() + "," + t.val.String() + ">"
	default:
		return t.name
	}
}

type field struct {
	id   int
	name string
	req  string
	ty   *ty
}

type strct struct {
	name   string
	fields []*field
}

type tdef struct {
	name string
	ty   *ty
}

type schema struct {
	structs  []*strct
	enums    []string
	typedefs []*tdef
}

func (s *schema) structByName(n string) *strct {
	for _, st := range s.structs {
		if st.name == n {
			return st
		}
	}
	return nil
}

func (s *schema) typedefByName(n string) *tdef {
	for _, t := range s.typedefs {
		if t.name == n {
			return t
		}
	}
	return nil
}

func (s *schema) render() string {
	var b strings.Builder
	b.WriteString("namespace go c14\n")
	for _, e := range s.enums {
		fmt.Fprintf(&b, "enum %s { A = 1, B = 2, C = 5 }\n", e)
	}
	for _, t := range s.typedefs {
		fmt.Fprintf(&b, "typedef %s %s\n", t.ty.String(), t.name)
	}
	for _, st := range s.structs {
		fmt.Fprintf(&b, "struct %s {\n", st.name)
		for _, f := range st.fields {
			req := f.req
			if req != "" {
				req += " "
			}
			fmt.Fprintf(&b, "  %d: %s%s %s,\n", f.id, req, f.ty.String(), f.name)
		}
		b.WriteString("}\n")
	}
	return b.String()
}

// shape kinds: how the library classifies a (typedef-unwrapped) type
const (
	kScalar = iota
	kStruct
	kList
	kIntMap
	kStrMap
	kScalarMap // map whose key is neither integer-like nor string-like: only '*' is allowed
)

var ftName = map[int]string{kScalar: "Scalar", kStruct: "Struct", kList: "List", kIntMap: "IntMap", kStrMap: "StrMap", kScalarMap: "Scalar"}

type shape struct {
	kind int
	st   *strct
	elem *ty  // list element / map value
	td   bool // reached through a typedef
}

func (s *schema) unwrap(t *ty) (*ty, bool) {
	td := false
	for t.kind == tTypedef {
		t = s.typedefByName(t.name).ty
		td = true
	}
	return t, td
}

func (s *schema) resolve(t *ty) shape {
	u, td := s.unwrap(t)
	switch u.kind {
	case tStruct:
		return shape{kind: kStruct, st: s.structByName(u.name), td: td}
	case tList, tSet:
		return shape{kind: kList, elem: u.val, td: td}
	case tMap:
		k, _ := s.unwrap(u.key)
		kind := kScalarMap
		switch {
		case k.kind == tEnum:
			kind = kIntMap
		case k.kind == tBase:
			switch k.name {
			case "i8", "i16", "i32", "i64", "byte":
				kind = kIntMap
			case "string", "binary":
				kind = kStrMap
			}
		}
		return shape{kind: kind, elem: u.val, td: td}
	default:
		return shape{kind: kScalar, td: td}
	}
}

var (
	basePool   = []string{"bool", "byte", "i8", "i16", "i32", "i64", "double", "string", "binary"}
	idPool     = []int{0, 1, 2, 3, 4, 5, 6, 7, 8, 9, 10, 62, 63, 64, 65, 127, 128, 255, 256, 1000, 30000, 32767}
	negIDPool  = []int{-1, -2, -5, -64, -32768}
	namePool   = []string{"a", "b", "c", "d", "Foo", "bar_2", "x9", "_u", "LogID", "e", "l0", "m_", "Zz", "k1"}
	reqPool    = []string{"", "", "optional", "required"}
	structName = []string{"S0", "S1", "S2", "S3"}
)

type sgen struct {
	rt *rapid.T
	s  *schema
}

func (g *sgen) keyTy(ntd int) *ty {
	switch rapid.IntRange(0, 11).Draw(g.rt, "keykind") {
	case 0:
		return &ty{kind: tBase, name: "i32"}
	case 1:
		return &ty{kind: tBase, name: "i64"}
	case 2:
		return &ty{kind: tBase, name: rapid.SampledFrom([]string{"i8", "i16", "byte"}).Draw(g.rt, "ik")}
	case 3, 4:
		return &ty{kind: tBase, name: "string"}
	case 5:
		return &ty{kind: tBase, name: "binary"}
	case 6:
		return &ty{kind: tBase, name: rapid.SampledFrom([]string{"double", "bool"}).Draw(g.rt, "sk")}
	case 7:
		if len(g.s.enums) > 0 {
			return &ty{kind: tEnum, name: g.s.enums[0]}
		}
		return &ty{kind: tBase, name: "i16"}
	case 8:
		return &ty{kind: tStruct, name: rapid.SampledFrom(g.s.structs).Draw(g.rt, "kst").name}
	default:
		if ntd > 0 {
			return &ty{kind: tTypedef, name: g.s.typedefs[rapid.IntRange(0, ntd-1).Draw(g.rt, "ktd")].name}
		}
		return &ty{kind: tBase, name: "string"}
	}
}

// genTy draws a type expression; typedefs with index < ntd may be referenced.
func (g *sgen) genTy(depth, ntd int) *ty {
	k := rapid.IntRange(0, 15).Draw(g.rt, "tykind")
	if depth >= 2 && k >= 4 && k <= 11 {
		k = 0
	}
	switch {
	case k <= 1:
		return &ty{kind: tBase, name: rapid.SampledFrom(basePool).Draw(g.rt, "base")}
	case k <= 3:
		return &ty{kind: tStruct, name: rapid.SampledFrom(g.s.structs).Draw(g.rt, "st").name}
	case k == 4 || k == 5:
		return &ty{kind: tList, val: g.genTy(depth+1, ntd)}
	case k == 6:
		return &ty{kind: tSet, val: g.genTy(depth+1, ntd)}
	case k >= 7 && k <= 11:
		return &ty{kind: tMap, key: g.keyTy(ntd), val: g.genTy(depth+1, ntd)}
	case k == 12:
		if len(g.s.enums) > 0 {
			return &ty{kind: tEnum, name: g.s.enums[0]}
		}
		return &ty{kind: tBase, name: "i32"}
	default:
		if ntd > 0 {
			return &ty{kind: tTypedef, name: g.s.typedefs[rapid.IntRange(0, ntd-1).Draw(g.rt, "td")].name}
		}
		return &ty{kind: tStruct, name: g.s.structs[0].name}
	}
}

func genSchema(rt *rapid.T) *schema {
	g := &sgen{rt: rt, s: &schema{}}
	ns := rapid.IntRange(1, 4).Draw(rt, "nstructs")
	for i := 0; i < ns; i++ {
		g.s.structs = append(g.s.structs, &strct{name: structName[i]})
	}
	if rapid.IntRange(0, 2).Draw(rt, "enum") > 0 {
		g.s.enums = []string{"E0"}
	}
	ntd := rapid.SampledFrom([]int{0, 0, 1, 2, 3}).Draw(rt, "ntypedefs")
	for i := 0; i < ntd; i++ {
		g.s.typedefs = append(g.s.typedefs, &tdef{name: fmt.Sprintf("T%d", i), ty: g.genTy(0, i)})
	}
	negOK := rapid.IntRange(0, 3).Draw(rt, "neg_ids") == 0
	for si, st := range g.s.structs {
		lo := 1
		if si > 0 && rapid.IntRange(0, 15).Draw(rt, "emptystruct") == 0 {
			lo = 0
		}
		nf := lo
		if lo > 0 {
			nf = rapid.IntRange(1, 6).Draw(rt, "nfields")
		}
		usedID, usedName := map[int]bool{}, map[string]bool{}
		for fi := 0; fi < nf; fi++ {
			var id int
			// the first field of every struct has a non-negative id so that a path can
			// always be built when negative ids are excluded by a known finding
			if fi > 0 && negOK && rapid.IntRange(0, 3).Draw(rt, "negid") == 0 {
				id = rapid.SampledFrom(negIDPool).Draw(rt, "nid")
			} else {
				id = rapid.SampledFrom(idPool).Draw(rt, "id")
			}
			name := rapid.SampledFrom(namePool).Draw(rt, "fname")
			if usedID[id] || usedName[name] {
				continue
			}
			usedID[id], usedName[name] = true, true
			st.fields = append(st.fields, &field{id: id, name: name, req: rapid.SampledFrom(reqPool).Draw(rt, "req"), ty: g.genTy(0, ntd)})
		}
	}
	return g.s
}

// knownSet caches the exclusion switches (findings listed as known).
type knownSet map[string]bool

var allFindingIDs = []string{
	fNegID, fAtoi, fQuoteEOF, fInt32, fBadQuote, fGetPathStar, fForEachNil, fForEachEmpty,
	fTypedefPath, fLenientRoot, fLenientList, fEmptyRoundTrip, fStrKeyJSON, fStringTypedef, fFieldNonStruct, fStringNested,
	fStrKeyUTF8,
}

func known() knownSet {
	k := knownSet{}
	for _, id := range allFindingIDs {
		if vt.Known(prop, id) {
			k[id] = true
		}
	}
	return k
}
