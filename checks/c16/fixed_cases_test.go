package c16

// Fixed programs: the repository's own trimmer test cases and a few
// hand-written ones.  The model is rebuilt from the parsed text by an
// independent converter (names and references only), so the same oracle
// (expect) and the same judge decide them.  This is how the reference closure
// was validated against the real trimmer before the random search was trusted.

import (
	"os"
	"path/filepath"
	"regexp"
	"strings"
	"testing"

	"github.com/cloudwego/thriftgo/parser"

	"verif/internal/idl"
	"verif/internal/vt"
)

func commentPreserves(c string) bool {
	for _, l := range strings.Split(c, "\n") {
		l = strings.TrimSpace(l)
		switch {
		case strings.HasPrefix(l, "//"):
			l = l[2:]
		case strings.HasPrefix(l, "#"):
			l = l[1:]
		default:
			continue
		}
		if strings.EqualFold(strings.TrimSpace(l), "@preserve") {
			return true
		}
	}
	return false
}

// toModel converts a parsed and resolved program into the model (only what the
// oracle reads: kinds, names, comments, type references, services).
func toModel(root *parser.Thrift) *idl.Program {
	p := &idl.Program{}
	files := map[*parser.Thrift]*idl.File{}
	var order []*parser.Thrift
	var walk func(t *parser.Thrift)
	walk = func(t *parser.Thrift) {
		if files[t] != nil {
			return
		}
		f := &idl.File{Index: len(p.Files), Path: t.Filename}
		files[t] = f
		p.Files = append(p.Files, f)
		order = append(order, t)
		for _, inc := range t.Includes {
			walk(inc.Reference)
		}
	}
	walk(root)
	byName := map[*idl.File]map[string]*idl.Def{}
	add := func(f *idl.File, d *idl.Def, comment string) *idl.Def {
		d.File = f
		if commentPreserves(comment) {
			d.Comment = "@preserve"
		}
		f.Defs = append(f.Defs, d)
		byName[f][d.Name] = d
		return d
	}
	for _, t := range order {
		f := files[t]
		byName[f] = map[string]*idl.Def{}
		for _, inc := range t.Includes {
			f.Includes = append(f.Includes, files[inc.Reference])
			f.IncludeLit = append(f.IncludeLit, inc.Path)
		}
		for _, x := range t.Typedefs {
			add(f, &idl.Def{Kind: idl.KTypedef, Name: x.Alias}, "")
		}
		for _, x := range t.Constants {
			add(f, &idl.Def{Kind: idl.KConst, Name: x.Name}, "")
		}
		for _, x := range t.Enums {
			add(f, &idl.Def{Kind: idl.KEnum, Name: x.Name}, "")
		}
		for _, x := range t.GetStructLikes() {
			k := idl.KStruct
			switch x.Category {
			case "union":
				k = idl.KUnion
			case "exception":
				k = idl.KException
			}
			add(f, &idl.Def{Kind: k, Name: x.Name}, x.ReservedComments)
		}
		for _, x := range t.Services {
			add(f, &idl.Def{Kind: idl.KService, Name: x.Name}, "")
		}
	}
	var typ func(t *parser.Thrift, x *parser.Type) *idl.Type
	typ = func(t *parser.Thrift, x *parser.Type) *idl.Type {
		if x == nil {
			return nil
		}
		if builtin[x.Name] {
			return &idl.Type{Base: x.Name, Key: typ(t, x.KeyType), Elem: typ(t, x.ValueType)}
		}
		if i := strings.LastIndex(x.Name, "."); i >= 0 {
			for _, inc := range t.Includes {
				if strings.TrimSuffix(filepath.Base(inc.Path), filepath.Ext(inc.Path)) == x.Name[:i] {
					if d := byName[files[inc.Reference]][x.Name[i+1:]]; d != nil {
						return &idl.Type{Ref: d}
					}
				}
			}
			panic("unresolved " + x.Name)
		}
		d := byName[files[t]][x.Name]
		if d == nil {
			panic("unresolved " + x.Name)
		}
		return &idl.Type{Ref: d}
	}
	fields := func(t *parser.Thrift, fs []*parser.Field) []*idl.Field {
		var out []*idl.Field
		for _, x := range fs {
			out = append(out, &idl.Field{ID: x.ID, Name: x.Name, Type: typ(t, x.Type)})
		}
		return out
	}
	for _, t := range order {
		f := files[t]
		for _, x := range t.Typedefs {
			byName[f][x.Alias].Type = typ(t, x.Type)
		}
		for _, x := range t.Constants {
			byName[f][x.Name].Type = typ(t, x.Type)
		}
		for _, x := range t.GetStructLikes() {
			byName[f][x.Name].Fields = fields(t, x.Fields)
		}
		for _, x := range t.Services {
			d := byName[f][x.Name]
			if x.Extends != "" {
				if i := strings.LastIndex(x.Extends, "."); i >= 0 {
					for _, inc := range t.Includes {
						if strings.TrimSuffix(filepath.Base(inc.Path), filepath.Ext(inc.Path)) == x.Extends[:i] {
							if b := byName[files[inc.Reference]][x.Extends[i+1:]]; b != nil && d.Extends == nil {
								d.Extends = b
							}
						}
					}
				} else {
					d.Extends = byName[f][x.Extends]
				}
			}
			for _, fn := range x.Functions {
				m := &idl.Func{Name: fn.Name, Args: fields(t, fn.Arguments), Throws: fields(t, fn.Throws)}
				if !fn.Void {
					m.Ret = typ(t, fn.FunctionType)
				}
				d.Funcs = append(d.Funcs, m)
			}
		}
	}
	return p
}

type fixedCase struct {
	name  string
	main  string
	files map[string]string
	args  trimArgs
	known string // id of the known finding this program is the shape of
}

func runFixed(t *testing.T, fc fixedCase) {
	ast, err := front(fc.main, fc.files)
	if err != nil {
		t.Fatalf("%s: %v", fc.name, err)
	}
	p := toModel(ast)
	// exact / unqualified names must be unambiguous (see header)
	cands := candidates(p)
	for _, m := range fc.args.Methods {
		if strings.HasPrefix(m, "^") {
			continue
		}
		full := m
		if !strings.Contains(m, ".") {
			full = p.Files[0].DefsOf(idl.KService)[0].Name + "." + m
		}
		re := regexp.MustCompile(full)
		for _, c := range cands {
			if c != full && re.MatchString(c) {
				t.Logf("%s: -m %s is ambiguous (%s), skipped", fc.name, m, c)
				return
			}
		}
	}
	exp, info, err := expect(p, fc.args)
	if err != nil {
		t.Fatalf("%s: %v", fc.name, err)
	}
	files := map[string]string{}
	for f := range allFiles(ast) {
		files[f] = fc.files[f]
	}
	for _, entry := range []string{"api", "bin"} {
		c := trimCase{Main: fc.main, Files: files, Args: fc.args, Entry: entry, Expect: exp}
		vt.Eval()
		vt.Class("fixed_program")
		vt.ClassIf(info.removed > 0, "fixed_program_something_removed")
		err := judge(c)
		switch {
		case err != nil && fc.known != "" && vt.Known(prop, fc.known):
			vt.Class("fixed_program_known_finding")
		case err != nil:
			vt.Fail(t, prop, "trim", c, "fixed program %s (%s): %v", fc.name, entry, err)
		}
	}
}

func TestRepoCases(t *testing.T) {
	root := filepath.Join(vt.Repo(), "tool", "trimmer", "test_cases")
	files := map[string]string{}
	filepath.Walk(root, func(p string, info os.FileInfo, err error) error {
		if err == nil && strings.HasSuffix(p, ".thrift") {
			b, _ := os.ReadFile(p)
			rel, _ := filepath.Rel(root, p)
			files[filepath.ToSlash(rel)] = string(b)
		}
		return nil
	})
	if len(files) < 10 {
		t.Fatalf("harness: only %d repository test cases found under %s", len(files), root)
	}
	no := false
	var cases []fixedCase
	for name := range files {
		cases = append(cases, fixedCase{name: name, main: name, files: files})
		cases = append(cases, fixedCase{name: name + " -p false", main: name, files: files, args: trimArgs{Preserve: &no}})
	}
	d2 := "tests/dir/dir2/test.thrift"
	cases = append(cases,
		fixedCase{name: d2 + " -m func1", main: d2, files: files, args: trimArgs{Methods: []string{"func1"}}},
		fixedCase{name: d2 + " config", main: d2, files: files, args: trimArgs{Methods: []string{"TestService.func1", "TestService.func3"}, Preserved: []string{"useless"}}},
		fixedCase{name: d2 + " anchored", main: d2, files: files, args: trimArgs{Methods: []string{`^TestService\.func(1|3)$`}}},
	)
	skipped := 0
	defer func() { t.Logf("%d of %d repository cases have no service in the main file and were skipped", skipped, len(cases)) }()
	for _, fc := range cases {
		ast, err := front(fc.main, fc.files)
		if err != nil {
			t.Logf("%s: not accepted by the front end, skipped: %v", fc.name, err)
			continue
		}
		if len(ast.Services) == 0 {
			// the property quantifies over programs with services; a file that loses everything is dumped
			// as an empty text, which the parser does not accept as a document
			skipped++
			continue
		}
		runFixed(t, fc)
	}
}

func TestHandWritten(t *testing.T) {
	no, yes := false, true
	cases := []fixedCase{
		{name: "typedef-and-container-in-other-file", main: "main.thrift", files: map[string]string{
			"main.thrift": "include \"a.thrift\"\nservice S { a.L get(1: a.T x) throws (1: a.X e) }\nstruct Unused {}\n",
			"a.thrift":    "include \"b.thrift\"\ntypedef list<b.Elem> L\ntypedef b.Target T\nexception X { 1: map<string, b.InMap> m }\nstruct Unused2 { 1: b.OnlyHere o }\n",
			"b.thrift":    "struct Elem {}\nstruct Target {}\nstruct InMap { 1: set<Deep> d }\nstruct Deep {}\nstruct OnlyHere {}\n",
		}},
		{name: "diamond", main: "main.thrift", files: map[string]string{
			"main.thrift": "include \"l.thrift\"\ninclude \"r.thrift\"\nservice S { l.L f(1: r.R x) }\n",
			"l.thrift":    "include \"base.thrift\"\nstruct L { 1: base.B b }\nstruct LU { 1: base.U u }\n",
			"r.thrift":    "include \"base.thrift\"\nstruct R { 1: optional base.B b }\n",
			"base.thrift": "struct B {}\nstruct U {}\n",
		}},
		{name: "base-service-in-other-file", main: "main.thrift", files: map[string]string{
			"main.thrift": "include \"inc.thrift\"\nservice A extends inc.B { void a() }\n",
			"inc.thrift":  "include \"deep.thrift\"\nstruct S1 {}\nstruct S2 {}\nservice B extends deep.C { S1 y() }\nservice Other { S2 o() }\n",
			"deep.thrift": "struct D {}\nstruct DU {}\nservice C { D c() }\n",
		}},
		{name: "base-service-same-include", known: "base-service-same-include", main: "main.thrift", files: map[string]string{
			"main.thrift": "include \"inc.thrift\"\nservice A extends inc.B { void a() }\n",
			"inc.thrift":  "service Base { void x() }\nservice B extends Base { void y() }\n",
		}},
		{name: "preserve-comment-and-list", main: "main.thrift", files: map[string]string{
			"main.thrift": "include \"inc.thrift\"\n// @preserve\nstruct P { 1: Q q }\nstruct Q {}\nstruct R {}\n# @Preserve\nunion U {}\nstruct Listed { 1: inc.FromList f }\nservice A { void a() }\n",
			"inc.thrift":  "struct FromList {}\nstruct Gone {}\n// @preserve\nexception Kept {}\n",
		}, args: trimArgs{Preserved: []string{"Listed"}}},
		{name: "preserve-off", main: "main.thrift", files: map[string]string{
			"main.thrift": "include \"inc.thrift\"\n// @preserve\nstruct P { 1: Q q }\nstruct Q {}\nstruct Listed { 1: inc.FromList f }\nservice A { void a() }\n",
			"inc.thrift":  "struct FromList {}\n// @preserve\nexception Kept {}\n",
		}, args: trimArgs{Preserved: []string{"Listed"}, Preserve: &no}},
		{name: "preserve-on", main: "main.thrift", files: map[string]string{
			"main.thrift": "// @preserve\nstruct P { 1: Q q }\nstruct Q {}\nstruct R {}\nservice A { void a() }\n",
		}, args: trimArgs{Preserve: &yes}},
		{name: "enum-only-include-and-empty-include", main: "main.thrift", files: map[string]string{
			"main.thrift": "include \"e.thrift\"\ninclude \"n.thrift\"\ninclude \"c.thrift\"\nservice A { void a() }\n",
			"e.thrift":    "enum E { X }\nstruct EU {}\n",
			"n.thrift":    "struct NU {}\n",
			"c.thrift":    "include \"n.thrift\"\nconst list<CT> C = []\nstruct CT {}\nstruct CU {}\n",
		}},
		{name: "m-inherited", main: "main.thrift", files: map[string]string{
			"main.thrift": "include \"inc.thrift\"\nstruct M1 {}\nstruct M2 {}\nservice A extends inc.B { M1 a() M2 a2() }\n",
			"inc.thrift":  "struct S1 {}\nstruct S2 {}\nservice Base { S1 x() }\nservice B extends Base { S2 y() void z() }\n",
		}, args: trimArgs{Methods: []string{"A.x", `^A\.a2$`}}},
		{name: "m-names-base", main: "main.thrift", files: map[string]string{
			"main.thrift": "include \"inc.thrift\"\nstruct M1 {}\nservice A extends inc.B { M1 a() }\nservice Z { M1 z() }\n",
			"inc.thrift":  "struct S1 {}\nstruct S2 {}\nservice B { S2 y() S1 z() }\n",
		}, args: trimArgs{Methods: []string{`^B\.y$`}}},
		{name: "m-own-only-extends-into-include", known: "m-cut-extends-include-kept", main: "main.thrift", files: map[string]string{
			"main.thrift": "include \"inc.thrift\"\nservice A extends inc.B { void a() }\n",
			"inc.thrift":  "service B { void y() }\n",
		}, args: trimArgs{Methods: []string{`^A\.a$`}}},
		{name: "m-shared-chain", known: "m-shared-base-extends-cut", main: "main.thrift", files: map[string]string{
			"main.thrift": "service C { void c() }\nservice B extends C { }\nservice S1 extends B { }\n",
		}, args: trimArgs{Methods: []string{`^S1\.c$`}}},
		{name: "m-unqualified", main: "main.thrift", files: map[string]string{
			"main.thrift": "struct M1 {}\nstruct M2 {}\nservice A { M1 first() M2 second() }\n",
		}, args: trimArgs{Methods: []string{"second"}}},
	}
	for _, fc := range cases {
		runFixed(t, fc)
	}
}
