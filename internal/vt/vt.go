// Package vt is the small support layer shared by every check package:
// run statistics (what the generators actually produced), replay files for
// failures, and the replay tier that re-runs saved inputs without rapid.
package vt

import (
	"encoding/binary"
	"encoding/json"
	"fmt"
	"hash/fnv"
	"os"
	"path/filepath"
	"sort"
	"strings"
	"sync"
	"testing"
)

// Root is the /verif directory (overridable for tests of the harness itself).
func Root() string {
	if r := os.Getenv("VERIF_ROOT"); r != "" {
		return r
	}
	return "/verif"
}

// Repo is the repository under test.
func Repo() string {
	// VERIF_REPO redirects the whole harness to another checkout (used only to
	// evaluate seeded changes in scratch worktrees; the registered commands use /repo)
	if r := os.Getenv("VERIF_REPO"); r != "" {
		return r
	}
	return "/repo"
}

// Thorough reports whether the run is the thorough tier.
func Thorough() bool { return os.Getenv("VERIF_TIER") == "thorough" }

// ShardSeed is the seed this process was started with (for file names only;
// rapid receives it through -rapid.seed).
func ShardSeed() string {
	if s := os.Getenv("VERIF_SHARD_SEED"); s != "" {
		return s
	}
	return "0"
}

type stats struct {
	mu          sync.Mutex
	Evaluations int64            `json:"evaluations"`
	Classes     map[string]int64 `json:"classes"`
	Samples     []interface{}    `json:"samples"`
	sampleSeen  int64
	nontrivial  map[uint64]struct{}
	Failures    []string `json:"failures"`
	Known       []string `json:"known"`
	Violations  []string `json:"violations"`
}

var st = &stats{Classes: map[string]int64{}, nontrivial: map[uint64]struct{}{}}

const maxSamples = 6

// Eval counts one executed case.
func Eval() {
	st.mu.Lock()
	st.Evaluations++
	st.mu.Unlock()
}

// Class adds one to a histogram bucket.
func Class(name string) { ClassN(name, 1) }

// ClassN adds n to a histogram bucket.
func ClassN(name string, n int64) {
	st.mu.Lock()
	st.Classes[name] += n
	st.mu.Unlock()
}

// ClassIf counts name when cond holds.
func ClassIf(cond bool, name string) {
	if cond {
		Class(name)
	}
}

// Nontrivial records a distinct non-trivial case, identified by key.
func Nontrivial(key string) {
	h := fnv.New64a()
	h.Write([]byte(key))
	st.mu.Lock()
	st.nontrivial[h.Sum64()] = struct{}{}
	st.mu.Unlock()
}

// Sample offers a case for the evidence samples (deterministic reservoir:
// keeps cases number 1, 2, 4, 8, ... so later, larger cases are represented).
func Sample(v interface{}) {
	st.mu.Lock()
	defer st.mu.Unlock()
	st.sampleSeen++
	n := st.sampleSeen
	if n&(n-1) != 0 { // not a power of two
		return
	}
	if len(st.Samples) < maxSamples {
		st.Samples = append(st.Samples, v)
	} else {
		copy(st.Samples, st.Samples[1:])
		st.Samples[maxSamples-1] = v
	}
}

var atExit []func()

// AtExit registers a cleanup that runs after the tests, before the process exits.
func AtExit(f func()) { atExit = append(atExit, f) }

// Main is the TestMain body of every check package.
func Main(m *testing.M) {
	os.RemoveAll("testdata/rapid")
	code := m.Run()
	for _, f := range atExit {
		f()
	}
	flush()
	os.Exit(code)
}

func flush() {
	out := os.Getenv("VERIF_OUT")
	if out == "" {
		return
	}
	os.MkdirAll(out, 0o755)
	st.mu.Lock()
	defer st.mu.Unlock()
	b, _ := json.Marshal(st)
	os.WriteFile(filepath.Join(out, "stats.json"), b, 0o644)
	hs := make([]uint64, 0, len(st.nontrivial))
	for h := range st.nontrivial {
		hs = append(hs, h)
	}
	sort.Slice(hs, func(i, j int) bool { return hs[i] < hs[j] })
	buf := make([]byte, 8*len(hs))
	for i, h := range hs {
		binary.LittleEndian.PutUint64(buf[8*i:], h)
	}
	os.WriteFile(filepath.Join(out, "hashes.bin"), buf, 0o644)
}

// Failure is the content of a replay file.
type Failure struct {
	Property string          `json:"property"`
	Test     string          `json:"test"`
	Seed     string          `json:"seed,omitempty"`
	Message  string          `json:"message"`
	Case     json.RawMessage `json:"case"`
}

// TB is the part of testing.TB / rapid.T the helpers need.
type TB interface {
	Fatalf(format string, args ...interface{})
	Logf(format string, args ...interface{})
}

// replayDir: saved failures of a property.  VERIF_SCRATCH redirects it (and the
// evidence file) so that the evaluation of a seeded change in a scratch
// worktree neither reads nor writes what runs against /repo itself use.
func replayDir(prop string) string {
	if d := os.Getenv("VERIF_SCRATCH"); d != "" {
		return filepath.Join(d, "replay", prop)
	}
	return filepath.Join(Root(), "replay", prop)
}

// Fail records the current case as a replay file and fails the test.  rapid
// re-runs the minimal case last, so the file left behind is the shrunk one.
func Fail(t TB, prop, test string, c interface{}, format string, args ...interface{}) {
	msg := fmt.Sprintf(format, args...)
	raw, err := json.MarshalIndent(c, "  ", " ")
	if err != nil {
		raw, _ = json.Marshal(fmt.Sprintf("unserialisable case: %v", err))
	}
	f := Failure{Property: prop, Test: test, Seed: ShardSeed(), Message: msg, Case: raw}
	b, _ := json.MarshalIndent(f, "", " ")
	dir := replayDir(prop)
	os.MkdirAll(dir, 0o755)
	p := filepath.Join(dir, fmt.Sprintf("%s-seed%s.json", test, ShardSeed()))
	os.WriteFile(p, b, 0o644)
	st.mu.Lock()
	found := false
	for _, x := range st.Failures {
		if x == p {
			found = true
		}
	}
	if !found {
		st.Failures = append(st.Failures, p)
	}
	st.mu.Unlock()
	t.Fatalf("%s/%s: %s (replay %s)", prop, test, msg, p)
}

// Finding is one entry of /verif/known_findings.json.
type Finding struct {
	Property string `json:"property"`
	Status   string `json:"status"` // "known" or "fixed"
	ID       string `json:"id"`     // short stable name; exclusion switches and witnesses refer to it
	What     string `json:"what"`
	Commit   string `json:"commit,omitempty"`
	Witness  string `json:"witness,omitempty"` // path relative to /verif
}

var (
	findingsOnce sync.Once
	findings     []Finding
)

// Findings loads known_findings.json (read-only, never written at run time).
func Findings() []Finding {
	findingsOnce.Do(func() {
		b, err := os.ReadFile(filepath.Join(Root(), "known_findings.json"))
		if err != nil {
			return
		}
		var doc struct {
			Findings []Finding `json:"findings"`
		}
		if err := json.Unmarshal(b, &doc); err != nil {
			panic("known_findings.json: " + err.Error())
		}
		findings = doc.Findings
		// per-property fragments known/<id>/findings.json (same format) are merged in
		frags, _ := filepath.Glob(filepath.Join(Root(), "known", "*", "findings.json"))
		sort.Strings(frags)
		for _, fp := range frags {
			fb, err := os.ReadFile(fp)
			if err != nil {
				continue
			}
			var fd struct {
				Findings []Finding `json:"findings"`
			}
			if err := json.Unmarshal(fb, &fd); err != nil {
				panic(fp + ": " + err.Error())
			}
			findings = append(findings, fd.Findings...)
		}
	})
	return findings
}

// Known reports whether a finding with this id is listed as known (not
// fixed) for the property; generators use it as their exclusion switch.
func Known(prop, id string) bool {
	for _, f := range Findings() {
		if f.Property == prop && f.ID == id && f.Status == "known" {
			return true
		}
	}
	return false
}

// Excluded counts a case (or part of one) left out because of a known finding.
func Excluded(id string) { Class("excluded_known:" + id) }

// Handler re-runs one saved case without the property library; it returns a
// non-nil error when the property is violated on that case.
type Handler func(raw json.RawMessage) error

// Replay is the body of every package's TestReplay: it re-runs the witnesses
// of listed findings and every saved failure under replay/<prop>/.
func Replay(t *testing.T, prop string, handlers map[string]Handler) {
	run := func(path string) (Failure, error, bool) {
		var f Failure
		b, err := os.ReadFile(path)
		if err != nil {
			t.Fatalf("replay: %v", err)
		}
		if err := json.Unmarshal(b, &f); err != nil {
			t.Fatalf("replay %s: %v", path, err)
		}
		h, ok := handlers[f.Test]
		if !ok {
			return f, nil, false
		}
		return f, safely(h, f.Case), true
	}
	witness := map[string]bool{}
	for _, fd := range Findings() {
		if fd.Property != prop || fd.Witness == "" {
			continue
		}
		p := filepath.Join(Root(), fd.Witness)
		witness[p] = true
		_, err, ok := run(p)
		if !ok {
			t.Fatalf("replay: no handler for witness %s", p)
		}
		Eval()
		Class("replayed_witness")
		switch {
		case err != nil && fd.Status == "known":
			line := fmt.Sprintf("KNOWN-FINDING: property=%s %s [%s]", prop, fd.What, fd.ID)
			fmt.Println(line)
			st.mu.Lock()
			st.Known = append(st.Known, line)
			st.mu.Unlock()
		case err != nil:
			report(t, prop, p, err)
		}
	}
	files, _ := filepath.Glob(filepath.Join(replayDir(prop), "*.json"))
	sort.Strings(files)
	for _, p := range files {
		if witness[p] {
			continue
		}
		_, err, ok := run(p)
		if !ok {
			t.Logf("replay: no handler for %s, skipped", p)
			continue
		}
		Eval()
		Class("replayed_saved")
		if err != nil {
			report(t, prop, p, err)
		}
	}
}

func report(t *testing.T, prop, path string, err error) {
	line := fmt.Sprintf("VIOLATION property=%s replay=%s", prop, path)
	fmt.Println(line)
	st.mu.Lock()
	st.Violations = append(st.Violations, line)
	st.mu.Unlock()
	t.Errorf("%s: %v", line, firstLines(err.Error(), 30))
}

func firstLines(s string, n int) string {
	ls := strings.Split(s, "\n")
	if len(ls) > n {
		ls = append(ls[:n], "...")
	}
	return strings.Join(ls, "\n")
}

func safely(h Handler, raw json.RawMessage) (err error) {
	defer func() {
		if r := recover(); r != nil {
			err = fmt.Errorf("panic: %v", r)
		}
	}()
	return h(raw)
}

// Decode is a helper for handlers.
func Decode(raw json.RawMessage, v interface{}) error {
	if err := json.Unmarshal(raw, v); err != nil {
		return fmt.Errorf("harness: cannot decode case: %w", err)
	}
	return nil
}

// Truncate shortens s for messages.
func Truncate(s string, n int) string {
	if len(s) <= n {
		return s
	}
	return s[:n] + fmt.Sprintf("...(%d more bytes)", len(s)-n)
}
