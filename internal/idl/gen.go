package idl

import (
	"fmt"
	"math"
	"path"
	"path/filepath"
	"strconv"
	"strings"

	"pgregory.net/rapid"
)

// Cfg selects which parts of the language the generator uses.  Everything is
// well-formed by construction; switches only narrow the language for checks
// whose oracle needs a precondition (each use is counted in evidence).
type Cfg struct {
	MaxFiles               int  // 1..n files
	MaxDefs                int  // per kind and file (default 4)
	Annotations            bool // annotations on every node kind
	NastyLits              bool // literals with quotes, backslash pairs, punctuation
	RawCtl                 bool // literals may contain raw newlines / tabs (not Go-safe)
	CppStuff               bool // cpp_include, cpp_type
	Consts                 bool
	Defaults               bool
	Services               bool
	NegIDs                 bool
	ExpDoubles             bool // exponent spellings of doubles (known finding S1 when broken)
	HexIDs                 bool // field ids spelled 0x.. (known finding S2 when broken)
	IntSpell               bool // hex / octal / +signed spellings of integer constants and enum values
	GoSafe                 bool // only shapes the Go backend documents as supported
	SameBase               bool // two included files may share a base name (in different directories)
	EnumViaTypedef         bool // constants may name enum values through a typedef of the enum
	EnumViaTypedefFar      bool // ... also when the typedef chain crosses more file boundaries than the binding can express (known finding)
	EmptyEnums             bool
	Comments               bool // leading comments recorded on definitions
	SharedNS               bool // several files may share one go namespace
	NameStress             bool // names that stress naming styles and collision renaming
	NoNamespace            bool // some files have no go namespace
	SelfRef                bool // structs may refer to themselves through optional fields
	MapStructKey           bool // struct-like map keys
	UnionDefaults          bool
	DistinctThrows         bool // a throws list names each exception type at most once
	NoBinKeyConstRef       bool // a binary map key is never written as a reference to a binary constant (known finding)
	InheritedCaseCollision bool // with NameStress: a derived service may declare `call` when its base has `Call` (known finding)
	HelperNames            bool // with NameStress: also names equal to unreserved generated helpers (known finding names-of-generated-helpers)
	CompatNames            bool // with NameStress: also names that need the compatible_names option (NewX, XArgs, XResult)
	WideStructs            bool // some structs have 9-36 fields (more than one bookkeeping word of required-field bits)
	ArgDefaults            bool // function arguments may carry default values (the grammar allows it)
	ArgOptional            bool // some function arguments are written `optional` (the checker turns that into default requiredness); only for checks whose model applies the same rule
	StructElems            bool // a third of the containers hold struct-likes
	ArgRequired            bool // some function arguments are written `required`
	NoUnderscoreTwin       bool // with CompatNames: no global name ending in an underscore (known finding names-of-generated-helpers)
	FuncNamePool           bool // method names from a small pool: the same name in several services, names that contain each other
	EnumAsInt              bool // i32 / i64 values may be written as enum members (the member's number)
	SameConstNames         bool // constants of different files (in different Go packages) may share a name
	AliasNS                bool // go namespaces that end in the same element in several files, or in the name of a library package (import aliases)
	SameNames              bool // files may reuse each other's global names (separate scopes: a.ID and b.ID differ); not for checks that put files into one Go package
	NoZeroThrowsID         bool // no throws entry has id 0 (it would share the id of `success` in the result struct)
}

// GoSafe is the configuration for programs that are handed to the Go backend:
// only shapes the backend documents as supported (no raw control characters or
// foreign escapes in literals, no container/double map keys).
func GoSafe() Cfg {
	c := Full()
	c.GoSafe = true
	c.ArgDefaults = false
	c.RawCtl = false
	c.CppStuff = false
	return c
}

// Full is the configuration used when nothing needs narrowing.
func Full() Cfg {
	return Cfg{MaxFiles: 4, MaxDefs: 4, Annotations: true, NastyLits: true, CppStuff: true, Consts: true, Defaults: true,
		Services: true, NegIDs: true, ExpDoubles: true, HexIDs: true, IntSpell: true, SameBase: true, EnumViaTypedef: true,
		EnumViaTypedefFar: true, WideStructs: true, ArgDefaults: true, EmptyEnums: true, Comments: true, SelfRef: true, MapStructKey: true, RawCtl: true, UnionDefaults: true, AliasNS: true, EnumAsInt: true, ArgRequired: true, StructElems: true}
}

type gen struct {
	t    *rapid.T
	cfg  Cfg
	n    int // name counter, unique over the whole program
	prog *Program
	file *File
	// candidates visible from the current file
	depth      int
	noConstRef bool
	globals    map[string]bool // exact global names used so far (whole program: files may share a Go package)
}

var stems = []string{"user", "Item", "order_info", "HTTPReq", "url", "id", "Data", "node", "Val", "my_type", "Resp", "req", "Base", "info_v", "Kind", "state", "X", "a_b_c", "Config", "elem"}

var reserved = map[string]bool{"bool": true, "byte": true, "i8": true, "i16": true, "i32": true, "i64": true, "double": true, "string": true, "binary": true,
	"map": true, "set": true, "list": true, "void": true, "const": true, "typedef": true, "enum": true, "struct": true, "union": true, "exception": true,
	"service": true, "extends": true, "throws": true, "oneway": true, "include": true, "cpp_include": true, "namespace": true, "cpp_type": true,
	"required": true, "optional": true, "true": true, "false": true}

func (g *gen) name(prefix string) string {
	g.n++
	st := rapid.SampledFrom(stems).Draw(g.t, "stem")
	return fmt.Sprintf("%s%s%d", prefix, st, g.n)
}

// Name shapes that stress the naming styles and the collision renaming of the
// Go backend (NameStress): different IDL names that convert to the same Go
// identifier, initialisms, Go keywords and predeclared names, names of
// generated methods and helpers.  Exact IDL names stay unique in their scope.
var (
	stressGlobals = []string{"foo_bar", "FooBar", "fooBar", "Foo_Bar", "foo", "Foo", "url", "URL", "Url", "http_url", "HttpUrl", "HTTPURL", "id", "ID", "Id",
		"v1_2", "V12", "Type", "Error", "String", "Client", "Processor", "GetX", "get_x", "DeepEqual", "_foo", "foo_", "foo__bar", "Args", "Result", "T", "t",
		"Data_", "data", "Int", "New", "new_", "Func", "Var", "Value", "Scan", "Context", "Fmt", "Thrift", "Init", "Main"}
	stressCompat = []string{"NewFoo", "FooArgs", "FooResult", "NewFooClient", "FooClient", "FooProcessor", "NewFooProcessor", "NewFoo_bar"}
	stressFields = []string{"Type", "Map", "Func", "Go", "Range", "Default", "type", "func", "range", "select", "default", "go", "chan", "interface", "var", "package", "import", "return", "if", "else", "for",
		"switch", "case", "break", "continue", "goto", "defer", "fallthrough", "id", "Id", "ID", "url", "Read", "Write", "String", "Error", "GetX", "x", "X",
		"get_x", "Get_x", "is_set_x", "IsSetX", "foo_bar", "fooBar", "FooBar", "DeepEqual", "_a", "a_", "a__b", "p", "err", "oprot", "iprot", "this", "self",
		"ctx", "args", "result", "success", "Success", "src", "fieldmask", "len", "int32", "error", "nil", "iota", "append", "New", "init", "main",
		"Field1DeepEqual", "ReadField1", "writeField1", "BLength", "FastRead", "InitDefault", "IsSet", "unknown", "_unknownFields"}
	stressFuncs = []string{"Read", "Write", "String", "call", "Call", "process", "Process", "type", "func", "ctx", "err", "error", "Error", "close", "Close",
		"init", "New", "recv", "send", "sendFoo", "recvFoo", "foo", "Foo", "foo_bar", "fooBar", "GetProcessorFunction", "AddToProcessorMap", "ProcessorMap", "Client_"}
	stressArgs = []string{"Type", "Map", "Func", "Go", "Range", "Default", "Select", "Var", "Chan", "Interface", "Struct", "Package", "Import", "Return", "type", "func", "range", "go", "ctx", "p", "err", "args", "result", "seqId", "iprot", "oprot", "handler", "self", "_args", "_result",
		"retval", "x", "success", "req", "Req", "error", "string_", "len", "nil", "var", "package", "interface", "default"}
	stressEnumVals = []string{"A", "a", "foo_bar", "FooBar", "String", "Value", "Scan", "type", "nil", "E", "unknown", "Unknown", "MIN", "Max", "x_y", "X_Y", "xY"}
)

// normKey is the style-independent key of a name: lower case, underscores removed.
func normKey(s string) string {
	return strings.ToLower(strings.ReplaceAll(s, "_", ""))
}

// stressName draws a name from the pool that is not used yet in scope `used`
// (exact IDL spelling); it falls back to a counter name.
var helperNames = map[string]bool{"Client_": true, "_unknownFields": true, "BLength": true, "FastRead": true, "_foo": true, "_a": true}

// reuseGlobal (SameNames): a global name that another file already uses.  Files
// are separate scopes, so `a.ID` and `b.ID` are different things; the name must
// be free in the current file and in every file that is referred to by the same
// prefix as the current one.
func (g *gen) reuseGlobal(forConst bool) string {
	constsOnly := !g.cfg.SameNames
	if constsOnly && !(g.cfg.SameConstNames && forConst) {
		return ""
	}
	if g.file == nil || len(g.prog.Files) < 2 || !g.p(1, 3, "samename") {
		return ""
	}
	taken := map[string]bool{}
	var cands []string
	for _, f := range g.prog.Files {
		if f == g.file || f.Prefix() == g.file.Prefix() || f.GoPackage() == g.file.GoPackage() {
			for _, d := range f.Defs {
				taken[d.Name] = true
			}
		}
	}
	seen := map[string]bool{}
	for _, f := range g.prog.Files {
		if f == g.file {
			continue
		}
		for _, d := range f.Defs {
			if constsOnly && d.Kind != KConst {
				continue
			}
			if !taken[d.Name] && !seen[d.Name] {
				seen[d.Name] = true
				cands = append(cands, d.Name)
			}
		}
	}
	if len(cands) == 0 {
		return ""
	}
	return rapid.SampledFrom(cands).Draw(g.t, "reused")
}

// relatedFuncs are method names that repeat across services and contain each
// other (FuncNamePool): what a method filter has to tell apart.
var relatedFuncs = []string{"Get", "GetAll", "get", "Put", "PutAll", "List", "ListAll", "call", "callback", "send", "sendAll", "func1", "func10", "Delete", "ping"}

func (g *gen) funcName(used map[string]bool) string {
	if g.cfg.FuncNamePool && !g.cfg.NameStress && g.p(1, 2, "relatedfn") {
		for tries := 0; tries < 3; tries++ {
			n := rapid.SampledFrom(relatedFuncs).Draw(g.t, "relatedfn_name")
			if !used[n] {
				used[n] = true
				return n
			}
		}
	}
	return g.stressName(stressFuncs, used, "m")
}

func (g *gen) globalName(pool []string, prefix string) string {
	if n := g.reuseGlobal(prefix == "C"); n != "" {
		return n
	}
	return g.stressName(pool, g.globalScope(), prefix)
}

func (g *gen) stressName(pool []string, used map[string]bool, fallbackPrefix string) string {
	if g.cfg.NameStress && g.p(2, 3, "stressname") {
		for tries := 0; tries < 4; tries++ {
			n := rapid.SampledFrom(pool).Draw(g.t, "stress")
			if helperNames[n] && !g.cfg.HelperNames {
				continue
			}
			if !used[n] && !reserved[n] {
				used[n] = true
				return n
			}
		}
	}
	n := g.name(fallbackPrefix)
	used[n] = true
	return n
}

func (g *gen) globalScope() map[string]bool {
	if g.globals == nil {
		g.globals = map[string]bool{}
	}
	return g.globals
}

func (g *gen) typeName() string {
	pool := stressGlobals
	if g.cfg.CompatNames {
		pool = append(append([]string{}, stressGlobals...), stressCompat...)
		if g.cfg.NoUnderscoreTwin {
			// `foo_` next to `NewFoo`: the rename of NewFoo under compatible_names (NewFoo_) meets
			// the constructor of Foo_'s client (listed finding names-of-generated-helpers)
			var q []string
			for _, n := range pool {
				if n != "foo_" && n != "Data_" && n != "new_" {
					q = append(q, n)
				}
			}
			pool = q
		}
	}
	return g.globalName(pool, "T")
}
func (g *gen) fieldName() string { return g.name("f") }

func (g *gen) intn(lo, hi int, label string) int { return rapid.IntRange(lo, hi).Draw(g.t, label) }
func (g *gen) coin(label string) bool            { return rapid.Bool().Draw(g.t, label) }
func (g *gen) p(num, den int, label string) bool {
	return rapid.IntRange(1, den).Draw(g.t, label) <= num
}

// Gen draws a program.
func Gen(t *rapid.T, cfg Cfg) *Program {
	if cfg.MaxFiles == 0 {
		cfg.MaxFiles = 1
	}
	if cfg.MaxDefs == 0 {
		cfg.MaxDefs = 4
	}
	g := &gen{t: t, cfg: cfg, prog: &Program{}}
	nf := g.intn(1, cfg.MaxFiles, "nfiles")
	files := make([]*File, nf)
	for i := range files {
		files[i] = &File{Index: i}
	}
	// paths: main.thrift in the root, others in the root or a subdirectory
	used := map[string]bool{}
	for i, f := range files {
		if i == 0 {
			f.Path = "main.thrift"
			used[f.Path] = true
			continue
		}
		for {
			base := rapid.SampledFrom([]string{"base", "common", "shared", "types", "model_v1", "api.v2"}).Draw(t, "fbase")
			if !cfg.SameBase {
				base = fmt.Sprintf("%s%d", base, i)
			}
			dir := rapid.SampledFrom([]string{"", "d1", "d2", "d1/sub"}).Draw(t, "fdir")
			p := path.Join(dir, base+".thrift")
			if !used[p] {
				used[p] = true
				f.Path = p
				break
			}
		}
	}
	g.prog.Files = files
	// generate leaves first so that includes exist
	for i := nf - 1; i >= 0; i-- {
		f := files[i]
		for j := i + 1; j < nf; j++ {
			if g.p(2, 3, "include") {
				// two includes with the same prefix are only unambiguous if symbols differ; names are globally unique, so fine
				f.Includes = append(f.Includes, files[j])
			}
		}
		if len(f.Includes) > 1 && g.coin("shuffleinc") {
			f.Includes = rapid.Permutation(f.Includes).Draw(t, "incperm")
		}
		for _, inc := range f.Includes {
			// thriftgo looks an include up relative to the working directory first and
			// relative to the including file second: use the includer-relative spelling
			// only when it cannot be mistaken for another file of the program
			rel, err := filepath.Rel(path.Dir(f.Path), inc.Path)
			if err != nil || (rel != inc.Path && used[path.Clean(rel)]) || g.p(1, 4, "cwdrelative") {
				rel = inc.Path
			}
			f.IncludeLit = append(f.IncludeLit, rel)
		}
		g.genFile(f)
	}
	return g.prog
}

func (g *gen) genFile(f *File) {
	g.file = f
	cfg := g.cfg
	if cfg.CppStuff {
		for i := g.intn(0, 2, "ncppinc"); i > 0; i-- {
			f.CppIncludes = append(f.CppIncludes, rapid.SampledFrom([]string{"<vector>", "foo/bar.h", "x.hpp"}).Draw(g.t, "cppinc"))
		}
	}
	// namespaces
	if !(cfg.NoNamespace && f.Index != 0 && !strings.Contains(f.Prefix(), ".") && g.p(1, 5, "nons")) {
		ns := fmt.Sprintf("p%d", f.Index)
		if g.p(1, 3, "deepns") {
			ns += ".sub.pkg" + strconv.Itoa(f.Index)
		} else if cfg.AliasNS && g.p(1, 4, "aliasns") {
			// packages that a Go file cannot import under their own name: several
			// files whose package path ends in the same element, or in the name
			// of a library the generated code imports anyway
			ns += "." + rapid.SampledFrom([]string{"shared", "shared", "shared", "context", "fmt", "strings", "bytes", "thrift", "reflect", "errors"}).Draw(g.t, "nslast")
		}
		// files may share a Go package only with the next file (generated just
		// before this one): packages then cover consecutive files and includes,
		// which always go from a lower to a higher index, cannot form a cycle
		if cfg.SharedNS && f.Index+1 < len(g.prog.Files) && g.p(1, 3, "sharens") {
			for _, n := range g.prog.Files[f.Index+1].Namespaces {
				if n.Lang == "go" {
					ns = n.Name
				}
			}
		}
		f.Namespaces = append(f.Namespaces, Namespace{Lang: "go", Name: ns, Annos: g.annos(1)})
	}
	for i := g.intn(0, 2, "nns"); i > 0; i-- {
		lang := rapid.SampledFrom([]string{"java", "py", "cpp", "*", "rs"}).Draw(g.t, "nslang")
		dup := false
		for _, n := range f.Namespaces {
			if n.Lang == lang {
				dup = true
			}
		}
		if dup {
			continue
		}
		f.Namespaces = append(f.Namespaces, Namespace{Lang: lang, Name: "com.example.n" + strconv.Itoa(g.intn(0, 9, "nsn")), Annos: g.annos(1)})
	}
	if len(f.Namespaces) > 1 && g.coin("nsperm") {
		f.Namespaces = rapid.Permutation(f.Namespaces).Draw(g.t, "nsorder")
	}
	md := cfg.MaxDefs
	// enums first (so types can use them), then struct-likes / typedefs interleaved, then consts, then services
	for i := g.intn(0, md, "nenum"); i > 0; i-- {
		g.genEnum()
	}
	nsl := g.intn(0, 2*md, "nstructlike")
	ntd := g.intn(0, md, "ntypedef")
	for nsl > 0 || ntd > 0 {
		if ntd > 0 && (nsl == 0 || g.p(1, 3, "td-or-sl")) {
			g.genTypedef()
			ntd--
		} else {
			g.genStructLike()
			nsl--
		}
	}
	if cfg.Consts {
		for i := g.intn(0, md+2, "nconst"); i > 0; i-- {
			g.genConst()
		}
	}
	if cfg.Services {
		for i := g.intn(0, 2, "nsvc"); i > 0; i-- {
			g.genService()
		}
	}
	if len(f.Defs) > 1 {
		f.Defs = rapid.Permutation(f.Defs).Draw(g.t, "deforder")
	}
}

func (g *gen) add(d *Def) *Def {
	d.File = g.file
	if g.cfg.Comments && g.p(1, 4, "hascomment") {
		d.Comment = rapid.SampledFrom([]string{"a comment", "describes the thing", "x", "TODO: nothing"}).Draw(g.t, "comment")
	}
	g.file.Defs = append(g.file.Defs, d)
	return d
}

var annoKeys = []string{"k1", "api.x", "a.b.c", "vt.note", "K", "some_key"}

func (g *gen) annos(maxp int) []Anno {
	if !g.cfg.Annotations || !g.p(maxp, 4, "hasannos") {
		return nil
	}
	n := g.intn(0, 4, "nannos")
	var r []Anno
	for i := 0; i < n; i++ {
		r = append(r, Anno{Key: rapid.SampledFrom(annoKeys).Draw(g.t, "akey"), Val: g.lit()})
	}
	if n == 0 {
		return []Anno{} // written "()" — distinguishable from absent in the renderer
	}
	return r
}

var plainChunks = []string{"a", "abc", "hello world", "x1", "_", "0", "Foo.Bar", "a-b", ""}
var nastyChunks = []string{"&", "&amp;", "&lt", "&gt=1", "&amp", "&copy", "&#65", "&region=eu", "&quot", "<", ">", "#", ";", ",", ":", "{", "}", "[", "]", "(", ")", "=", "//", "/*", "*/", "&#34;", "#OUTQUOTES", "##34;", "é", "世界", "$", "%d", "`", "~"}
var goPairs = []string{`\\`, `\t`, `\n`, `\r`}
var anyPairs = []string{`\\`, `\t`, `\n`, `\x`, `\0`, `\u`, `\a`, `\ `}

// FixLit keeps a literal expressible: a backslash pair ending in a backslash
// must not stand directly before a quote character or the end of the literal
// (the grammar would read backslash-quote as an escape and not terminate).
func FixLit(ts []LitTok) []LitTok {
	var r []LitTok
	for _, t := range ts {
		if t.S != "" {
			r = append(r, t)
		}
	}
	var out []LitTok
	for i, t := range r {
		out = append(out, t)
		if t.Kind == 1 && t.S[len(t.S)-1] == '\\' && (i == len(r)-1 || r[i+1].Kind == 2) {
			out = append(out, LitTok{0, "_"})
		}
	}
	return out
}

func (g *gen) lit() (l Lit) {
	l = Lit{Quote: '"'}
	if g.coin("squote") {
		l.Quote = '\''
	}
	if !g.cfg.NastyLits {
		l.Toks = []LitTok{{0, rapid.SampledFrom(plainChunks).Draw(g.t, "chunk")}}
		return l
	}
	n := g.intn(0, 5, "nlittok")
	defer func() { l.Toks = FixLit(l.Toks) }()
	for i := 0; i < n; i++ {
		switch g.intn(0, 5, "littok") {
		case 0, 1:
			l.Toks = append(l.Toks, LitTok{0, rapid.SampledFrom(plainChunks).Draw(g.t, "chunk")})
		case 2:
			l.Toks = append(l.Toks, LitTok{0, rapid.SampledFrom(nastyChunks).Draw(g.t, "nchunk")})
		case 3:
			ps := goPairs
			if !g.cfg.GoSafe {
				ps = anyPairs
			}
			l.Toks = append(l.Toks, LitTok{1, rapid.SampledFrom(ps).Draw(g.t, "pair")})
		case 4:
			l.Toks = append(l.Toks, LitTok{2, rapid.SampledFrom([]string{`"`, `'`}).Draw(g.t, "q")})
		case 5:
			if g.cfg.RawCtl && !g.cfg.GoSafe {
				l.Toks = append(l.Toks, LitTok{0, rapid.SampledFrom([]string{"\n", "\t", "\r\n", " \n "}).Draw(g.t, "ctl")})
			}
		}
	}
	return l
}

func (g *gen) genEnum() {
	d := &Def{Kind: KEnum, Name: g.typeName(), Annos: g.annos(1)}
	lo := 1
	if g.cfg.EmptyEnums {
		lo = 0
	}
	n := g.intn(lo, 5, "nenumvals")
	usedVals := map[string]bool{}
	used := map[int64]bool{}
	next := int64(0)
	for i := 0; i < n; i++ {
		ev := &EnumVal{Name: g.stressName(stressEnumVals, usedVals, "E"), Annos: g.annos(1)}
		if g.p(1, 2, "explicit") {
			var v int64
			for tries := 0; ; tries++ {
				if g.p(1, 6, "bigenum") {
					v = int64(rapid.SampledFrom([]int32{math.MaxInt32, math.MinInt32, -1, 1 << 20}).Draw(g.t, "ev"))
				} else {
					v = int64(g.intn(-3, 40, "ev"))
				}
				if !used[v] {
					break
				}
			}
			ev.Explicit = true
			ev.Value = v
			if g.cfg.IntSpell && v >= 0 {
				ev.Spelling = g.intn(0, 2, "evspell")
			}
		} else {
			if used[next] || next > math.MaxInt32 {
				// an implicit value would collide or overflow: write it explicitly instead
				v := next
				for used[v] || v > math.MaxInt32 {
					if v > math.MaxInt32 {
						v = -1000
					}
					v++
				}
				ev.Explicit = true
				ev.Value = v
			} else {
				ev.Value = next
			}
		}
		used[ev.Value] = true
		next = ev.Value + 1
		d.Values = append(d.Values, ev)
	}
	g.add(d)
}

// visible returns the definitions a type or constant in the current file may name.
func (g *gen) visible(pred func(*Def) bool) []*Def {
	var r []*Def
	for _, d := range g.file.Defs {
		if pred(d) {
			r = append(r, d)
		}
	}
	for _, inc := range g.file.Includes {
		// with two includes sharing a prefix, a name is looked up in the first one that defines it; names are unique, fine
		for _, d := range inc.Defs {
			if pred(d) {
				r = append(r, d)
			}
		}
	}
	return r
}

var baseTypes = []string{"bool", "byte", "i8", "i16", "i32", "i64", "double", "string", "binary"}

func isType(d *Def) bool {
	return d.Kind == KTypedef || d.Kind == KEnum || d.Kind.IsStructLike()
}

// genType draws a type expression; asKey restricts to what may be a map key.
func (g *gen) genType(depth int, asKey bool) *Type {
	t := g.genType1(depth, asKey)
	if len(t.Annos) == 0 {
		t.Annos = g.annos(1)
	}
	return t
}

func keyable(t *Type, structKey bool) bool {
	switch t.FinalCat() {
	case "list", "set", "map":
		return false
	case "struct", "union", "exception":
		return structKey
	case "double":
		return false // NaN keys are excluded; doubles as keys are legal but not generated for Go-safe programs
	}
	return true
}

func (g *gen) genType1(depth int, asKey bool) *Type {
	c := g.intn(0, 9, "typeshape")
	switch {
	case c <= 3:
		return &Type{Base: rapid.SampledFrom(baseTypes).Draw(g.t, "base")}
	case c <= 6:
		cands := g.visible(func(d *Def) bool {
			if !isType(d) {
				return false
			}
			if asKey && !keyable(&Type{Ref: d}, g.cfg.MapStructKey) {
				return false
			}
			return true
		})
		if len(cands) == 0 {
			return &Type{Base: rapid.SampledFrom(baseTypes).Draw(g.t, "base")}
		}
		return &Type{Ref: rapid.SampledFrom(cands).Draw(g.t, "named")}
	default:
		if depth <= 0 || asKey {
			return &Type{Base: rapid.SampledFrom(baseTypes).Draw(g.t, "base")}
		}
		t := &Type{Base: rapid.SampledFrom([]string{"list", "set", "map"}).Draw(g.t, "container")}
		if t.Base == "map" {
			t.Key = g.genType(depth-1, true)
		}
		t.Elem = g.genType(depth-1, false)
		if g.cfg.StructElems && g.p(1, 3, "structelem") {
			// containers of struct-likes (by value or pointer, with their constructors and defaults) are
			// where generated code differs most between the list, set and map paths
			if cands := g.visible(func(d *Def) bool { return d.Kind.IsStructLike() }); len(cands) > 0 {
				t.Elem = &Type{Ref: rapid.SampledFrom(cands).Draw(g.t, "structelem_type"), Annos: t.Elem.Annos}
			}
		}
		if g.cfg.CppStuff && g.p(1, 5, "cpptype") {
			t.HasCpp = true
			t.CppType = rapid.SampledFrom([]string{"std::vector", "foo", ""}).Draw(g.t, "cpptypev")
		}
		return t
	}
}

func (g *gen) genTypedef() {
	d := &Def{Kind: KTypedef, Name: g.typeName()}
	d.Type = g.genType(2, false)
	if g.p(1, 3, "typedef_of_struct") {
		// an alias of a struct-like: the generated code reaches the struct's constructor, codec and defaults through the alias
		if cands := g.visible(func(x *Def) bool { return x.Kind.IsStructLike() }); len(cands) > 0 {
			d.Type = &Type{Ref: rapid.SampledFrom(cands).Draw(g.t, "typedef_target"), Annos: d.Type.Annos}
		}
	}
	d.Annos = g.annos(1)
	g.add(d)
}

func (g *gen) genFields(kind string) []*Field {
	n := g.intn(0, 6, "nfields")
	if g.cfg.WideStructs && (kind == "struct" || kind == "exception") && g.p(1, 12, "widestruct") {
		n = g.intn(9, 36, "nfieldswide") // more fields than one 8/16/32-bit bookkeeping word
	}
	var fs []*Field
	used := map[int32]bool{}
	last := int32(0)
	hasDefault := false
	usedNames := map[string]bool{}
	for i := 0; i < n; i++ {
		pool := stressFields
		if kind == "args" || kind == "throws" {
			pool = stressArgs
		}
		if kind == "throws" {
			usedNames["success"] = true // the result struct already has a field of that name
		}
		f := &Field{Name: g.stressName(pool, usedNames, "f")}
		// id
		implicit := g.p(1, 5, "implicitid")
		next := last + 1
		if len(fs) == 0 {
			next = 1
		}
		if implicit && !used[next] && (next > 0 || g.cfg.NegIDs) && next < 32000 {
			f.ID = next
		} else {
			f.Explicit = true
			for {
				if g.cfg.NegIDs && g.p(1, 8, "negid") {
					f.ID = int32(g.intn(-20, 0, "fid"))
				} else if g.p(1, 10, "bigid") {
					f.ID = int32(g.intn(60, 32767, "fid"))
				} else {
					f.ID = int32(g.intn(1, 20, "fid"))
				}
				if !used[f.ID] {
					break
				}
			}
			if g.cfg.HexIDs && f.ID >= 0 && g.p(1, 8, "hexid") {
				f.HexID = true
			}
		}
		if kind == "throws" && g.cfg.NoZeroThrowsID && f.ID == 0 {
			f.Explicit = true
			f.HexID = false
			for used[f.ID] || f.ID == 0 {
				f.ID++
			}
		}
		used[f.ID] = true
		last = f.ID
		switch kind {
		case "struct", "exception":
			f.Req = Req(g.intn(0, 2, "req"))
			if n >= 9 && g.p(1, 2, "widereq") {
				f.Req = ReqRequired // wide structs carry many required fields
			}
		case "union":
			if g.p(1, 4, "unionreq") {
				f.Req = ReqOptional
			}
		case "args":
			f.Req = ReqDefault
			if g.cfg.ArgRequired && g.p(1, 6, "argrequired") {
				f.Req = ReqRequired // `required` is legal in an argument list (and kept, unlike `optional`)
			} else if g.cfg.ArgOptional && g.p(1, 4, "argoptional") {
				f.Req = ReqOptional // legal, warned about, and normalised to default requiredness by the checker
			}
		case "throws":
			f.Req = ReqDefault
		}
		if kind == "throws" {
			cands := g.visible(func(d *Def) bool {
				if d.Kind != KException {
					return false
				}
				if g.cfg.DistinctThrows {
					for _, x := range fs {
						if x.Type.Ref == d {
							return false
						}
					}
				}
				return true
			})
			if len(cands) == 0 {
				break
			}
			f.Type = &Type{Ref: rapid.SampledFrom(cands).Draw(g.t, "exc")}
		} else {
			f.Type = g.genType(3, false)
		}
		if g.cfg.Defaults && (kind == "struct" || kind == "exception" || (kind == "union" && g.cfg.UnionDefaults && !hasDefault) || (kind == "args" && g.cfg.ArgDefaults)) && g.p(1, 3, "hasdefault") {
			f.Default = g.genValue(f.Type, 3)
			if f.Default != nil {
				hasDefault = true
			}
		}
		f.Annos = g.annos(1)
		fs = append(fs, f)
	}
	// names of the per-field helpers the backend generates, built from a field id
	// that really occurs in this struct (Field<id>DeepEqual, ReadField<id>, ...)
	if g.cfg.NameStress && (kind == "struct" || kind == "exception" || kind == "union") && len(fs) >= 1 && g.p(1, 5, "helpername_for_id") {
		id := fs[g.intn(0, len(fs)-1, "helper_of")].ID
		if id > 0 {
			pat := rapid.SampledFrom([]string{"Field%dDeepEqual", "field%d_deep_equal", "ReadField%d", "read_field%d", "writeField%d", "write_field%d"}).Draw(g.t, "helper_pat")
			n := fmt.Sprintf(pat, id)
			if !usedNames[n] {
				usedNames[n] = true
				fs[g.intn(0, len(fs)-1, "helper_at")].Name = n
			}
		}
	}
	return fs
}

func (g *gen) genStructLike() {
	k := rapid.SampledFrom([]Kind{KStruct, KStruct, KStruct, KUnion, KException}).Draw(g.t, "slkind")
	d := &Def{Kind: k, Name: g.typeName()}
	d.Fields = g.genFields(k.String())
	if g.cfg.SelfRef && k == KStruct && g.p(1, 6, "selfref") {
		f := &Field{Name: g.fieldName(), Explicit: true, Req: ReqOptional}
		f.ID = 30000 + int32(g.intn(0, 99, "selfid"))
		for taken := true; taken; {
			taken = false
			for _, x := range d.Fields {
				if x.ID == f.ID {
					taken = true
					f.ID++
				}
			}
		}
		switch g.intn(0, 2, "selfshape") {
		case 0:
			f.Type = &Type{Ref: d}
		case 1:
			f.Type = &Type{Base: "list", Elem: &Type{Ref: d}}
		case 2:
			f.Type = &Type{Base: "map", Key: &Type{Base: "string"}, Elem: &Type{Ref: d}}
		}
		d.Fields = append(d.Fields, f)
	}
	d.Annos = g.annos(1)
	g.add(d)
}

func (g *gen) genConst() {
	d := &Def{Kind: KConst, Name: g.globalName(stressGlobals, "C")}
	for tries := 0; tries < 5; tries++ {
		d.Type = g.genType(2, false)
		d.Value = g.genValue(d.Type, 3)
		if d.Value != nil {
			break
		}
	}
	if d.Value == nil {
		d.Type = &Type{Base: "i32"}
		d.Value = &Value{Kind: VInt, Int: 7}
	}
	d.Annos = g.annos(1)
	g.add(d)
}

// TypeEqual is structural equality of written types (annotations aside).
func TypeEqual(a, b *Type) bool {
	if a == nil || b == nil {
		return a == b
	}
	if a.Ref != nil || b.Ref != nil {
		return a.Ref == b.Ref
	}
	if a.Base != b.Base {
		return false
	}
	return TypeEqual(a.Key, b.Key) && TypeEqual(a.Elem, b.Elem)
}

func intRange(cat string) (int64, int64) {
	switch cat {
	case "byte":
		return math.MinInt8, math.MaxInt8
	case "i16":
		return math.MinInt16, math.MaxInt16
	case "i32":
		return math.MinInt32, math.MaxInt32
	}
	return math.MinInt64, math.MaxInt64
}

func (g *gen) genInt(lo, hi int64) *Value {
	var v int64
	switch g.intn(0, 4, "intshape") {
	case 0:
		v = lo
	case 1:
		v = hi
	case 2:
		v = 0
	default:
		v = rapid.Int64Range(max64(lo, -1000), min64(hi, 1000)).Draw(g.t, "int")
	}
	val := &Value{Kind: VInt, Int: v}
	if g.cfg.IntSpell {
		if v >= 0 {
			val.IntSpelling = g.intn(0, 3, "intspell")
		}
	}
	return val
}

func max64(a, b int64) int64 {
	if a > b {
		return a
	}
	return b
}
func min64(a, b int64) int64 {
	if a < b {
		return a
	}
	return b
}

var dblTexts = []string{"0.0", "1.5", "-2.25", ".5", "+3.125", "100.0", "0.001", "-.75", "12345.678", "-9223372036854775808.0", "9223372036854775808.0", "3.141592653589793", "0.30000000000000004", "123456.789012"}
var dblExpTexts = []string{"1e5", "2.5e3", "1E-3", "-4.0e2", "1.5e+10", ".5e1", "7e0", "1e23", "1.7976931348623157e308", "1e-50", "6.02214076e23", "-2.2250738585072014e-308"}

// ConstRefText spells a reference from file `from` to a constant definition.
func ConstRefText(from *File, d *Def) string {
	if d.File == from {
		return d.Name
	}
	return d.File.Prefix() + "." + d.Name
}

// genValue draws a written value for the declared type, or nil if none can be written.
func (g *gen) genValue(t *Type, depth int) *Value {
	// reference to an existing constant of structurally the same type
	if !g.noConstRef && g.p(1, 6, "constref") {
		cands := g.visible(func(d *Def) bool { return d.Kind == KConst && TypeEqual(d.Type, t) })
		if len(cands) > 0 {
			c := rapid.SampledFrom(cands).Draw(g.t, "refconst")
			return &Value{Kind: VIdent, Ident: ConstRefText(g.file, c), RefConst: c}
		}
	}
	cat := t.FinalCat()
	switch cat {
	case "bool":
		switch g.intn(0, 3, "boolshape") {
		case 0:
			return &Value{Kind: VIdent, Ident: "true", IsBoolKw: true}
		case 1:
			return &Value{Kind: VIdent, Ident: "false", IsBoolKw: true}
		case 2:
			return &Value{Kind: VInt, Int: 1}
		default:
			return &Value{Kind: VInt, Int: 0}
		}
	case "byte", "i16", "i32", "i64":
		if g.cfg.EnumAsInt && (cat == "i32" || cat == "i64") && g.p(1, 10, "enumasint") {
			// an enum member written where an integer is expected stands for its number
			es := g.visible(func(d *Def) bool { return d.Kind == KEnum && len(d.Values) > 0 })
			if len(es) > 0 {
				e := rapid.SampledFrom(es).Draw(g.t, "intenum")
				m := rapid.SampledFrom(e.Values).Draw(g.t, "intmember")
				v := &Value{Kind: VIdent, RefEnum: e, RefVal: m.Name}
				if e.File == g.file {
					v.Ident = e.Name + "." + m.Name
				} else {
					v.Ident = e.File.Prefix() + "." + e.Name + "." + m.Name
				}
				return v
			}
		}
		lo, hi := intRange(cat)
		return g.genInt(lo, hi)
	case "double":
		if g.p(1, 4, "intfordouble") {
			return g.genInt(-1000000, 1000000)
		}
		txts := dblTexts
		if g.cfg.ExpDoubles && g.coin("expdouble") {
			txts = dblExpTexts
		}
		s := rapid.SampledFrom(txts).Draw(g.t, "dbl")
		f, _ := strconv.ParseFloat(s, 64)
		return &Value{Kind: VDouble, Dbl: f, DblText: s}
	case "string", "binary":
		return &Value{Kind: VLit, Lit: g.lit()}
	case "enum":
		e := t.Final().Ref
		if len(e.Values) == 0 {
			return nil
		}
		m := rapid.SampledFrom(e.Values).Draw(g.t, "member")
		if g.p(1, 4, "enumbynumber") {
			return &Value{Kind: VInt, Int: m.Value}
		}
		v := &Value{Kind: VIdent, RefEnum: e, RefVal: m.Name}
		// the enum can be named directly, or (optionally) through the typedef the type was written with
		sel := e
		if g.cfg.EnumViaTypedef && t.Ref != nil && t.Ref.Kind == KTypedef && (g.cfg.EnumViaTypedefFar || !viaFar(g.file, t.Ref)) && g.coin("viatypedef") {
			sel = t.Ref
			v.Via = t.Ref
		}
		if sel.File == g.file {
			v.Ident = sel.Name + "." + m.Name
		} else if g.file.IncludeIndex(sel.File) >= 0 {
			v.Ident = sel.File.Prefix() + "." + sel.Name + "." + m.Name
		} else {
			// the enum lives in a file this one does not include directly (reached through a typedef chain): by number
			return &Value{Kind: VInt, Int: m.Value}
		}
		return v
	case "list", "set":
		if depth <= 0 {
			return &Value{Kind: VList, List: []*Value{}}
		}
		ft := t.Final()
		n := g.intn(0, 3, "nelems")
		v := &Value{Kind: VList, List: []*Value{}}
		for i := 0; i < n; i++ {
			e := g.genValue(ft.Elem, depth-1)
			if e == nil {
				continue
			}
			if cat == "set" && containsSame(v.List, e) {
				continue
			}
			v.List = append(v.List, e)
		}
		return v
	case "map":
		ft := t.Final()
		v := &Value{Kind: VMap, List: []*Value{}, Keys: []*Value{}}
		if depth <= 0 {
			return v
		}
		n := g.intn(0, 3, "nentries")
		for i := 0; i < n; i++ {
			if g.cfg.NoBinKeyConstRef && ft.Key.FinalCat() == "binary" {
				g.noConstRef = true
			}
			k := g.genValue(ft.Key, depth-1)
			g.noConstRef = false
			if k == nil || containsSame(v.Keys, k) {
				continue
			}
			e := g.genValue(ft.Elem, depth-1)
			if e == nil {
				continue
			}
			v.Keys = append(v.Keys, k)
			v.List = append(v.List, e)
		}
		return v
	case "struct", "union", "exception":
		sd := t.Final().Ref
		v := &Value{Kind: VMap, List: []*Value{}, Keys: []*Value{}}
		if depth <= 0 {
			if cat == "union" {
				return nil
			}
			return v
		}
		fields := sd.Fields
		if len(fields) == 0 {
			if cat == "union" {
				return nil
			}
			return v
		}
		if cat == "union" {
			f := rapid.SampledFrom(fields).Draw(g.t, "unionmember")
			e := g.genValue(f.Type, depth-1)
			if e == nil {
				return nil
			}
			v.Keys = append(v.Keys, &Value{Kind: VLit, Lit: PlainLit(f.Name)})
			v.List = append(v.List, e)
			return v
		}
		for _, f := range fields {
			if !g.p(1, 2, "setfield") {
				continue
			}
			e := g.genValue(f.Type, depth-1)
			if e == nil {
				continue
			}
			v.Keys = append(v.Keys, &Value{Kind: VLit, Lit: PlainLit(f.Name)})
			v.List = append(v.List, e)
		}
		return v
	}
	return nil
}

// viaFar reports whether naming an enum through typedef sel from file `from`
// crosses more file boundaries than a constant binding can express: written
// locally (Alias.A) the chain may leave the file once, written with an include
// prefix (inc.Alias.A) it must stay inside that include.
func viaFar(from *File, sel *Def) bool {
	allowed := 0
	if sel.File == from {
		allowed = 1
	}
	hops := 0
	cur := sel.File
	for d := sel; d != nil && d.Kind == KTypedef; {
		nxt := d.Type.Ref
		if nxt == nil {
			break
		}
		if nxt.File != cur {
			hops++
			cur = nxt.File
		}
		d = nxt
	}
	return hops > allowed
}

// containsSame is a conservative "may denote the same value" test used to keep
// set elements and map keys distinct: values are compared by their rendered
// meaning where that is cheap, and anything involving identifiers or nested
// containers is treated as equal to everything (so it is used at most once).
func containsSame(vs []*Value, v *Value) bool {
	for _, x := range vs {
		if maySame(x, v) {
			return true
		}
	}
	return false
}

func maySame(a, b *Value) bool {
	num := func(v *Value) (float64, bool) {
		switch v.Kind {
		case VInt:
			return float64(v.Int), true
		case VDouble:
			return v.Dbl, true
		case VIdent:
			if v.IsBoolKw {
				if v.Ident == "true" {
					return 1, true
				}
				return 0, true
			}
		}
		return 0, false
	}
	if x, ok := num(a); ok {
		if y, ok := num(b); ok {
			return x == y
		}
	}
	if a.Kind == VLit && b.Kind == VLit {
		return a.Lit.Text() == b.Lit.Text()
	}
	return true
}

func (g *gen) genService() {
	d := &Def{Kind: KService, Name: g.typeName()}
	if g.p(1, 3, "extends") {
		cands := g.visible(func(x *Def) bool { return x.Kind == KService })
		if len(cands) > 0 {
			d.Extends = rapid.SampledFrom(cands).Draw(g.t, "base")
		}
	}
	n := g.intn(0, 4, "nfuncs")
	usedFuncs := map[string]bool{}
	// a derived service must not redefine a function of its base chain
	baseKeys := map[string]bool{}
	for b := d.Extends; b != nil; b = b.Extends {
		for _, bf := range b.Funcs {
			usedFuncs[bf.Name] = true
			baseKeys[normKey(bf.Name)] = true
		}
	}
	for i := 0; i < n; i++ {
		f := &Func{Name: g.funcName(usedFuncs)}
		if !g.cfg.InheritedCaseCollision && baseKeys[normKey(f.Name)] {
			// e.g. `call` in a service whose base has `Call`: both become the Go method Call (known finding)
			f.Name = g.name("m")
			usedFuncs[f.Name] = true
		}
		if g.p(1, 5, "oneway") {
			f.Oneway = true
		} else if g.p(2, 3, "nonvoid") {
			f.Ret = g.genType(2, false)
		}
		f.Args = g.genFields("args")
		if !f.Oneway && g.p(1, 2, "throws") {
			f.HasThrows = true
			f.Throws = g.genFields("throws")
			// drop throws entries without a type (no exception visible)
			var ts []*Field
			for _, x := range f.Throws {
				if x.Type != nil {
					ts = append(ts, x)
				}
			}
			f.Throws = ts
			renumber(f.Throws)
		}
		f.Annos = g.annos(1)
		d.Funcs = append(d.Funcs, f)
	}
	d.Annos = g.annos(1)
	g.add(d)
}

// renumber recomputes implicit ids after fields were dropped from a list.
func renumber(fs []*Field) {
	used := map[int32]bool{}
	for _, f := range fs {
		if f.Explicit {
			used[f.ID] = true
		}
	}
	last := int32(0)
	for i, f := range fs {
		if !f.Explicit {
			next := last + 1
			if i == 0 {
				next = 1
			}
			if used[next] {
				f.Explicit = true
				f.HexID = false
				for used[next] {
					next++
				}
			}
			f.ID = next
			used[next] = true
		}
		last = f.ID
	}
}

// Texts renders the program with the given layout and returns path -> text.
func (p *Program) Texts(l *Layout) map[string]string {
	m := map[string]string{}
	for _, f := range p.Files {
		m[f.Path] = RenderFile(f, l)
	}
	return m
}

// Describe is a one-line summary for evidence samples.
func (p *Program) Describe() string {
	var parts []string
	for _, f := range p.Files {
		cnt := map[Kind]int{}
		for _, d := range f.Defs {
			cnt[d.Kind]++
		}
		parts = append(parts, fmt.Sprintf("%s[inc=%d const=%d typedef=%d enum=%d struct=%d union=%d exc=%d svc=%d]", f.Path, len(f.Includes),
			cnt[KConst], cnt[KTypedef], cnt[KEnum], cnt[KStruct], cnt[KUnion], cnt[KException], cnt[KService]))
	}
	return strings.Join(parts, " ")
}

// AddEnumNumberConsts appends, to some files, i32 constants whose value is
// written as a member of an enum of an included file (`const i32 C = inc.E.M`):
// often the only thing the file takes from that include.
func AddEnumNumberConsts(t *rapid.T, p *Program) int {
	n := 0
	for _, f := range p.Files {
		for _, inc := range f.Includes {
			var es []*Def
			for _, d := range inc.Defs {
				if d.Kind == KEnum && len(d.Values) > 0 {
					es = append(es, d)
				}
			}
			if len(es) == 0 || f.GoPackage() == inc.GoPackage() || rapid.IntRange(0, 2).Draw(t, "enumnumconst") != 0 {
				continue
			}
			e := rapid.SampledFrom(es).Draw(t, "enumnum_enum")
			m := rapid.SampledFrom(e.Values).Draw(t, "enumnum_member")
			n++
			d := &Def{Kind: KConst, Name: fmt.Sprintf("Cenumnum%d_%d", f.Index, n), File: f, Type: &Type{Base: "i32"},
				Value: &Value{Kind: VIdent, Ident: inc.Prefix() + "." + e.Name + "." + m.Name, RefEnum: e, RefVal: m.Name}}
			f.Defs = append(f.Defs, d)
		}
	}
	return n
}
