// C06 — constants and default values in Go equal the values written in the IDL.
//
// One rapid case = one program + one generator configuration (built once by
// internal/drv) and one evaluation per IDL constant (oracle A) and per
// struct-like (oracle B).  Expected values are computed from the model alone
// (ref.Eval follows bindings and reads literals the way the documented
// contract says: delimiter unescaped, the rest read by Go) and stored in the
// case as plain JSON, so the judge replays without rapid and without the model.
package c06

import (
	"encoding/json"
	"fmt"
	"os"
	"sort"
	"strconv"
	"strings"
	"testing"

	"pgregory.net/rapid"

	"verif/internal/drv"
	"verif/internal/idl"
	"verif/internal/ref"
	"verif/internal/vt"
)

const prop = "C06"

// listed finding: a struct literal names some fields only; the fields it does
// not name come out as Go zero values even when the IDL declares a default.
const fdStructLit = "struct-literal-drops-defaults"

// listed finding: an identifier inside a struct literal is looked up in the
// file that defines the struct instead of the file that writes the literal.
const fdIdentScope = "struct-literal-identifier-scope"

func TestMain(m *testing.M) {
	vt.AtExit(drv.CloseAll)
	vt.Main(m)
}

// ---------- the case ----------

// constExp is one row of the expectation table for constants.
type constExp struct {
	File string      `json:"file"`
	Pkg  string      `json:"pkg"`  // generated package directory the constant must live in
	Name string      `json:"name"` // IDL name
	Type *ref.TypeJ  `json:"type"` // resolved type
	Want interface{} `json:"want"` // the initializer evaluated by the IDL's rules (tagged JSON; "*" = not compared)
}

// probe sets one optional field to a value different from its default.
type probe struct {
	Field int32       `json:"field"`
	Value interface{} `json:"value"`
}

// structExp is one row of the expectation table for struct-likes.
type structExp struct {
	Name     string                 `json:"name"`
	Defaults map[string]interface{} `json:"defaults,omitempty"` // field id -> declared default evaluated by the IDL's rules
	Probes   []probe                `json:"probes,omitempty"`
}

type progCase struct {
	Main    string            `json:"main"`
	Files   map[string]string `json:"files"`
	Gen     string            `json:"gen"`
	Schema  *ref.SchemaJ      `json:"schema"`
	Consts  []constExp        `json:"consts"`
	Structs []structExp       `json:"structs"`
	Focus   string            `json:"focus,omitempty"` // "const:<name>" | "struct:<name>": judge only that row
}

// ---------- values with holes ----------

// wildV marks a position that is not compared (used only while a listed
// finding excludes exactly that position).
type wildV struct{}

func toJSONW(t *ref.Type, v ref.V) interface{} {
	switch x := v.(type) {
	case nil:
		return nil
	case wildV:
		return "*"
	case *ref.ListV:
		out := []interface{}{}
		for _, e := range x.E {
			out = append(out, toJSONW(t.Elem, e))
		}
		return out
	case *ref.MapV:
		out := []interface{}{}
		for i := range x.K {
			out = append(out, []interface{}{toJSONW(t.Key, x.K[i]), toJSONW(t.Elem, x.E[i])})
		}
		return out
	case *ref.StructV:
		out := map[string]interface{}{}
		for id, fv := range x.F {
			f := t.Struct.Field(id)
			if f == nil {
				panic(fmt.Sprintf("c06: value of %s has unknown field %d", t.Struct.Name, id))
			}
			out[strconv.Itoa(int(id))] = toJSONW(f.Type, fv)
		}
		return out
	}
	return ref.ToJSON(t, v)
}

// parseW reads the tagged JSON form (the driver's dump, or an expectation)
// under a type.  Go's untyped constants arrive with the default type of their
// literal (`D = 100000` for a double is an int): numbers are read numerically.
func parseW(t *ref.Type, raw interface{}) (ref.V, error) {
	if raw == nil {
		return nil, nil
	}
	if s, ok := raw.(string); ok && s == "*" {
		return wildV{}, nil
	}
	bad := func() (ref.V, error) {
		return nil, fmt.Errorf("value %v (%T) does not fit type %s", raw, raw, t.Kind)
	}
	switch t.Kind {
	case ref.Double:
		s, ok := raw.(string)
		if !ok {
			return bad()
		}
		if strings.HasPrefix(s, "0x") {
			return ref.FromJSON(t, raw)
		}
		i, err := strconv.ParseInt(s, 10, 64)
		if err != nil {
			return bad()
		}
		return float64(i), nil
	case ref.List, ref.Set:
		a, ok := raw.([]interface{})
		if !ok {
			return bad()
		}
		l := &ref.ListV{E: []ref.V{}}
		for _, e := range a {
			x, err := parseW(t.Elem, e)
			if err != nil {
				return nil, err
			}
			l.E = append(l.E, x)
		}
		return l, nil
	case ref.Map:
		a, ok := raw.([]interface{})
		if !ok {
			return bad()
		}
		m := &ref.MapV{K: []ref.V{}, E: []ref.V{}}
		for _, e := range a {
			p, ok := e.([]interface{})
			if !ok || len(p) != 2 {
				return bad()
			}
			k, err := parseW(t.Key, p[0])
			if err != nil {
				return nil, err
			}
			x, err := parseW(t.Elem, p[1])
			if err != nil {
				return nil, err
			}
			m.K = append(m.K, k)
			m.E = append(m.E, x)
		}
		return m, nil
	case ref.Struct:
		o, ok := raw.(map[string]interface{})
		if !ok || t.Struct == nil {
			return bad()
		}
		v := ref.NewStruct()
		for k, fr := range o {
			id, err := strconv.Atoi(k)
			if err != nil {
				return bad()
			}
			f := t.Struct.Field(int32(id))
			if f == nil {
				return nil, fmt.Errorf("field id %d which %s does not have", id, t.Struct.Name)
			}
			x, err := parseW(f.Type, fr)
			if err != nil {
				return nil, fmt.Errorf("%s.%s: %w", t.Struct.Name, f.Name, err)
			}
			if x != nil {
				v.F[int32(id)] = x
			}
		}
		return v, nil
	}
	return ref.FromJSON(t, raw)
}

func show(v ref.V) string {
	switch x := v.(type) {
	case wildV:
		return "*"
	case *ref.ListV:
		var ss []string
		for _, e := range x.E {
			ss = append(ss, show(e))
		}
		return "[" + strings.Join(ss, ", ") + "]"
	case *ref.MapV:
		var ss []string
		for i := range x.K {
			ss = append(ss, show(x.K[i])+": "+show(x.E[i]))
		}
		return "{" + strings.Join(ss, ", ") + "}"
	case *ref.StructV:
		var ss []string
		for _, id := range x.IDs() {
			ss = append(ss, fmt.Sprintf("%d=%s", id, show(x.F[id])))
		}
		return "<" + strings.Join(ss, ", ") + ">"
	}
	return ref.Show(v)
}

func emptyish(t *ref.Type, v ref.V) bool {
	switch x := v.(type) {
	case *ref.ListV:
		return len(x.E) == 0
	case *ref.MapV:
		return len(x.K) == 0
	case []byte:
		return t.Kind == ref.Binary && len(x) == 0
	}
	return false
}

// same compares an expectation with what Go holds, by Go's rules: integers
// and enums numerically, doubles by bits, strings/binary bytewise, lists and
// sets in order, maps as entry sets, structs field by field; a nil container
// (or nil binary) and an empty one are one value; nil pointer = absent.
func same(t *ref.Type, want, got ref.V, path string) error {
	if _, ok := want.(wildV); ok {
		return nil
	}
	if want == nil {
		if got == nil || emptyish(t, got) {
			return nil
		}
		return fmt.Errorf("%s: want nil/unset, got %s", path, show(got))
	}
	if got == nil {
		if emptyish(t, want) {
			return nil
		}
		return fmt.Errorf("%s: want %s, got nil/unset", path, show(want))
	}
	switch t.Kind {
	case ref.List, ref.Set:
		w, ok1 := want.(*ref.ListV)
		g, ok2 := got.(*ref.ListV)
		if !ok1 || !ok2 {
			return fmt.Errorf("%s: want %s, got %s", path, show(want), show(got))
		}
		if len(w.E) != len(g.E) {
			return fmt.Errorf("%s: want %d elements %s, got %d elements %s", path, len(w.E), show(want), len(g.E), show(got))
		}
		for i := range w.E {
			if err := same(t.Elem, w.E[i], g.E[i], fmt.Sprintf("%s[%d]", path, i)); err != nil {
				return err
			}
		}
		return nil
	case ref.Map:
		w, ok1 := want.(*ref.MapV)
		g, ok2 := got.(*ref.MapV)
		if !ok1 || !ok2 {
			return fmt.Errorf("%s: want %s, got %s", path, show(want), show(got))
		}
		if len(w.K) != len(g.K) {
			return fmt.Errorf("%s: want %d entries %s, got %d entries %s", path, len(w.K), show(want), len(g.K), show(got))
		}
		used := make([]bool, len(g.K))
	outer:
		for i := range w.K {
			for j := range g.K {
				if !used[j] && same(t.Key, w.K[i], g.K[j], "") == nil && same(t.Elem, w.E[i], g.E[j], "") == nil {
					used[j] = true
					continue outer
				}
			}
			return fmt.Errorf("%s: entry %s: %s has no counterpart: want %s, got %s", path, show(w.K[i]), show(w.E[i]), show(want), show(got))
		}
		return nil
	case ref.Struct:
		w, ok1 := want.(*ref.StructV)
		g, ok2 := got.(*ref.StructV)
		if !ok1 || !ok2 || t.Struct == nil {
			return fmt.Errorf("%s: want %s, got %s", path, show(want), show(got))
		}
		for _, f := range t.Struct.Fields {
			if err := same(f.Type, w.F[f.ID], g.F[f.ID], path+"."+f.Name); err != nil {
				return err
			}
		}
		return nil
	}
	if !ref.Equal(want, got) {
		return fmt.Errorf("%s: want %s, got %s", path, show(want), show(got))
	}
	return nil
}

// goZero is what a field nobody initialised holds in Go, as the driver dumps
// it: optional fields without a default are nil pointers / nil containers,
// struct-typed fields are nil pointers, containers and binary are nil,
// everything else is the zero scalar.
func goZero(f *ref.FieldT) ref.V {
	if f.Req == idl.ReqOptional {
		return nil
	}
	switch f.Type.Kind {
	case ref.List, ref.Set, ref.Map, ref.Struct, ref.Binary:
		return nil
	}
	return ref.Zero(f.Type)
}

// getterZero is what the getter of an unset field without a declared default
// returns: the zero value of the (dereferenced) type.
func getterZero(t *ref.Type) ref.V {
	switch t.Kind {
	case ref.List, ref.Set, ref.Map, ref.Struct, ref.Binary:
		return nil
	}
	return ref.Zero(t)
}

// sameScalar: does Go's != see a difference (doubles numerically: -0 == 0).
func sameScalar(a, b ref.V) bool {
	if x, ok := a.(float64); ok {
		if y, ok := b.(float64); ok {
			return x == y
		}
	}
	return ref.Equal(a, b)
}

// ---------- judge ----------

type item struct {
	Kind   string // const | struct
	Name   string
	Status string // judged | ambiguous | other_package | unmapped
	Err    error
}

// lastDetail: why the last unusable session was unusable (evidence only).
var lastDetail string

// bucket strips digits and paths from a compiler / thriftgo message so that it can serve as a histogram key.
func bucket(s string) string {
	var keep []string
	for _, part := range strings.Split(s, " | ") {
		part = strings.TrimSpace(part)
		if i := strings.Index(part, "[WARN]"); i >= 0 || strings.HasPrefix(part, "#") || part == "" {
			continue
		}
		keep = append(keep, part)
	}
	if len(keep) > 0 {
		s = keep[0]
	} else if strings.Contains(s, "[WARN]") {
		s = "reason cut off after warnings"
	}
	if i := strings.Index(s, ".go:"); i >= 0 {
		s = s[i+4:]
	}
	var b strings.Builder
	for _, r := range s {
		if r >= '0' && r <= '9' || r == ':' {
			continue
		}
		b.WriteRune(r)
	}
	s = strings.TrimSpace(b.String())
	if len(s) > 70 {
		s = s[:70]
	}
	return s
}

type caller func(req map[string]interface{}) (map[string]interface{}, error)

func roundJSON(v interface{}) interface{} {
	b, _ := json.Marshal(v)
	var out interface{}
	json.Unmarshal(b, &out)
	return out
}

func normName(s string) string {
	return strings.ToLower(strings.ReplaceAll(s, "_", ""))
}

type goConst struct {
	pkg, name, gotype, kind string
	value                   interface{}
}

// judge runs the real generated code.  status is the session status (ok,
// rejected, nocompile); a non-nil error is harness trouble; violations are in
// the items.
func judge(c progCase) (status string, items []item, err error) {
	sess, err := drv.Open(c.Files, c.Main, c.Gen, nil)
	if err != nil {
		return "harness", nil, fmt.Errorf("harness: %v", err)
	}
	if sess.Status != "ok" {
		lastDetail = sess.Detail
		return sess.Status, nil, nil
	}
	sch, err := ref.Import(c.Schema)
	if err != nil {
		return "harness", nil, fmt.Errorf("harness: %v", err)
	}
	call := func(req map[string]interface{}) (map[string]interface{}, error) {
		resp, err := sess.Proc.Call(req)
		if err != nil {
			return nil, fmt.Errorf("harness: %v", err)
		}
		if h, ok := resp["harness"]; ok {
			return nil, fmt.Errorf("harness: driver: %v", h)
		}
		return resp, nil
	}
	var consts []goConst
	haveConsts := false
	for _, ce := range c.Consts {
		if c.Focus != "" && c.Focus != "const:"+ce.Name {
			continue
		}
		if !haveConsts {
			resp, err := call(map[string]interface{}{"op": "consts"})
			if err != nil {
				return "harness", nil, err
			}
			if p, ok := resp["panic"]; ok {
				return "harness", nil, fmt.Errorf("harness: consts panicked: %v", p)
			}
			cs, _ := resp["consts"].([]interface{})
			for _, x := range cs {
				o, _ := x.(map[string]interface{})
				s := func(k string) string { v, _ := o[k].(string); return v }
				consts = append(consts, goConst{pkg: s("pkg"), name: s("go"), gotype: s("gotype"), kind: s("kind"), value: o["value"]})
			}
			haveConsts = true
		}
		items = append(items, judgeConst(sch, consts, ce))
	}
	for _, se := range c.Structs {
		if c.Focus != "" && c.Focus != "struct:"+se.Name {
			continue
		}
		it, err := judgeStruct(call, sch, sess, se)
		if err != nil {
			return "harness", nil, err
		}
		items = append(items, it)
	}
	return "ok", items, nil
}

func judgeConst(sch *ref.Schema, consts []goConst, ce constExp) item {
	it := item{Kind: "const", Name: ce.Name, Status: "judged"}
	t := sch.ImportType(ce.Type)
	want, err := parseW(t, roundJSON(ce.Want))
	if err != nil {
		it.Err = fmt.Errorf("harness: expectation of %s: %v", ce.Name, err)
		return it
	}
	key := normName(ce.Name)
	var here, elsewhere []goConst
	for _, gc := range consts {
		if normName(gc.name) != key {
			continue
		}
		if gc.pkg == ce.Pkg {
			here = append(here, gc)
		} else {
			elsewhere = append(elsewhere, gc)
		}
	}
	switch {
	case len(here) > 1:
		it.Status = "ambiguous"
		return it
	case len(here) == 0 && len(elsewhere) > 0:
		// which package a file lands in is C01/C20's matter; not judged here
		it.Status = "other_package"
		return it
	case len(here) == 0:
		var names []string
		for _, gc := range consts {
			if gc.pkg == ce.Pkg {
				names = append(names, gc.name)
			}
		}
		sort.Strings(names)
		it.Err = fmt.Errorf("IDL constant %s of %s has no Go counterpart in package %s (exported constants and variables there: %s)", ce.Name, ce.File, ce.Pkg, vt.Truncate(strings.Join(names, " "), 400))
		return it
	}
	gc := here[0]
	got, err := parseW(t, gc.value)
	if err != nil {
		it.Err = fmt.Errorf("constant %s (%s): Go %s.%s of type %s holds something that is not a value of the IDL type: %v", ce.Name, ce.File, gc.pkg, gc.name, gc.gotype, err)
		return it
	}
	if err := same(t, want, got, ce.Name); err != nil {
		it.Err = fmt.Errorf("constant %s of %s: Go %s.%s (%s) differs from the IDL initializer\n  %v\n  want %s\n  got  %s", ce.Name, ce.File, gc.pkg, gc.name, gc.gotype, err, show(want), show(got))
	}
	return it
}

func judgeStruct(call caller, sch *ref.Schema, sess *drv.Session, se structExp) (item, error) {
	it := item{Kind: "struct", Name: se.Name, Status: "judged"}
	st := sch.ByName(se.Name)
	if st == nil {
		return it, fmt.Errorf("harness: struct %s not in schema", se.Name)
	}
	ti, ok := sess.Type(se.Name)
	if !ok {
		it.Status = "unmapped"
		return it, nil
	}
	top := &ref.Type{Kind: ref.Struct, Struct: st}
	defs := map[int32]ref.V{}
	for _, f := range st.Fields {
		if !f.HasDef {
			continue
		}
		raw, ok := se.Defaults[strconv.Itoa(int(f.ID))]
		if !ok {
			return it, fmt.Errorf("harness: no expectation for default of %s.%s", se.Name, f.Name)
		}
		d, err := parseW(f.Type, roundJSON(raw))
		if err != nil {
			return it, fmt.Errorf("harness: default of %s.%s: %v", se.Name, f.Name, err)
		}
		defs[f.ID] = d
	}
	fail := func(format string, args ...interface{}) (item, error) {
		it.Err = fmt.Errorf("%s %s (Go %s): %s", st.Kind, se.Name, ti.Key, fmt.Sprintf(format, args...))
		return it, nil
	}

	// two passes: the second one constructs and inspects fresh objects after ANOTHER object's
	// containers and nested structs (obtained from the constructor and from InitDefault) were
	// modified in place: declared defaults must not be shared between objects
	for pass := 0; pass < 2; pass++ {
		req := map[string]interface{}{"op": "new", "type": ti.Key}
		after := ""
		if pass == 1 {
			req["after_mutation"] = true
			after = " (after another object's default containers were modified in place)"
		}
		resp, err := call(req)
		if err != nil {
			return it, err
		}
		if p, ok := resp["panic"]; ok {
			return fail("constructing and inspecting a fresh object panicked%s: %v", after, p)
		}
		wantNew := ref.NewStruct()
		for _, f := range st.Fields {
			if d, ok := defs[f.ID]; ok {
				wantNew.F[f.ID] = d
			} else if z := goZero(f); z != nil {
				wantNew.F[f.ID] = z
			}
		}
		// (1) NewX() and InitDefault() on a zero struct
		for _, src := range []string{"value", "initdefault"} {
			raw, present := resp[src]
			if !present {
				continue // no InitDefault method under this configuration
			}
			what := map[string]string{"value": "the constructor", "initdefault": "InitDefault() on a zero struct"}[src] + after
			got, err := parseW(top, raw)
			if err != nil {
				return fail("%s yields an object that does not fit the schema: %v", what, err)
			}
			if err := same(top, wantNew, got, se.Name); err != nil {
				return fail("%s does not leave declared defaults in fields with a default and zero/nil elsewhere\n  %v\n  want %s\n  got  %s", what, err, show(wantNew), show(got))
			}
		}
		// (2) getters / IsSet on the fresh object: a field with a default yields it, others yield zero
		if err := checkInspect(st, defs, resp["inspect"], "on a freshly constructed object"+after, func(f *ref.FieldT) (ref.V, *bool, bool) {
			if d, ok := defs[f.ID]; ok {
				if f.Req == idl.ReqOptional && ref.IsScalar(f.Type) {
					no := false
					return d, &no, true // holds exactly the default: not set (granted convention)
				}
				return d, nil, true
			}
			return getterZero(f.Type), nil, true
		}); err != nil {
			return fail("%v", err)
		}
		// (3) a zero struct: optional scalars with a default hold 0 (set iff 0 differs from the default);
		//     optional containers/structs are nil = unset, the getter yields the declared default
		if err := checkInspect(st, defs, resp["zero_inspect"], "on a zero struct"+after, func(f *ref.FieldT) (ref.V, *bool, bool) {
			if f.Req != idl.ReqOptional {
				return nil, nil, false
			}
			d, has := defs[f.ID]
			if !has {
				return getterZero(f.Type), nil, true
			}
			if ref.IsScalar(f.Type) {
				z := ref.Zero(f.Type)
				set := !sameScalar(z, d)
				return z, &set, true
			}
			return d, nil, true
		}); err != nil {
			return fail("%v", err)
		}
	} // passes
	// (4) every optional field absent (constructor + nil for pointers/containers): getters yield the declared default
	hasOpt := false
	for _, f := range st.Fields {
		if f.Req == idl.ReqOptional {
			hasOpt = true
		}
	}
	if hasOpt {
		resp, err := call(map[string]interface{}{"op": "inspect", "type": ti.Key, "value": map[string]interface{}{}})
		if err != nil {
			return it, err
		}
		if p, ok := resp["panic"]; ok {
			return fail("inspecting an object with every optional field unset panicked: %v", p)
		}
		if err := checkInspect(st, defs, resp["inspect"], "with every optional field unset", func(f *ref.FieldT) (ref.V, *bool, bool) {
			if f.Req != idl.ReqOptional {
				return nil, nil, false
			}
			if d, ok := defs[f.ID]; ok {
				if f.Type.Kind == ref.Binary {
					// the driver keeps the constructor's value in an absent binary field that has a
					// default (nil would mean "set to empty"): unset = holds the default, not set
					no := false
					return d, &no, true
				}
				if ref.IsScalar(f.Type) {
					no := false
					return d, &no, true
				}
				return d, nil, true
			}
			return getterZero(f.Type), nil, true
		}); err != nil {
			return fail("%v", err)
		}
	}
	// (5) an optional field holding a value different from its default reports itself as set
	for _, pr := range se.Probes {
		f := st.Field(pr.Field)
		if f == nil {
			return it, fmt.Errorf("harness: probe for unknown field %d of %s", pr.Field, se.Name)
		}
		id := strconv.Itoa(int(f.ID))
		pv, err := parseW(f.Type, roundJSON(pr.Value))
		if err != nil {
			return it, fmt.Errorf("harness: probe value: %v", err)
		}
		resp, err := call(map[string]interface{}{"op": "inspect", "type": ti.Key, "value": map[string]interface{}{id: pr.Value}})
		if err != nil {
			return it, err
		}
		if p, ok := resp["panic"]; ok {
			return fail("inspecting an object with optional field %s (id %d) = %s panicked: %v", f.Name, f.ID, show(pv), p)
		}
		obj, _ := resp["value"].(map[string]interface{})
		held, err := parseW(f.Type, obj[id])
		if err != nil {
			return it, fmt.Errorf("harness: %v", err)
		}
		if ref.IsScalar(f.Type) && !ref.Equal(held, pv) {
			return it, fmt.Errorf("harness: driver could not store %s into %s.%s (holds %s)", show(pv), se.Name, f.Name, show(held))
		}
		ins, _ := resp["inspect"].(map[string]interface{})
		e, _ := ins[id].(map[string]interface{})
		if set, ok := e["isset"].(bool); ok && !set {
			d := "none"
			if dv, ok := defs[f.ID]; ok {
				d = show(dv)
			}
			return fail("optional field %s (id %d) holds %s, which differs from its default (%s), but reports itself as not set", f.Name, f.ID, show(pv), d)
		}
		if gp, ok := e["get_panic"]; ok {
			return fail("getter of optional field %s (id %d) holding %s panicked: %v", f.Name, f.ID, show(pv), gp)
		}
		if raw, ok := e["get"]; ok {
			got, err := parseW(f.Type, raw)
			if err != nil {
				return fail("getter of field %s (id %d) returns something that does not fit the IDL type: %v", f.Name, f.ID, err)
			}
			if err := same(f.Type, held, got, f.Name); err != nil {
				return fail("getter of optional field %s (id %d), which is set, does not return the value the field holds\n  %v", f.Name, f.ID, err)
			}
		}
	}
	return it, nil
}

// checkInspect compares per-field getter / IsSet results with what `want`
// says for the field: (value the getter must return, IsSet if asserted, whether the field is judged).
func checkInspect(st *ref.StructT, defs map[int32]ref.V, raw interface{}, when string, want func(f *ref.FieldT) (ref.V, *bool, bool)) error {
	ins, _ := raw.(map[string]interface{})
	for _, f := range st.Fields {
		e, _ := ins[strconv.Itoa(int(f.ID))].(map[string]interface{})
		if e == nil {
			continue
		}
		wv, wset, judged := want(f)
		if !judged {
			continue
		}
		dflt := "no declared default"
		if d, ok := defs[f.ID]; ok {
			dflt = "declared default " + show(d)
		}
		if gp, ok := e["get_panic"]; ok {
			return fmt.Errorf("getter of field %s (id %d, %s) panicked %s: %v", f.Name, f.ID, dflt, when, gp)
		}
		if rawGet, ok := e["get"]; ok {
			got, err := parseW(f.Type, rawGet)
			if err != nil {
				return fmt.Errorf("getter of field %s (id %d) returns something that does not fit the IDL type: %v", f.Name, f.ID, err)
			}
			if err := same(f.Type, wv, got, f.Name); err != nil {
				return fmt.Errorf("getter of field %s (id %d, %s) %s\n  %v", f.Name, f.ID, dflt, when, err)
			}
		}
		if set, ok := e["isset"].(bool); ok && wset != nil && set != *wset {
			return fmt.Errorf("IsSet of optional field %s (id %d, %s) %s is %v, want %v", f.Name, f.ID, dflt, when, set, *wset)
		}
	}
	return nil
}

// ---------- generation ----------

type gctx struct {
	sch     *ref.Schema
	exclLit bool // the listed struct-literal finding is excluded
	hitLit  bool // ... and the current row needed the exclusion
}

// expand turns an evaluated initializer into the full object the IDL's rules
// describe: inside a struct literal a field that is not named takes its
// declared default; without one it is unset (Go: zero / nil).
func (g *gctx) expand(t *ref.Type, v ref.V) ref.V {
	switch t.Kind {
	case ref.List, ref.Set:
		x := v.(*ref.ListV)
		o := &ref.ListV{E: []ref.V{}}
		for _, e := range x.E {
			o.E = append(o.E, g.expand(t.Elem, e))
		}
		return o
	case ref.Map:
		x := v.(*ref.MapV)
		o := &ref.MapV{K: []ref.V{}, E: []ref.V{}}
		for i := range x.K {
			o.K = append(o.K, g.expand(t.Key, x.K[i]))
			o.E = append(o.E, g.expand(t.Elem, x.E[i]))
		}
		return o
	case ref.Struct:
		x := v.(*ref.StructV)
		o := ref.NewStruct()
		for _, f := range t.Struct.Fields {
			if fv, ok := x.F[f.ID]; ok {
				o.F[f.ID] = g.expand(f.Type, fv)
				continue
			}
			if f.HasDef {
				if g.exclLit {
					o.F[f.ID] = wildV{}
					g.hitLit = true
				} else {
					o.F[f.ID] = g.expand(f.Type, f.Default)
				}
				continue
			}
			if z := goZero(f); z != nil {
				o.F[f.ID] = z
			}
		}
		return o
	}
	return v
}

// pkgDir is the directory of the package generated for a file: its go
// namespace (or the `*` namespace) with dots as slashes, else the base name.
func pkgDir(f *idl.File) string {
	star := ""
	for _, n := range f.Namespaces {
		if n.Lang == "go" {
			return strings.ReplaceAll(n.Name, ".", "/")
		}
		if n.Lang == "*" {
			star = n.Name
		}
	}
	if star != "" {
		return strings.ReplaceAll(star, ".", "/")
	}
	return strings.ToLower(f.Prefix())
}

// spellings collects how a value was written (classes of the evidence).
func spellings(t *ref.Type, v *idl.Value, from *idl.File, depth int, tags map[string]bool) {
	if v.Kind == idl.VIdent && v.RefConst != nil {
		tags["spell:const_identifier"] = true
		if v.RefConst.File != from {
			tags["spell:const_identifier_qualified"] = true
			tags["cross_file_reference"] = true
		}
		if depth > 0 {
			tags["spell:const_identifier_inside_literal"] = true
		}
		return
	}
	switch t.Kind {
	case ref.Bool:
		if v.Kind == idl.VInt {
			tags["spell:bool_0_1"] = true
		} else {
			tags["spell:bool_keyword"] = true
		}
	case ref.Byte, ref.I16, ref.I32, ref.I64:
		tags["spell:int_"+[]string{"decimal", "hex", "octal", "plus_sign"}[v.IntSpelling]] = true
	case ref.Double:
		switch {
		case v.Kind == idl.VInt:
			tags["spell:int_for_double"] = true
		case strings.ContainsAny(v.DblText, "eE"):
			tags["spell:double_exponent"] = true
		default:
			tags["spell:double_literal"] = true
		}
	case ref.String, ref.Binary:
		tags["spell:string_literal"] = true
		for _, tk := range v.Lit.Toks {
			switch tk.Kind {
			case 1:
				tags["spell:literal_with_backslash_pair"] = true
			case 2:
				tags["spell:literal_with_quote"] = true
			}
		}
	case ref.Enum:
		switch {
		case v.Kind == idl.VInt:
			tags["spell:enum_by_number"] = true
		default:
			tags["spell:enum_by_name"] = true
			if v.Via != nil {
				tags["spell:enum_via_typedef"] = true
			}
			if strings.Count(v.Ident, ".") >= 2 {
				tags["spell:enum_qualified"] = true
				tags["cross_file_reference"] = true
			}
		}
	case ref.List, ref.Set:
		tags["spell:"+t.Kind.String()+"_literal"] = true
		if depth > 0 {
			tags["spell:nested_literal"] = true
		}
		for _, e := range v.List {
			spellings(t.Elem, e, from, depth+1, tags)
		}
	case ref.Map:
		tags["spell:map_literal"] = true
		if depth > 0 {
			tags["spell:nested_literal"] = true
		}
		for i, e := range v.List {
			spellings(t.Key, v.Keys[i], from, depth+1, tags)
			spellings(t.Elem, e, from, depth+1, tags)
		}
	case ref.Struct:
		tags["spell:struct_literal"] = true
		if depth > 0 {
			tags["spell:struct_literal_inside_literal"] = true
		}
		named := map[string]bool{}
		for i, e := range v.List {
			n := v.Keys[i].Lit.Text()
			named[n] = true
			if f := t.Struct.FieldByName(n); f != nil {
				spellings(f.Type, e, from, depth+1, tags)
			}
		}
		partial, dropsDefault := false, false
		for _, f := range t.Struct.Fields {
			if !named[f.Name] {
				partial = true
				if f.HasDef {
					dropsDefault = true
				}
			}
		}
		if partial {
			tags["spell:struct_literal_partial"] = true
		}
		if dropsDefault {
			tags["spell:struct_literal_leaves_out_field_with_default"] = true
		}
	}
}

var styles = []string{"", "", "naming_style=golint", "naming_style=apache", "naming_style=thriftgo"}

// genSpec draws the representation options named in the property (plus
// nil_safe, which changes the getters).
func genSpec(rt *rapid.T) string {
	var opts []string
	if rapid.IntRange(0, 2).Draw(rt, "enum32") == 0 {
		opts = append(opts, "enum_as_int_32")
	}
	if rapid.IntRange(0, 3).Draw(rt, "valuetype") == 0 {
		opts = append(opts, "value_type_in_container")
	}
	if rapid.IntRange(0, 3).Draw(rt, "noalias") == 0 {
		opts = append(opts, "use_type_alias=false")
	}
	if s := rapid.SampledFrom(styles).Draw(rt, "style"); s != "" {
		opts = append(opts, s)
	}
	if rapid.IntRange(0, 3).Draw(rt, "initialisms") == 0 {
		opts = append(opts, "ignore_initialisms")
	}
	if rapid.IntRange(0, 4).Draw(rt, "nilsafe") == 0 {
		opts = append(opts, "nil_safe")
	}
	if len(opts) == 0 {
		return "go"
	}
	return "go:" + strings.Join(opts, ",")
}

func modelCfg(rt *rapid.T) idl.Cfg {
	c := idl.GoSafe()
	c.MaxFiles = rapid.IntRange(2, 3).Draw(rt, "maxfiles")
	c.MaxDefs = rapid.IntRange(3, 4).Draw(rt, "maxdefs")
	c.Annotations = false
	c.Comments = false
	c.Services = false
	c.SharedNS = rapid.IntRange(0, 3).Draw(rt, "sharedns") == 0
	c.SameConstNames = true // pa.LIMIT and pb.LIMIT are different constants
	if vt.Known("C05", "enum-via-typedef-far") {
		// the front end binds such a constant to nothing (C05's listed finding): thriftgo rejects the program
		c.EnumViaTypedefFar = false
		vt.Excluded("C05-enum-via-typedef-far")
	}
	return c
}

// rowMeta is what the property records about a row (not part of the case).
type rowMeta struct {
	tags       map[string]bool
	nontrivial bool
	excluded   bool
}

// addExtras appends to the main file a few constants of shapes the general
// generator produces rarely but that the resolver treats specially: maps whose
// key and value types coincide (only there a key/value mix-up still compiles).
// Names continue the generator's scheme (prefix C, a stem, a number no other
// definition has).
func addExtras(rt *rapid.T, p *idl.Program) {
	f := p.Files[0]
	n := rapid.IntRange(0, 2).Draw(rt, "nextra")
	for i := 0; i < n; i++ {
		base := rapid.SampledFrom([]string{"string", "i32", "i64", "i16", "byte", "bool", "binary"}).Draw(rt, "xbase")
		d := &idl.Def{Kind: idl.KConst, Name: fmt.Sprintf("Cextra%d", 9000+i), File: f}
		d.Type = &idl.Type{Base: "map", Key: &idl.Type{Base: base}, Elem: &idl.Type{Base: base}}
		v := &idl.Value{Kind: idl.VMap, List: []*idl.Value{}, Keys: []*idl.Value{}}
		switch base {
		case "bool":
			k := rapid.Bool().Draw(rt, "xk")
			kw := func(b bool) *idl.Value {
				if rapid.Bool().Draw(rt, "xkw") {
					return &idl.Value{Kind: idl.VIdent, Ident: fmt.Sprint(b), IsBoolKw: true}
				}
				if b {
					return &idl.Value{Kind: idl.VInt, Int: 1}
				}
				return &idl.Value{Kind: idl.VInt, Int: 0}
			}
			v.Keys = append(v.Keys, kw(k))
			v.List = append(v.List, kw(!k))
		case "string", "binary":
			ks := rapid.SliceOfNDistinct(rapid.SampledFrom([]string{"a", "b", "k1", "", "x y"}), 1, 3, rapid.ID[string]).Draw(rt, "xkeys")
			for j, k := range ks {
				v.Keys = append(v.Keys, &idl.Value{Kind: idl.VLit, Lit: idl.PlainLit(k)})
				v.List = append(v.List, &idl.Value{Kind: idl.VLit, Lit: idl.PlainLit(fmt.Sprintf("v%d", j))})
			}
		default:
			ks := rapid.SliceOfNDistinct(rapid.IntRange(-50, 50), 1, 3, rapid.ID[int]).Draw(rt, "xkeys")
			for j, k := range ks {
				v.Keys = append(v.Keys, &idl.Value{Kind: idl.VInt, Int: int64(k)})
				v.List = append(v.List, &idl.Value{Kind: idl.VInt, Int: int64(100 + j)})
			}
		}
		d.Value = v
		f.Defs = append(f.Defs, d)
	}
	// references: the general generator writes an identifier only when a constant of structurally the same
	// type happens to exist; here constants and enum members visible from the main file are named on purpose
	// (directly, inside a list, as a map value), also across includes
	visible := func(from *idl.File, d *idl.Def) bool { return d.File == from || from.IncludeIndex(d.File) >= 0 }
	var typeVisible func(t *idl.Type) bool
	typeVisible = func(t *idl.Type) bool {
		if t == nil {
			return true
		}
		if t.Ref != nil {
			return visible(f, t.Ref)
		}
		return typeVisible(t.Key) && typeVisible(t.Elem)
	}
	var consts, enums []*idl.Def
	for _, g := range append([]*idl.File{f}, f.Includes...) {
		for _, d := range g.Defs {
			switch {
			case d.Kind == idl.KConst && typeVisible(d.Type) && !strings.HasPrefix(d.Name, "Cextra"):
				consts = append(consts, d)
			case d.Kind == idl.KEnum && len(d.Values) > 0:
				enums = append(enums, d)
			}
		}
	}
	next := 9100
	add := func(t *idl.Type, v *idl.Value) {
		f.Defs = append(f.Defs, &idl.Def{Kind: idl.KConst, Name: fmt.Sprintf("Cextra%d", next), File: f, Type: t, Value: v})
		next++
	}
	if len(consts) > 0 {
		for i := rapid.IntRange(0, 2).Draw(rt, "nxref"); i > 0; i-- {
			c := rapid.SampledFrom(consts).Draw(rt, "xref")
			id := &idl.Value{Kind: idl.VIdent, Ident: idl.ConstRefText(f, c), RefConst: c}
			switch rapid.IntRange(0, 3).Draw(rt, "xrefshape") {
			case 0, 1:
				add(c.Type, id)
			case 2:
				add(&idl.Type{Base: "list", Elem: c.Type}, &idl.Value{Kind: idl.VList, List: []*idl.Value{id, id}})
			case 3:
				add(&idl.Type{Base: "map", Key: &idl.Type{Base: "string"}, Elem: c.Type},
					&idl.Value{Kind: idl.VMap, Keys: []*idl.Value{{Kind: idl.VLit, Lit: idl.PlainLit("k")}}, List: []*idl.Value{id}})
			}
		}
	}
	// an identifier inside a struct literal whose struct lives in an included file, where that file has a
	// constant of the same name: the identifier denotes the constant of the file that writes the literal
	if rapid.IntRange(0, 1).Draw(rt, "xshadow") == 0 {
		type cand struct {
			st *idl.Def
			fd *idl.Field
		}
		var cands []cand
		for _, inc := range f.Includes {
			if pkgDir(inc) == pkgDir(f) {
				continue
			}
			for _, d := range inc.Defs {
				if d.Kind != idl.KStruct && d.Kind != idl.KException {
					continue
				}
				for _, fd := range d.Fields {
					switch fd.Type.Base {
					case "byte", "i8", "i16", "i32", "i64", "double", "string", "binary":
						cands = append(cands, cand{d, fd})
					}
				}
			}
		}
		if len(cands) > 0 {
			if vt.Known(prop, fdIdentScope) {
				vt.Excluded(fdIdentScope)
			} else {
				c := rapid.SampledFrom(cands).Draw(rt, "xshadowfield")
				mk := func(n int64) *idl.Value {
					if c.fd.Type.Base == "string" || c.fd.Type.Base == "binary" {
						return &idl.Value{Kind: idl.VLit, Lit: idl.PlainLit(fmt.Sprintf("s%d", n))}
					}
					return &idl.Value{Kind: idl.VInt, Int: n}
				}
				theirs := &idl.Def{Kind: idl.KConst, Name: "Cshadow9200", File: c.st.File, Type: &idl.Type{Base: c.fd.Type.Base}, Value: mk(1)}
				c.st.File.Defs = append(c.st.File.Defs, theirs)
				ours := &idl.Def{Kind: idl.KConst, Name: "Cshadow9200", File: f, Type: &idl.Type{Base: c.fd.Type.Base}, Value: mk(2)}
				f.Defs = append(f.Defs, ours)
				f.Defs = append(f.Defs, &idl.Def{Kind: idl.KConst, Name: "Cextra9300", File: f, Type: &idl.Type{Ref: c.st},
					Value: &idl.Value{Kind: idl.VMap, Keys: []*idl.Value{{Kind: idl.VLit, Lit: idl.PlainLit(c.fd.Name)}},
						List: []*idl.Value{{Kind: idl.VIdent, Ident: "Cshadow9200", RefConst: ours}}}})
			}
		}
	}
	if len(enums) > 0 {
		for i := rapid.IntRange(0, 1).Draw(rt, "nxenum"); i > 0; i-- {
			e := rapid.SampledFrom(enums).Draw(rt, "xenum")
			m := rapid.SampledFrom(e.Values).Draw(rt, "xmember")
			txt := e.Name + "." + m.Name
			if e.File != f {
				txt = e.File.Prefix() + "." + txt
			}
			byName := &idl.Value{Kind: idl.VIdent, Ident: txt, RefEnum: e, RefVal: m.Name}
			byNumber := &idl.Value{Kind: idl.VInt, Int: m.Value}
			et := &idl.Type{Ref: e}
			switch rapid.IntRange(0, 2).Draw(rt, "xenumshape") {
			case 0:
				add(et, byName)
			case 1:
				add(&idl.Type{Base: "map", Key: et, Elem: &idl.Type{Base: "list", Elem: et}},
					&idl.Value{Kind: idl.VMap, Keys: []*idl.Value{byName}, List: []*idl.Value{{Kind: idl.VList, List: []*idl.Value{byNumber, byName}}}})
			case 2:
				add(&idl.Type{Base: "set", Elem: et}, &idl.Value{Kind: idl.VList, List: []*idl.Value{byName}})
			}
		}
	}
}

func genCase(rt *rapid.T) (progCase, map[string]*rowMeta, *idl.Program) {
	p := idl.Gen(rt, modelCfg(rt))
	addExtras(rt, p)
	sch := ref.Build(p)
	c := progCase{Main: p.Files[0].Path, Files: p.Texts(nil), Gen: genSpec(rt), Schema: sch.Export()}
	meta := map[string]*rowMeta{}
	excl := vt.Known(prop, fdStructLit)
	// only files reachable from the main file through includes are generated (-r)
	reach := map[*idl.File]bool{}
	var visit func(f *idl.File)
	visit = func(f *idl.File) {
		if reach[f] {
			return
		}
		reach[f] = true
		for _, inc := range f.Includes {
			visit(inc)
		}
	}
	visit(p.Files[0])
	for _, f := range p.Files {
		if !reach[f] {
			vt.Class("file_not_included_skipped")
			continue
		}
		for _, d := range f.Defs {
			if d.Kind != idl.KConst {
				continue
			}
			g := &gctx{sch: sch, exclLit: excl}
			t := sch.Resolve(d.Type)
			want := g.expand(t, sch.Eval(t, d.Value))
			c.Consts = append(c.Consts, constExp{File: f.Path, Pkg: pkgDir(f), Name: d.Name, Type: ref.ExportType(t), Want: toJSONW(t, want)})
			m := &rowMeta{tags: map[string]bool{}, excluded: g.hitLit}
			m.tags["const_type:"+t.Kind.String()] = true
			if strings.HasPrefix(d.Name, "Cextra90") {
				m.tags["extra_const_map_same_key_value_type"] = true
			} else if d.Name == "Cextra9300" {
				m.tags["extra_const_struct_literal_names_shadowed_constant"] = true
			} else if strings.HasPrefix(d.Name, "Cextra") {
				m.tags["extra_const_reference"] = true
			}
			if d.Type.ChainLen() > 0 {
				m.tags["const_type_through_typedef"] = true
			}
			spellings(t, d.Value, f, 0, m.tags)
			m.nontrivial = d.Value.Kind == idl.VList || d.Value.Kind == idl.VMap || (d.Value.Kind == idl.VIdent && d.Value.RefConst != nil)
			meta["const:"+d.Name] = m
		}
	}
	for _, st := range sch.Structs {
		if st.Def == nil || !reach[st.File] {
			continue
		}
		se := structExp{Name: st.Name}
		m := &rowMeta{tags: map[string]bool{}}
		g := &gctx{sch: sch, exclLit: excl}
		byID := map[int32]*idl.Field{}
		for _, f := range st.Def.Fields {
			byID[f.ID] = f
		}
		nprobes := 0
		for _, f := range st.Fields {
			if f.HasDef {
				if se.Defaults == nil {
					se.Defaults = map[string]interface{}{}
				}
				se.Defaults[strconv.Itoa(int(f.ID))] = toJSONW(f.Type, g.expand(f.Type, f.Default))
				m.tags["default_type:"+f.Type.Kind.String()] = true
				m.tags["default_req:"+[]string{"default", "required", "optional"}[f.Req]] = true
				if f.Req == idl.ReqOptional {
					m.nontrivial = true
				}
				if mf := byID[f.ID]; mf != nil && mf.Default != nil {
					spellings(f.Type, mf.Default, st.File, 0, m.tags)
				}
			}
			if f.Req == idl.ReqOptional && nprobes < 4 {
				v := ref.GenValue(rt, f.Type, ref.GenOpts{NoNaN: true, MaxDepth: 2, MaxLen: 2})
				if v == nil {
					continue
				}
				nv := ref.Normalise(f.Type, v)
				// "different from its default": from the declared one, and from the zero value a field without a declared default starts with
				if (f.HasDef && (sameScalar(nv, ref.Normalise(f.Type, f.Default)))) || sameScalar(nv, ref.Normalise(f.Type, ref.Zero(f.Type))) {
					m.tags["probe_equals_default_skipped"] = true
					continue
				}
				se.Probes = append(se.Probes, probe{Field: f.ID, Value: ref.ToJSON(f.Type, v)})
				nprobes++
			}
		}
		m.tags["struct_kind:"+st.Kind] = true
		if len(se.Defaults) > 0 {
			m.tags["struct_with_defaults"] = true
		}
		m.excluded = g.hitLit
		c.Structs = append(c.Structs, se)
		meta["struct:"+st.Name] = m
	}
	return c, meta, p
}

func TestValues(t *testing.T) {
	rapid.Check(t, func(rt *rapid.T) {
		c, meta, p := genCase(rt)
		if len(c.Consts) == 0 && len(c.Structs) == 0 {
			rt.Skip("neither constants nor struct-likes")
		}
		status, items, err := judge(c)
		if err != nil {
			rt.Fatalf("%v", err)
		}
		vt.Class("status:" + status)
		opts := strings.Split(strings.TrimPrefix(strings.TrimPrefix(c.Gen, "go"), ":"), ",")
		for _, o := range opts {
			if o != "" {
				vt.Class("option:" + o)
				vt.Class("option:" + o + "|status:" + status)
			}
		}
		if status != "ok" {
			// C01 / C04 decide such programs; nothing can be observed here
			vt.Eval()
			vt.Class("why_" + status + ": " + bucket(lastDetail))
			vt.Sample(map[string]interface{}{"program": p.Describe(), "gen": c.Gen, "status": status, "detail": vt.Truncate(lastDetail, 300)})
			if os.Getenv("VERIF_SURVEY") != "" {
				// development aid: keep the unusable program for a look
				fmt.Fprintf(os.Stderr, "SURVEY %s %s | %s\n", status, c.Gen, lastDetail)
				if dir := os.Getenv("VERIF_SURVEY_DIR"); dir != "" {
					b, _ := json.MarshalIndent(c, "", " ")
					os.WriteFile(fmt.Sprintf("%s/%s-%d.json", dir, status, len(lastDetail)), b, 0o644)
				}
			}
			return
		}
		for _, it := range items {
			key := it.Kind + ":" + it.Name
			m := meta[key]
			vt.Eval()
			vt.Class(it.Kind + "_row:" + it.Status)
			for tag := range m.tags {
				vt.Class(tag)
			}
			if m.excluded {
				vt.Excluded(fdStructLit)
			}
			if m.nontrivial && it.Status == "judged" {
				vt.Nontrivial(key + c.Gen + c.Files[c.Main] + fmt.Sprint(len(c.Files)))
			}
			if it.Kind == "const" {
				vt.Sample(map[string]interface{}{"gen": c.Gen, "const": it.Name, "tags": tagList(m.tags)})
			}
			if it.Err != nil {
				if strings.HasPrefix(it.Err.Error(), "harness:") {
					rt.Fatalf("%v", it.Err)
				}
				fc := c
				fc.Focus = key
				vt.Fail(rt, prop, "values", fc, "%v", it.Err)
			}
		}
	})
}

func tagList(m map[string]bool) []string {
	var out []string
	for k := range m {
		out = append(out, k)
	}
	sort.Strings(out)
	return out
}

func TestReplay(t *testing.T) {
	vt.Replay(t, prop, map[string]vt.Handler{
		"values": func(raw json.RawMessage) error {
			var c progCase
			if err := vt.Decode(raw, &c); err != nil {
				return err
			}
			status, items, err := judge(c)
			if err != nil {
				return err
			}
			if status != "ok" {
				return nil // cannot be observed (C01/C04 decide such programs)
			}
			for _, it := range items {
				if it.Err != nil {
					return it.Err
				}
			}
			return nil
		},
	})
}
