package drv

// driverSource is copied into every scratch module as package vdriver.  It is
// generic and reflective: it knows nothing about a particular program; the
// generated packages register their types through zz_verif.go (written by a
// purely syntactic pass), and the IDL correspondence is read from the
// `thrift:"name,id,req"` struct tags the generated code carries itself.
const driverSource = `package vdriver

import (
	"bufio"
	"bytes"
	"context"
	"encoding/base64"
	"encoding/hex"
	"encoding/json"
	"fmt"
	"math"
	"os"
	"reflect"
	"runtime/debug"
	"sort"
	"strconv"
	"strings"

	"github.com/apache/thrift/lib/go/thrift"
)

var _ = context.Background

type TypeEntry struct {
	Pkg, GoName, IDLName string
	New                  func() interface{}
	rt                   reflect.Type // *T
}

var types = map[string]*TypeEntry{}
var byType = map[reflect.Type]*TypeEntry{}
var typeOrder []string

func RegisterType(pkg, goName, idlName string, newFn func() interface{}) {
	e := &TypeEntry{Pkg: pkg, GoName: goName, IDLName: idlName, New: newFn}
	e.rt = reflect.TypeOf(newFn())
	k := pkg + "#" + goName
	types[k] = e
	byType[e.rt] = e
	typeOrder = append(typeOrder, k)
}

type constEntry struct {
	Pkg, GoName string
	Val         interface{}
}

var consts []constEntry

func RegisterConst(pkg, goName string, val interface{}) {
	consts = append(consts, constEntry{pkg, goName, val})
}

// Hooks lets optional driver parts (services, masks) add operations.
var Hooks = map[string]func(req map[string]interface{}) map[string]interface{}{}

type fieldInfo struct {
	Index   int
	GoName  string
	IDLName string
	ID      int
	Req     string
}

func fieldsOf(t reflect.Type) []fieldInfo {
	var out []fieldInfo
	for i := 0; i < t.NumField(); i++ {
		f := t.Field(i)
		tag, ok := f.Tag.Lookup("thrift")
		if !ok {
			continue
		}
		parts := strings.Split(tag, ",")
		if len(parts) < 2 {
			continue
		}
		id, err := strconv.Atoi(parts[1])
		if err != nil {
			continue
		}
		fi := fieldInfo{Index: i, GoName: f.Name, IDLName: parts[0], ID: id}
		if len(parts) > 2 {
			fi.Req = parts[2]
		}
		out = append(out, fi)
	}
	return out
}

func newOf(t reflect.Type) reflect.Value { // t is a struct type; returns *T
	if e, ok := byType[reflect.PtrTo(t)]; ok {
		return reflect.ValueOf(e.New())
	}
	return reflect.New(t)
}

func decode(raw interface{}, t reflect.Type) (reflect.Value, error) {
	switch t.Kind() {
	case reflect.Ptr:
		if raw == nil {
			return reflect.Zero(t), nil
		}
		if t.Elem().Kind() == reflect.Struct {
			p := newOf(t.Elem())
			if err := fill(raw, p.Elem()); err != nil {
				return reflect.Value{}, err
			}
			return p.Convert(t), nil
		}
		v, err := decode(raw, t.Elem())
		if err != nil {
			return reflect.Value{}, err
		}
		p := reflect.New(t.Elem())
		p.Elem().Set(v)
		return p, nil
	case reflect.Struct:
		p := newOf(t)
		if err := fill(raw, p.Elem()); err != nil {
			return reflect.Value{}, err
		}
		return p.Elem(), nil
	case reflect.Slice:
		if raw == nil {
			return reflect.Zero(t), nil
		}
		if t.Elem().Kind() == reflect.Uint8 {
			s, ok := raw.(string)
			if !ok {
				return reflect.Value{}, fmt.Errorf("want base64 string for %s", t)
			}
			b, err := base64.StdEncoding.DecodeString(s)
			if err != nil {
				return reflect.Value{}, err
			}
			if b == nil {
				b = []byte{}
			}
			return reflect.ValueOf(b).Convert(t), nil
		}
		a, ok := raw.([]interface{})
		if !ok {
			return reflect.Value{}, fmt.Errorf("want array for %s", t)
		}
		s := reflect.MakeSlice(t, 0, len(a))
		for _, e := range a {
			v, err := decode(e, t.Elem())
			if err != nil {
				return reflect.Value{}, err
			}
			s = reflect.Append(s, v)
		}
		return s, nil
	case reflect.Map:
		if raw == nil {
			return reflect.Zero(t), nil
		}
		a, ok := raw.([]interface{})
		if !ok {
			return reflect.Value{}, fmt.Errorf("want array of pairs for %s", t)
		}
		m := reflect.MakeMapWithSize(t, len(a))
		for _, e := range a {
			p, ok := e.([]interface{})
			if !ok || len(p) != 2 {
				return reflect.Value{}, fmt.Errorf("want [k,v] for %s", t)
			}
			k, err := decode(p[0], t.Key())
			if err != nil {
				return reflect.Value{}, err
			}
			v, err := decode(p[1], t.Elem())
			if err != nil {
				return reflect.Value{}, err
			}
			m.SetMapIndex(k, v)
		}
		return m, nil
	case reflect.Bool:
		b, ok := raw.(bool)
		if !ok {
			return reflect.Value{}, fmt.Errorf("want bool for %s", t)
		}
		return reflect.ValueOf(b).Convert(t), nil
	case reflect.Int8, reflect.Int16, reflect.Int32, reflect.Int64, reflect.Int:
		s, ok := raw.(string)
		if !ok {
			return reflect.Value{}, fmt.Errorf("want decimal string for %s", t)
		}
		i, err := strconv.ParseInt(s, 10, 64)
		if err != nil {
			return reflect.Value{}, err
		}
		v := reflect.New(t).Elem()
		v.SetInt(i)
		return v, nil
	case reflect.Float64:
		s, ok := raw.(string)
		if !ok || len(s) < 3 {
			return reflect.Value{}, fmt.Errorf("want 0x bits for %s", t)
		}
		u, err := strconv.ParseUint(s[2:], 16, 64)
		if err != nil {
			return reflect.Value{}, err
		}
		v := reflect.New(t).Elem()
		v.SetFloat(math.Float64frombits(u))
		return v, nil
	case reflect.String:
		s, ok := raw.(string)
		if !ok {
			return reflect.Value{}, fmt.Errorf("want base64 string for %s", t)
		}
		b, err := base64.StdEncoding.DecodeString(s)
		if err != nil {
			return reflect.Value{}, err
		}
		v := reflect.New(t).Elem()
		v.SetString(string(b))
		return v, nil
	}
	return reflect.Value{}, fmt.Errorf("unsupported Go type %s", t)
}

// fill sets the tagged fields of the struct value sv (already constructed by
// its New function, so declared defaults are in place): present fields get
// the decoded value; absent pointer/slice/map fields are set to nil (unset);
// absent scalar fields keep what the constructor put there.
func fill(raw interface{}, sv reflect.Value) error {
	obj, ok := raw.(map[string]interface{})
	if !ok {
		return fmt.Errorf("want object for %s", sv.Type())
	}
	for _, fi := range fieldsOf(sv.Type()) {
		f := sv.Field(fi.Index)
		fr, present := obj[strconv.Itoa(fi.ID)]
		if !present || fr == nil {
			switch f.Kind() {
			case reflect.Ptr, reflect.Slice, reflect.Map:
				if f.Kind() == reflect.Slice && f.Type().Elem().Kind() == reflect.Uint8 && f.Len() > 0 {
					// a binary field with a declared default: nil would mean "set to
					// empty" (IsSet compares with the default), so unset = the default stays
					continue
				}
				f.Set(reflect.Zero(f.Type()))
			}
			continue
		}
		v, err := decode(fr, f.Type())
		if err != nil {
			return fmt.Errorf("%s.%s: %v", sv.Type(), fi.GoName, err)
		}
		f.Set(v)
	}
	return nil
}

func dump(v reflect.Value) interface{} {
	switch v.Kind() {
	case reflect.Ptr:
		if v.IsNil() {
			return nil
		}
		return dump(v.Elem())
	case reflect.Struct:
		out := map[string]interface{}{}
		for _, fi := range fieldsOf(v.Type()) {
			out[strconv.Itoa(fi.ID)] = dump(v.Field(fi.Index))
		}
		return out
	case reflect.Slice:
		if v.IsNil() {
			return nil
		}
		if v.Type().Elem().Kind() == reflect.Uint8 {
			return base64.StdEncoding.EncodeToString(v.Bytes())
		}
		out := []interface{}{}
		for i := 0; i < v.Len(); i++ {
			out = append(out, dump(v.Index(i)))
		}
		return out
	case reflect.Map:
		if v.IsNil() {
			return nil
		}
		type kv struct {
			k, v interface{}
			s    string
		}
		var kvs []kv
		for _, k := range v.MapKeys() {
			dk := dump(k)
			b, _ := json.Marshal(dk)
			kvs = append(kvs, kv{dk, dump(v.MapIndex(k)), string(b)})
		}
		sort.Slice(kvs, func(i, j int) bool { return kvs[i].s < kvs[j].s })
		out := []interface{}{}
		for _, e := range kvs {
			out = append(out, []interface{}{e.k, e.v})
		}
		return out
	case reflect.Bool:
		return v.Bool()
	case reflect.Int8, reflect.Int16, reflect.Int32, reflect.Int64, reflect.Int:
		return strconv.FormatInt(v.Int(), 10)
	case reflect.Float64:
		return fmt.Sprintf("0x%016x", math.Float64bits(v.Float()))
	case reflect.String:
		return base64.StdEncoding.EncodeToString([]byte(v.String()))
	}
	return fmt.Sprintf("?unsupported kind %s", v.Kind())
}

// shortStack keeps the frames of generated code from the panic's stack.
func shortStack() string {
	var out []string
	for _, l := range strings.Split(string(debug.Stack()), "\n") {
		if strings.Contains(l, "/gen/") && !strings.Contains(l, "zz_verif") {
			out = append(out, strings.TrimSpace(l))
			if len(out) >= 4 {
				break
			}
		}
	}
	return strings.Join(out, " | ")
}

func errStr(err error) interface{} {
	if err == nil {
		return nil
	}
	return err.Error()
}

func lookup(req map[string]interface{}) (*TypeEntry, error) {
	k, _ := req["type"].(string)
	e, ok := types[k]
	if !ok {
		return nil, fmt.Errorf("unknown type %q", k)
	}
	return e, nil
}

func build(e *TypeEntry, raw interface{}) (reflect.Value, error) {
	p := reflect.ValueOf(e.New())
	if raw == nil {
		return reflect.Zero(p.Type()), nil
	}
	if err := fill(raw, p.Elem()); err != nil {
		return reflect.Value{}, err
	}
	return p, nil
}

type writer interface {
	Write(oprot thrift.TProtocol) error
}
type reader interface {
	Read(iprot thrift.TProtocol) error
}

func stdWrite(obj interface{}) ([]byte, error) {
	w, ok := obj.(writer)
	if !ok {
		return nil, fmt.Errorf("harness: %T has no Write(thrift.TProtocol)", obj)
	}
	buf := thrift.NewTMemoryBuffer()
	prot := thrift.NewTBinaryProtocol(buf, true, true)
	if err := w.Write(prot); err != nil {
		return buf.Bytes(), err
	}
	return buf.Bytes(), nil
}

func stdRead(obj interface{}, b []byte) error {
	r, ok := obj.(reader)
	if !ok {
		return fmt.Errorf("harness: %T has no Read(thrift.TProtocol)", obj)
	}
	buf := thrift.NewTMemoryBuffer()
	buf.Write(b)
	prot := thrift.NewTBinaryProtocol(buf, true, true)
	if err := r.Read(prot); err != nil {
		return err
	}
	if buf.Len() != 0 {
		return fmt.Errorf("harness: %d bytes left unread", buf.Len())
	}
	return nil
}

func call(m reflect.Value, args ...reflect.Value) []reflect.Value { return m.Call(args) }

func handle(req map[string]interface{}) (resp map[string]interface{}) {
	resp = map[string]interface{}{}
	defer func() {
		if r := recover(); r != nil {
			resp["panic"] = fmt.Sprint(r)
			resp["panic_stack"] = shortStack()
		}
	}()
	op, _ := req["op"].(string)
	switch op {
	case "schema":
		var ts []interface{}
		for _, k := range typeOrder {
			e := types[k]
			var fs []interface{}
			for _, fi := range fieldsOf(e.rt.Elem()) {
				fs = append(fs, map[string]interface{}{"go": fi.GoName, "name": fi.IDLName, "id": fi.ID, "req": fi.Req, "gotype": e.rt.Elem().Field(fi.Index).Type.String()})
			}
			var ms []string
			for i := 0; i < e.rt.NumMethod(); i++ {
				ms = append(ms, e.rt.Method(i).Name)
			}
			ts = append(ts, map[string]interface{}{"key": k, "pkg": e.Pkg, "go": e.GoName, "idl": e.IDLName, "fields": fs, "methods": ms})
		}
		resp["types"] = ts
		var cs []interface{}
		for _, c := range consts {
			cs = append(cs, map[string]interface{}{"pkg": c.Pkg, "go": c.GoName, "gotype": reflect.TypeOf(c.Val).String()})
		}
		resp["consts"] = cs
	case "write":
		e, err := lookup(req)
		if err != nil {
			resp["harness"] = err.Error()
			return
		}
		p, err := build(e, req["value"])
		if err != nil {
			resp["harness"] = err.Error()
			return
		}
		b, werr := stdWrite(p.Interface())
		resp["hex"] = hex.EncodeToString(b)
		resp["err"] = errStr(werr)
	case "read":
		e, err := lookup(req)
		if err != nil {
			resp["harness"] = err.Error()
			return
		}
		hx, _ := req["hex"].(string)
		b, _ := hex.DecodeString(hx)
		obj := e.New()
		rerr := stdRead(obj, b)
		resp["err"] = errStr(rerr)
		resp["value"] = dump(reflect.ValueOf(obj))
		if req["rewrite"] == true && rerr == nil {
			wb, werr := stdWrite(obj)
			resp["rehex"] = hex.EncodeToString(wb)
			resp["reerr"] = errStr(werr)
		}
		resp["extra"] = extras(reflect.ValueOf(obj))
	case "new":
		e, err := lookup(req)
		if err != nil {
			resp["harness"] = err.Error()
			return
		}
		if req["after_mutation"] == true {
			// modify, in place, the containers and nested structs of an object from the constructor
			// and of one from InitDefault: later objects must not see it
			o1 := reflect.ValueOf(e.New())
			mutate(o1, 0)
			z1 := reflect.New(e.rt.Elem())
			if m := z1.MethodByName("InitDefault"); m.IsValid() && m.Type().NumIn() == 0 {
				m.Call(nil)
				mutate(z1, 0)
			}
		}
		obj := reflect.ValueOf(e.New())
		resp["value"] = dump(obj)
		resp["inspect"] = inspect(obj)
		z := reflect.New(e.rt.Elem())
		if m := z.MethodByName("InitDefault"); m.IsValid() && m.Type().NumIn() == 0 {
			m.Call(nil)
			resp["initdefault"] = dump(z)
		}
		zero := reflect.New(e.rt.Elem())
		resp["zero_inspect"] = inspect(zero)
	case "inspect":
		e, err := lookup(req)
		if err != nil {
			resp["harness"] = err.Error()
			return
		}
		p, err := build(e, req["value"])
		if err != nil {
			resp["harness"] = err.Error()
			return
		}
		resp["value"] = dump(p)
		resp["inspect"] = inspect(p)
	case "deepequal":
		e, err := lookup(req)
		if err != nil {
			resp["harness"] = err.Error()
			return
		}
		a, err := build(e, req["a"])
		if err != nil {
			resp["harness"] = err.Error()
			return
		}
		b, err := build(e, req["b"])
		if err != nil {
			resp["harness"] = err.Error()
			return
		}
		if req["same_object"] == true {
			b = a
		}
		m := a.MethodByName("DeepEqual")
		if !m.IsValid() {
			resp["harness"] = "no DeepEqual method"
			return
		}
		resp["ab"] = m.Call([]reflect.Value{b})[0].Bool()
		resp["ba"] = b.MethodByName("DeepEqual").Call([]reflect.Value{a})[0].Bool()
	case "fastwrite":
		e, err := lookup(req)
		if err != nil {
			resp["harness"] = err.Error()
			return
		}
		p, err := build(e, req["value"])
		if err != nil {
			resp["harness"] = err.Error()
			return
		}
		bl := p.MethodByName("BLength")
		fa := p.MethodByName("FastAppend")
		fw := p.MethodByName("FastWrite")
		if !bl.IsValid() || !fa.IsValid() || !fw.IsValid() {
			resp["harness"] = "no fast codec methods"
			return
		}
		n := int(bl.Call(nil)[0].Int())
		resp["blength"] = n
		out := fa.Call([]reflect.Value{reflect.ValueOf([]byte(nil))})[0].Bytes()
		resp["append_hex"] = hex.EncodeToString(out)
		size := n
		if size < len(out) {
			size = len(out)
		}
		buf := make([]byte, size+64)
		w := int(fw.Call([]reflect.Value{reflect.ValueOf(buf)})[0].Int())
		resp["write_n"] = w
		if w >= 0 && w <= len(buf) {
			resp["write_hex"] = hex.EncodeToString(buf[:w])
		}
		sb, serr := stdWrite(p.Interface())
		resp["std_hex"] = hex.EncodeToString(sb)
		resp["std_err"] = errStr(serr)
	case "fastread":
		e, err := lookup(req)
		if err != nil {
			resp["harness"] = err.Error()
			return
		}
		hx, _ := req["hex"].(string)
		b, _ := hex.DecodeString(hx)
		obj := reflect.ValueOf(e.New())
		fr := obj.MethodByName("FastRead")
		if !fr.IsValid() {
			resp["harness"] = "no FastRead"
			return
		}
		// copy into an exactly sized buffer so that reading past the end is an index error, not silent
		exact := make([]byte, len(b))
		copy(exact, b)
		outs := fr.Call([]reflect.Value{reflect.ValueOf(exact)})
		resp["off"] = int(outs[0].Int())
		if !outs[1].IsNil() {
			resp["err"] = outs[1].Interface().(error).Error()
		} else {
			resp["err"] = nil
		}
		resp["value"] = dump(obj)
		if req["std"] == true {
			o2 := e.New()
			serr := stdRead(o2, b)
			resp["std_err"] = errStr(serr)
			resp["std_value"] = dump(reflect.ValueOf(o2))
		}
	case "consts":
		var cs []interface{}
		for _, c := range consts {
			v := reflect.ValueOf(c.Val)
			cs = append(cs, map[string]interface{}{"pkg": c.Pkg, "go": c.GoName, "gotype": v.Type().String(), "kind": v.Kind().String(), "value": dump(v), "elemtype": elemType(v.Type())})
		}
		resp["consts"] = cs
	default:
		if h, ok := Hooks[op]; ok {
			return h(req)
		}
		resp["harness"] = "unknown op " + op
	}
	return resp
}

// bump changes a settable scalar.
func bump(v reflect.Value) {
	if !v.CanSet() {
		return
	}
	switch v.Kind() {
	case reflect.Bool:
		v.SetBool(!v.Bool())
	case reflect.Int8, reflect.Int16, reflect.Int32, reflect.Int64, reflect.Int:
		v.SetInt(v.Int() + 1)
	case reflect.Uint8:
		v.SetUint(v.Uint() ^ 0x5a)
	case reflect.Float64:
		v.SetFloat(v.Float() + 1)
	case reflect.String:
		v.SetString(v.String() + "!")
	}
}

// mutate modifies, in place, everything reachable through pointers, slices and
// maps (the parts of a value that two objects could share).  Top-level scalar
// fields (depth 0) are left alone: they are copies by construction.
func mutate(v reflect.Value, depth int) {
	if depth > 6 {
		return
	}
	switch v.Kind() {
	case reflect.Ptr:
		if !v.IsNil() {
			mutate(v.Elem(), depth+1)
		}
	case reflect.Struct:
		for _, fi := range fieldsOf(v.Type()) {
			f := v.Field(fi.Index)
			switch f.Kind() {
			case reflect.Ptr, reflect.Slice, reflect.Map, reflect.Struct:
				mutate(f, depth+1)
			default:
				if depth > 0 {
					bump(f)
				}
			}
		}
	case reflect.Slice:
		for i := 0; i < v.Len(); i++ {
			e := v.Index(i)
			switch e.Kind() {
			case reflect.Ptr, reflect.Slice, reflect.Map, reflect.Struct:
				mutate(e, depth+1)
			default:
				bump(e)
			}
		}
	case reflect.Map:
		for _, k := range v.MapKeys() {
			e := v.MapIndex(k)
			switch e.Kind() {
			case reflect.Ptr, reflect.Slice, reflect.Map:
				mutate(e, depth+1)
			default:
				n := reflect.New(e.Type()).Elem()
				n.Set(e)
				bump(n)
				v.SetMapIndex(k, n)
			}
		}
	}
}

func elemType(t reflect.Type) string {
	for t.Kind() == reflect.Ptr {
		t = t.Elem()
	}
	return t.String()
}

// extras reports what the object says about itself beyond its fields.
func extras(p reflect.Value) map[string]interface{} {
	out := map[string]interface{}{}
	if m := p.MethodByName("CarryingUnknownFields"); m.IsValid() && m.Type().NumIn() == 0 {
		out["carrying_unknown"] = m.Call(nil)[0].Bool()
	}
	return out
}

// inspect calls IsSet<Field> and Get<Field> for every tagged field.
func inspect(p reflect.Value) map[string]interface{} {
	out := map[string]interface{}{}
	if p.IsNil() {
		return out
	}
	for _, fi := range fieldsOf(p.Type().Elem()) {
		e := map[string]interface{}{}
		if m := p.MethodByName("IsSet" + fi.GoName); m.IsValid() && m.Type().NumIn() == 0 {
			e["isset"] = m.Call(nil)[0].Bool()
		}
		if m := p.MethodByName("Get" + fi.GoName); m.IsValid() && m.Type().NumIn() == 0 && m.Type().NumOut() == 1 {
			func() {
				defer func() {
					if r := recover(); r != nil {
						e["get_panic"] = fmt.Sprint(r)
					}
				}()
				e["get"] = dump(m.Call(nil)[0])
			}()
		}
		out[strconv.Itoa(fi.ID)] = e
	}
	return out
}

// Dump and Build are exported for optional driver parts.
func Dump(v reflect.Value) interface{}                       { return dump(v) }
func Decode(raw interface{}, t reflect.Type) (reflect.Value, error) { return decode(raw, t) }
func Lookup(key string) *TypeEntry                           { return types[key] }
func (e *TypeEntry) Type() reflect.Type                      { return e.rt }

func Main() {
	in := bufio.NewReaderSize(os.Stdin, 1<<20)
	out := bufio.NewWriter(os.Stdout)
	for {
		line, err := in.ReadBytes('\n')
		if len(bytes.TrimSpace(line)) > 0 {
			var req map[string]interface{}
			resp := map[string]interface{}{}
			if jerr := json.Unmarshal(line, &req); jerr != nil {
				resp["harness"] = "bad request: " + jerr.Error()
			} else {
				resp = handle(req)
			}
			b, merr := json.Marshal(resp)
			if merr != nil {
				b, _ = json.Marshal(map[string]interface{}{"harness": "cannot marshal response: " + merr.Error()})
			}
			out.Write(b)
			out.WriteByte('\n')
			out.Flush()
		}
		if err != nil {
			return
		}
	}
}
`
