// C15 — reflection descriptors describe the IDL exactly (in-process half).
//
// Three oracles on programs drawn from the model and analysed by the real
// front end:
//  1. content: thrift_reflection.GetFileDescriptor(ast) of every file states
//     what the model says (descr_test.go: expectedFileDescriptor / contentOf);
//  2. codec:   Unmarshal(Marshal(fd)) is the identity;
//  3. lookups: after RegisterAST, lookups by name / id / type descriptor find
//     the entry of the file the model names, also across includes and through
//     typedef chains.
//
// The generated-code half of the property (descriptors embedded in
// *-reflection.go, obtained at run time from the compiled packages) is
// TestGenerated in gen_test.go; it reuses expectedFileDescriptor, contentOf and
// judgeContent.
package c15

import (
	"encoding/json"
	"fmt"
	"reflect"
	"sort"
	"strings"
	"testing"

	"github.com/cloudwego/thriftgo/parser"
	"github.com/cloudwego/thriftgo/semantic"
	tr "github.com/cloudwego/thriftgo/thrift_reflection"
	"pgregory.net/rapid"

	"verif/internal/drv"
	"verif/internal/idl"
	"verif/internal/vt"
)

const prop = "C15"

func TestMain(m *testing.M) {
	vt.AtExit(drv.CloseAll) // driver sessions of the generated-code half (gen_test.go)
	vt.Main(m)
}

// ---------- case ----------

type descCase struct {
	Main   string            `json:"main"`
	Files  map[string]string `json:"files"`
	Expect map[string]*xFile `json:"expect"` // by path, every file reachable from main
}

// analyse runs the real front end (as C05 does).
func analyse(main string, files map[string]string) (ast *parser.Thrift, err error) {
	defer func() {
		if r := recover(); r != nil {
			err = fmt.Errorf("front end panicked: %v", r)
		}
	}()
	ast, err = parser.ParseBatchString(main, files, nil)
	if err != nil {
		return nil, fmt.Errorf("parse: %w", err)
	}
	if _, err = semantic.NewChecker(semantic.Options{FixWarnings: true}).CheckAll(ast); err != nil {
		return nil, fmt.Errorf("check: %w", err)
	}
	if err = semantic.ResolveSymbols(ast); err != nil {
		return nil, fmt.Errorf("resolve: %w", err)
	}
	return ast, nil
}

// astFiles returns every file of the program by its name.
func astFiles(root *parser.Thrift) map[string]*parser.Thrift {
	m := map[string]*parser.Thrift{}
	var walk func(a *parser.Thrift)
	walk = func(a *parser.Thrift) {
		if a == nil || m[a.Filename] != nil {
			return
		}
		m[a.Filename] = a
		for _, inc := range a.Includes {
			walk(inc.Reference)
		}
	}
	walk(root)
	return m
}

func sortedPaths(m map[string]*xFile) []string {
	var ks []string
	for k := range m {
		ks = append(ks, k)
	}
	sort.Strings(ks)
	return ks
}

// guard turns a panic of the code under test into an error.
func guard(what string, f func() error) (err error) {
	defer func() {
		if r := recover(); r != nil {
			err = fmt.Errorf("%s panicked: %v", what, r)
		}
	}()
	return f()
}

// ---------- oracle 1: content ----------

// judgeContent compares one descriptor with what the model says about its file.
func judgeContent(fd *tr.FileDescriptor, want *xFile) error {
	if fd == nil {
		return fmt.Errorf("no descriptor for %s", want.Path)
	}
	if d := idl.Diff(want, contentOf(fd), ignoreRefs); d != "" {
		return fmt.Errorf("descriptor of %s differs from the IDL (IDL vs descriptor) at %s", want.Path, d)
	}
	if err := filepaths(fd); err != nil {
		return fmt.Errorf("descriptor of %s: %v", want.Path, err)
	}
	return nil
}

// ---------- oracle 2: encode / decode ----------

func judgeCodec(fd *tr.FileDescriptor) error {
	b, err := fd.Marshal()
	if err != nil {
		return fmt.Errorf("Marshal of the descriptor of %s failed: %v", fd.Filepath, err)
	}
	back, err := tr.Unmarshal(b)
	if err != nil {
		return fmt.Errorf("Unmarshal(Marshal(fd)) of %s failed: %v", fd.Filepath, err)
	}
	if d := idl.Diff(plain(reflect.ValueOf(fd)), plain(reflect.ValueOf(back)), nil); d != "" {
		return fmt.Errorf("Unmarshal(Marshal(fd)) of %s is not fd (before vs after) at %s", fd.Filepath, d)
	}
	return nil
}

// codecCase: the descriptors of every file of the program go through the
// package's own encoder and decoder.  (A test of its own: Marshal gzips, which
// costs more than everything else together.)
type codecCase struct {
	Main  string            `json:"main"`
	Files map[string]string `json:"files"`
}

func judgeCodecCase(c codecCase) error {
	root, err := analyse(c.Main, c.Files)
	if err != nil {
		return fmt.Errorf("valid program rejected: %v", err)
	}
	asts := astFiles(root)
	var paths []string
	for p := range asts {
		paths = append(paths, p)
	}
	sort.Strings(paths)
	for _, p := range paths {
		if err := guard("Marshal/Unmarshal of the descriptor of "+p, func() error { return judgeCodec(tr.GetFileDescriptor(asts[p])) }); err != nil {
			return err
		}
	}
	return nil
}

// ---------- oracle 3: lookups ----------

var baseNames = map[string]bool{"bool": true, "byte": true, "i8": true, "i16": true, "i32": true, "i64": true, "double": true, "string": true, "binary": true}
var containerNames = map[string]bool{"map": true, "list": true, "set": true}

type registry struct {
	gd  *tr.GlobalDescriptor
	exp map[string]*xFile
}

// entry returns the registered descriptor the model's (kind, file, name) denotes.
func (r *registry) entry(kind, file, name string) (interface{}, error) {
	fd := r.gd.LookupFD(file)
	if fd == nil {
		return nil, fmt.Errorf("file %s is not registered", file)
	}
	switch kind {
	case "struct":
		for _, s := range fd.Structs {
			if s.Name == name {
				return s, nil
			}
		}
	case "union":
		for _, s := range fd.Unions {
			if s.Name == name {
				return s, nil
			}
		}
	case "exception":
		for _, s := range fd.Exceptions {
			if s.Name == name {
				return s, nil
			}
		}
	case "enum":
		for _, s := range fd.Enums {
			if s.Name == name {
				return s, nil
			}
		}
	case "typedef":
		for _, s := range fd.Typedefs {
			if s.Alias == name {
				return s, nil
			}
		}
	case "service":
		for _, s := range fd.Services {
			if s.Name == name {
				return s, nil
			}
		}
	}
	return nil, fmt.Errorf("%s %s is not in the descriptor of %s", kind, name, file)
}

func isNilPtr(v interface{}) bool {
	if v == nil {
		return true
	}
	rv := reflect.ValueOf(v)
	return rv.Kind() == reflect.Ptr && rv.IsNil()
}

func same(a, b interface{}) bool {
	if isNilPtr(a) || isNilPtr(b) {
		return isNilPtr(a) && isNilPtr(b)
	}
	return a == b
}

func describe(v interface{}) string {
	if isNilPtr(v) {
		return "nothing"
	}
	switch x := v.(type) {
	case *tr.StructDescriptor:
		return fmt.Sprintf("struct-like %s of %s", x.Name, x.Filepath)
	case *tr.EnumDescriptor:
		return fmt.Sprintf("enum %s of %s", x.Name, x.Filepath)
	case *tr.TypedefDescriptor:
		return fmt.Sprintf("typedef %s of %s", x.Alias, x.Filepath)
	case *tr.ServiceDescriptor:
		return fmt.Sprintf("service %s of %s", x.Name, x.Filepath)
	case *tr.ConstDescriptor:
		return fmt.Sprintf("const %s of %s", x.Name, x.Filepath)
	case *tr.MethodDescriptor:
		return fmt.Sprintf("method %s of %s", x.Name, x.Filepath)
	case *tr.FieldDescriptor:
		return fmt.Sprintf("field %d %s of %s", x.ID, x.Name, x.Filepath)
	case *tr.FileDescriptor:
		return "file " + x.Filepath
	}
	return fmt.Sprintf("%T", v)
}

// byType looks a named type up through the type descriptor, by category.
func byType(td *tr.TypeDescriptor, kind string) interface{} {
	switch kind {
	case "struct":
		d, _ := td.GetStructDescriptor()
		return d
	case "union":
		d, _ := td.GetUnionDescriptor()
		return d
	case "exception":
		d, _ := td.GetExceptionDescriptor()
		return d
	case "enum":
		d, _ := td.GetEnumDescriptor()
		return d
	case "typedef":
		d, _ := td.GetTypedefDescriptor()
		return d
	}
	return nil
}

// checkType: a type descriptor leads to the definition the model says its
// name denotes, and — following typedef descriptors — to what it finally is.
func (r *registry) checkType(where string, td *tr.TypeDescriptor, et *xType) error {
	if et == nil || td == nil {
		return nil
	}
	if err := r.checkType(where+".key", td.KeyType, et.Key); err != nil {
		return err
	}
	if err := r.checkType(where+".value", td.ValueType, et.Value); err != nil {
		return err
	}
	switch {
	case baseNames[et.Name]:
		if !td.IsBasic() || td.IsContainer() {
			return fmt.Errorf("%s: type %s is not reported as a basic type", where, et.Name)
		}
		return nil
	case containerNames[et.Name]:
		if !td.IsContainer() || td.IsBasic() || td.IsMap() != (et.Name == "map") || td.IsList() != (et.Name != "map") {
			return fmt.Errorf("%s: type %s is not reported as the container it is", where, et.Name)
		}
		return nil
	}
	ref := et.Ref
	if ref == nil {
		return nil // lookup not asserted for this occurrence (excluded shape)
	}
	want, err := r.entry(ref.Kind, ref.File, ref.Name)
	if err != nil {
		return fmt.Errorf("%s: %v", where, err)
	}
	for _, k := range []string{"struct", "union", "exception", "enum", "typedef"} {
		got := byType(td, k)
		if k == ref.Kind {
			if !same(got, want) {
				return fmt.Errorf("%s: type %q names %s %s of %s, the %s lookup through the type descriptor finds %s", where, et.Name, ref.Kind, ref.Name, ref.File, k, describe(got))
			}
		} else if !isNilPtr(got) {
			return fmt.Errorf("%s: type %q names %s %s of %s, but the %s lookup through the type descriptor finds %s", where, et.Name, ref.Kind, ref.Name, ref.File, k, describe(got))
		}
	}
	preds := map[string]bool{"struct": td.IsStruct(), "union": td.IsUnion(), "exception": td.IsException(), "enum": td.IsEnum(), "typedef": td.IsTypedef()}
	for k, v := range preds {
		if v != (k == ref.Kind) {
			return fmt.Errorf("%s: type %q names a %s, predicate for %s says %v", where, et.Name, ref.Kind, k, v)
		}
	}
	// follow the typedef chain with the package's own lookups
	cur := td
	for i := 0; i < 64; i++ {
		if baseNames[cur.Name] || containerNames[cur.Name] {
			break
		}
		t, _ := cur.GetTypedefDescriptor()
		if t == nil {
			break
		}
		cur = t.Type
		if cur == nil {
			return fmt.Errorf("%s: typedef %s of %s has no type", where, t.Alias, t.Filepath)
		}
	}
	if ref.FinalFile == "" {
		if cur.Name != ref.FinalKind {
			return fmt.Errorf("%s: type %q is finally %s, following the typedef descriptors ends at %q (of %s)", where, et.Name, ref.FinalKind, cur.Name, cur.Filepath)
		}
		return nil
	}
	fin, err := r.entry(ref.FinalKind, ref.FinalFile, ref.FinalName)
	if err != nil {
		return fmt.Errorf("%s: %v", where, err)
	}
	if got := byType(cur, ref.FinalKind); !same(got, fin) {
		return fmt.Errorf("%s: type %q is finally %s %s of %s, following the typedef descriptors ends at %q (of %s) which finds %s", where, et.Name, ref.FinalKind, ref.FinalName, ref.FinalFile, cur.Name, cur.Filepath, describe(got))
	}
	return nil
}

func (r *registry) checkFields(where string, sd *tr.StructDescriptor, fs []*tr.FieldDescriptor, es []xField) error {
	for j, ef := range es {
		f := fs[j]
		if sd != nil {
			if got := sd.GetFieldById(ef.ID); got != f {
				return fmt.Errorf("%s: GetFieldById(%d) finds %s, the IDL says field %s", where, ef.ID, describe(got), ef.Name)
			}
			if got := sd.GetFieldByName(ef.Name); got != f {
				return fmt.Errorf("%s: GetFieldByName(%q) finds %s, the IDL says field %d", where, ef.Name, describe(got), ef.ID)
			}
		}
		if f.IsRequired() != (ef.Req == "required") || (f.IsRequired() && (f.IsOptional() || f.IsDefault())) || (f.IsOptional() && f.IsDefault()) ||
			!(f.IsRequired() || f.IsOptional() || f.IsDefault()) {
			return fmt.Errorf("%s.%s: requiredness %s, predicates say required=%v optional=%v default=%v", where, ef.Name, ef.Req, f.IsRequired(), f.IsOptional(), f.IsDefault())
		}
		if err := r.checkType(where+"."+ef.Name+":type", f.Type, ef.Type); err != nil {
			return err
		}
	}
	return nil
}

// ancestors' methods by name, from the expected descriptors
func (r *registry) inherited(s *xService) (names []string, owner []*xRef) {
	ref := s.BaseRef
	for i := 0; ref != nil && i < 32; i++ {
		xf := r.exp[ref.File]
		if xf == nil {
			return
		}
		var base *xService
		for k := range xf.Services {
			if xf.Services[k].Name == ref.Name {
				base = &xf.Services[k]
			}
		}
		if base == nil {
			return
		}
		for _, m := range base.Methods {
			names = append(names, m.Name)
			owner = append(owner, ref)
		}
		ref = base.BaseRef
	}
	return
}

// judgeLookups checks the lookups that start at the descriptor of one file.
func (r *registry) judgeLookups(path string) error {
	gd, exp := r.gd, r.exp[path]
	fd := gd.LookupFD(path)
	if fd == nil {
		return fmt.Errorf("LookupFD(%q) finds nothing after RegisterAST", path)
	}
	// the registered descriptor is the one the lookups below are indexed against
	if d := idl.Diff(exp, contentOf(fd), ignoreRefs); d != "" {
		return fmt.Errorf("registered descriptor of %s differs from the IDL (IDL vs descriptor) at %s", path, d)
	}
	if got := fd.GetIncludeFD(""); got != fd {
		return fmt.Errorf("%s: GetIncludeFD(\"\") is not the file itself", path)
	}
	type getter struct {
		kind string
		get  func(f *tr.FileDescriptor, name string) interface{}
		look func(name, file string) interface{}
	}
	getters := []getter{
		{"struct", func(f *tr.FileDescriptor, n string) interface{} { return f.GetStructDescriptor(n) }, func(n, p string) interface{} { return gd.LookupStruct(n, p) }},
		{"union", func(f *tr.FileDescriptor, n string) interface{} { return f.GetUnionDescriptor(n) }, func(n, p string) interface{} { return gd.LookupUnion(n, p) }},
		{"exception", func(f *tr.FileDescriptor, n string) interface{} { return f.GetExceptionDescriptor(n) }, func(n, p string) interface{} { return gd.LookupException(n, p) }},
		{"enum", func(f *tr.FileDescriptor, n string) interface{} { return f.GetEnumDescriptor(n) }, func(n, p string) interface{} { return gd.LookupEnum(n, p) }},
		{"typedef", func(f *tr.FileDescriptor, n string) interface{} { return f.GetTypedefDescriptor(n) }, func(n, p string) interface{} { return gd.LookupTypedef(n, p) }},
		{"const", func(f *tr.FileDescriptor, n string) interface{} { return f.GetConstDescriptor(n) }, func(n, p string) interface{} { return gd.LookupConst(n, p) }},
		{"service", func(f *tr.FileDescriptor, n string) interface{} { return f.GetServiceDescriptor(n) }, func(n, p string) interface{} { return gd.LookupService(n, p) }},
	}
	// names of one file by kind, with the registered entries in the same order
	names := func(xf *xFile, f *tr.FileDescriptor) map[string][]string {
		m := map[string][]string{}
		for _, s := range xf.Structs {
			m["struct"] = append(m["struct"], s.Name)
		}
		for _, s := range xf.Unions {
			m["union"] = append(m["union"], s.Name)
		}
		for _, s := range xf.Exceptions {
			m["exception"] = append(m["exception"], s.Name)
		}
		for _, s := range xf.Enums {
			m["enum"] = append(m["enum"], s.Name)
		}
		for _, s := range xf.Typedefs {
			m["typedef"] = append(m["typedef"], s.Alias)
		}
		for _, s := range xf.Consts {
			m["const"] = append(m["const"], s.Name)
		}
		for _, s := range xf.Services {
			m["service"] = append(m["service"], s.Name)
		}
		return m
	}
	entryOf := func(f *tr.FileDescriptor, kind string, i int) interface{} {
		switch kind {
		case "struct":
			return f.Structs[i]
		case "union":
			return f.Unions[i]
		case "exception":
			return f.Exceptions[i]
		case "enum":
			return f.Enums[i]
		case "typedef":
			return f.Typedefs[i]
		case "const":
			return f.Consts[i]
		}
		return f.Services[i]
	}
	// by name, in the file itself and through the registry
	own := names(exp, fd)
	for _, g := range getters {
		for i, n := range own[g.kind] {
			want := entryOf(fd, g.kind, i)
			if got := g.get(fd, n); !same(got, want) {
				return fmt.Errorf("%s: looking %s %q up by name in its own file finds %s", path, g.kind, n, describe(got))
			}
			if got := g.look(n, path); !same(got, want) {
				return fmt.Errorf("%s: registry lookup of %s %q with the file name finds %s", path, g.kind, n, describe(got))
			}
			// names are unique over the program, so the lookup without a file name has one answer
			if got := g.look(n, ""); !same(got, want) {
				return fmt.Errorf("%s: registry lookup of %s %q without a file name finds %s", path, g.kind, n, describe(got))
			}
			// a name of one kind is not a name of another kind
			for _, h := range getters {
				if h.kind != g.kind {
					if got := h.get(fd, n); !isNilPtr(got) {
						return fmt.Errorf("%s: %q is a %s, looking it up as a %s finds %s", path, n, g.kind, h.kind, describe(got))
					}
				}
			}
		}
	}
	// by qualified name, through every include of this file
	for _, inc := range exp.Includes {
		tfd := gd.LookupFD(inc.Path)
		txf := r.exp[inc.Path]
		if tfd == nil || txf == nil {
			return fmt.Errorf("%s: included file %s is not registered", path, inc.Path)
		}
		if got := fd.GetIncludeFD(inc.Alias); got != tfd {
			return fmt.Errorf("%s: include %q is %s, GetIncludeFD finds %s", path, inc.Alias, inc.Path, describe(got))
		}
		theirs := names(txf, tfd)
		for _, g := range getters {
			for i, n := range theirs[g.kind] {
				want := entryOf(tfd, g.kind, i)
				if got := g.get(fd, inc.Alias+"."+n); !same(got, want) {
					return fmt.Errorf("%s: %s %q of include %s looked up as %q finds %s", path, g.kind, n, inc.Path, inc.Alias+"."+n, describe(got))
				}
			}
		}
	}
	// fields by id and name, type descriptors to definitions
	for k, lists := range [][]*tr.StructDescriptor{fd.Structs, fd.Unions, fd.Exceptions} {
		es := [][]xStruct{exp.Structs, exp.Unions, exp.Exceptions}[k]
		for i, e := range es {
			if err := r.checkFields(path+": "+e.Name, lists[i], lists[i].Fields, e.Fields); err != nil {
				return err
			}
		}
	}
	for i, e := range exp.Typedefs {
		if err := r.checkType(path+": typedef "+e.Alias, fd.Typedefs[i].Type, e.Type); err != nil {
			return err
		}
	}
	for i, e := range exp.Consts {
		if err := r.checkType(path+": const "+e.Name, fd.Consts[i].Type, e.Type); err != nil {
			return err
		}
	}
	for i, e := range exp.Services {
		s := fd.Services[i]
		where := path + ": service " + e.Name
		var wantParent interface{}
		if e.BaseRef != nil {
			w, err := r.entry("service", e.BaseRef.File, e.BaseRef.Name)
			if err != nil {
				return fmt.Errorf("%s: %v", where, err)
			}
			wantParent = w
		}
		if got := s.GetParent(); !same(got, wantParent) {
			return fmt.Errorf("%s: base service is %q (%s), GetParent finds %s", where, e.Base, describe(wantParent), describe(got))
		}
		for j, em := range e.Methods {
			m := s.Methods[j]
			if got := s.GetMethodByName(em.Name); got != m {
				return fmt.Errorf("%s: GetMethodByName(%q) finds %s", where, em.Name, describe(got))
			}
			if got := s.GetMethodByNameFromAll(em.Name); got != m {
				return fmt.Errorf("%s: GetMethodByNameFromAll(%q) finds %s", where, em.Name, describe(got))
			}
			if got := fd.GetMethodDescriptor(e.Name, em.Name); got != m {
				return fmt.Errorf("%s: GetMethodDescriptor(%q, %q) finds %s", where, e.Name, em.Name, describe(got))
			}
			for _, q := range [][2]string{{e.Name, path}, {e.Name, ""}, {"", path}, {"", ""}} {
				if got := gd.LookupMethod(em.Name, q[0], q[1]); got != m {
					return fmt.Errorf("%s: LookupMethod(%q, %q, %q) finds %s", where, em.Name, q[0], q[1], describe(got))
				}
			}
			mw := where + "." + em.Name
			if err := r.checkType(mw+":response", m.Response, em.Ret); err != nil {
				return err
			}
			if err := r.checkFields(mw+":args", nil, m.Args, em.Args); err != nil {
				return err
			}
			if err := r.checkFields(mw+":throws", nil, m.ThrowExceptions, em.Throws); err != nil {
				return err
			}
		}
		inh, owner := r.inherited(&e)
		for j, n := range inh {
			got := s.GetMethodByNameFromAll(n)
			if got == nil || got.Name != n || got.Filepath != owner[j].File {
				return fmt.Errorf("%s: inherited method %q (of %s in %s): GetMethodByNameFromAll finds %s", where, n, owner[j].Name, owner[j].File, describe(got))
			}
		}
		if got, want := len(s.GetAllMethods()), len(e.Methods)+len(inh); got != want {
			return fmt.Errorf("%s: GetAllMethods returns %d methods, own and inherited are %d", where, got, want)
		}
	}
	return nil
}

// ---------- the judge ----------

func judgeDesc(c descCase) error {
	root, err := analyse(c.Main, c.Files)
	if err != nil {
		return fmt.Errorf("valid program rejected: %v", err)
	}
	asts := astFiles(root)
	paths := sortedPaths(c.Expect)
	if len(asts) != len(paths) {
		return fmt.Errorf("harness: the program has %d reachable files, the case expects %d", len(asts), len(paths))
	}
	for _, p := range paths {
		a := asts[p]
		if a == nil {
			return fmt.Errorf("harness: file %s is not part of the parsed program", p)
		}
		if err := guard("GetFileDescriptor("+p+")", func() error {
			return judgeContent(tr.GetFileDescriptor(a), c.Expect[p])
		}); err != nil {
			return err
		}
	}
	// RegisterAST builds a registry of its own (not the process-wide default
	// one); it is released at the end of the case, so cases do not see each other.
	var gd *tr.GlobalDescriptor
	var rfd *tr.FileDescriptor
	if err := guard("RegisterAST", func() error { gd, rfd = tr.RegisterAST(root); return nil }); err != nil {
		return err
	}
	defer tr.ReleaseGlobalDescriptors(gd)
	if rfd == nil || rfd != gd.LookupFD(c.Main) {
		return fmt.Errorf("RegisterAST does not return the registered descriptor of %s", c.Main)
	}
	r := &registry{gd: gd, exp: c.Expect}
	for _, p := range paths {
		if err := guard("lookups from "+p, func() error { return r.judgeLookups(p) }); err != nil {
			return err
		}
	}
	return nil
}

// ---------- generator ----------

const (
	findIncludeAlias = "include-alias-collision"
	findConstType    = "const-type-unregistered"
)

func cfg() idl.Cfg {
	c := idl.GoSafe() // annotations with repeated keys, comments, consts of every shape, SameBase: all on
	c.MaxFiles = 4
	return c
}

func reachable(p *idl.Program) []*idl.File {
	seen := map[*idl.File]bool{}
	var out []*idl.File
	var walk func(f *idl.File)
	walk = func(f *idl.File) {
		if seen[f] {
			return
		}
		seen[f] = true
		out = append(out, f)
		for _, g := range f.Includes {
			walk(g)
		}
	}
	walk(p.Files[0])
	return out
}

// aliasCollision: some file includes two files with the same base name.
func aliasCollision(files []*idl.File) bool {
	for _, f := range files {
		seen := map[string]bool{}
		for _, inc := range f.Includes {
			if seen[inc.Prefix()] {
				return true
			}
			seen[inc.Prefix()] = true
		}
	}
	return false
}

type shape struct {
	files                                 int
	repeatedKeys, crossChain, sameBase    bool
	collision                             bool
	vInt, vDouble, vString, vBool         bool
	vIdentConst, vIdentEnum, vList, vMap  bool
	vNested, comments, baseSvc, crossType bool
	namedConstType                        bool
}

func repeated(as []idl.Anno) bool {
	seen := map[string]bool{}
	for _, a := range as {
		if seen[a.Key] {
			return true
		}
		seen[a.Key] = true
	}
	return false
}

func survey(files []*idl.File) (s shape) {
	s.files = len(files)
	s.collision = aliasCollision(files)
	bases := map[string]bool{}
	for _, f := range files {
		if bases[f.Prefix()] {
			s.sameBase = true
		}
		bases[f.Prefix()] = true
	}
	var val func(v *idl.Value, depth int)
	val = func(v *idl.Value, depth int) {
		if v == nil {
			return
		}
		switch v.Kind {
		case idl.VInt:
			s.vInt = true
		case idl.VDouble:
			s.vDouble = true
		case idl.VLit:
			s.vString = true
		case idl.VIdent:
			switch {
			case v.IsBoolKw:
				s.vBool = true
			case v.RefConst != nil:
				s.vIdentConst = true
			default:
				s.vIdentEnum = true
			}
		case idl.VList:
			s.vList = true
			if depth > 0 {
				s.vNested = true
			}
		case idl.VMap:
			s.vMap = true
			if depth > 0 {
				s.vNested = true
			}
		}
		for i, e := range v.List {
			if v.Kind == idl.VMap {
				val(v.Keys[i], depth+1)
			}
			val(e, depth+1)
		}
	}
	for _, f := range files {
		var typ func(t *idl.Type)
		typ = func(t *idl.Type) {
			if t == nil {
				return
			}
			if t.Ref != nil && t.Ref.File != f {
				s.crossType = true
			}
			if t.ChainLen() >= 2 {
				cur := f
				for x := t; x.Ref != nil && x.Ref.Kind == idl.KTypedef; x = x.Ref.Type {
					if x.Ref.File != cur {
						s.crossChain = true
					}
					cur = x.Ref.File
				}
			}
			typ(t.Key)
			typ(t.Elem)
		}
		fields := func(fs []*idl.Field) {
			for _, fl := range fs {
				typ(fl.Type)
				val(fl.Default, 0)
				if repeated(fl.Annos) {
					s.repeatedKeys = true
				}
			}
		}
		for _, d := range f.Defs {
			if repeated(d.Annos) {
				s.repeatedKeys = true
			}
			if d.Comment != "" {
				s.comments = true
			}
			typ(d.Type)
			val(d.Value, 0)
			if d.Kind == idl.KConst && (d.Type.Ref != nil || hasNamed(d.Type)) {
				s.namedConstType = true
			}
			fields(d.Fields)
			for _, v := range d.Values {
				if repeated(v.Annos) {
					s.repeatedKeys = true
				}
			}
			if d.Extends != nil {
				s.baseSvc = true
			}
			for _, fn := range d.Funcs {
				typ(fn.Ret)
				fields(fn.Args)
				fields(fn.Throws)
				if repeated(fn.Annos) {
					s.repeatedKeys = true
				}
			}
		}
	}
	return s
}

func hasNamed(t *idl.Type) bool {
	if t == nil {
		return false
	}
	return t.Ref != nil || hasNamed(t.Key) || hasNamed(t.Elem)
}

func dropRefs(t *xType) {
	if t == nil {
		return
	}
	t.Ref = nil
	dropRefs(t.Key)
	dropRefs(t.Value)
}

// genDesc draws a program and states what its descriptors must say.  ok is
// false when the program has a shape excluded because of a listed finding.
func genDesc(rt *rapid.T) (c descCase, s shape, p *idl.Program, ok bool) {
	p = idl.Gen(rt, cfg())
	files := reachable(p)
	s = survey(files)
	if s.collision && vt.Known(prop, findIncludeAlias) {
		vt.Excluded(findIncludeAlias)
		return c, s, p, false
	}
	texts := p.Texts(nil)
	c = descCase{Main: p.Files[0].Path, Files: map[string]string{}, Expect: map[string]*xFile{}}
	for _, f := range files {
		c.Files[f.Path] = texts[f.Path]
		c.Expect[f.Path] = expectedFileDescriptor(f)
	}
	if s.namedConstType && vt.Known(prop, findConstType) {
		// the type descriptor of a constant is not attached to the registry: its lookups are not asserted
		vt.Excluded(findConstType)
		for _, x := range c.Expect {
			for i := range x.Consts {
				dropRefs(x.Consts[i].Type)
			}
		}
	}
	return c, s, p, true
}

func TestDescriptors(t *testing.T) {
	rapid.Check(t, func(rt *rapid.T) {
		c, s, p, ok := genDesc(rt)
		if !ok {
			return
		}
		vt.Eval()
		vt.ClassIf(s.files >= 2, "multi_file")
		vt.ClassIf(s.files >= 3, "files>=3")
		vt.ClassIf(s.repeatedKeys, "repeated_annotation_keys")
		vt.ClassIf(s.crossChain, "typedef_chain_across_files")
		vt.ClassIf(s.collision, "two_includes_same_base_name")
		vt.ClassIf(s.sameBase, "same_base_name_in_different_directories")
		vt.ClassIf(s.crossType, "type_named_across_include")
		vt.ClassIf(s.baseSvc, "base_service")
		vt.ClassIf(s.comments, "leading_comment")
		vt.ClassIf(s.vInt, "const_int")
		vt.ClassIf(s.vDouble, "const_double")
		vt.ClassIf(s.vString, "const_string")
		vt.ClassIf(s.vBool, "const_bool_keyword")
		vt.ClassIf(s.vIdentConst, "const_names_constant")
		vt.ClassIf(s.vIdentEnum, "const_names_enum_value")
		vt.ClassIf(s.vList, "const_list")
		vt.ClassIf(s.vMap, "const_map")
		vt.ClassIf(s.vNested, "const_nested_container")
		if s.files >= 2 && s.repeatedKeys && s.crossChain {
			vt.Nontrivial(texts(c.Files))
		}
		vt.Sample(map[string]interface{}{"program": p.Describe(), "files": s.files})
		if err := judgeDesc(c); err != nil {
			vt.Fail(rt, prop, "descriptors", c, "%v", err)
		}
	})
}

func TestCodec(t *testing.T) {
	rapid.Check(t, func(rt *rapid.T) {
		// every shape is in the domain here: the finding exclusions concern what is stated and looked up, not the codec
		p := idl.Gen(rt, cfg())
		files := reachable(p)
		s := survey(files)
		all := p.Texts(nil)
		c := codecCase{Main: p.Files[0].Path, Files: map[string]string{}}
		for _, f := range files {
			c.Files[f.Path] = all[f.Path]
		}
		vt.Eval()
		vt.Class("codec_programs")
		vt.ClassN("codec_files", int64(len(files)))
		vt.ClassIf(s.vMap, "codec_const_map")
		vt.ClassIf(s.vNested, "codec_const_nested_container")
		if s.files >= 2 && s.repeatedKeys && s.crossChain {
			vt.Nontrivial("codec\x00" + texts(c.Files))
		}
		if err := judgeCodecCase(c); err != nil {
			vt.Fail(rt, prop, "codec", c, "%v", err)
		}
	})
}

func texts(m map[string]string) string {
	var ks []string
	for k := range m {
		ks = append(ks, k)
	}
	sort.Strings(ks)
	var b strings.Builder
	for _, k := range ks {
		b.WriteString(k + "\x00" + m[k] + "\x00")
	}
	return b.String()
}

func TestReplay(t *testing.T) {
	vt.Replay(t, prop, map[string]vt.Handler{
		"descriptors": func(raw json.RawMessage) error {
			var c descCase
			if err := vt.Decode(raw, &c); err != nil {
				return err
			}
			return judgeDesc(c)
		},
		"codec": func(raw json.RawMessage) error {
			var c codecCase
			if err := vt.Decode(raw, &c); err != nil {
				return err
			}
			return judgeCodecCase(c)
		},
		"generated": replayGenerated, // gen_test.go
		"twotrees": func(raw json.RawMessage) error {
			var c treesCase
			if err := vt.Decode(raw, &c); err != nil {
				return err
			}
			return judgeTrees(c)
		},
	})
}
