package ref

import (
	"encoding/binary"
	"errors"
	"fmt"
	"math"
)

// Thrift binary protocol type ids (from the Thrift specification).
const (
	tStop   = 0
	tBool   = 2
	tByte   = 3
	tDouble = 4
	tI16    = 6
	tI32    = 8
	tI64    = 10
	tString = 11
	tStruct = 12
	tMap    = 13
	tSet    = 14
	tList   = 15
)

// WireType is the binary-protocol type id of a resolved type.
func WireType(t *Type) byte {
	switch t.Kind {
	case Bool:
		return tBool
	case Byte:
		return tByte
	case I16:
		return tI16
	case I32, Enum:
		return tI32
	case I64:
		return tI64
	case Double:
		return tDouble
	case String, Binary:
		return tString
	case List:
		return tList
	case Set:
		return tSet
	case Map:
		return tMap
	}
	return tStruct
}

// EncodeOpts perturb the encoding in structurally valid ways.
type EncodeOpts struct {
	// Order, if non-nil, gives the field order for a struct (by pointer to its schema); default: ascending id.
	Reverse bool
	// Extra fields inserted into structs named by schema: name -> raw field bytes (type, id, payload) placed first.
	Extra map[*StructT][]byte
	// Retag: for struct schema and field id, write this different wire type with a matching dummy payload instead.
	Retag map[*StructT]map[int32]bool
	// Omit: field ids to leave out.
	Omit map[*StructT]map[int32]bool
}

// Encode writes the value of struct type st in the Thrift binary protocol.
func Encode(st *StructT, v *StructV, o *EncodeOpts) []byte {
	var b []byte
	return encStruct(b, st, v, o, true)
}

// Retag and Omit apply to the top-level struct only; Extra applies to every instance.
func encStruct(b []byte, st *StructT, v *StructV, o *EncodeOpts, top bool) []byte {
	if o != nil && o.Extra[st] != nil {
		b = append(b, o.Extra[st]...)
	}
	ids := v.IDs()
	if o != nil && o.Reverse {
		for i, j := 0, len(ids)-1; i < j; i, j = i+1, j-1 {
			ids[i], ids[j] = ids[j], ids[i]
		}
	}
	for _, id := range ids {
		f := st.Field(id)
		if f == nil {
			panic(fmt.Sprintf("ref: value of %s has unknown field %d", st.Name, id))
		}
		if o != nil && top && o.Omit[st][id] {
			continue
		}
		if o != nil && top && o.Retag[st][id] {
			// a different wire type with a well-formed payload of that type
			alt := byte(tI64)
			if WireType(f.Type) == tI64 {
				alt = tString
			}
			b = append(b, alt)
			b = binary.BigEndian.AppendUint16(b, uint16(id))
			if alt == tI64 {
				b = binary.BigEndian.AppendUint64(b, 0x0102030405060708)
			} else {
				b = binary.BigEndian.AppendUint32(b, 3)
				b = append(b, "xyz"...)
			}
			continue
		}
		b = append(b, WireType(f.Type))
		b = binary.BigEndian.AppendUint16(b, uint16(id))
		b = encValue(b, f.Type, v.F[id], o)
	}
	return append(b, tStop)
}

func encValue(b []byte, t *Type, v V, o *EncodeOpts) []byte {
	switch t.Kind {
	case Bool:
		if v.(bool) {
			return append(b, 1)
		}
		return append(b, 0)
	case Byte:
		return append(b, byte(v.(int64)))
	case I16:
		return binary.BigEndian.AppendUint16(b, uint16(v.(int64)))
	case I32, Enum:
		return binary.BigEndian.AppendUint32(b, uint32(v.(int64)))
	case I64:
		return binary.BigEndian.AppendUint64(b, uint64(v.(int64)))
	case Double:
		return binary.BigEndian.AppendUint64(b, math.Float64bits(v.(float64)))
	case String, Binary:
		s := v.([]byte)
		b = binary.BigEndian.AppendUint32(b, uint32(len(s)))
		return append(b, s...)
	case List, Set:
		l := v.(*ListV)
		b = append(b, WireType(t.Elem))
		b = binary.BigEndian.AppendUint32(b, uint32(len(l.E)))
		for _, e := range l.E {
			b = encValue(b, t.Elem, e, o)
		}
		return b
	case Map:
		m := v.(*MapV)
		b = append(b, WireType(t.Key), WireType(t.Elem))
		b = binary.BigEndian.AppendUint32(b, uint32(len(m.K)))
		for i := range m.K {
			b = encValue(b, t.Key, m.K[i], o)
			b = encValue(b, t.Elem, m.E[i], o)
		}
		return b
	}
	return encStruct(b, t.Struct, v.(*StructV), o, false)
}

// Unknown is a field the strict decoder met that the schema does not have.
type Unknown struct {
	Path string
	ID   int16
	Type byte
}

// DecodeResult of the strict decoder.
type DecodeResult struct {
	Value   *StructV
	Unknown []Unknown
}

var errShort = errors.New("unexpected end of data")

type dec struct {
	b            []byte
	off          int
	allowUnknown bool
	unknown      []Unknown
	depth        int
}

// Decode reads exactly one struct of type st from b.  It is strict: the wire
// type of every known field must match the schema, container headers must
// carry the element types of the schema and exactly as many elements as they
// announce, no field id may occur twice, and no byte may remain.  Unknown
// field ids are an error unless allowUnknown (then they are skipped and
// reported).
func Decode(st *StructT, b []byte, allowUnknown bool) (*DecodeResult, error) {
	d := &dec{b: b, allowUnknown: allowUnknown}
	v, err := d.structV(st, st.Name)
	if err != nil {
		return nil, fmt.Errorf("at byte %d: %w", d.off, err)
	}
	if d.off != len(b) {
		return nil, fmt.Errorf("%d trailing bytes after the struct", len(b)-d.off)
	}
	return &DecodeResult{Value: v, Unknown: d.unknown}, nil
}

func (d *dec) need(n int) error {
	if n < 0 || d.off+n > len(d.b) {
		return errShort
	}
	return nil
}

func (d *dec) u8() (byte, error) {
	if err := d.need(1); err != nil {
		return 0, err
	}
	x := d.b[d.off]
	d.off++
	return x, nil
}
func (d *dec) u16() (uint16, error) {
	if err := d.need(2); err != nil {
		return 0, err
	}
	x := binary.BigEndian.Uint16(d.b[d.off:])
	d.off += 2
	return x, nil
}
func (d *dec) u32() (uint32, error) {
	if err := d.need(4); err != nil {
		return 0, err
	}
	x := binary.BigEndian.Uint32(d.b[d.off:])
	d.off += 4
	return x, nil
}
func (d *dec) u64() (uint64, error) {
	if err := d.need(8); err != nil {
		return 0, err
	}
	x := binary.BigEndian.Uint64(d.b[d.off:])
	d.off += 8
	return x, nil
}

func (d *dec) structV(st *StructT, path string) (*StructV, error) {
	d.depth++
	defer func() { d.depth-- }()
	if d.depth > 200 {
		return nil, errors.New("nesting too deep")
	}
	v := NewStruct()
	for {
		ft, err := d.u8()
		if err != nil {
			return nil, err
		}
		if ft == tStop {
			return v, nil
		}
		idu, err := d.u16()
		if err != nil {
			return nil, err
		}
		id := int32(int16(idu))
		f := st.Field(id)
		if f == nil {
			if !d.allowUnknown {
				return nil, fmt.Errorf("%s: unknown field id %d (type %d)", path, id, ft)
			}
			d.unknown = append(d.unknown, Unknown{Path: path, ID: int16(idu), Type: ft})
			if err := d.skip(ft); err != nil {
				return nil, err
			}
			continue
		}
		if ft != WireType(f.Type) {
			return nil, fmt.Errorf("%s.%s (id %d): wire type %d, schema says %d", path, f.Name, id, ft, WireType(f.Type))
		}
		if _, dup := v.F[id]; dup {
			return nil, fmt.Errorf("%s.%s (id %d) occurs twice", path, f.Name, id)
		}
		fv, err := d.value(f.Type, path+"."+f.Name)
		if err != nil {
			return nil, err
		}
		v.F[id] = fv
	}
}

func (d *dec) value(t *Type, path string) (V, error) {
	switch t.Kind {
	case Bool:
		x, err := d.u8()
		if err != nil {
			return nil, err
		}
		if x > 1 {
			return nil, fmt.Errorf("%s: bool byte %d", path, x)
		}
		return x == 1, nil
	case Byte:
		x, err := d.u8()
		return int64(int8(x)), err
	case I16:
		x, err := d.u16()
		return int64(int16(x)), err
	case I32, Enum:
		x, err := d.u32()
		return int64(int32(x)), err
	case I64:
		x, err := d.u64()
		return int64(x), err
	case Double:
		x, err := d.u64()
		return math.Float64frombits(x), err
	case String, Binary:
		n, err := d.u32()
		if err != nil {
			return nil, err
		}
		if int32(n) < 0 {
			return nil, fmt.Errorf("%s: negative length", path)
		}
		if err := d.need(int(n)); err != nil {
			return nil, err
		}
		s := append([]byte{}, d.b[d.off:d.off+int(n)]...)
		d.off += int(n)
		return s, nil
	case List, Set:
		et, err := d.u8()
		if err != nil {
			return nil, err
		}
		n, err := d.u32()
		if err != nil {
			return nil, err
		}
		if int32(n) < 0 {
			return nil, fmt.Errorf("%s: negative size", path)
		}
		if et != WireType(t.Elem) {
			return nil, fmt.Errorf("%s: element type %d in the header, schema says %d", path, et, WireType(t.Elem))
		}
		l := &ListV{}
		for i := uint32(0); i < n; i++ {
			e, err := d.value(t.Elem, fmt.Sprintf("%s[%d]", path, i))
			if err != nil {
				return nil, fmt.Errorf("%s: header announces %d elements: %w", path, n, err)
			}
			l.E = append(l.E, e)
		}
		return l, nil
	case Map:
		kt, err := d.u8()
		if err != nil {
			return nil, err
		}
		vt, err := d.u8()
		if err != nil {
			return nil, err
		}
		n, err := d.u32()
		if err != nil {
			return nil, err
		}
		if int32(n) < 0 {
			return nil, fmt.Errorf("%s: negative size", path)
		}
		if n > 0 && (kt != WireType(t.Key) || vt != WireType(t.Elem)) {
			return nil, fmt.Errorf("%s: key/value types %d/%d in the header, schema says %d/%d", path, kt, vt, WireType(t.Key), WireType(t.Elem))
		}
		m := &MapV{}
		for i := uint32(0); i < n; i++ {
			k, err := d.value(t.Key, fmt.Sprintf("%s{key %d}", path, i))
			if err != nil {
				return nil, fmt.Errorf("%s: header announces %d entries: %w", path, n, err)
			}
			e, err := d.value(t.Elem, fmt.Sprintf("%s{value %d}", path, i))
			if err != nil {
				return nil, fmt.Errorf("%s: header announces %d entries: %w", path, n, err)
			}
			m.K = append(m.K, k)
			m.E = append(m.E, e)
		}
		return m, nil
	}
	return d.structV(t.Struct, path)
}

func (d *dec) skip(ft byte) error {
	d.depth++
	defer func() { d.depth-- }()
	if d.depth > 200 {
		return errors.New("nesting too deep")
	}
	switch ft {
	case tBool, tByte:
		return d.adv(1)
	case tI16:
		return d.adv(2)
	case tI32:
		return d.adv(4)
	case tI64, tDouble:
		return d.adv(8)
	case tString:
		n, err := d.u32()
		if err != nil {
			return err
		}
		return d.adv(int(int32(n)))
	case tStruct:
		for {
			t, err := d.u8()
			if err != nil {
				return err
			}
			if t == tStop {
				return nil
			}
			if err := d.adv(2); err != nil {
				return err
			}
			if err := d.skip(t); err != nil {
				return err
			}
		}
	case tList, tSet:
		et, err := d.u8()
		if err != nil {
			return err
		}
		n, err := d.u32()
		if err != nil {
			return err
		}
		for i := uint32(0); i < n; i++ {
			if err := d.skip(et); err != nil {
				return err
			}
		}
		return nil
	case tMap:
		kt, err := d.u8()
		if err != nil {
			return err
		}
		vt, err := d.u8()
		if err != nil {
			return err
		}
		n, err := d.u32()
		if err != nil {
			return err
		}
		for i := uint32(0); i < n; i++ {
			if err := d.skip(kt); err != nil {
				return err
			}
			if err := d.skip(vt); err != nil {
				return err
			}
		}
		return nil
	}
	return fmt.Errorf("unknown wire type %d", ft)
}

func (d *dec) adv(n int) error {
	if err := d.need(n); err != nil {
		return err
	}
	d.off += n
	return nil
}

// RawField builds the bytes of one field (header + payload) of arbitrary
// content, for inserting unknown fields: kind selects the payload shape.
func RawField(id int16, kind int) []byte {
	var b []byte
	switch kind % 6 {
	case 0:
		b = append(b, tI32)
		b = binary.BigEndian.AppendUint16(b, uint16(id))
		b = binary.BigEndian.AppendUint32(b, 0xdeadbeef)
	case 1:
		b = append(b, tString)
		b = binary.BigEndian.AppendUint16(b, uint16(id))
		b = binary.BigEndian.AppendUint32(b, 5)
		b = append(b, "hello"...)
	case 2:
		b = append(b, tList)
		b = binary.BigEndian.AppendUint16(b, uint16(id))
		b = append(b, tI16)
		b = binary.BigEndian.AppendUint32(b, 2)
		b = append(b, 0, 1, 0, 2)
	case 3:
		b = append(b, tMap)
		b = binary.BigEndian.AppendUint16(b, uint16(id))
		b = append(b, tString, tStruct)
		b = binary.BigEndian.AppendUint32(b, 1)
		b = binary.BigEndian.AppendUint32(b, 1)
		b = append(b, 'k')
		b = append(b, tBool, 0, 1, 1, tStop)
	case 4:
		b = append(b, tStruct)
		b = binary.BigEndian.AppendUint16(b, uint16(id))
		b = append(b, tDouble, 0, 7)
		b = binary.BigEndian.AppendUint64(b, math.Float64bits(1.5))
		b = append(b, tStruct, 0, 8, tStop, tStop)
	default:
		b = append(b, tBool)
		b = binary.BigEndian.AppendUint16(b, uint16(id))
		b = append(b, 1)
	}
	return b
}
