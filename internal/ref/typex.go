package ref

import (
	"pgregory.net/rapid"

	"verif/internal/idl"
)

// Additions for checks that carry single types and single values in their
// replay files (C06): nothing here changes the meaning of existing items.

// ExportType turns one resolved type into its plain-data form (a struct is
// named by its IDL name, an enum by the list of its member values).
func ExportType(t *Type) *TypeJ { return exportType(t) }

// ImportType rebuilds a resolved type from its plain-data form against the
// structs of an imported (or built) schema.  A struct name the schema does
// not know yields a type whose Struct is nil.
func (s *Schema) ImportType(j *TypeJ) *Type {
	if j == nil {
		return nil
	}
	t := &Type{Kind: j.K, Key: s.ImportType(j.Key), Elem: s.ImportType(j.Elem)}
	if j.K == Struct {
		t.Struct = s.ByName(j.S)
	}
	if j.K == Enum {
		d := &idl.Def{Kind: idl.KEnum}
		for _, v := range j.Enum {
			d.Values = append(d.Values, &idl.EnumVal{Value: v})
		}
		t.Enum = d
	}
	return t
}

// GenValue draws one value of a resolved type (nil when none can be built,
// e.g. a union without usable members).
func GenValue(rt *rapid.T, t *Type, o GenOpts) V {
	return genValue(rt, t, o, o.depth()-1, false)
}

// IsScalar reports whether the type is bool, an integer, double, string,
// binary or an enum (the kinds Go compares with == / string equality).
func IsScalar(t *Type) bool { return isScalar(t) }
