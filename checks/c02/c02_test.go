// C02 — generated Read/Write implement the Thrift wire format of the IDL.
package c02

import (
	"encoding/hex"
	"encoding/json"
	"fmt"
	"strings"
	"testing"

	"pgregory.net/rapid"

	"verif/internal/drv"
	"verif/internal/idl"
	"verif/internal/ref"
	"verif/internal/vt"
)

const prop = "C02"

func TestMain(m *testing.M) {
	vt.AtExit(drv.CloseAll)
	vt.Main(m)
}

// wireCase is one (program, configuration, struct, value, perturbation).
type wireCase struct {
	Main   string            `json:"main"`
	Files  map[string]string `json:"files"`
	Gen    string            `json:"gen"`
	Schema *ref.SchemaJ      `json:"schema"`
	Struct string            `json:"struct"`
	Value  interface{}       `json:"value"`
	Mode   string            `json:"mode"` // value | unknown | retag | omit_required | union_count
	// perturbation parameters
	Reverse   bool   `json:"reverse,omitempty"`
	Target    string `json:"target,omitempty"`     // struct (by name) that receives the unknown field
	ExtraID   int16  `json:"extra_id,omitempty"`   // id of the inserted unknown field
	ExtraKind int    `json:"extra_kind,omitempty"` // payload shape of the unknown field
	FieldID   int32  `json:"field_id,omitempty"`   // retagged / omitted field of the top-level struct
}

type outcome struct {
	status string // judged | rejected | nocompile | unmapped
	err    error
}

func judge(c wireCase) outcome {
	sess, err := drv.Open(c.Files, c.Main, c.Gen, nil)
	if err != nil {
		return outcome{"harness", fmt.Errorf("harness: %v", err)}
	}
	if sess.Status != "ok" {
		return outcome{sess.Status, nil}
	}
	sch, err := ref.Import(c.Schema)
	if err != nil {
		return outcome{"harness", fmt.Errorf("harness: %v", err)}
	}
	st := sch.ByName(c.Struct)
	if st == nil {
		return outcome{"harness", fmt.Errorf("harness: struct %s not in schema", c.Struct)}
	}
	ti, ok := sess.Type(c.Struct)
	if !ok {
		return outcome{"unmapped", nil}
	}
	raw := roundJSON(c.Value)
	v0, err := ref.StructFromJSON(st, raw)
	if err != nil {
		return outcome{"harness", fmt.Errorf("harness: %v", err)}
	}
	v := v0.(*ref.StructV)
	top := &ref.Type{Kind: ref.Struct, Struct: st}
	want := ref.Normalise(top, v)

	call := func(req map[string]interface{}) (map[string]interface{}, error) {
		resp, err := sess.Proc.Call(req)
		if err != nil {
			return nil, fmt.Errorf("harness: %v", err)
		}
		if h, ok := resp["harness"]; ok {
			return nil, fmt.Errorf("harness: driver: %v", h)
		}
		return resp, nil
	}

	switch c.Mode {
	case "value":
		// direction 1: generated Write, reference decoder
		resp, err := call(map[string]interface{}{"op": "write", "type": ti.Key, "value": ref.StructToJSON(st, v)})
		if err != nil {
			return outcome{"harness", err}
		}
		if p, ok := resp["panic"]; ok {
			return outcome{"judged", fmt.Errorf("generated Write of %s panicked: %v", c.Struct, p)}
		}
		if e := resp["err"]; e != nil {
			return outcome{"judged", fmt.Errorf("generated Write of %s failed on a valid value: %v\n  value %s", c.Struct, e, ref.Show(v))}
		}
		b, _ := hex.DecodeString(resp["hex"].(string))
		dr, derr := ref.Decode(st, b, false)
		if derr != nil {
			return outcome{"judged", fmt.Errorf("bytes written by generated Write of %s are not a valid encoding under the IDL schema: %v\n  value %s\n  bytes %x", c.Struct, derr, ref.Show(v), b)}
		}
		if got := ref.Normalise(top, dr.Value); !ref.Equal(want, got) {
			return outcome{"judged", fmt.Errorf("generated Write of %s encodes a different value\n  first difference: %s\n  want %s\n  got  %s\n  bytes %x", c.Struct, vt.Truncate(ref.FirstDiff(want, got), 1200), ref.Show(want), ref.Show(got), b)}
		}
		// direction 2: reference encoder, generated Read
		enc := ref.Encode(st, v, &ref.EncodeOpts{Reverse: c.Reverse})
		return outcome{"judged", readExpect(call, ti.Key, st, enc, want, "reference encoding")}
	case "unknown":
		tgt := sch.ByName(c.Target)
		if tgt == nil {
			return outcome{"harness", fmt.Errorf("harness: target %s", c.Target)}
		}
		enc := ref.Encode(st, v, &ref.EncodeOpts{Extra: map[*ref.StructT][]byte{tgt: ref.RawField(c.ExtraID, c.ExtraKind)}})
		return outcome{"judged", readExpect(call, ti.Key, st, enc, want, fmt.Sprintf("encoding with an unknown field id %d (shape %d) inserted into every %s", c.ExtraID, c.ExtraKind%6, c.Target))}
	case "retag":
		f := st.Field(c.FieldID)
		if f == nil {
			return outcome{"harness", fmt.Errorf("harness: field %d", c.FieldID)}
		}
		enc := ref.Encode(st, v, &ref.EncodeOpts{Retag: map[*ref.StructT]map[int32]bool{st: {c.FieldID: true}}})
		if f.Req == idl.ReqRequired {
			return outcome{"judged", readMustFail(call, ti.Key, enc, fmt.Sprintf("required field %s (id %d) arrives with a different wire type", f.Name, f.ID))}
		}
		// "without disturbing other fields": the retagged field itself is not compared
		exp := ref.NewStruct()
		for id, fv := range v.F {
			if id != c.FieldID {
				exp.F[id] = fv
			}
		}
		return outcome{"judged", readExpectExcept(call, ti.Key, st, enc, ref.Normalise(top, exp), c.FieldID, fmt.Sprintf("encoding where field %s (id %d) carries a different wire type", f.Name, f.ID))}
	case "omit_required":
		enc := ref.Encode(st, v, &ref.EncodeOpts{Omit: map[*ref.StructT]map[int32]bool{st: {c.FieldID: true}}})
		return outcome{"judged", readMustFail(call, ti.Key, enc, fmt.Sprintf("required field id %d is absent", c.FieldID))}
	case "union_count":
		resp, err := call(map[string]interface{}{"op": "write", "type": ti.Key, "value": ref.StructToJSON(st, v)})
		if err != nil {
			return outcome{"harness", err}
		}
		if p, ok := resp["panic"]; ok {
			return outcome{"judged", fmt.Errorf("generated Write of union %s panicked: %v", c.Struct, p)}
		}
		if resp["err"] == nil {
			return outcome{"judged", fmt.Errorf("generated Write of union %s accepted a value with %d members set: %s", c.Struct, len(v.F), ref.Show(v))}
		}
		return outcome{"judged", nil}
	}
	return outcome{"harness", fmt.Errorf("harness: unknown mode %s", c.Mode)}
}

type caller func(req map[string]interface{}) (map[string]interface{}, error)

func readExpect(call caller, key string, st *ref.StructT, enc []byte, want ref.V, what string) error {
	return readExpectExcept(call, key, st, enc, want, -1<<31, what)
}

// readExpectExcept is readExpect that leaves one top-level field out of the comparison.
func readExpectExcept(call caller, key string, st *ref.StructT, enc []byte, want ref.V, except int32, what string) error {
	resp, err := call(map[string]interface{}{"op": "read", "type": key, "hex": hex.EncodeToString(enc)})
	if err != nil {
		return err
	}
	if p, ok := resp["panic"]; ok {
		return fmt.Errorf("generated Read of %s panicked on %s: %v\n  bytes %x", st.Name, what, p, enc)
	}
	if e := resp["err"]; e != nil {
		return fmt.Errorf("generated Read of %s failed on %s: %v\n  want %s\n  bytes %x", st.Name, what, e, ref.Show(want), enc)
	}
	got, err := ref.StructFromJSON(st, resp["value"])
	if err != nil {
		return fmt.Errorf("generated Read of %s: object does not fit the schema: %v", st.Name, err)
	}
	top := &ref.Type{Kind: ref.Struct, Struct: st}
	if gs, ok := got.(*ref.StructV); ok {
		delete(gs.F, except)
	}
	if ws, ok := want.(*ref.StructV); ok {
		delete(ws.F, except)
	}
	if g := dropField(ref.Normalise(top, got), except); !ref.Equal(dropField(want, except), g) {
		return fmt.Errorf("generated Read of %s (%s) yields a different value\n  first difference: %s\n  want %s\n  got  %s\n  bytes %x", st.Name, what, vt.Truncate(ref.FirstDiff(want, g), 1200), ref.Show(want), ref.Show(g), enc)
	}
	return nil
}

func dropField(v ref.V, id int32) ref.V {
	if s, ok := v.(*ref.StructV); ok {
		delete(s.F, id)
	}
	return v
}

func readMustFail(call caller, key string, enc []byte, what string) error {
	resp, err := call(map[string]interface{}{"op": "read", "type": key, "hex": hex.EncodeToString(enc)})
	if err != nil {
		return err
	}
	if p, ok := resp["panic"]; ok {
		return fmt.Errorf("generated Read panicked when %s: %v", what, p)
	}
	if resp["err"] == nil {
		return fmt.Errorf("generated Read returned no error although %s\n  bytes %x", what, enc)
	}
	return nil
}

func roundJSON(v interface{}) interface{} {
	b, _ := json.Marshal(v)
	var out interface{}
	json.Unmarshal(b, &out)
	return out
}

// ---------- generation ----------

// options that must not change a single wire byte
var presentation = []string{"naming_style=golint", "naming_style=apache", "ignore_initialisms", "gen_setter", "gen_db_tag", "omitempty_for_optional=false",
	"validate_set=false", "scan_value_for_enum=false", "reorder_fields", "typed_enum_string", "gen_deep_equal", "compatible_names",
	"reserve_comments", "nil_safe", "frugal_tag", "gen_type_meta", "gen_json_tag=false", "snake_style_json_tag", "lower_camel_style_json_tag",
	"json_enum_as_text", "enum_marshal", "enum_unmarshal", "enum_as_int_32", "json_stringer", "get_enum_annotation", "keep_unknown_fields",
	"with_reflection", "with_field_mask,with_reflection", "use_type_alias=false", "value_type_in_container", "skip_empty", "no_processor"}

func modelCfg() idl.Cfg {
	c := idl.GoSafe()
	c.MaxFiles = 2
	c.MaxDefs = 3
	c.Annotations = false
	c.NastyLits = false
	c.Comments = false
	c.DistinctThrows = true // C01's finding; irrelevant to the wire format
	c.NoZeroThrowsID = true
	c.ArgOptional = true // `optional` arguments are default-requiredness arguments (ref.Build applies the checker's rule)
	return c
}

func genSpec(rt *rapid.T) string {
	n := rapid.IntRange(0, 3).Draw(rt, "nopts")
	var opts []string
	for i := 0; i < n; i++ {
		o := rapid.SampledFrom(presentation).Draw(rt, "opt")
		if excludedOption(o) {
			continue
		}
		opts = append(opts, o)
	}
	// keep_unknown_fields replaces the skip of unknown fields by a codec of its own: a quarter of the programs
	if rapid.IntRange(0, 3).Draw(rt, "keepunknown") == 0 {
		opts = append(opts, "keep_unknown_fields")
	}
	if len(opts) == 0 {
		return "go"
	}
	return "go:" + strings.Join(opts, ",")
}

// excludedOption: options under which C01 has a listed finding that prevents compilation for common shapes.
func excludedOption(o string) bool {
	for _, k := range []string{"use_type_alias=false", "value_type_in_container"} {
		if o == k && vt.Known("C01", "option:"+k) {
			vt.Excluded("C01-option:" + k)
			return true
		}
	}
	return false
}

func usable(st *ref.StructT) bool { return true }

func TestWire(t *testing.T) {
	rapid.Check(t, func(rt *rapid.T) {
		p := idl.Gen(rt, modelCfg())
		sch := ref.Build(p)
		if len(sch.Structs) == 0 {
			rt.Skip("no struct-like in the program")
		}
		base := wireCase{Main: p.Files[0].Path, Files: p.Texts(nil), Gen: genSpec(rt), Schema: sch.Export()}
		nvals := rapid.IntRange(10, 30).Draw(rt, "nvalues")
		for i := 0; i < nvals; i++ {
			st := rapid.SampledFrom(sch.Structs).Draw(rt, "struct")
			c := base
			c.Struct = st.Name
			v := ref.GenStruct(rt, st, ref.GenOpts{})
			if v == nil {
				vt.Class("value_not_constructible")
				continue
			}
			c.Mode = "value"
			c.Reverse = rapid.Bool().Draw(rt, "reverse")
			switch rapid.IntRange(0, 9).Draw(rt, "mode") {
			case 0, 1:
				// unknown field inserted into some struct of the program that occurs in the value (or the top-level one)
				c.Mode = "unknown"
				tgt := st
				if rapid.Bool().Draw(rt, "nestedtarget") {
					tgt = rapid.SampledFrom(sch.Structs).Draw(rt, "target")
				}
				c.Target = tgt.Name
				for {
					c.ExtraID = int16(rapid.IntRange(-40, 400).Draw(rt, "extraid"))
					if tgt.Field(int32(c.ExtraID)) == nil && !(tgt.Kind == "result" && c.ExtraID == 0) {
						break
					}
				}
				c.ExtraKind = rapid.IntRange(0, 5).Draw(rt, "extrakind")
			case 2:
				if len(v.F) > 0 && st.Kind != "union" {
					ids := v.IDs()
					c.Mode = "retag"
					c.FieldID = rapid.SampledFrom(ids).Draw(rt, "retagfield")
				}
			case 3:
				var req []int32
				for _, f := range st.Fields {
					if f.Req == idl.ReqRequired {
						req = append(req, f.ID)
					}
				}
				if len(req) > 0 {
					c.Mode = "omit_required"
					c.FieldID = rapid.SampledFrom(req).Draw(rt, "omit")
				}
			case 4:
				if st.Kind == "union" && len(st.Fields) >= 2 {
					c.Mode = "union_count"
					if rapid.Bool().Draw(rt, "zero") {
						v = ref.NewStruct()
					} else {
						// a second member
						for _, f := range st.Fields {
							// (a member holding its declared default cannot be told from an unset one)
							if _, has := v.F[f.ID]; !has && f.Type.Kind != ref.Struct && !f.HasDef {
								v.F[f.ID] = ref.Zero(f.Type)
								break
							}
						}
						if len(v.F) < 2 {
							c.Mode = "value"
						}
					}
				}
			}
			c.Value = ref.StructToJSON(st, v)
			vt.Eval()
			o := judge(c)
			vt.Class("status:" + o.status)
			vt.Class("mode:" + c.Mode)
			vt.Class("kind:" + st.Kind)
			if o.status != "judged" && o.err == nil {
				if o.status == "rejected" || o.status == "nocompile" {
					// the program cannot be used at all: nothing more to learn from more values
					vt.Sample(map[string]interface{}{"program": p.Describe(), "gen": c.Gen, "status": o.status})
					return
				}
				continue
			}
			nontrivial := c.Mode != "value" || (hasNested(v) && len(v.F) < len(st.Fields))
			if nontrivial {
				vt.Nontrivial(c.Struct + c.Gen + fmt.Sprint(c.Value) + c.Mode + base.Files[base.Main])
			}
			vt.Sample(map[string]interface{}{"gen": c.Gen, "struct": c.Struct, "mode": c.Mode, "value": ref.Show(v)})
			if o.err != nil {
				if strings.HasPrefix(o.err.Error(), "harness:") {
					rt.Fatalf("%v", o.err)
				}
				vt.Fail(rt, prop, "wire", c, "%v", o.err)
			}
		}
	})
}

func hasNested(v *ref.StructV) bool {
	for _, fv := range v.F {
		switch fv.(type) {
		case *ref.ListV, *ref.MapV, *ref.StructV:
			return true
		}
	}
	return false
}

func TestReplay(t *testing.T) {
	vt.Replay(t, prop, map[string]vt.Handler{
		"wire": func(raw json.RawMessage) error {
			var c wireCase
			if err := vt.Decode(raw, &c); err != nil {
				return err
			}
			return judge(c).err
		},
	})
}
