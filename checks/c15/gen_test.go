package c15

// C15 — generated-code half: the descriptors obtainable AT RUN TIME from the
// packages thriftgo generates with `with_reflection`.
//
// One rapid case = one program (2-3 files, several Go packages), generated,
// compiled together with the reflective driver (internal/drv) and asked once
// for everything its reflection code offers (reflsrc_test.go).  Oracles:
//
//  1. content: every GetFileDescriptorFor<File>() of every generated package,
//     encoded by the driver with the package's own Marshal and decoded here,
//     states what the model says about that file (expectedFileDescriptor /
//     contentOf / judgeContent of the in-process half); the set of registered
//     files is the set of files of the program, each registered from the Go
//     package its namespace names, and the accessor returns the registered
//     object.  This also shows that the embedded bytes survive generation and
//     compilation.
//  2. Go types: for every struct / union / exception of the model, the Go type
//     whose own Write passes that IDL name to WriteStructBegin returns from
//     GetDescriptor() the entry of the right list of the right file;
//     GetStructDescriptorByGoType gives the same object, its GetGoType() gives
//     the Go type back, GetTypeDescriptor() leads to the same object, and no two
//     Go types share a descriptor.  The same for enum Go types (identified
//     independently by what their String() says about the model's values).
//  3. lookups through the process-wide registry that the init functions of
//     SEVERAL packages filled together: every named type occurrence (fields,
//     typedefs, constants, responses, arguments, throws; also inside
//     containers) is followed through its type descriptor, by each of the five
//     categories and along typedef descriptors to the end, and must reach the
//     definition the model names, in the right file; by-name lookups (own
//     names, `alias.Name` through every include, registry with and without a
//     file name), fields by id and by name, base services and inherited
//     methods across files.

import (
	"encoding/hex"
	"encoding/json"
	"fmt"
	"sort"
	"strconv"
	"strings"

	"testing"

	tr "github.com/cloudwego/thriftgo/thrift_reflection"
	"pgregory.net/rapid"

	"verif/internal/drv"
	"verif/internal/idl"
	"verif/internal/vt"
)

// ---------- case ----------

// xGoType is one row of the expected type table: a definition that has a Go
// type of its own.
type xGoType struct {
	Kind string `json:"kind"` // struct union exception enum
	Name string `json:"name"`
	File string `json:"file"`
}

type genCase struct {
	Main   string            `json:"main"`
	Files  map[string]string `json:"files"`
	Gen    string            `json:"gen"`
	Expect map[string]*xFile `json:"expect"` // by path, every file reachable from main
	Pkgs   map[string]string `json:"pkgs"`   // path -> directory of the Go package it is generated into
	Types  []xGoType         `json:"types"`
}

// ---------- what the driver says ----------

type dLook struct {
	Nil           bool              `json:"nil"`
	Name          string            `json:"name"`
	Filepath      string            `json:"filepath"`
	Found         map[string]string `json:"found"`
	Preds         map[string]bool   `json:"preds"`
	ChainErr      string            `json:"chain_err"`
	FinalName     string            `json:"final_name"`
	FinalFilepath string            `json:"final_filepath"`
	FinalFound    map[string]string `json:"final_found"`
	Panic         string            `json:"panic"`
	Where         string            `json:"where"`
}

type dFile struct {
	Pkg            string `json:"pkg"`
	Func           string `json:"func"`
	Path           string `json:"path"`
	Hex            string `json:"hex"`
	Err            string `json:"err"`
	Wrong          string `json:"wrong"`
	Nil            bool   `json:"nil"`
	RegisteredSame bool   `json:"registered_same"`
	Panic          string `json:"panic"`
}

type dType struct {
	Key        string            `json:"key"`
	Pkg        string            `json:"pkg"`
	Go         string            `json:"go"`
	Self       string            `json:"self"`
	Has        bool              `json:"has"`
	Nil        bool              `json:"nil"`
	Wrong      string            `json:"wrong"`
	Name       string            `json:"name"`
	Filepath   string            `json:"filepath"`
	Ident      string            `json:"ident"`
	Ptr        string            `json:"ptr"`
	ByIdent    string            `json:"by_ident"`
	ByPtr      string            `json:"by_ptr"`
	GoTypeBack string            `json:"gotype_back"`
	TD         *dLook            `json:"td"`
	Strings    map[string]string `json:"strings"`
	Panic      string            `json:"panic"`
}

type dResp struct {
	Registered map[string]string `json:"registered"`
	Files      []dFile           `json:"files"`
	Types      []dType           `json:"types"`
	Enums      []dType           `json:"enums"`
	Refs       []dLook           `json:"refs"`
	Panic      string            `json:"panic"`
	Harness    string            `json:"harness"`
}

type dAnswers struct {
	Answers []struct {
		ID      string `json:"id"`
		N       int    `json:"n"`
		Panic   string `json:"panic"`
		Harness string `json:"harness"`
	} `json:"answers"`
	Panic   string `json:"panic"`
	Harness string `json:"harness"`
}

func recode(from, to interface{}) error {
	b, err := json.Marshal(from)
	if err != nil {
		return err
	}
	return json.Unmarshal(b, to)
}

// ---------- judge ----------

type genOutcome struct {
	status string // judged | rejected | nocompile | harness
	detail string
	err    error
	// what was compared (evidence)
	fds, types, enums, refs, crossRefs, queries, crossQueries int
}

func harnessErr(format string, a ...interface{}) genOutcome {
	return genOutcome{status: "harness", err: fmt.Errorf("harness: "+format, a...)}
}

var structKinds = []string{"struct", "union", "exception"}
var typeKinds = []string{"struct", "union", "exception", "enum", "typedef"}

func judgeGen(c genCase) (o genOutcome) {
	sess, err := drv.Open(c.Files, c.Main, c.Gen, reflExtra)
	if err != nil {
		return harnessErr("%v", err)
	}
	if sess.Status != "ok" {
		return genOutcome{status: sess.Status, detail: sess.Detail}
	}
	o.status = "judged"
	fail := func(format string, a ...interface{}) genOutcome {
		o.err = fmt.Errorf(format, a...)
		return o
	}
	paths := sortedPaths(c.Expect)

	// numbers of every enum value of the program: what String() is asked about
	probeSet := map[int64]bool{}
	for _, p := range paths {
		for _, e := range c.Expect[p].Enums {
			for _, v := range e.Values {
				probeSet[v.Value] = true
			}
		}
	}
	var probe []string
	for n := range probeSet {
		probe = append(probe, strconv.FormatInt(n, 10))
	}
	sort.Strings(probe)

	raw, err := sess.Proc.Call(map[string]interface{}{"op": "descriptors", "probe": probe})
	if err != nil {
		// the driver died: an init function of the generated code (registration) or a call we could not contain
		return harnessErr("descriptors: %v", err)
	}
	var d dResp
	if err := recode(raw, &d); err != nil {
		return harnessErr("descriptors: %v", err)
	}
	if d.Harness != "" {
		return harnessErr("driver: %s", d.Harness)
	}
	if d.Panic != "" {
		return fail("asking the generated packages for their descriptors panicked: %s", d.Panic)
	}

	// ---- oracle 1: file descriptors ----
	byPath := map[string][]dFile{}
	for _, f := range d.Files {
		who := f.Pkg + "." + f.Func
		switch {
		case f.Panic != "":
			return fail("%s() panicked: %s", who, f.Panic)
		case f.Wrong != "":
			return harnessErr("%s returns %s", who, f.Wrong)
		case f.Nil:
			return fail("%s() returns nil", who)
		case f.Err != "":
			return fail("Marshal of the descriptor %s() returns failed: %s", who, f.Err)
		}
		byPath[f.Path] = append(byPath[f.Path], f)
	}
	for p := range byPath {
		if c.Expect[p] == nil {
			return fail("%s.%s() describes a file %q; the program has no such file (files: %v)", byPath[p][0].Pkg, byPath[p][0].Func, p, paths)
		}
	}
	for p := range d.Registered {
		if c.Expect[p] == nil {
			return fail("the run-time registry holds a file %q; the program has no such file (files: %v)", p, paths)
		}
	}
	for _, p := range paths {
		fs := byPath[p]
		if len(fs) != 1 {
			return fail("file %s: %d generated GetFileDescriptorFor* functions return its descriptor, expected exactly one", p, len(fs))
		}
		f := fs[0]
		who := f.Pkg + "." + f.Func
		if want := c.Pkgs[p]; want != "" && f.Pkg != want {
			return fail("file %s is generated into package directory %s, its descriptor is offered by %s", p, want, who)
		}
		got, ok := d.Registered[p]
		if !ok {
			return fail("file %s is not in the run-time registry after the init functions ran (registered: %v)", p, keys(d.Registered))
		}
		if want := c.Pkgs[p]; want != "" && got != drv.Prefix+"/"+want {
			return fail("file %s is registered from Go package %q, it is generated into %q", p, got, drv.Prefix+"/"+want)
		}
		if !f.RegisteredSame {
			return fail("%s() does not return the descriptor the registry holds for %s", who, p)
		}
		b, err := hex.DecodeString(f.Hex)
		if err != nil {
			return harnessErr("%s: %v", who, err)
		}
		var fd *tr.FileDescriptor
		if err := guard("Unmarshal of the descriptor of "+p, func() error {
			var e error
			fd, e = tr.Unmarshal(b)
			return e
		}); err != nil {
			return fail("descriptor returned by %s() does not survive Marshal/Unmarshal: %v", who, err)
		}
		if err := guard("reading the descriptor of "+p, func() error { return judgeContent(fd, c.Expect[p]) }); err != nil {
			return fail("%s(): %v", who, err)
		}
		o.fds++
	}

	// ---- oracle 2: Go types ----
	dts := map[string]dType{}
	for _, t := range d.Types {
		dts[t.Key] = t
	}
	// no two Go types share a descriptor (whatever they are: also the synthesized args/result structs)
	for _, group := range [][]dType{d.Types, d.Enums} {
		seenPtr, seenBy := map[string]string{}, map[string]string{}
		for _, t := range group {
			if t.Panic != "" {
				return fail("descriptor accessors of Go type %s panicked: %s", t.Key, t.Panic)
			}
			if t.Ptr != "" {
				if other, dup := seenPtr[t.Ptr]; dup {
					return fail("Go types %s and %s return the same descriptor (%s) from GetDescriptor()", other, t.Key, t.Ident)
				}
				seenPtr[t.Ptr] = t.Key
			}
			if t.ByPtr != "" {
				if other, dup := seenBy[t.ByPtr]; dup {
					return fail("Go types %s and %s are mapped to the same descriptor (%s) by the Go type lookup", other, t.Key, t.ByIdent)
				}
				seenBy[t.ByPtr] = t.Key
			}
		}
	}
	checkType := func(x xGoType, t dType) error {
		want := x.Kind + "|" + x.File + "|" + x.Name
		who := fmt.Sprintf("Go type %s (%s %s of %s)", t.Key, x.Kind, x.Name, x.File)
		switch {
		case !t.Has:
			return fmt.Errorf("%s has no GetDescriptor()", who)
		case t.Wrong != "":
			return fmt.Errorf("%s: GetDescriptor() returns a %s", who, t.Wrong)
		case t.Nil:
			return fmt.Errorf("%s: GetDescriptor() returns nil", who)
		case t.Name != x.Name || t.Filepath != x.File:
			return fmt.Errorf("%s: GetDescriptor() returns the descriptor named %q of file %q", who, t.Name, t.Filepath)
		case t.Ident != want:
			return fmt.Errorf("%s: GetDescriptor() returns %q, the registry's entry for it is %q", who, t.Ident, want)
		case t.ByIdent != want || t.ByPtr != t.Ptr:
			return fmt.Errorf("%s: the lookup by Go type finds %q, GetDescriptor() returns %q", who, orNothing(t.ByIdent), t.Ident)
		case t.GoTypeBack != t.Self:
			return fmt.Errorf("%s: GetGoType() of its descriptor is %q, the type is %q", who, orNothing(t.GoTypeBack), t.Self)
		}
		if t.TD == nil {
			return fmt.Errorf("%s has no GetTypeDescriptor()", who)
		}
		if t.TD.Panic != "" {
			return fmt.Errorf("%s: lookups from GetTypeDescriptor() panicked: %s", who, t.TD.Panic)
		}
		if t.TD.Nil {
			return fmt.Errorf("%s: GetTypeDescriptor() returns nil", who)
		}
		if t.TD.Name != x.Name || t.TD.Filepath != x.File {
			return fmt.Errorf("%s: GetTypeDescriptor() names %q of file %q", who, t.TD.Name, t.TD.Filepath)
		}
		for _, k := range typeKinds {
			got := t.TD.Found[k]
			if k == x.Kind && got != want {
				return fmt.Errorf("%s: GetTypeDescriptor() looked up as %s finds %s", who, k, orNothing(got))
			}
			if k != x.Kind && got != "" {
				return fmt.Errorf("%s: GetTypeDescriptor() looked up as %s finds %s", who, k, got)
			}
		}
		return nil
	}
	// enum Go types by package directory
	enumsByPkg := map[string][]dType{}
	for _, e := range d.Enums {
		enumsByPkg[e.Pkg] = append(enumsByPkg[e.Pkg], e)
	}
	for _, x := range c.Types {
		if x.Kind == "enum" {
			// ORACLE: an enum Go type carries no IDL name; it is identified by what its
			// String() answers for the numbers of the model's values (value names are
			// unique over the program).  An enum without values, or one whose Go type
			// cannot be told this way, is only covered by the "no two Go types share a
			// descriptor" rule above.
			var xe *xEnum
			for i := range c.Expect[x.File].Enums {
				if c.Expect[x.File].Enums[i].Name == x.Name {
					xe = &c.Expect[x.File].Enums[i]
				}
			}
			if xe == nil || len(xe.Values) == 0 {
				vt.Class("gen_enum_without_values")
				continue
			}
			var cands []dType
			for _, e := range enumsByPkg[c.Pkgs[x.File]] {
				all := true
				for _, v := range xe.Values {
					if e.Strings[strconv.FormatInt(v.Value, 10)] != v.Name {
						all = false
					}
				}
				if all {
					cands = append(cands, e)
				}
			}
			if len(cands) != 1 {
				vt.Class("gen_enum_go_type_not_identified")
				continue
			}
			if err := checkType(x, cands[0]); err != nil {
				return fail("%v", err)
			}
			o.enums++
			continue
		}
		ti, ok := sess.Type(x.Name)
		if !ok || (c.Pkgs[x.File] != "" && ti.Pkg != c.Pkgs[x.File]) {
			vt.Class("gen_struct_go_type_not_identified")
			continue
		}
		t, ok := dts[ti.Key]
		if !ok {
			return harnessErr("driver reports nothing for %s", ti.Key)
		}
		if err := checkType(x, t); err != nil {
			return fail("%v", err)
		}
		o.types++
	}

	// ---- oracle 3a: every named type occurrence, followed through the registry ----
	refs := map[string]dLook{}
	for _, r := range d.Refs {
		refs[r.Where] = r
	}
	var refErr error
	walkExpected(c.Expect, func(where, file string, et *xType) {
		if refErr != nil || et.Ref == nil {
			return
		}
		r, ok := refs[where]
		if !ok {
			refErr = fmt.Errorf("%s: the registered descriptor has no named type %q there", showWhere(where), et.Name)
			return
		}
		if err := checkRef(showWhere(where), file, et, r); err != nil {
			refErr = err
			return
		}
		o.refs++
		if et.Ref.File != file {
			o.crossRefs++
		}
	})
	if refErr != nil {
		return fail("%v", refErr)
	}

	// ---- oracle 3b: lookups by name and id ----
	qs, wants, cross := lookupQueries(c.Expect)
	rawA, err := sess.Proc.Call(map[string]interface{}{"op": "lookup", "queries": qs})
	if err != nil {
		return harnessErr("lookup: %v", err)
	}
	var ans dAnswers
	if err := recode(rawA, &ans); err != nil {
		return harnessErr("lookup: %v", err)
	}
	if ans.Harness != "" {
		return harnessErr("driver: %s", ans.Harness)
	}
	if ans.Panic != "" {
		return fail("lookups panicked: %s", ans.Panic)
	}
	if len(ans.Answers) != len(qs) {
		return harnessErr("lookup: %d answers to %d queries", len(ans.Answers), len(qs))
	}
	for i, a := range ans.Answers {
		w := wants[i]
		if a.Harness != "" {
			return harnessErr("driver: %s", a.Harness)
		}
		if a.Panic != "" {
			return fail("%s panicked: %s", w.what, a.Panic)
		}
		if a.ID != w.id {
			return fail("%s finds %s, the IDL says %s", w.what, orNothing(a.ID), orNothing(w.id))
		}
		if w.n >= 0 && a.N != w.n {
			return fail("%s: GetAllMethods returns %d methods, own and inherited are %d", w.what, a.N, w.n)
		}
		o.queries++
		if cross[i] {
			o.crossQueries++
		}
	}
	return o
}

func orNothing(s string) string {
	if s == "" {
		return "nothing"
	}
	return s
}

func keys(m map[string]string) []string {
	var ks []string
	for k := range m {
		ks = append(ks, k)
	}
	sort.Strings(ks)
	return ks
}

// showWhere renders a position key ("main.thrift|S|M|f.v") for messages.
func showWhere(w string) string {
	p := strings.Split(w, "|")
	if len(p) < 3 {
		return w
	}
	switch p[1] {
	case "S":
		return fmt.Sprintf("%s: field %s of %s", p[0], strings.Join(p[3:], "|"), p[2])
	case "T":
		return fmt.Sprintf("%s: typedef %s", p[0], p[2])
	case "C":
		return fmt.Sprintf("%s: const %s", p[0], p[2])
	}
	return fmt.Sprintf("%s: method %s", p[0], strings.Join(p[2:], " "))
}

// walkExpected visits every type occurrence of the expected descriptors under
// the position keys the driver uses (reflsrc_test.go, refs()).
func walkExpected(exp map[string]*xFile, visit func(where, file string, et *xType)) {
	var typ func(where, file string, et *xType)
	typ = func(where, file string, et *xType) {
		if et == nil {
			return
		}
		if !baseNames[et.Name] && !containerNames[et.Name] {
			visit(where, file, et)
		}
		typ(where+".k", file, et.Key)
		typ(where+".v", file, et.Value)
	}
	for _, p := range sortedPaths(exp) {
		x := exp[p]
		for _, ss := range [][]xStruct{x.Structs, x.Unions, x.Exceptions} {
			for _, s := range ss {
				for _, f := range s.Fields {
					typ(p+"|S|"+s.Name+"|"+f.Name, p, f.Type)
				}
			}
		}
		for _, t := range x.Typedefs {
			typ(p+"|T|"+t.Alias, p, t.Type)
		}
		for _, k := range x.Consts {
			typ(p+"|C|"+k.Name, p, k.Type)
		}
		for _, s := range x.Services {
			for _, m := range s.Methods {
				w := p + "|M|" + s.Name + "." + m.Name
				typ(w+"|ret", p, m.Ret)
				for _, f := range m.Args {
					typ(w+"|arg|"+f.Name, p, f.Type)
				}
				for _, f := range m.Throws {
					typ(w+"|thr|"+f.Name, p, f.Type)
				}
			}
		}
	}
}

// checkRef is registry.checkType of the in-process half on what the driver
// reports for one named type occurrence.
func checkRef(where, file string, et *xType, r dLook) error {
	ref := et.Ref
	if r.Panic != "" {
		return fmt.Errorf("%s: lookups from the type descriptor of %q panicked: %s", where, et.Name, r.Panic)
	}
	if r.Name != et.Name || r.Filepath != file {
		return fmt.Errorf("%s: the type descriptor names %q in file %q, the IDL writes %q in %s", where, r.Name, r.Filepath, et.Name, file)
	}
	want := ref.Kind + "|" + ref.File + "|" + ref.Name
	for _, k := range typeKinds {
		got := r.Found[k]
		if k == ref.Kind {
			if got != want {
				return fmt.Errorf("%s: type %q names %s %s of %s, the %s lookup through the type descriptor finds %s", where, et.Name, ref.Kind, ref.Name, ref.File, k, orNothing(got))
			}
		} else if got != "" {
			return fmt.Errorf("%s: type %q names %s %s of %s, but the %s lookup through the type descriptor finds %s", where, et.Name, ref.Kind, ref.Name, ref.File, k, got)
		}
		if r.Preds[k] != (k == ref.Kind) {
			return fmt.Errorf("%s: type %q names a %s, predicate for %s says %v", where, et.Name, ref.Kind, k, r.Preds[k])
		}
	}
	if r.ChainErr != "" {
		return fmt.Errorf("%s: %s", where, r.ChainErr)
	}
	if ref.FinalFile == "" {
		if r.FinalName != ref.FinalKind {
			return fmt.Errorf("%s: type %q is finally %s, following the typedef descriptors ends at %q (of %s)", where, et.Name, ref.FinalKind, r.FinalName, r.FinalFilepath)
		}
		return nil
	}
	fin := ref.FinalKind + "|" + ref.FinalFile + "|" + ref.FinalName
	if got := r.FinalFound[ref.FinalKind]; got != fin {
		return fmt.Errorf("%s: type %q is finally %s %s of %s, following the typedef descriptors ends at %q (of %s) which finds %s", where, et.Name, ref.FinalKind, ref.FinalName, ref.FinalFile, r.FinalName, r.FinalFilepath, orNothing(got))
	}
	return nil
}

type lookupWant struct {
	what string
	id   string
	n    int // expected GetAllMethods length, -1: not asked
}

// lookupQueries states, from the expected descriptors alone, the by-name and
// by-id lookups and their answers.
func lookupQueries(exp map[string]*xFile) (qs []interface{}, wants []lookupWant, cross []bool) {
	add := func(q map[string]interface{}, what, id string, n int, isCross bool) {
		qs = append(qs, q)
		wants = append(wants, lookupWant{what, id, n})
		cross = append(cross, isCross)
	}
	type named struct{ kind, name string }
	names := func(x *xFile) []named {
		var r []named
		for _, s := range x.Structs {
			r = append(r, named{"struct", s.Name})
		}
		for _, s := range x.Unions {
			r = append(r, named{"union", s.Name})
		}
		for _, s := range x.Exceptions {
			r = append(r, named{"exception", s.Name})
		}
		for _, s := range x.Enums {
			r = append(r, named{"enum", s.Name})
		}
		for _, s := range x.Typedefs {
			r = append(r, named{"typedef", s.Alias})
		}
		for _, s := range x.Consts {
			r = append(r, named{"const", s.Name})
		}
		for _, s := range x.Services {
			r = append(r, named{"service", s.Name})
		}
		return r
	}
	allKinds := []string{"struct", "union", "exception", "enum", "typedef", "const", "service"}
	for _, p := range sortedPaths(exp) {
		x := exp[p]
		for _, n := range names(x) {
			id := n.kind + "|" + p + "|" + n.name
			add(map[string]interface{}{"q": "fd", "file": p, "kind": n.kind, "name": n.name}, fmt.Sprintf("%s: looking %s %q up by name in its own file", p, n.kind, n.name), id, -1, false)
			add(map[string]interface{}{"q": "global", "file": p, "kind": n.kind, "name": n.name}, fmt.Sprintf("%s: registry lookup of %s %q with the file name", p, n.kind, n.name), id, -1, false)
			// names are unique over the program, so the lookup without a file name has one answer
			add(map[string]interface{}{"q": "global", "file": "", "kind": n.kind, "name": n.name}, fmt.Sprintf("%s: registry lookup of %s %q without a file name", p, n.kind, n.name), id, -1, false)
			for _, k := range allKinds {
				if k != n.kind {
					add(map[string]interface{}{"q": "fd", "file": p, "kind": k, "name": n.name}, fmt.Sprintf("%s: %q is a %s, looking it up as a %s", p, n.name, n.kind, k), "", -1, false)
				}
			}
		}
		for _, inc := range x.Includes {
			tx := exp[inc.Path]
			if tx == nil {
				continue
			}
			add(map[string]interface{}{"q": "include", "file": p, "name": inc.Alias}, fmt.Sprintf("%s: GetIncludeFD(%q)", p, inc.Alias), "file|"+inc.Path, -1, true)
			for _, n := range names(tx) {
				add(map[string]interface{}{"q": "fd", "file": p, "kind": n.kind, "name": inc.Alias + "." + n.name},
					fmt.Sprintf("%s: %s %q of include %s looked up as %q", p, n.kind, n.name, inc.Path, inc.Alias+"."+n.name), n.kind+"|"+inc.Path+"|"+n.name, -1, true)
			}
		}
		for k, ss := range [][]xStruct{x.Structs, x.Unions, x.Exceptions} {
			for _, s := range ss {
				for j, f := range s.Fields {
					id := fmt.Sprintf("field|%d|%s|%d", f.ID, f.Name, j)
					add(map[string]interface{}{"q": "field", "file": p, "kind": structKinds[k], "name": s.Name, "id": strconv.Itoa(int(f.ID))},
						fmt.Sprintf("%s: %s: GetFieldById(%d)", p, s.Name, f.ID), id, -1, false)
					add(map[string]interface{}{"q": "field", "file": p, "kind": structKinds[k], "name": s.Name, "field": f.Name},
						fmt.Sprintf("%s: %s: GetFieldByName(%q)", p, s.Name, f.Name), id, -1, false)
				}
			}
		}
		for i := range x.Services {
			s := &x.Services[i]
			parent := ""
			if s.BaseRef != nil {
				parent = "service|" + s.BaseRef.File + "|" + s.BaseRef.Name
			}
			add(map[string]interface{}{"q": "parent", "file": p, "name": s.Name}, fmt.Sprintf("%s: service %s: base service is %q, GetParent", p, s.Name, s.Base), parent, -1, s.BaseRef != nil && s.BaseRef.File != p)
			r := &registry{exp: exp}
			inh, owner := r.inherited(s)
			total := len(s.Methods) + len(inh)
			for _, m := range s.Methods {
				id := "method|" + p + "|" + s.Name + "." + m.Name
				add(map[string]interface{}{"q": "method_all", "file": p, "name": s.Name, "method": m.Name}, fmt.Sprintf("%s: service %s: GetMethodByNameFromAll(%q)", p, s.Name, m.Name), id, total, false)
				add(map[string]interface{}{"q": "method", "file": p, "name": s.Name, "method": m.Name}, fmt.Sprintf("%s: LookupMethod(%q, %q, %q)", p, m.Name, s.Name, p), id, -1, false)
				add(map[string]interface{}{"q": "method", "file": "", "name": "", "method": m.Name}, fmt.Sprintf("LookupMethod(%q, \"\", \"\")", m.Name), id, -1, false)
			}
			for j, n := range inh {
				id := "method|" + owner[j].File + "|" + owner[j].Name + "." + n
				add(map[string]interface{}{"q": "method_all", "file": p, "name": s.Name, "method": n},
					fmt.Sprintf("%s: service %s: inherited method %q (of %s in %s): GetMethodByNameFromAll", p, s.Name, n, owner[j].Name, owner[j].File), id, total, owner[j].File != p)
			}
		}
	}
	return
}

// ---------- generator ----------

// options that change how the Go code looks, not what the IDL says.
// ORACLE: reorder_fields is left out: it sorts the fields of every struct (in
// the syntax tree the descriptor is built from), so that the descriptor lists
// them in the order of the Go struct — which FieldDescriptor.GetInstanceValue
// relies on (it indexes the Go struct by the field's position in the
// descriptor).  The order then is not the IDL's by design; typed_enum_string
// is left out because String() identifies the enum Go types here.
var genOptions = []string{"naming_style=golint", "naming_style=apache", "ignore_initialisms", "gen_setter", "gen_deep_equal", "compatible_names",
	"keep_unknown_fields", "enum_as_int_32", "with_field_mask", "nil_safe", "json_enum_as_text", "enum_marshal", "frugal_tag",
	"gen_type_meta", "no_processor", "skip_empty", "reserve_comments", "get_enum_annotation", "gen_db_tag", "validate_set=false"}

func genGenSpec(rt *rapid.T) (string, []string) {
	opts := []string{"with_reflection"}
	n := rapid.IntRange(0, 2).Draw(rt, "nopts")
	for i := 0; i < n; i++ {
		o := rapid.SampledFrom(genOptions).Draw(rt, "opt")
		dup := false
		for _, x := range opts {
			if x == o || (strings.HasPrefix(x, "naming_style=") && strings.HasPrefix(o, "naming_style=")) {
				dup = true
			}
		}
		if !dup {
			opts = append(opts, o)
		}
	}
	return "go:" + strings.Join(opts, ","), opts[1:]
}

func genCfg(rt *rapid.T) idl.Cfg {
	c := idl.GoSafe() // annotations with repeated keys, comments, constants of every shape, same base names: on
	c.MaxFiles = 3
	c.MaxDefs = 3
	c.WideStructs = false
	c.DistinctThrows = true
	c.NoZeroThrowsID = true
	// literals reach Go source (constants, defaults); nasty ones are C01's subject, keep most programs plain
	c.NastyLits = rapid.IntRange(0, 3).Draw(rt, "nastylits") == 0
	// two files in one Go package: two *-reflection.go files side by side
	c.SharedNS = rapid.IntRange(0, 3).Draw(rt, "sharedns") == 0
	if vt.Known("C05", "enum-via-typedef-far") {
		c.EnumViaTypedefFar = false // thriftgo rejects such a program (C05's listed finding)
		vt.Excluded("C05-enum-via-typedef-far")
	}
	if vt.Known("C01", "binary-map-key-const-ref") {
		c.NoBinKeyConstRef = true // would not compile (C01's listed finding)
		vt.Excluded("C01-binary-map-key-const-ref")
	}
	return c
}

// farContainerLiteral: some constant or default is a list/map literal with an
// identifier in it whose declared type is a typedef of a container written in
// another file.  The Go backend refuses such a program ("a literal of the
// typedef'd container ... defined in another file must not contain
// identifiers"); whether it may is C04's question, here such programs are only
// redrawn so that fewer cases end as "rejected" (an approximation: it costs
// nothing when it is wrong in either direction).
func farContainerLiteral(files []*idl.File) bool {
	var hasIdent func(v *idl.Value) bool
	hasIdent = func(v *idl.Value) bool {
		if v == nil {
			return false
		}
		if v.Kind == idl.VIdent && !v.IsBoolKw {
			return true
		}
		for i, e := range v.List {
			if hasIdent(e) || (v.Kind == idl.VMap && i < len(v.Keys) && hasIdent(v.Keys[i])) {
				return true
			}
		}
		return false
	}
	var bad func(from *idl.File, t *idl.Type, v *idl.Value) bool
	bad = func(from *idl.File, t *idl.Type, v *idl.Value) bool {
		if t == nil || v == nil || (v.Kind != idl.VList && v.Kind != idl.VMap) {
			return false
		}
		at := from
		for t.Ref != nil && t.Ref.Kind == idl.KTypedef {
			at = t.Ref.File
			t = t.Ref.Type
		}
		if t.Ref != nil {
			return false // a struct literal
		}
		if at != from && hasIdent(v) {
			return true
		}
		for i, e := range v.List {
			if bad(at, t.Elem, e) || (v.Kind == idl.VMap && i < len(v.Keys) && bad(at, t.Key, v.Keys[i])) {
				return true
			}
		}
		return false
	}
	for _, f := range files {
		for _, d := range f.Defs {
			if d.Kind == idl.KConst && bad(f, d.Type, d.Value) {
				return true
			}
			for _, fl := range d.Fields {
				if bad(f, fl.Type, fl.Default) {
					return true
				}
			}
		}
	}
	return false
}

func goPkgDir(f *idl.File) string {
	for _, ns := range f.Namespaces {
		if ns.Lang == "go" {
			return strings.ReplaceAll(ns.Name, ".", "/")
		}
	}
	return ""
}

// genGenerated draws a program and states what its generated packages must
// say.  ok is false when the program has a shape excluded because of a listed
// finding (exactly the shapes the in-process half excludes) or one that the Go
// backend cannot lay out (two files with one base name in one package).
func genGenerated(rt *rapid.T) (c genCase, s shape, p *idl.Program, opts []string, ok bool) {
	cfg := genCfg(rt)
	// the point of this half is the registry that several packages fill together:
	// a program with a single reachable file is redrawn (up to three times)
	for tries := 0; tries < 4; tries++ {
		p = idl.Gen(rt, cfg)
		if fs := reachable(p); len(fs) >= 2 && !farContainerLiteral(fs) {
			break
		}
	}
	gen, opts := genGenSpec(rt)
	files := reachable(p)
	s = survey(files)
	if s.collision && vt.Known(prop, findIncludeAlias) {
		vt.Excluded(findIncludeAlias)
		return c, s, p, opts, false
	}
	stems := map[string]bool{}
	for _, f := range files {
		k := goPkgDir(f) + "/" + f.Prefix()
		if stems[k] {
			vt.Class("gen_skipped:same_base_name_in_one_package")
			return c, s, p, opts, false
		}
		stems[k] = true
	}
	all := p.Texts(nil)
	c = genCase{Main: p.Files[0].Path, Files: map[string]string{}, Gen: gen, Expect: map[string]*xFile{}, Pkgs: map[string]string{}}
	for _, f := range files {
		c.Files[f.Path] = all[f.Path]
		c.Expect[f.Path] = expectedFileDescriptor(f)
		c.Pkgs[f.Path] = goPkgDir(f)
		for _, d := range f.Defs {
			if d.Kind.IsStructLike() || d.Kind == idl.KEnum {
				c.Types = append(c.Types, xGoType{Kind: d.Kind.String(), Name: d.Name, File: f.Path})
			}
		}
	}
	if s.namedConstType && vt.Known(prop, findConstType) {
		vt.Excluded(findConstType)
		for _, x := range c.Expect {
			for i := range x.Consts {
				dropRefs(x.Consts[i].Type)
			}
		}
	}
	return c, s, p, opts, true
}

func bucket(n int) string {
	switch {
	case n == 0:
		return "0"
	case n <= 2:
		return "1-2"
	case n <= 5:
		return "3-5"
	case n <= 10:
		return "6-10"
	case n <= 20:
		return "11-20"
	}
	return ">20"
}

func TestGenerated(t *testing.T) {
	rapid.Check(t, func(rt *rapid.T) {
		c, s, p, opts, ok := genGenerated(rt)
		if !ok {
			return
		}
		o := judgeGen(c)
		vt.Class("gen_status:" + o.status)
		if o.status == "harness" {
			rt.Fatalf("%v", o.err)
		}
		if o.status != "judged" {
			// rejected by the compiler or not compiling: C01/C04 decide those
			vt.Eval()
			vt.Sample(map[string]interface{}{"program": p.Describe(), "gen": c.Gen, "status": o.status, "detail": vt.Truncate(o.detail, 300)})
			return
		}
		for i := 0; i < o.fds+o.types+o.enums; i++ {
			vt.Eval() // one per compared file descriptor / Go type
		}
		pkgs := map[string]bool{}
		for _, d := range c.Pkgs {
			pkgs[d] = true
		}
		vt.Class("gen_programs")
		vt.Class(fmt.Sprintf("gen_files=%d", s.files))
		vt.Class(fmt.Sprintf("gen_packages=%d", len(pkgs)))
		vt.Class("gen_go_types:" + bucket(o.types+o.enums))
		vt.Class("gen_cross_file_refs_followed:" + bucket(o.crossRefs))
		vt.ClassN("gen_file_descriptors_compared", int64(o.fds))
		vt.ClassN("gen_struct_go_types_compared", int64(o.types))
		vt.ClassN("gen_enum_go_types_compared", int64(o.enums))
		vt.ClassN("gen_type_refs_followed", int64(o.refs))
		vt.ClassN("gen_cross_file_type_refs_followed", int64(o.crossRefs))
		vt.ClassN("gen_name_id_lookups", int64(o.queries))
		vt.ClassN("gen_cross_file_name_lookups", int64(o.crossQueries))
		vt.ClassIf(len(pkgs) < s.files, "gen_two_files_one_package")
		vt.ClassIf(s.repeatedKeys, "gen_repeated_annotation_keys")
		vt.ClassIf(s.crossChain, "gen_typedef_chain_across_files")
		vt.ClassIf(s.sameBase, "gen_same_base_name_in_different_directories")
		vt.ClassIf(s.baseSvc, "gen_base_service")
		vt.ClassIf(s.comments, "gen_leading_comment")
		vt.ClassIf(len(opts) == 0, "gen_opt:none")
		for _, op := range opts {
			vt.Class("gen_opt:" + op)
		}
		if len(pkgs) >= 2 && o.crossRefs >= 1 {
			vt.Nontrivial("generated\x00" + c.Gen + "\x00" + texts(c.Files))
		}
		vt.Sample(map[string]interface{}{"program": p.Describe(), "gen": c.Gen, "files": s.files, "packages": len(pkgs), "go_types": o.types + o.enums,
			"type_refs": o.refs, "cross_file_type_refs": o.crossRefs, "lookups": o.queries})
		if o.err != nil {
			vt.Fail(rt, prop, "generated", c, "%v", o.err)
		}
	})
}

func replayGenerated(raw json.RawMessage) error {
	var c genCase
	if err := vt.Decode(raw, &c); err != nil {
		return err
	}
	return judgeGen(c).err
}
