// C14 — field-mask library: queries and JSON transport agree with path semantics.
//
// Files of this package: c14_test.go (cases, judges, tests, fuzz targets,
// replay), schema_test.go (IDL schema generator), ref_test.go (reference
// path-set semantics), gen_test.go (path grammar, soup, JSON mutation).
package c14

import (
	"bytes"
	"encoding/json"
	"fmt"
	"reflect"
	"sort"
	"strings"
	"testing"

	"github.com/cloudwego/thriftgo/fieldmask"
	"github.com/cloudwego/thriftgo/parser"
	"github.com/cloudwego/thriftgo/semantic"
	"github.com/cloudwego/thriftgo/thrift_reflection"
	"pgregory.net/rapid"

	"verif/internal/vt"
)

const prop = "C14"

// ids of the findings this check knows exclusion switches for
const (
	fNegID          = "negative-field-id"
	fAtoi           = "index-atoi-overflow"
	fQuoteEOF       = "quote-backslash-eof"
	fInt32          = "field-id-int32-overflow"
	fBadQuote       = "invalid-quote-token"
	fGetPathStar    = "getpath-field-star"
	fForEachNil     = "foreachchild-nil-fdmask"
	fForEachEmpty   = "foreachchild-empty-mask"
	fTypedefPath    = "getpath-typedef"
	fLenientRoot    = "root-token-not-enforced"
	fLenientList    = "bracket-list-not-enforced"
	fEmptyRoundTrip = "empty-mask-json"
	fStrKeyJSON     = "strkey-json-escape"
	fStrKeyUTF8     = "strkey-json-invalid-utf8"
	fStringTypedef  = "string-typedef"
	fFieldNonStruct = "field-on-container-mask"
	fStringNested   = "string-star-nested-container"
)

// skipString in maskCase.Skip: String() is not called (it walks every field of
// every struct it prints, so two known findings reach it)
const skipString = "String()"

func TestMain(m *testing.M) { vt.Main(m) }

// ---------- descriptors ----------

type descEntry struct {
	gd   *thrift_reflection.GlobalDescriptor
	desc *thrift_reflection.TypeDescriptor
}

var (
	descCache = map[string]descEntry{}
	descOrder []string
)

const descCacheSize = 8

// descriptor parses and registers an IDL text exactly as fieldmask/api_test.go
// does (plus the semantic checks) and returns the descriptor of the root
// struct.  A few registrations are kept alive (shrinking re-runs the same
// schema); older ones are released so the global registry stays small.
func descriptor(idl, root string) (*thrift_reflection.TypeDescriptor, error) {
	key := root + "\x00" + idl
	if e, ok := descCache[key]; ok && thrift_reflection.GetGlobalDescriptor(e.desc) == e.gd {
		return e.desc, nil
	}
	ast, err := parser.ParseString("c14.thrift", idl)
	if err != nil {
		return nil, err
	}
	if err := semantic.ResolveSymbols(ast); err != nil {
		return nil, err
	}
	if _, err := semantic.NewChecker(semantic.Options{}).CheckAll(ast); err != nil {
		return nil, err
	}
	gd, fd := thrift_reflection.RegisterAST(ast)
	st := fd.GetStructDescriptor(root)
	if st == nil {
		thrift_reflection.ReleaseGlobalDescriptors(gd)
		return nil, fmt.Errorf("no struct %q", root)
	}
	desc := &thrift_reflection.TypeDescriptor{
		Filepath: st.Filepath,
		Name:     st.Name,
		Extra:    map[string]string{thrift_reflection.GLOBAL_UUID_EXTRA_KEY: st.Extra[thrift_reflection.GLOBAL_UUID_EXTRA_KEY]},
	}
	if len(descOrder) >= descCacheSize {
		old := descOrder[0]
		descOrder = descOrder[1:]
		thrift_reflection.ReleaseGlobalDescriptors(descCache[old].gd)
		delete(descCache, old)
	}
	if _, dup := descCache[key]; !dup {
		descOrder = append(descOrder, key)
	}
	descCache[key] = descEntry{gd: gd, desc: desc}
	return desc, nil
}

// ---------- cases ----------

type walkQ struct {
	Keys []qkey    `json:"keys"`
	Exp  []stepExp `json:"exp,omitempty"` // absent: only "no panic" and the equivalences are asserted
}

type pathQ struct {
	Path string `json:"path"`
	Exp  int    `json:"exp"` // 1 in mask, 0 not in mask, -1 not asserted
}

type maskCase struct {
	IDL   string   `json:"idl"`
	Root  string   `json:"root"`
	Black bool     `json:"black"`
	Mode  string   `json:"mode"` // valid | conflict | struct_star | invalid:<class> | soup
	Paths []string `json:"paths"`
	Alt   []string `json:"alt,omitempty"` // the same path set regrouped and permuted (mode valid)
	// Exact: the reference answers in RootExp / Walks / PathQs are asserted.
	Exact   bool     `json:"exact"`
	RootExp *stepExp `json:"root_exp,omitempty"`
	Walks   []walkQ  `json:"walks,omitempty"`
	PathQs  []pathQ  `json:"path_qs,omitempty"`
	Cached  bool     `json:"cached,omitempty"` // also exercise the caching Marshal / Unmarshal
	// Skip lists library calls the judge leaves out because a known finding
	// covers them (filled by the generators from vt.Known; empty in witnesses).
	Skip []string `json:"skip,omitempty"`
}

func has(list []string, s string) bool {
	for _, x := range list {
		if x == s {
			return true
		}
	}
	return false
}

func guard(what string, f func()) (err error) {
	defer func() {
		if r := recover(); r != nil {
			err = fmt.Errorf("%s panicked: %v", what, r)
		}
	}()
	f()
	return nil
}

func ftText(m *fieldmask.FieldMask) string {
	if m == nil {
		return "nil"
	}
	b, _ := m.Type().MarshalText()
	return string(b)
}

type stepRes struct {
	Ok    bool
	Exist bool
	Type  string
	All   bool
	KidsI []int
	KidsS []string
	Kids  bool // children were enumerated
}

// children enumerates the existing children of a mask node with ForEachChild.
func children(m *fieldmask.FieldMask, skip []string) (ki []int, ks []string, done bool, err error) {
	if m == nil {
		return nil, nil, false, nil
	}
	if !m.Exist() && has(skip, fForEachEmpty) {
		return nil, nil, false, nil
	}
	if m.Type() == fieldmask.FtStruct && m.All() && has(skip, fForEachNil) {
		return nil, nil, false, nil
	}
	isStr := m.Type() == fieldmask.FtStrMap
	calls := 0
	err = guard("ForEachChild", func() {
		m.ForEachChild(func(sk string, ik int, c *fieldmask.FieldMask) bool {
			calls++
			if c.Exist() {
				if isStr {
					ks = append(ks, sk)
				} else {
					ki = append(ki, ik)
				}
			}
			return true
		})
	})
	if err != nil {
		return nil, nil, false, err
	}
	after := 0
	stopped := false
	err = guard("ForEachChild", func() {
		m.ForEachChild(func(string, int, *fieldmask.FieldMask) bool {
			if stopped {
				after++
			}
			stopped = true
			return false
		})
	})
	if err != nil {
		return nil, nil, false, err
	}
	if after > 0 {
		return nil, nil, false, fmt.Errorf("ForEachChild called the scanner %d more times after it returned false", after)
	}
	if calls > 0 && !stopped {
		return nil, nil, false, fmt.Errorf("ForEachChild visited %d children once and none the second time", calls)
	}
	sort.Ints(ki)
	sort.Strings(ks)
	return ki, ks, true, nil
}

func inspect(m *fieldmask.FieldMask, ok bool, skip []string) (stepRes, error) {
	r := stepRes{Ok: ok, Exist: m.Exist(), All: m.All(), Type: ftText(m)}
	var err error
	r.KidsI, r.KidsS, r.Kids, err = children(m, skip)
	return r, err
}

func runWalk(m *fieldmask.FieldMask, keys []qkey, skip []string) (res []stepRes, err error) {
	cur := m
	for i, q := range keys {
		var next *fieldmask.FieldMask
		var ok bool
		what := fmt.Sprintf("query step %d of %v", i, keys)
		if e := guard(what, func() {
			switch q.K {
			case "f":
				next, ok = cur.Field(int16(q.I))
			case "i":
				next, ok = cur.Int(q.I)
			default:
				next, ok = cur.Str(q.S)
			}
		}); e != nil {
			return res, e
		}
		var r stepRes
		if e := guard(what, func() { r, err = inspect(next, ok, skip) }); e != nil {
			return res, e
		}
		if err != nil {
			return res, fmt.Errorf("%s: %v", what, err)
		}
		res = append(res, r)
		cur = next
	}
	return res, nil
}

func checkExp(where string, got stepRes, e stepExp) error {
	if e.Pass >= 0 && got.Ok != (e.Pass == 1) {
		return fmt.Errorf("%s: library answers %v, the path set prescribes %v", where, got.Ok, e.Pass == 1)
	}
	if !e.Node {
		return nil
	}
	if !got.Exist {
		return fmt.Errorf("%s: the path set has a node here but the returned mask does not exist", where)
	}
	if got.Type != e.Type {
		return fmt.Errorf("%s: Type() is %s, want %s", where, got.Type, e.Type)
	}
	if got.All != e.All {
		return fmt.Errorf("%s: All() is %v, want %v", where, got.All, e.All)
	}
	if got.Kids {
		if !(len(got.KidsI) == 0 && len(e.KidsI) == 0) && !reflect.DeepEqual(got.KidsI, e.KidsI) {
			return fmt.Errorf("%s: ForEachChild reports children %v, want %v", where, got.KidsI, e.KidsI)
		}
		if !(len(got.KidsS) == 0 && len(e.KidsS) == 0) && !reflect.DeepEqual(got.KidsS, e.KidsS) {
			return fmt.Errorf("%s: ForEachChild reports children %q, want %q", where, got.KidsS, e.KidsS)
		}
	}
	return nil
}

// observation is everything a caller can see of a mask through the case's queries.
type observation struct {
	Root  stepRes
	Walks [][]stepRes
	Paths []bool
}

func observe(m *fieldmask.FieldMask, desc *thrift_reflection.TypeDescriptor, c *maskCase) (o observation, err error) {
	if e := guard("inspecting the root mask", func() { o.Root, err = inspect(m, true, c.Skip) }); e != nil {
		return o, e
	}
	if err != nil {
		return o, err
	}
	for _, w := range c.Walks {
		r, err := runWalk(m, w.Keys, c.Skip)
		if err != nil {
			return o, err
		}
		o.Walks = append(o.Walks, r)
	}
	for _, q := range c.PathQs {
		var in, in2 bool
		if e := guard(fmt.Sprintf("PathInMask(%q)", q.Path), func() { in = m.PathInMask(desc, q.Path) }); e != nil {
			return o, e
		}
		if e := guard(fmt.Sprintf("GetPath(%q)", q.Path), func() { _, in2 = m.GetPath(desc, q.Path) }); e != nil {
			return o, e
		}
		if in != in2 {
			return o, fmt.Errorf("PathInMask(%q)=%v but GetPath reports %v", q.Path, in, in2)
		}
		o.Paths = append(o.Paths, in)
	}
	return o, nil
}

func newMask(desc *thrift_reflection.TypeDescriptor, black bool, paths []string) (m *fieldmask.FieldMask, err error, pan error) {
	pan = guard(fmt.Sprintf("NewFieldMask(black=%v, %q)", black, paths), func() {
		m, err = fieldmask.Options{BlackListMode: black}.NewFieldMask(desc, paths...)
	})
	return
}

func marshal3(m *fieldmask.FieldMask) ([]byte, error) {
	var js [3][]byte
	for i := range js {
		var merr error
		if e := guard("MarshalJSON", func() { js[i], merr = m.MarshalJSON() }); e != nil {
			return nil, e
		}
		if merr != nil {
			return nil, fmt.Errorf("MarshalJSON failed: %v", merr)
		}
	}
	if !bytes.Equal(js[0], js[1]) || !bytes.Equal(js[0], js[2]) {
		return nil, fmt.Errorf("MarshalJSON is not stable across 3 calls:\n%s\n%s\n%s", js[0], js[1], js[2])
	}
	return js[0], nil
}

func judgeMask(c maskCase) error {
	desc, err := descriptor(c.IDL, c.Root)
	if err != nil {
		return nil // not a schema the repository accepts: nothing to judge (generators count this)
	}
	m, nerr, pan := newMask(desc, c.Black, c.Paths)
	if pan != nil {
		return pan
	}
	switch {
	case strings.HasPrefix(c.Mode, "invalid:"):
		if nerr == nil {
			return fmt.Errorf("path list %q contains an invalid path (%s) but NewFieldMask returned no error", c.Paths, c.Mode)
		}
		return nil
	case c.Mode == "valid":
		if nerr != nil {
			return fmt.Errorf("valid conflict-free path list %q rejected: %v", c.Paths, nerr)
		}
	default:
		if nerr != nil {
			return nil
		}
	}
	if m == nil {
		return fmt.Errorf("NewFieldMask(%q) returned neither a mask nor an error", c.Paths)
	}
	if m.IsBlack() != c.Black {
		return fmt.Errorf("IsBlack() is %v for BlackListMode=%v", m.IsBlack(), c.Black)
	}
	exact := c.Exact && c.Mode == "valid"

	// (b) answers against the reference
	o, err := observe(m, desc, &c)
	if err != nil {
		return fmt.Errorf("paths %q: %v", c.Paths, err)
	}
	if exact {
		if c.RootExp != nil {
			if err := checkExp("root mask", o.Root, *c.RootExp); err != nil {
				return fmt.Errorf("paths %q black=%v: %v", c.Paths, c.Black, err)
			}
		}
		for wi, w := range c.Walks {
			for si := range w.Exp {
				if err := checkExp(fmt.Sprintf("query %v step %d", w.Keys, si), o.Walks[wi][si], w.Exp[si]); err != nil {
					return fmt.Errorf("paths %q black=%v: %v", c.Paths, c.Black, err)
				}
			}
		}
		for qi, q := range c.PathQs {
			if q.Exp >= 0 && o.Paths[qi] != (q.Exp == 1) {
				return fmt.Errorf("paths %q black=%v: PathInMask(%q) is %v, the path set prescribes %v", c.Paths, c.Black, q.Path, o.Paths[qi], q.Exp == 1)
			}
		}
	}
	if !has(c.Skip, skipString) {
		if e := guard("String", func() { _ = m.String(desc) }); e != nil {
			return fmt.Errorf("paths %q: %v", c.Paths, e)
		}
	}

	// (d) JSON transport
	j, err := marshal3(m)
	if err != nil {
		return fmt.Errorf("paths %q: %v", c.Paths, err)
	}
	if !json.Valid(j) {
		return fmt.Errorf("paths %q: MarshalJSON output is not valid JSON: %s", c.Paths, j)
	}
	back := &fieldmask.FieldMask{}
	var uerr error
	if e := guard(fmt.Sprintf("UnmarshalJSON(%s)", j), func() { uerr = back.UnmarshalJSON(j) }); e != nil {
		return e
	}
	if uerr != nil {
		return fmt.Errorf("paths %q: UnmarshalJSON rejects the output of MarshalJSON %s: %v", c.Paths, j, uerr)
	}
	ob, err := observe(back, desc, &c)
	if err != nil {
		return fmt.Errorf("paths %q, mask read back from %s: %v", c.Paths, j, err)
	}
	jb, err := marshal3(back)
	if err != nil {
		return fmt.Errorf("paths %q, mask read back from %s: %v", c.Paths, j, err)
	}
	if c.Mode == "valid" {
		if !reflect.DeepEqual(o, ob) {
			return fmt.Errorf("paths %q black=%v: the mask read back from JSON answers differently: %s", c.Paths, c.Black, diffObs(&c, o, ob))
		}
		if !bytes.Equal(j, jb) {
			return fmt.Errorf("paths %q: JSON changes over a round trip:\n%s\n%s", c.Paths, j, jb)
		}
	}

	// (b) permutation / regrouping
	if c.Mode == "valid" && c.Alt != nil {
		m2, nerr, pan := newMask(desc, c.Black, c.Alt)
		if pan != nil {
			return pan
		}
		if nerr != nil {
			return fmt.Errorf("path list %q accepted but its regrouped permutation %q rejected: %v", c.Paths, c.Alt, nerr)
		}
		o2, err := observe(m2, desc, &c)
		if err != nil {
			return fmt.Errorf("paths %q: %v", c.Alt, err)
		}
		if !reflect.DeepEqual(o, o2) {
			return fmt.Errorf("black=%v: path lists %q and %q denote the same set but answer differently: %s", c.Black, c.Paths, c.Alt, diffObs(&c, o, o2))
		}
		j2, err := marshal3(m2)
		if err != nil {
			return fmt.Errorf("paths %q: %v", c.Alt, err)
		}
		if !bytes.Equal(j, j2) {
			return fmt.Errorf("path lists %q and %q denote the same set but marshal differently:\n%s\n%s", c.Paths, c.Alt, j, j2)
		}
	}

	// (d) cached forms
	if c.Cached {
		for i := 0; i < 2; i++ {
			var cj []byte
			var cerr error
			if e := guard("Marshal", func() { cj, cerr = fieldmask.Marshal(m) }); e != nil {
				return e
			}
			if cerr != nil || !bytes.Equal(cj, j) {
				return fmt.Errorf("paths %q: Marshal (call %d) gives %s, %v; MarshalJSON gives %s", c.Paths, i+1, cj, cerr, j)
			}
			var cm *fieldmask.FieldMask
			if e := guard("Unmarshal", func() { cm, cerr = fieldmask.Unmarshal(j) }); e != nil {
				return e
			}
			if cerr != nil || cm == nil {
				return fmt.Errorf("paths %q: Unmarshal (call %d) of %s fails: %v", c.Paths, i+1, j, cerr)
			}
			oc, err := observe(cm, desc, &c)
			if err != nil {
				return fmt.Errorf("paths %q, mask from Unmarshal: %v", c.Paths, err)
			}
			if !reflect.DeepEqual(ob, oc) {
				return fmt.Errorf("paths %q: Unmarshal (call %d) and UnmarshalJSON of %s answer differently: %s", c.Paths, i+1, j, diffObs(&c, ob, oc))
			}
		}
	}
	return nil
}

func diffObs(c *maskCase, a, b observation) string {
	if !reflect.DeepEqual(a.Root, b.Root) {
		return fmt.Sprintf("root %+v vs %+v", a.Root, b.Root)
	}
	for i := range a.Walks {
		if i < len(b.Walks) && !reflect.DeepEqual(a.Walks[i], b.Walks[i]) {
			return fmt.Sprintf("query %v: %+v vs %+v", c.Walks[i].Keys, a.Walks[i], b.Walks[i])
		}
	}
	for i := range a.Paths {
		if i < len(b.Paths) && a.Paths[i] != b.Paths[i] {
			return fmt.Sprintf("PathInMask(%q): %v vs %v", c.PathQs[i].Path, a.Paths[i], b.Paths[i])
		}
	}
	return "(lengths differ)"
}

// ---------- JSON documents ----------

type jsonCase struct {
	Class string   `json:"class"`
	Doc   []byte   `json:"doc"`
	Skip  []string `json:"skip,omitempty"`
}

// probeKeys collects every "path" value of a document: the keys worth querying.
func probeKeys(doc []byte) (ints []int, strs []string) {
	var v interface{}
	if json.Unmarshal(doc, &v) != nil {
		return nil, nil
	}
	seenI, seenS := map[int]bool{}, map[string]bool{}
	var rec func(v interface{}, depth int)
	rec = func(v interface{}, depth int) {
		if depth > 50 {
			return
		}
		switch x := v.(type) {
		case map[string]interface{}:
			switch p := x["path"].(type) {
			case float64:
				if p == float64(int(p)) && !seenI[int(p)] && len(ints) < 6 {
					seenI[int(p)] = true
					ints = append(ints, int(p))
				}
			case string:
				if !seenS[p] && len(strs) < 4 {
					seenS[p] = true
					strs = append(strs, p)
				}
			}
			ks := make([]string, 0, len(x))
			for k := range x {
				ks = append(ks, k)
			}
			sort.Strings(ks)
			for _, k := range ks {
				rec(x[k], depth+1)
			}
		case []interface{}:
			for _, e := range x {
				rec(e, depth+1)
			}
		}
	}
	rec(v, 0)
	sort.Ints(ints)
	sort.Strings(strs)
	return
}

// explore compares two masks observationally over a bounded key tree.
func explore(a, b *fieldmask.FieldMask, ints []int, strs []string, skip []string, depth int, budget *int, trail string) error {
	ra, err := inspect(a, true, skip)
	if err != nil {
		return fmt.Errorf("at %s: %v", trail, err)
	}
	rb, err := inspect(b, true, skip)
	if err != nil {
		return fmt.Errorf("at %s: %v", trail, err)
	}
	if !reflect.DeepEqual(ra, rb) {
		return fmt.Errorf("at %s: UnmarshalJSON gives %+v, the caching Unmarshal gives %+v", trail, ra, rb)
	}
	if depth == 0 || a == nil {
		return nil
	}
	var keys []qkey
	for _, i := range ints {
		if i >= -32768 && i <= 32767 && !(has(skip, fFieldNonStruct) && a.Type() != fieldmask.FtStruct && !a.All()) {
			keys = append(keys, qkey{K: "f", I: i})
		}
		keys = append(keys, qkey{K: "i", I: i})
	}
	for _, s := range strs {
		keys = append(keys, qkey{K: "s", S: s})
	}
	for _, q := range keys {
		if *budget <= 0 {
			return nil
		}
		*budget--
		var na, nb *fieldmask.FieldMask
		var oka, okb bool
		switch q.K {
		case "f":
			na, oka = a.Field(int16(q.I))
			nb, okb = b.Field(int16(q.I))
		case "i":
			na, oka = a.Int(q.I)
			nb, okb = b.Int(q.I)
		default:
			na, oka = a.Str(q.S)
			nb, okb = b.Str(q.S)
		}
		t := fmt.Sprintf("%s/%s", trail, q.key())
		if oka != okb {
			return fmt.Errorf("at %s: UnmarshalJSON mask answers %v, the caching Unmarshal mask answers %v", t, oka, okb)
		}
		if na != nil {
			if err := explore(na, nb, ints, strs, skip, depth-1, budget, t); err != nil {
				return err
			}
		}
	}
	return nil
}

func judgeJSON(c jsonCase) error {
	if len(c.Doc) > 64<<10 {
		return nil
	}
	m := &fieldmask.FieldMask{}
	var e1, e2, e3 error
	var c1, c2 *fieldmask.FieldMask
	if e := guard("UnmarshalJSON", func() { e1 = m.UnmarshalJSON(c.Doc) }); e != nil {
		return fmt.Errorf("%v on %s", e, vt.Truncate(string(c.Doc), 600))
	}
	if e := guard("Unmarshal", func() {
		c1, e2 = fieldmask.Unmarshal(c.Doc)
		c2, e3 = fieldmask.Unmarshal(c.Doc)
	}); e != nil {
		return fmt.Errorf("%v on %s", e, vt.Truncate(string(c.Doc), 600))
	}
	if (e1 == nil) != (e2 == nil) || (e2 == nil) != (e3 == nil) {
		return fmt.Errorf("UnmarshalJSON err=%v, Unmarshal err=%v, second Unmarshal err=%v on %s", e1, e2, e3, vt.Truncate(string(c.Doc), 600))
	}
	if e1 != nil {
		return nil
	}
	if c1 == nil || c2 == nil {
		return fmt.Errorf("Unmarshal returned neither a mask nor an error on %s", vt.Truncate(string(c.Doc), 600))
	}
	ints, strs := probeKeys(c.Doc)
	ints = append(ints, 0, 64)
	strs = append(strs, "a")
	var err error
	if e := guard("querying the unmarshalled mask", func() {
		budget := 400
		if err = explore(m, c1, ints, strs, c.Skip, 4, &budget, "$"); err == nil {
			budget = 400
			err = explore(m, c2, ints, strs, c.Skip, 4, &budget, "$")
		}
	}); e != nil {
		return fmt.Errorf("%v on %s", e, vt.Truncate(string(c.Doc), 600))
	}
	if err != nil {
		return fmt.Errorf("%v on %s", err, vt.Truncate(string(c.Doc), 600))
	}
	// marshalling an unmarshalled mask may fail (arbitrary documents) but is total and stable
	var j [3][]byte
	var me [3]error
	if e := guard("MarshalJSON of the unmarshalled mask", func() {
		for i := range j {
			j[i], me[i] = m.MarshalJSON()
		}
	}); e != nil {
		return fmt.Errorf("%v on %s", e, vt.Truncate(string(c.Doc), 600))
	}
	if (me[0] == nil) != (me[1] == nil) || !bytes.Equal(j[0], j[1]) || !bytes.Equal(j[0], j[2]) {
		return fmt.Errorf("MarshalJSON of the mask read from %s is not stable", vt.Truncate(string(c.Doc), 600))
	}
	return nil
}

// ---------- rapid properties ----------

func account(c *maskCase, st pathStats) {
	vt.Eval()
	switch {
	case c.Mode == "valid":
		vt.Class("valid_path_set")
	case strings.HasPrefix(c.Mode, "invalid:"):
		vt.Class("invalid_path_set")
		vt.Class(c.Mode)
	default:
		vt.Class("mode:" + c.Mode)
	}
	vt.ClassIf(c.Mode == "conflict", "conflict")
	vt.ClassIf(c.Exact && c.Mode == "valid", "exact_oracle")
	vt.ClassIf(st.star, "has_star")
	vt.ClassIf(st.index, "has_index")
	vt.ClassIf(st.intKey, "has_int_key")
	vt.ClassIf(st.strKey, "has_str_key")
	vt.ClassIf(st.byID, "field_by_id")
	vt.ClassIf(st.bigID, "field_id>63")
	vt.ClassIf(st.negID, "field_id<0")
	vt.ClassIf(st.typedef, "through_typedef")
	vt.ClassIf(st.maxDepth >= 3, "depth>=3")
	vt.ClassIf(c.Black, "black_list")
	vt.ClassIf(c.Black && st.trailStar, "black_trailing_star(no_exact_oracle)")
	vt.ClassIf(len(c.Alt) > len(c.Paths), "regrouped")
	vt.ClassIf(c.Cached, "cached_forms")
	mixed := 0
	for _, b := range []bool{st.field, st.index, st.intKey || st.strKey, st.star} {
		if b {
			mixed++
		}
	}
	if len(c.Paths) >= 3 && st.maxDepth >= 3 && mixed >= 2 {
		vt.Nontrivial(c.IDL + "\x00" + strings.Join(c.Paths, "\x00") + fmt.Sprint(c.Black))
	}
}

func TestMask(t *testing.T) {
	rapid.Check(t, func(rt *rapid.T) {
		c, st := genMaskCase(rt)
		flushExcl()
		if _, err := descriptor(c.IDL, c.Root); err != nil {
			vt.Class("harness_schema_rejected")
			rt.Fatalf("harness: generated schema rejected: %v\n%s", err, c.IDL)
		}
		account(&c, st)
		vt.Sample(map[string]interface{}{"test": "mask", "mode": c.Mode, "black": c.Black, "paths": c.Paths, "idl": vt.Truncate(c.IDL, 400)})
		if err := judgeMask(c); err != nil {
			vt.Fail(rt, prop, "mask", c, "%v", err)
		}
	})
}

func TestSoup(t *testing.T) {
	rapid.Check(t, func(rt *rapid.T) {
		c := genSoupCase(rt)
		flushExcl()
		if _, err := descriptor(c.IDL, c.Root); err != nil {
			vt.Class("harness_schema_rejected")
			rt.Fatalf("harness: generated schema rejected: %v\n%s", err, c.IDL)
		}
		vt.Eval()
		vt.Class("mode:soup")
		vt.ClassIf(c.Black, "black_list")
		if len(c.Paths) >= 3 {
			vt.Nontrivial("soup\x00" + c.IDL + "\x00" + strings.Join(c.Paths, "\x00"))
		}
		if rapid.IntRange(0, 40).Draw(rt, "sample") == 0 {
			vt.Sample(map[string]interface{}{"test": "soup", "paths": c.Paths})
		}
		if err := judgeMask(c); err != nil {
			vt.Fail(rt, prop, "mask", c, "%v", err)
		}
	})
}

func TestJSON(t *testing.T) {
	rapid.Check(t, func(rt *rapid.T) {
		c := genJSONCase(rt)
		flushExcl()
		vt.Eval()
		vt.Class("json:" + c.Class)
		if len(c.Doc) > 40 {
			vt.Nontrivial("json\x00" + string(c.Doc))
		}
		if rapid.IntRange(0, 40).Draw(rt, "sample") == 0 {
			vt.Sample(map[string]interface{}{"test": "json", "class": c.Class, "doc": vt.Truncate(string(c.Doc), 300)})
		}
		if err := judgeJSON(c); err != nil {
			vt.Fail(rt, prop, "json", c, "%v", err)
		}
	})
}

// ---------- native fuzz targets (thorough tier) ----------

func FuzzPath(f *testing.F) {
	for _, s := range []string{
		"$.a", "$.l[1,2]\n$.m{\"a\"}.x", "$.im{1}.r[*].y\n$.s.x", "$.tl[0]\n$.ts", "$.dm{*}.x", "$.em{1,2}", "$.300\n$.big", "$.l[*]\n$.l[1]",
		"$.ls[1].r[2].r[3].x", "$.m{\"q\\\"t\",\"\"}", "$", "$.s.*",
	} {
		f.Add(s, false)
		f.Add(s, true)
	}
	k := known()
	idl := fuzzIDL(k)
	f.Fuzz(func(t *testing.T, in string, black bool) {
		if len(in) > 4<<10 {
			return
		}
		paths := strings.Split(in, "\n")
		if len(paths) > 8 {
			paths = paths[:8]
		}
		for _, p := range paths {
			if knownPathShape(p, k) != "" {
				return
			}
		}
		c := maskCase{IDL: idl, Root: "S", Black: black, Mode: "soup", Paths: paths, Skip: judgeSkips(k, skipFacts{typedefs: true, starNested: strings.Contains(in, "*")})}
		for _, p := range paths {
			if !(k[fGetPathStar] && strings.Contains(p, ".*")) {
				c.PathQs = append(c.PathQs, pathQ{Path: p, Exp: -1})
			}
		}
		c.Walks = fuzzWalks(k)
		if err := judgeMask(c); err != nil {
			vt.Fail(t, prop, "mask", c, "%v", err)
		}
	})
}

func FuzzMaskJSON(f *testing.F) {
	f.Add([]byte(`null`))
	f.Add([]byte(`{"path":"$","type":"Struct","is_black":false,"children":[{"path":6,"type":"List","is_black":false,"children":[{"path":"*","type":"Struct","is_black":false,"children":[{"path":4,"type":"List","is_black":false}]}]},{"path":256,"type":"Struct","is_black":false,"children":[{"path":2,"type":"IntMap","is_black":false,"children":[{"path":"*","type":"Struct","is_black":false,"children":[{"path":0,"type":"Scalar","is_black":false}]}]}]}]}`))
	f.Add([]byte(`{"path":"$","type":"Struct","is_black":true,"children":[{"path":1,"type":"StrMap","is_black":true,"children":[{"path":"a","type":"Struct","is_black":true},{"path":"b","type":"Scalar","is_black":true,"children":[{"path":"*","type":"Scalar"}]}]}]}`))
	k := known()
	f.Fuzz(func(t *testing.T, doc []byte) {
		if knownDocShape(doc, k) != "" {
			return
		}
		c := jsonCase{Class: "native_fuzz", Doc: doc, Skip: judgeSkips(k, skipFacts{})}
		if err := judgeJSON(c); err != nil {
			vt.Fail(t, prop, "json", c, "%v", err)
		}
	})
}

// ---------- replay ----------

func TestReplay(t *testing.T) {
	vt.Replay(t, prop, map[string]vt.Handler{
		"mask": func(raw json.RawMessage) error {
			var c maskCase
			if err := vt.Decode(raw, &c); err != nil {
				return err
			}
			return judgeMask(c)
		},
		"json": func(raw json.RawMessage) error {
			var c jsonCase
			if err := vt.Decode(raw, &c); err != nil {
				return err
			}
			return judgeJSON(c)
		},
		"history": func(raw json.RawMessage) error {
			var c histCase
			if err := vt.Decode(raw, &c); err != nil {
				return err
			}
			return judgeHistory(c)
		},
	})
}
