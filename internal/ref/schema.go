// Package ref holds the reference semantics computed from the IDL model only:
// wire schemas, values, constant evaluation, an independent binary-protocol
// codec and value generators.  It shares no code with thriftgo, apache/thrift
// or gopkg.
package ref

import (
	"fmt"
	"math"
	"sort"

	"verif/internal/idl"
)

// Kind of a resolved type.
type Kind int

const (
	Bool Kind = iota
	Byte
	I16
	I32
	I64
	Double
	String
	Binary
	Enum
	List
	Set
	Map
	Struct
)

func (k Kind) String() string {
	return [...]string{"bool", "byte", "i16", "i32", "i64", "double", "string", "binary", "enum", "list", "set", "map", "struct"}[k]
}

// Type is a resolved (typedef-free) type.
type Type struct {
	Kind   Kind
	Key    *Type
	Elem   *Type
	Struct *StructT
	Enum   *idl.Def
}

// StructT is the wire schema of a struct-like (or a synthesized args/result).
type StructT struct {
	Name   string // IDL name (what goes on the wire in WriteStructBegin; for synthesized: <fn>_args / <fn>_result)
	Kind   string // struct union exception args result
	File   *idl.File
	Def    *idl.Def // nil for synthesized
	Fields []*FieldT
}

type FieldT struct {
	ID      int32
	Name    string
	Req     idl.Req
	Type    *Type
	Default V // evaluated declared default, nil if none
	HasDef  bool
	// CtorDefault is what a freshly constructed object holds in the field (the
	// completed literal); it stays as built when a check replaces Default by
	// another form of the same default (e.g. the form it has after a wire trip).
	CtorDefault V
}

func (s *StructT) Field(id int32) *FieldT {
	for _, f := range s.Fields {
		if f.ID == id {
			return f
		}
	}
	return nil
}

func (s *StructT) FieldByName(n string) *FieldT {
	for _, f := range s.Fields {
		if f.Name == n {
			return f
		}
	}
	return nil
}

// Schema of a whole program.
type Schema struct {
	Prog    *idl.Program
	Structs []*StructT // struct-likes in program order, then synthesized args/result
	byDef   map[*idl.Def]*StructT
	pending []pendingDefault
	built   bool
}

type pendingDefault struct {
	f *FieldT
	v *idl.Value
}

// Build computes the schema of every struct-like and of every function's
// synthesized args / result struct.
func Build(p *idl.Program) *Schema {
	s := &Schema{Prog: p, byDef: map[*idl.Def]*StructT{}}
	// first create shells so that recursive references resolve
	for _, f := range p.Files {
		for _, d := range f.Defs {
			if d.Kind.IsStructLike() {
				st := &StructT{Name: d.Name, Kind: d.Kind.String(), File: f, Def: d}
				s.byDef[d] = st
				s.Structs = append(s.Structs, st)
			}
		}
	}
	for _, st := range append([]*StructT{}, s.Structs...) {
		st.Fields = s.fields(st.Def.Fields, st.Kind)
	}
	for _, f := range p.Files {
		for _, d := range f.Defs {
			if d.Kind != idl.KService {
				continue
			}
			for _, fn := range d.Funcs {
				args := &StructT{Name: fn.Name + "_args", Kind: "args", File: f}
				args.Fields = s.fields(fn.Args, "args")
				s.Structs = append(s.Structs, args)
				if fn.Oneway {
					continue
				}
				res := &StructT{Name: fn.Name + "_result", Kind: "result", File: f}
				if fn.Ret != nil {
					res.Fields = append(res.Fields, &FieldT{ID: 0, Name: "success", Req: idl.ReqOptional, Type: s.Resolve(fn.Ret)})
				}
				for _, th := range s.fields(fn.Throws, "throws") {
					th.Req = idl.ReqOptional
					res.Fields = append(res.Fields, th)
				}
				s.Structs = append(s.Structs, res)
			}
		}
	}
	for _, pd := range s.pending {
		pd.f.Default = s.Eval(pd.f.Type, pd.v)
	}
	// struct literals name only some fields: the others take their declared
	// default (the IDL's rule) or, without one, what a constructed object holds
	for _, pd := range s.pending {
		pd.f.Default = Complete(pd.f.Type, pd.f.Default, 0)
		pd.f.CtorDefault = pd.f.Default
	}
	s.pending = nil
	s.built = true
	return s
}

// Complete fills, in every struct value inside v, the fields the value does
// not mention: a declared default is taken over (completed itself), a
// non-optional scalar, binary or container field gets its zero value; optional
// fields without default and struct-typed fields without default stay absent.
func Complete(t *Type, v V, depth int) V {
	if v == nil || depth > 12 {
		return v
	}
	switch t.Kind {
	case List, Set:
		x := v.(*ListV)
		o := &ListV{E: []V{}}
		for _, e := range x.E {
			o.E = append(o.E, Complete(t.Elem, e, depth+1))
		}
		return o
	case Map:
		x := v.(*MapV)
		o := &MapV{K: []V{}, E: []V{}}
		for i := range x.K {
			o.K = append(o.K, Complete(t.Key, x.K[i], depth+1))
			o.E = append(o.E, Complete(t.Elem, x.E[i], depth+1))
		}
		return o
	case Struct:
		x := v.(*StructV)
		o := NewStruct()
		for _, f := range t.Struct.Fields {
			if fv, ok := x.F[f.ID]; ok && fv != nil {
				o.F[f.ID] = Complete(f.Type, fv, depth+1)
				continue
			}
			switch {
			case f.HasDef && f.Default != nil:
				o.F[f.ID] = Complete(f.Type, f.Default, depth+1)
			case f.Req != idl.ReqOptional && f.Type.Kind != Struct && t.Struct.Kind != "union":
				o.F[f.ID] = Zero(f.Type)
			}
		}
		return o
	}
	return v
}

func (s *Schema) fields(fs []*idl.Field, kind string) []*FieldT {
	var out []*FieldT
	for _, f := range fs {
		ft := &FieldT{ID: f.ID, Name: f.Name, Req: f.Req, Type: s.Resolve(f.Type)}
		if kind == "union" {
			ft.Req = idl.ReqOptional
		}
		if kind == "args" && ft.Req == idl.ReqOptional {
			ft.Req = idl.ReqDefault // "optional keyword is ignored in argument lists"; `required` is kept
		}
		out = append(out, ft)
	}
	// defaults are evaluated after every struct has its fields (see Build)
	for i, f := range fs {
		if f.Default != nil {
			out[i].HasDef = true
			s.pending = append(s.pending, pendingDefault{out[i], f.Default})
		}
	}
	return out
}

// StructOf returns the schema of a struct-like definition.
func (s *Schema) StructOf(d *idl.Def) *StructT { return s.byDef[d] }

var baseKinds = map[string]Kind{"bool": Bool, "byte": Byte, "i8": Byte, "i16": I16, "i32": I32, "i64": I64, "double": Double, "string": String, "binary": Binary}

// Resolve turns a written type into a resolved one.
func (s *Schema) Resolve(t *idl.Type) *Type {
	t = t.Final()
	if t.Ref != nil {
		switch {
		case t.Ref.Kind == idl.KEnum:
			return &Type{Kind: Enum, Enum: t.Ref}
		case t.Ref.Kind.IsStructLike():
			return &Type{Kind: Struct, Struct: s.byDef[t.Ref]}
		}
		panic("ref: unexpected reference to " + t.Ref.Kind.String())
	}
	switch t.Base {
	case "list":
		return &Type{Kind: List, Elem: s.Resolve(t.Elem)}
	case "set":
		return &Type{Kind: Set, Elem: s.Resolve(t.Elem)}
	case "map":
		return &Type{Kind: Map, Key: s.Resolve(t.Key), Elem: s.Resolve(t.Elem)}
	}
	k, ok := baseKinds[t.Base]
	if !ok {
		panic("ref: unknown base type " + t.Base)
	}
	return &Type{Kind: k}
}

// ---------- values ----------

// V is a value: bool | int64 (all integers and enums) | float64 | []byte
// (string and binary) | *ListV (list and set) | *MapV | *StructV | nil (absent).
type V interface{}

type ListV struct{ E []V }
type MapV struct{ K, E []V }
type StructV struct {
	F map[int32]V // present fields only
}

func NewStruct() *StructV { return &StructV{F: map[int32]V{}} }

// IDs returns the present field ids in ascending order.
func (s *StructV) IDs() []int32 {
	var ids []int32
	for id := range s.F {
		ids = append(ids, id)
	}
	sort.Slice(ids, func(i, j int) bool { return ids[i] < ids[j] })
	return ids
}

// Eval evaluates a written constant value under a resolved type by the IDL's
// own rules.
func (s *Schema) Eval(t *Type, v *idl.Value) V {
	r := s.eval(t, v)
	if s.built {
		return Complete(t, r, 0)
	}
	return r
}

func (s *Schema) eval(t *Type, v *idl.Value) V {
	if v.Kind == idl.VIdent && v.RefConst != nil {
		c := v.RefConst
		return s.eval(s.Resolve(c.Type), c.Value)
	}
	switch t.Kind {
	case Bool:
		switch v.Kind {
		case idl.VIdent:
			return v.Ident == "true"
		case idl.VInt:
			return v.Int > 0
		}
	case Byte, I16, I32, I64:
		if v.Kind == idl.VInt {
			return v.Int
		}
		if v.Kind == idl.VIdent && v.RefEnum != nil {
			// an enum member where an integer is expected: its number
			for _, ev := range v.RefEnum.Values {
				if ev.Name == v.RefVal {
					return ev.Value
				}
			}
		}
	case Double:
		switch v.Kind {
		case idl.VInt:
			return float64(v.Int)
		case idl.VDouble:
			return v.Dbl
		}
	case String, Binary:
		if v.Kind == idl.VLit {
			return []byte(goUnquote(v.Lit.Text()))
		}
	case Enum:
		switch v.Kind {
		case idl.VInt:
			return v.Int
		case idl.VIdent:
			for _, ev := range v.RefEnum.Values {
				if ev.Name == v.RefVal {
					return ev.Value
				}
			}
		}
	case List, Set:
		if v.Kind == idl.VList {
			l := &ListV{}
			for _, e := range v.List {
				l.E = append(l.E, s.eval(t.Elem, e))
			}
			return l
		}
	case Map:
		if v.Kind == idl.VMap {
			m := &MapV{}
			for i, e := range v.List {
				m.K = append(m.K, s.eval(t.Key, v.Keys[i]))
				m.E = append(m.E, s.eval(t.Elem, e))
			}
			return m
		}
	case Struct:
		if v.Kind == idl.VMap {
			sv := NewStruct()
			for i, e := range v.List {
				name := v.Keys[i].Lit.Text()
				f := t.Struct.FieldByName(name)
				if f == nil {
					panic("ref: struct literal names unknown field " + name)
				}
				sv.F[f.ID] = s.eval(f.Type, e)
			}
			return sv
		}
	}
	panic(fmt.Sprintf("ref: cannot evaluate value kind %d under type %s", v.Kind, t.Kind))
}

// goUnquote reads literal text the way the Go compiler reads it inside a
// double-quoted string (docs/string-literals-in-the-IDL.md: the literal is
// copied into the target language, which interprets the escapes).  The
// generator only produces \\ \t \n \r pairs for Go-safe programs.
func goUnquote(s string) string {
	out := make([]byte, 0, len(s))
	for i := 0; i < len(s); i++ {
		if s[i] == '\\' && i+1 < len(s) {
			switch s[i+1] {
			case '\\':
				out = append(out, '\\')
				i++
				continue
			case 't':
				out = append(out, '\t')
				i++
				continue
			case 'n':
				out = append(out, '\n')
				i++
				continue
			case 'r':
				out = append(out, '\r')
				i++
				continue
			case '"':
				out = append(out, '"')
				i++
				continue
			}
		}
		out = append(out, s[i])
	}
	return string(out)
}

// Equal is exact value equality (doubles by bits, maps as sets of entries,
// lists and sets in order).
func Equal(a, b V) bool {
	switch x := a.(type) {
	case nil:
		return b == nil
	case bool:
		y, ok := b.(bool)
		return ok && x == y
	case int64:
		y, ok := b.(int64)
		return ok && x == y
	case float64:
		y, ok := b.(float64)
		return ok && math.Float64bits(x) == math.Float64bits(y)
	case []byte:
		y, ok := b.([]byte)
		return ok && string(x) == string(y)
	case *ListV:
		y, ok := b.(*ListV)
		if !ok || len(x.E) != len(y.E) {
			return false
		}
		for i := range x.E {
			if !Equal(x.E[i], y.E[i]) {
				return false
			}
		}
		return true
	case *MapV:
		y, ok := b.(*MapV)
		if !ok || len(x.K) != len(y.K) {
			return false
		}
		used := make([]bool, len(y.K))
	outer:
		for i := range x.K {
			for j := range y.K {
				if !used[j] && Equal(x.K[i], y.K[j]) && Equal(x.E[i], y.E[j]) {
					used[j] = true
					continue outer
				}
			}
			return false
		}
		return true
	case *StructV:
		y, ok := b.(*StructV)
		if !ok || len(x.F) != len(y.F) {
			return false
		}
		for id, v := range x.F {
			w, ok := y.F[id]
			if !ok || !Equal(v, w) {
				return false
			}
		}
		return true
	}
	return false
}

// Show renders a value for messages.
func Show(v V) string {
	switch x := v.(type) {
	case nil:
		return "<absent>"
	case bool, int64:
		return fmt.Sprint(x)
	case float64:
		return fmt.Sprintf("%v(0x%x)", x, math.Float64bits(x))
	case []byte:
		return fmt.Sprintf("%q", string(x))
	case *ListV:
		s := "["
		for i, e := range x.E {
			if i > 0 {
				s += ", "
			}
			s += Show(e)
		}
		return s + "]"
	case *MapV:
		s := "{"
		for i := range x.K {
			if i > 0 {
				s += ", "
			}
			s += Show(x.K[i]) + ": " + Show(x.E[i])
		}
		return s + "}"
	case *StructV:
		s := "<"
		for i, id := range x.IDs() {
			if i > 0 {
				s += ", "
			}
			s += fmt.Sprintf("%d=%s", id, Show(x.F[id]))
		}
		return s + ">"
	}
	return fmt.Sprintf("?%T", v)
}

// Zero is the zero value of a type as a freshly constructed Go object shows
// it: false, 0, "", empty container, struct with its defaults.
func Zero(t *Type) V {
	switch t.Kind {
	case Bool:
		return false
	case Byte, I16, I32, I64, Enum:
		return int64(0)
	case Double:
		return float64(0)
	case String, Binary:
		return []byte{}
	case List, Set:
		return &ListV{}
	case Map:
		return &MapV{}
	}
	return NewStruct()
}

// Normalise maps a value to the canonical representative of its equivalence
// class under the conventions of the generated code that the properties
// grant: an optional field with a declared default that holds the default is
// the same as an unset one; for non-optional fields a missing container is the
// same as an empty one.  It returns a new value.
func Normalise(t *Type, v V) V {
	if v == nil {
		return nil
	}
	switch t.Kind {
	case List, Set:
		x := v.(*ListV)
		o := &ListV{}
		for _, e := range x.E {
			o.E = append(o.E, Normalise(t.Elem, e))
		}
		return o
	case Map:
		x := v.(*MapV)
		o := &MapV{}
		for i := range x.K {
			o.K = append(o.K, Normalise(t.Key, x.K[i]))
			o.E = append(o.E, Normalise(t.Elem, x.E[i]))
		}
		return o
	case Struct:
		x := v.(*StructV)
		o := NewStruct()
		for _, f := range t.Struct.Fields {
			fv, ok := x.F[f.ID]
			if !ok || fv == nil {
				if f.Req != idl.ReqOptional && (f.Type.Kind == List || f.Type.Kind == Set || f.Type.Kind == Map || f.Type.Kind == Binary) {
					o.F[f.ID] = Zero(f.Type) // a nil container in a non-optional field is written as an empty one
				}
				continue
			}
			nv := Normalise(f.Type, fv)
			if f.Req == idl.ReqOptional && f.HasDef && f.Type.Kind == Double {
				// the generated IsSet compares with Go's !=, for which -0 equals 0
				if a, ok := nv.(float64); ok {
					if b, ok := f.Default.(float64); ok && a == b {
						continue
					}
				}
			}
			if f.Req == idl.ReqOptional && f.HasDef && (Equal(nv, Normalise(f.Type, f.Default)) || Equal(nv, Normalise(f.Type, WireForm(f.Type, f.Default, 0))) ||
				(f.CtorDefault != nil && Equal(nv, Normalise(f.Type, f.CtorDefault)))) {
				continue
			}
			o.F[f.ID] = nv
		}
		return o
	}
	return v
}

// HoldsDefault reports whether the generated code cannot tell the value of a
// field with a declared default from "unset" (IsSet compares with the default;
// for doubles with Go's !=, under which -0 equals 0).
func HoldsDefault(f *FieldT, v V) bool {
	if !f.HasDef {
		return false
	}
	if a, ok := v.(float64); ok {
		if b, ok := f.Default.(float64); ok && a == b {
			return true
		}
	}
	return Equal(Normalise(f.Type, v), Normalise(f.Type, f.Default))
}

// WireForm is what an object constructed from the (completed) literal v puts
// on the wire: a non-optional struct-typed field the literal leaves out is a
// nil pointer in the object, and the generated Write emits a nil struct as an
// empty struct.
func WireForm(t *Type, v V, depth int) V {
	if v == nil || depth > 12 {
		return v
	}
	switch t.Kind {
	case List, Set:
		x := v.(*ListV)
		o := &ListV{E: []V{}}
		for _, e := range x.E {
			o.E = append(o.E, WireForm(t.Elem, e, depth+1))
		}
		return o
	case Map:
		x := v.(*MapV)
		o := &MapV{K: []V{}, E: []V{}}
		for i := range x.K {
			o.K = append(o.K, WireForm(t.Key, x.K[i], depth+1))
			o.E = append(o.E, WireForm(t.Elem, x.E[i], depth+1))
		}
		return o
	case Struct:
		x := v.(*StructV)
		o := NewStruct()
		for _, f := range t.Struct.Fields {
			if fv, ok := x.F[f.ID]; ok && fv != nil {
				o.F[f.ID] = WireForm(f.Type, fv, depth+1)
			} else if f.Req != idl.ReqOptional && f.Type.Kind == Struct && t.Struct.Kind != "union" {
				o.F[f.ID] = NewStruct()
			}
		}
		return o
	}
	return v
}

// Readable reports whether every struct inside v carries all its required
// fields (and every union exactly one member), i.e. whether a strict reader
// accepts the encoding of v.
func Readable(t *Type, v V) bool {
	if v == nil {
		return false
	}
	switch t.Kind {
	case List, Set:
		for _, e := range v.(*ListV).E {
			if !Readable(t.Elem, e) {
				return false
			}
		}
	case Map:
		x := v.(*MapV)
		for i := range x.K {
			if !Readable(t.Key, x.K[i]) || !Readable(t.Elem, x.E[i]) {
				return false
			}
		}
	case Struct:
		x := v.(*StructV)
		n := 0
		for _, f := range t.Struct.Fields {
			fv, ok := x.F[f.ID]
			if !ok || fv == nil {
				if f.Req == idl.ReqRequired {
					return false
				}
				continue
			}
			n++
			if !Readable(f.Type, fv) {
				return false
			}
			if t.Struct.Kind == "union" && f.HasDef && HoldsDefault(f, fv) {
				return false // a member holding its declared default counts as unset: no member is set
			}
		}
		if t.Struct.Kind == "union" && n != 1 {
			return false
		}
	}
	return true
}

func isScalar(t *Type) bool {
	return t.Kind <= Enum
}

// FirstDiff names the first place where two (normalised) values differ, or "".
func FirstDiff(a, b V) string {
	return firstDiff(a, b, "$")
}

func firstDiff(a, b V, path string) string {
	if Equal(a, b) {
		return ""
	}
	switch x := a.(type) {
	case *StructV:
		y, ok := b.(*StructV)
		if !ok {
			break
		}
		for _, id := range x.IDs() {
			if _, ok := y.F[id]; !ok {
				return fmt.Sprintf("%s.%d: present on the first side only: %s", path, id, Show(x.F[id]))
			}
			if d := firstDiff(x.F[id], y.F[id], fmt.Sprintf("%s.%d", path, id)); d != "" {
				return d
			}
		}
		for _, id := range y.IDs() {
			if _, ok := x.F[id]; !ok {
				return fmt.Sprintf("%s.%d: present on the second side only: %s", path, id, Show(y.F[id]))
			}
		}
	case *ListV:
		y, ok := b.(*ListV)
		if !ok {
			break
		}
		if len(x.E) != len(y.E) {
			return fmt.Sprintf("%s: %d elements vs %d", path, len(x.E), len(y.E))
		}
		for i := range x.E {
			if d := firstDiff(x.E[i], y.E[i], fmt.Sprintf("%s[%d]", path, i)); d != "" {
				return d
			}
		}
	case *MapV:
		y, ok := b.(*MapV)
		if !ok {
			break
		}
		if len(x.K) != len(y.K) {
			return fmt.Sprintf("%s: %d entries vs %d", path, len(x.K), len(y.K))
		}
		for i := range x.K {
			found := false
			for j := range y.K {
				if Equal(x.K[i], y.K[j]) {
					found = true
					if d := firstDiff(x.E[i], y.E[j], fmt.Sprintf("%s{%s}", path, Show(x.K[i]))); d != "" {
						return d
					}
				}
			}
			if !found {
				// the key itself differs: show the closest explanation
				for j := range y.K {
					if d := firstDiff(x.K[i], y.K[j], fmt.Sprintf("%s{key#%d~#%d}", path, i, j)); d != "" && len(y.K) <= 3 {
						return "no equal key on the second side; compared with one of its keys: " + d
					}
				}
				return fmt.Sprintf("%s: key %s has no equal on the second side", path, Show(x.K[i]))
			}
		}
	}
	return fmt.Sprintf("%s: %s vs %s", path, Show(a), Show(b))
}
