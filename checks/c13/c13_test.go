// C13 — field-mask filtered serialization emits exactly the selected data.
//
// One rapid case = one program + one of {default, field_mask_halfway,
// field_mask_zero_required} (generated with with_field_mask,with_reflection,
// compiled once) and many (struct, value, path set, white/black) evaluations.
// The reference semantics of a mask is in filter_test.go; the driver part that
// attaches a mask to a generated object is in driver_test.go.
package c13

import (
	"bytes"
	"encoding/hex"
	"encoding/json"
	"fmt"
	"os"
	"strings"
	"testing"

	"pgregory.net/rapid"

	"verif/internal/drv"
	"verif/internal/idl"
	"verif/internal/ref"
	"verif/internal/vt"
)

const prop = "C13"

// ids of listed findings (known/C13/findings.json) used as exclusion switches
const (
	fPreCount     = "list-set-header-precount"
	fZeroAll      = "zero-required-zeroes-every-filtered-field"
	fZeroUnion    = "zero-required-rejects-union-field"
	fBlackReqCont = "black-required-container"
	fUnion        = "union-exception-not-maskable"
	fBlackLeaf    = "black-star-above-container"
	fZeroTypedef  = "zero-required-rejects-typedef-container"
)

const baseGen = "go:with_field_mask,with_reflection"

func TestMain(m *testing.M) {
	vt.AtExit(drv.CloseAll)
	vt.Main(m)
}

// maskCase is one (program, option, struct, value, path set, list colour).
type maskCase struct {
	Main   string            `json:"main"`
	Files  map[string]string `json:"files"`
	Gen    string            `json:"gen"`
	Option string            `json:"option"` // "" | field_mask_halfway | field_mask_zero_required (part of Gen)
	Schema *ref.SchemaJ      `json:"schema"`
	Mode   string            `json:"mode"` // mask | nomask | generate | history
	Struct string            `json:"struct"`
	Value  interface{}       `json:"value"`
	Paths  []string          `json:"paths"`
	Black  bool              `json:"black"`
	// At: the mask is attached to the struct held by this field of the root
	// instead of the root (field_mask_halfway only); Paths are relative to it.
	At *int32 `json:"at,omitempty"`
	// Conflict: the path set is not conflict-free: NewFieldMask may refuse it, only oracle (1) applies.
	Conflict bool `json:"conflict,omitempty"`
	// Exact: the path set is in the unambiguous region; WantWrite / WantRead are asserted.
	Exact     bool        `json:"exact"`
	WantWrite interface{} `json:"want_write,omitempty"` // value the bytes written under the mask must decode to
	WantRead  interface{} `json:"want_read,omitempty"`  // object a reader under the mask must hold
	// Steps (mode history): successive operations on ONE object built from Value, each under its own mask.
	Steps []histStep `json:"steps,omitempty"`
}

// histStep is one operation of a history: a Write, or a Read of the complete
// encoding of the case's Value into the same object, under the given mask.
type histStep struct {
	Op     string      `json:"op"` // write | read
	Paths  []string    `json:"paths"`
	Black  bool        `json:"black"`
	NoMask bool        `json:"nomask,omitempty"` // Set_FieldMask(nil)
	Want   interface{} `json:"want"`             // write: value the bytes must decode to; read: the object afterwards
}

func (s histStep) String() string {
	if s.NoMask {
		return s.Op + " under a nil mask"
	}
	return fmt.Sprintf("%s under %s mask %q", s.Op, colour(s.Black), s.Paths)
}

type outcome struct {
	status string // judged | rejected | nocompile | unmapped | harness
	err    error
	note   string // maskerr_conflict ...
}

func harness(format string, a ...interface{}) outcome {
	return outcome{status: "harness", err: fmt.Errorf("harness: "+format, a...)}
}

func roundJSON(v interface{}) interface{} {
	b, _ := json.Marshal(v)
	var out interface{}
	json.Unmarshal(b, &out)
	return out
}

func hasBigMap(v ref.V) bool {
	switch x := v.(type) {
	case *ref.MapV:
		if len(x.K) > 1 {
			return true
		}
		for i := range x.K {
			if hasBigMap(x.K[i]) || hasBigMap(x.E[i]) {
				return true
			}
		}
	case *ref.ListV:
		for _, e := range x.E {
			if hasBigMap(e) {
				return true
			}
		}
	case *ref.StructV:
		for _, e := range x.F {
			if hasBigMap(e) {
				return true
			}
		}
	}
	return false
}

func judge(c maskCase) outcome {
	sess, err := drv.Open(c.Files, c.Main, c.Gen, extra)
	if err != nil {
		return harness("%v", err)
	}
	if c.Mode == "generate" {
		// the option must not make an otherwise accepted program unusable
		if sess.Status == "ok" {
			return outcome{status: "judged"}
		}
		base, err := drv.Open(c.Files, c.Main, baseGen, extra)
		if err != nil {
			return harness("%v", err)
		}
		if base.Status != "ok" {
			return outcome{status: base.Status}
		}
		return outcome{status: "judged", err: fmt.Errorf("the program is accepted and compiles with -g %s but with -g %s it is %s: %s", baseGen, c.Gen, sess.Status, sess.Detail)}
	}
	if sess.Status != "ok" {
		return outcome{status: sess.Status, note: sess.Detail}
	}
	sch, err := ref.Import(c.Schema)
	if err != nil {
		return harness("%v", err)
	}
	st := sch.ByName(c.Struct)
	if st == nil {
		return harness("struct %s not in schema", c.Struct)
	}
	ti, ok := sess.Type(c.Struct)
	if !ok {
		return outcome{status: "unmapped", note: fmt.Sprintf("%d Go types write %q", len(sess.ByIDL[c.Struct]), c.Struct)}
	}
	top := &ref.Type{Kind: ref.Struct, Struct: st}
	parse := func(raw interface{}) (*ref.StructV, error) {
		x, err := ref.StructFromJSON(st, roundJSON(raw))
		if err != nil {
			return nil, err
		}
		if x == nil {
			return nil, fmt.Errorf("no value")
		}
		return x.(*ref.StructV), nil
	}
	v, err := parse(c.Value)
	if err != nil {
		return harness("%v", err)
	}
	v = canon(top, v).(*ref.StructV)
	if !writable(top, v, true) {
		// a set with equal elements or a union without exactly one member: not a value the generated writer accepts
		return outcome{status: "unusable_value"}
	}
	zeroReq := c.Option == "field_mask_zero_required"

	call := func(req map[string]interface{}) (map[string]interface{}, error) {
		resp, err := sess.Proc.Call(req)
		if err != nil {
			return nil, fmt.Errorf("harness: %v", err)
		}
		if h, ok := resp["harness"]; ok {
			return nil, fmt.Errorf("harness: driver: %v", h)
		}
		return resp, nil
	}
	valJ := ref.StructToJSON(st, driverValue(top, v).(*ref.StructV))
	if c.Mode == "history" {
		return judgeHistory(c, st, ti.Key, v, valJ, call, parse)
	}
	desc := fmt.Sprintf("%s under %s mask %q", c.Struct, colour(c.Black), c.Paths)
	if c.At != nil {
		desc += fmt.Sprintf(" attached to field %d", *c.At)
	}
	if c.Mode == "nomask" {
		desc = c.Struct + " with a nil mask"
	}

	// ---- write ----
	req := map[string]interface{}{"op": "maskwrite", "type": ti.Key, "value": valJ, "paths": c.Paths, "black": c.Black}
	if c.Mode == "nomask" {
		req["nomask"] = true
	}
	if c.At != nil {
		req["at"] = int(*c.At)
	}
	resp, err := call(req)
	if err != nil {
		return outcome{"harness", err, ""}
	}
	if p, ok := resp["maskpanic"]; ok {
		return outcome{status: "judged", err: fmt.Errorf("NewFieldMask panicked on well-formed paths %q over %s: %v", c.Paths, c.Struct, p)}
	}
	if e, ok := resp["maskerr"]; ok {
		if c.Conflict {
			return outcome{status: "judged", note: "maskerr_conflict"}
		}
		return outcome{status: "judged", err: fmt.Errorf("NewFieldMask refuses the valid, conflict-free paths %q over %s: %v", c.Paths, c.Struct, e)}
	}
	if p, ok := resp["panic"]; ok {
		return outcome{status: "judged", err: fmt.Errorf("generated Write of %s panicked: %v\n  value %s", desc, p, ref.Show(v))}
	}
	if e := resp["err"]; e != nil {
		return outcome{status: "judged", err: fmt.Errorf("generated Write of %s failed on a valid value: %v\n  value %s", desc, e, ref.Show(v))}
	}
	b, _ := hex.DecodeString(resp["hex"].(string))
	dr, derr := ref.Decode(st, b, false)
	if derr != nil {
		return outcome{status: "judged", err: fmt.Errorf("bytes written by %s are not a well-formed encoding: %v\n  value %s\n  bytes %x", desc, derr, ref.Show(v), b)}
	}
	got := canon(top, dr.Value)
	if why := subValue(top, got, v, zeroReq, c.Struct); why != "" {
		return outcome{status: "judged", err: fmt.Errorf("bytes written by %s do not decode to a part of the value: %s\n  value %s\n  got   %s\n  bytes %x", desc, why, ref.Show(v), ref.Show(got), b)}
	}

	if c.Mode == "nomask" {
		// (3) a nil mask behaves like no mask at all: same bytes as the plain write op, which decode to the value
		r0, err := call(map[string]interface{}{"op": "write", "type": ti.Key, "value": valJ})
		if err != nil {
			return outcome{"harness", err, ""}
		}
		if r0["panic"] != nil || r0["err"] != nil {
			return outcome{status: "judged", err: fmt.Errorf("generated Write of %s without any mask: panic %v, err %v", c.Struct, r0["panic"], r0["err"])}
		}
		b0, _ := hex.DecodeString(r0["hex"].(string))
		d0, derr := ref.Decode(st, b0, false)
		if derr != nil {
			return outcome{status: "judged", err: fmt.Errorf("bytes written by %s without any mask are not well-formed: %v\n  bytes %x", c.Struct, derr, b0)}
		}
		if !ref.Equal(canon(top, d0.Value), v) {
			return outcome{status: "judged", err: fmt.Errorf("%s written without any mask decodes to a different value\n  want %s\n  got  %s", c.Struct, ref.Show(v), ref.Show(canon(top, d0.Value)))}
		}
		if !ref.Equal(got, v) {
			return outcome{status: "judged", err: fmt.Errorf("%s: a nil mask must select everything\n  want %s\n  got  %s", desc, ref.Show(v), ref.Show(got))}
		}
		if !hasBigMap(v) && !bytes.Equal(b, b0) {
			return outcome{status: "judged", err: fmt.Errorf("%s: bytes differ from the same value written without Set_FieldMask\n  nil mask %x\n  no mask  %x", desc, b, b0)}
		}
	}
	if c.Exact {
		want, err := parse(c.WantWrite)
		if err != nil {
			return harness("want_write: %v", err)
		}
		if !ref.Equal(want, got) {
			return outcome{status: "judged", err: fmt.Errorf("bytes written by %s decode to something else than the value restricted to the mask\n  value %s\n  want  %s\n  got   %s\n  bytes %x", desc, ref.Show(v), ref.Show(want), ref.Show(got), b)}
		}
	}
	if c.At != nil {
		return outcome{status: "judged"} // the child object does not exist before Read: nothing to attach to
	}

	// ---- read ----
	enc := ref.Encode(st, v, nil)
	req = map[string]interface{}{"op": "maskread", "type": ti.Key, "hex": hex.EncodeToString(enc), "paths": c.Paths, "black": c.Black}
	if c.Mode == "nomask" {
		req["nomask"] = true
	}
	resp, err = call(req)
	if err != nil {
		return outcome{"harness", err, ""}
	}
	if resp["maskpanic"] != nil || resp["maskerr"] != nil {
		return harness("mask construction differs between write and read: %v %v", resp["maskpanic"], resp["maskerr"])
	}
	if p, ok := resp["panic"]; ok {
		return outcome{status: "judged", err: fmt.Errorf("generated Read of %s panicked: %v\n  value %s\n  bytes %x", desc, p, ref.Show(v), enc)}
	}
	if e := resp["err"]; e != nil {
		return outcome{status: "judged", err: fmt.Errorf("generated Read of %s failed on the complete encoding of the value: %v\n  value %s\n  bytes %x", desc, e, ref.Show(v), enc)}
	}
	if left, _ := resp["left"].(float64); left != 0 {
		return outcome{status: "judged", err: fmt.Errorf("generated Read of %s left %v bytes unread\n  value %s\n  bytes %x", desc, left, ref.Show(v), enc)}
	}
	if c.Exact || c.Mode == "nomask" {
		rv, err := ref.StructFromJSON(st, resp["value"])
		if err != nil {
			return outcome{status: "judged", err: fmt.Errorf("generated Read of %s: object does not fit the schema: %v", desc, err)}
		}
		want, err := parse(c.WantRead)
		if err != nil {
			return harness("want_read: %v", err)
		}
		wn, gn := ref.Normalise(top, want), ref.Normalise(top, rv)
		if !ref.Equal(wn, gn) {
			return outcome{status: "judged", err: fmt.Errorf("generated Read of %s does not hold exactly the selected part\n  value %s\n  want  %s\n  got   %s", desc, ref.Show(v), ref.Show(wn), ref.Show(gn))}
		}
	}
	return outcome{status: "judged"}
}

// loadBaselines asks the driver for a newly constructed object of every struct-like.
func loadBaselines(sess *drv.Session, sch *ref.Schema) (baselines, error) {
	out := baselines{}
	for _, st := range sch.Structs {
		if st.Def == nil {
			continue
		}
		ti, ok := sess.Type(st.Name)
		if !ok {
			// not generated (its file is not included from main) or not seen by the registry pass (no fields)
			continue
		}
		resp, err := sess.Proc.Call(map[string]interface{}{"op": "new", "type": ti.Key})
		if err != nil {
			return nil, fmt.Errorf("harness: %v", err)
		}
		if resp["harness"] != nil || resp["panic"] != nil {
			return nil, fmt.Errorf("harness: new %s: %v %v", st.Name, resp["harness"], resp["panic"])
		}
		v, err := ref.StructFromJSON(st, resp["value"])
		if err != nil || v == nil {
			return nil, fmt.Errorf("harness: new %s: %v", st.Name, err)
		}
		out[st.Name] = v.(*ref.StructV)
	}
	return out, nil
}

// judgeHistory: every step on the one object must behave like the same step on
// a fresh object holding the object's current value: a Write emits exactly the
// data selected by the mask in force (a nil mask: everything), whatever masks
// earlier steps left on the object or on its children.
func judgeHistory(c maskCase, st *ref.StructT, key string, v *ref.StructV, valJ interface{},
	call func(map[string]interface{}) (map[string]interface{}, error), parse func(interface{}) (*ref.StructV, error)) outcome {
	top := &ref.Type{Kind: ref.Struct, Struct: st}
	enc := hex.EncodeToString(ref.Encode(st, v, nil))
	var steps []interface{}
	for _, s := range c.Steps {
		m := map[string]interface{}{"op": s.Op, "paths": s.Paths, "black": s.Black}
		if s.NoMask {
			m["nomask"] = true
		}
		if s.Op == "read" {
			m["hex"] = enc
		}
		steps = append(steps, m)
	}
	resp, err := call(map[string]interface{}{"op": "maskhistory", "type": key, "value": valJ, "steps": steps})
	if err != nil {
		return outcome{"harness", err, ""}
	}
	rs, _ := resp["steps"].([]interface{})
	var told []string
	for i, s := range c.Steps {
		told = append(told, s.String())
		where := fmt.Sprintf("step %d of the history [%s] on one %s object", i+1, strings.Join(told, "; "), c.Struct)
		if i >= len(rs) {
			return harness("driver performed %d of %d steps", len(rs), len(c.Steps))
		}
		r, _ := rs[i].(map[string]interface{})
		if r["maskpanic"] != nil || r["maskerr"] != nil {
			return outcome{status: "judged", err: fmt.Errorf("%s: NewFieldMask fails on valid, conflict-free paths: %v %v", where, r["maskpanic"], r["maskerr"])}
		}
		if r["panic"] != nil {
			return outcome{status: "judged", err: fmt.Errorf("%s: generated code panicked: %v\n  value %s", where, r["panic"], ref.Show(v))}
		}
		if r["err"] != nil {
			return outcome{status: "judged", err: fmt.Errorf("%s: generated code failed: %v\n  value %s", where, r["err"], ref.Show(v))}
		}
		want, err := parse(s.Want)
		if err != nil {
			return harness("step %d want: %v", i+1, err)
		}
		if s.Op == "read" {
			if left, _ := r["left"].(float64); left != 0 {
				return outcome{status: "judged", err: fmt.Errorf("%s: Read left %v bytes unread", where, left)}
			}
			rv, err := ref.StructFromJSON(st, r["value"])
			if err != nil {
				return outcome{status: "judged", err: fmt.Errorf("%s: object does not fit the schema: %v", where, err)}
			}
			wn, gn := ref.Normalise(top, want), ref.Normalise(top, rv)
			if !ref.Equal(wn, gn) {
				return outcome{status: "judged", err: fmt.Errorf("%s: the object does not hold the old content plus exactly the selected part\n  value %s\n  want  %s\n  got   %s", where, ref.Show(v), ref.Show(wn), ref.Show(gn))}
			}
			continue
		}
		b, _ := hex.DecodeString(r["hex"].(string))
		dr, derr := ref.Decode(st, b, false)
		if derr != nil {
			return outcome{status: "judged", err: fmt.Errorf("%s: the bytes are not a well-formed encoding: %v\n  value %s\n  bytes %x", where, derr, ref.Show(v), b)}
		}
		if got := canon(top, dr.Value); !ref.Equal(want, got) {
			return outcome{status: "judged", err: fmt.Errorf("%s: the bytes do not decode to the object's content restricted to the mask in force (a fresh object written under this mask gives `want`)\n  value %s\n  want  %s\n  got   %s\n  bytes %x", where, ref.Show(v), ref.Show(want), ref.Show(got), b)}
		}
	}
	return outcome{status: "judged"}
}

// driverValue is the value as the driver must be told it: the driver marks an
// absent field as unset by storing nil into pointer / slice / map fields, but
// an optional binary field with a declared default is unset iff it holds the
// default (IsSet compares with it), so that default is spelled out.
func driverValue(t *ref.Type, v ref.V) ref.V {
	if v == nil {
		return nil
	}
	switch t.Kind {
	case ref.List, ref.Set:
		o := &ref.ListV{E: []ref.V{}}
		for _, e := range v.(*ref.ListV).E {
			o.E = append(o.E, driverValue(t.Elem, e))
		}
		return o
	case ref.Map:
		x := v.(*ref.MapV)
		o := &ref.MapV{K: []ref.V{}, E: []ref.V{}}
		for i := range x.K {
			o.K = append(o.K, driverValue(t.Key, x.K[i]))
			o.E = append(o.E, driverValue(t.Elem, x.E[i]))
		}
		return o
	case ref.Struct:
		x := v.(*ref.StructV)
		o := ref.NewStruct()
		for _, f := range t.Struct.Fields {
			fv, ok := x.F[f.ID]
			switch {
			case ok && fv != nil:
				o.F[f.ID] = driverValue(f.Type, fv)
			case f.Req == idl.ReqOptional && f.HasDef && f.Type.Kind == ref.Binary && f.Default != nil:
				o.F[f.ID] = f.Default
			}
		}
		return o
	}
	return v
}

func colour(black bool) string {
	if black {
		return "black-list"
	}
	return "white-list"
}

// ---------- generation ----------

func modelCfg() idl.Cfg {
	c := idl.GoSafe()
	c.MaxFiles = 2
	c.MaxDefs = 3
	c.Annotations = false
	c.NastyLits = false
	c.Comments = false
	c.NegIDs = false // a mask cannot address a negative field id (C14 finding negative-field-id)
	c.Services = false
	c.DistinctThrows = true
	c.NoZeroThrowsID = true
	return c
}

// rapid draws small integers more often than large ones; weighted choices are spelled as tables
var (
	weights3of4 = []bool{true, true, true, false}
	oneInFive   = []bool{false, false, true, false, false}
	oneInThree  = []bool{false, true, false}
	shapes      = []string{"paths", "paths", "paths", "paths", "paths", "paths", "paths", "paths", "paths", "paths", "paths", "paths", "nomask", "paths", "paths", "paths", "paths", "paths", "paths", "paths", "paths", "paths", "paths", "nopaths"}
)

var options = []string{"", "field_mask_halfway", "field_mask_zero_required", "field_mask_zero_required"}

func genOf(option string) string {
	if option == "" {
		return baseGen
	}
	return baseGen + "," + option
}

// zeroBlockers reports the field shapes field_mask_zero_required cannot be
// generated for: a field whose own (final) type is a union or an exception, and
// a field whose written type is a typedef of a list / set / map.
func zeroBlockers(p *idl.Program) (union, typedefContainer bool) {
	for _, f := range p.Files {
		for _, d := range f.Defs {
			if !d.Kind.IsStructLike() {
				continue
			}
			for _, fl := range d.Fields {
				switch fl.Type.FinalCat() {
				case "union", "exception":
					union = true
				case "list", "set", "map":
					if fl.Type.ChainLen() > 0 {
						typedefContainer = true
					}
				}
			}
		}
	}
	return
}

// pathGen draws paths over a type, guided by a value of it.
type pathGen struct {
	rt        *rapid.T
	black     bool
	safeIdx   bool // listed finding list-set-header-precount: only index sets the pre-count loop gets right
	reqEnd    bool // listed finding zero-required-...: a black path ends only at a required field or at an index / key
	noReqCont bool // listed finding black-required-container: no black path ends at a required container / struct field
	noUnion   bool // listed finding union-exception-not-maskable: no path reaches a union or an exception
	forceLen  int  // > 0: every path has this many steps (when the type allows)
	structy   bool // prefer fields that are, or hold, structs (history mode: sub-masks land on child objects)
}

// unmaskable: a union or an exception (the mask library knows structs only).
func unmaskable(t *ref.Type) bool { return t.Kind == ref.Struct && t.Struct.Kind != "struct" }

var absentStr = []string{"", "zz", "a b", `q"t`, "é", "k\\1", "0"}

func isScalarT(t *ref.Type) bool { return t.Kind < ref.List }

func (g *pathGen) mayEnd(steps []pstep) bool {
	if len(steps) == 0 {
		return true
	}
	last := steps[len(steps)-1]
	if last.kind != 'f' || last.star {
		return true
	}
	req := last.fld.Req == idl.ReqRequired
	if g.black && g.reqEnd && !req {
		return false
	}
	if g.black && g.noReqCont && req && last.fld.Type.Kind >= ref.List {
		return false
	}
	return true
}

// path draws one path of at most maxLen steps; nil = none could be drawn.
func (g *pathGen) path(st *ref.StructT, v *ref.StructV, maxLen int) []pstep {
	want := rapid.SampledFrom([]int{2, 3, 1, 4, 3, 2}).Draw(g.rt, "pathlen")
	if g.forceLen > 0 {
		want = g.forceLen
	}
	if want > maxLen {
		want = maxLen
	}
	var steps []pstep
	t := &ref.Type{Kind: ref.Struct, Struct: st}
	var sample ref.V = v
	for len(steps) < want && !isScalarT(t) {
		last := len(steps) == want-1
		s, ns, ok := g.step(t, sample, last)
		if !ok {
			break
		}
		steps = append(steps, s)
		if s.kind == 'f' && s.star {
			break
		}
		t, sample = s.elemT, ns
	}
	// extend while the path may not end here
	for !g.mayEnd(steps) && !isScalarT(t) && len(steps) < maxLen+2 {
		s, ns, ok := g.step(t, sample, true)
		if !ok || (s.kind == 'f' && s.star) {
			return nil
		}
		steps = append(steps, s)
		t, sample = s.elemT, ns
	}
	if len(steps) == 0 || !g.mayEnd(steps) {
		return nil
	}
	return steps
}

func (g *pathGen) step(t *ref.Type, sample ref.V, last bool) (pstep, ref.V, bool) {
	rt := g.rt
	switch t.Kind {
	case ref.Struct:
		fs := t.Struct.Fields
		if g.noUnion {
			fs = nil
			for _, f := range t.Struct.Fields {
				if !unmaskable(f.Type) {
					fs = append(fs, f)
				}
			}
		}
		if len(fs) == 0 {
			return pstep{}, nil, false
		}
		if last && rapid.IntRange(0, 11).Draw(rt, "fieldstar") == 0 {
			return pstep{kind: 'f', star: true}, nil, true
		}
		sv, _ := sample.(*ref.StructV)
		var present []*ref.FieldT
		for _, f := range fs {
			if sv != nil && sv.F[f.ID] != nil {
				present = append(present, f)
			}
		}
		var deep []*ref.FieldT // present fields below which a path can go on
		for _, f := range present {
			if !isScalarT(f.Type) && !(g.noUnion && unmaskable(f.Type)) {
				deep = append(deep, f)
			}
		}
		var maps []*ref.FieldT // maps are rare in the models: give them their own share
		for _, f := range deep {
			if f.Type.Kind == ref.Map {
				maps = append(maps, f)
			}
		}
		var structy []*ref.FieldT
		if g.structy {
			for _, f := range deep {
				if containsStruct(f.Type) {
					structy = append(structy, f)
				}
			}
		}
		var f *ref.FieldT
		switch {
		case len(structy) > 0 && rapid.SampledFrom(weights3of4).Draw(rt, "structyfield"):
			f = rapid.SampledFrom(structy).Draw(rt, "field")
		case len(maps) > 0 && !rapid.SampledFrom(weights3of4).Draw(rt, "notmapfield"):
			f = rapid.SampledFrom(maps).Draw(rt, "field")
		case !last && len(deep) > 0 && rapid.SampledFrom(weights3of4).Draw(rt, "deepfield"):
			f = rapid.SampledFrom(deep).Draw(rt, "field")
		case len(present) > 0 && rapid.SampledFrom(weights3of4).Draw(rt, "presentfield"):
			f = rapid.SampledFrom(present).Draw(rt, "field")
		default:
			f = rapid.SampledFrom(fs).Draw(rt, "field")
		}
		var ns ref.V
		if sv != nil {
			ns = sv.F[f.ID]
		}
		return pstep{kind: 'f', fld: f, byID: rapid.IntRange(0, 2).Draw(rt, "byid") == 0, elemT: f.Type}, ns, true
	case ref.List, ref.Set:
		if g.noUnion && unmaskable(t.Elem) {
			return pstep{}, nil, false
		}
		lv, _ := sample.(*ref.ListV)
		n := 0
		if lv != nil {
			n = len(lv.E)
		}
		if rapid.IntRange(0, 4).Draw(rt, "indexstar") == 0 {
			var ns ref.V
			if n > 0 {
				ns = lv.E[rapid.IntRange(0, n-1).Draw(rt, "sampleelem")]
			}
			return pstep{kind: 'i', star: true, elemT: t.Elem}, ns, true
		}
		ends := last || isScalarT(t.Elem)
		cnt := rapid.IntRange(1, 3).Draw(rt, "nidx")
		seen := map[int64]bool{}
		var idx []int64
		for i := 0; i < cnt; i++ {
			x := int64(rapid.IntRange(0, n+1).Draw(rt, "idx"))
			if rapid.IntRange(0, 5).Draw(rt, "lastidx") == 0 && n > 0 {
				x = int64(n - 1)
			}
			if !seen[x] {
				seen[x] = true
				idx = append(idx, x)
			}
		}
		if g.safeIdx && n > 0 {
			// selected positions this path alone produces on the sample list
			sel := make([]bool, n)
			for i := range sel {
				sel[i] = seen[int64(i)]
				if g.black {
					sel[i] = !(seen[int64(i)] && ends)
				}
			}
			if preCountBug(sel) {
				// fall back to a shape the loop counts right: unselected positions form a prefix of at most half the list
				k := rapid.IntRange(0, (n+1)/2).Draw(rt, "safeprefix")
				var out []int64
				if g.black {
					for i := 0; i < k; i++ {
						out = append(out, int64(i))
					}
					if k == 0 {
						out = []int64{int64(n)}
					}
				} else {
					for i := k; i < n; i++ {
						out = append(out, int64(i))
					}
				}
				if len(out) > 0 {
					idx = out
				}
			}
		}
		var ns ref.V
		for _, x := range idx {
			if int(x) < n {
				ns = lv.E[x]
				break
			}
		}
		return pstep{kind: 'i', ints: idx, elemT: t.Elem}, ns, true
	case ref.Map:
		if g.noUnion && unmaskable(t.Elem) {
			return pstep{}, nil, false
		}
		mv, _ := sample.(*ref.MapV)
		kind := byte('x')
		switch t.Key.Kind {
		case ref.Byte, ref.I16, ref.I32, ref.I64, ref.Enum:
			kind = 'k'
		case ref.String, ref.Binary:
			kind = 's'
		}
		var ns ref.V
		if kind == 'x' || rapid.IntRange(0, 4).Draw(rt, "keystar") == 0 {
			if mv != nil && len(mv.K) > 0 {
				ns = mv.E[rapid.IntRange(0, len(mv.K)-1).Draw(rt, "sampleentry")]
			}
			return pstep{kind: kind, star: true, elemT: t.Elem}, ns, true
		}
		// keys a path can spell: non-negative integers, any string
		var present []int
		if mv != nil {
			for i, k := range mv.K {
				if kind == 's' || k.(int64) >= 0 {
					present = append(present, i)
				}
			}
		}
		cnt := rapid.IntRange(1, 3).Draw(rt, "nkeys")
		s := pstep{kind: kind, elemT: t.Elem}
		seenI, seenS := map[int64]bool{}, map[string]bool{}
		for i := 0; i < cnt; i++ {
			if len(present) > 0 && rapid.IntRange(0, 3).Draw(rt, "presentkey") > 0 {
				j := rapid.SampledFrom(present).Draw(rt, "key")
				if ns == nil {
					ns = mv.E[j]
				}
				if kind == 'k' {
					if x := mv.K[j].(int64); !seenI[x] {
						seenI[x] = true
						s.ints = append(s.ints, x)
					}
				} else if x := string(mv.K[j].([]byte)); !seenS[x] {
					seenS[x] = true
					s.strs = append(s.strs, x)
				}
				continue
			}
			if kind == 'k' {
				x := int64(rapid.IntRange(0, 9).Draw(rt, "absentkey"))
				if rapid.IntRange(0, 7).Draw(rt, "bigkey") == 0 {
					x = rapid.Int64Range(10, 1<<62).Draw(rt, "bigkeyval")
				}
				if !seenI[x] {
					seenI[x] = true
					s.ints = append(s.ints, x)
				}
			} else if x := rapid.SampledFrom(absentStr).Draw(rt, "absentkey"); !seenS[x] {
				seenS[x] = true
				s.strs = append(s.strs, x)
			}
		}
		return s, ns, true
	}
	return pstep{}, nil, false
}

// pathSet draws 1..4 paths; conflicting ones are dropped unless keepConflicts.
func (g *pathGen) pathSet(st *ref.StructT, v *ref.StructV, keepConflicts bool) (paths [][]pstep, conflict bool) {
	if rapid.IntRange(0, 29).Draw(g.rt, "rootonly") == 0 && !(g.black && (g.reqEnd || g.noReqCont)) {
		return [][]pstep{{}}, false
	}
	root := newNode()
	n := rapid.SampledFrom([]int{2, 1, 3, 4, 2, 1}).Draw(g.rt, "npaths")
	for i := 0; i < n; i++ {
		p := g.path(st, v, 4)
		if p == nil {
			continue
		}
		if root.conflicts(p) {
			if !keepConflicts {
				continue
			}
			conflict = true
		}
		root.insert(p)
		paths = append(paths, p)
	}
	return paths, conflict
}

func render(paths [][]pstep) []string {
	out := []string{}
	for _, p := range paths {
		out = append(out, renderPath(p))
	}
	return out
}

// knownShape names the listed (still known) finding whose shape the mask shows on the value, "" if none.
func knownShape(w *walker, black, zeroReq, conflict bool, paths [][]pstep) string {
	switch {
	case w.preCount && vt.Known(prop, fPreCount):
		return fPreCount
	case zeroReq && len(w.offenders) > 0 && vt.Known(prop, fZeroAll):
		return fZeroAll
	case !zeroReq && w.reqTerminal && vt.Known(prop, fBlackReqCont):
		return fBlackReqCont
	case w.blackLeaf && vt.Known(prop, fBlackLeaf):
		return fBlackLeaf
	}
	if conflict {
		// On a conflicting set the mask the library builds depends on the order of the paths, so the
		// walker (which follows the reference trie) cannot tell whether the shape of a listed finding
		// is present: such sets are only used where no listed finding can apply.
		switch {
		case black && vt.Known(prop, fBlackLeaf):
			return fBlackLeaf
		case black && !zeroReq && vt.Known(prop, fBlackReqCont):
			return fBlackReqCont
		case zeroReq && vt.Known(prop, fZeroAll):
			return fZeroAll
		case hasIndexStep(paths) && vt.Known(prop, fPreCount):
			return fPreCount
		}
	}
	return ""
}

// newPathGen sets the exclusion switches of the listed findings.
func newPathGen(rt *rapid.T, black, zeroReq bool) *pathGen {
	g := &pathGen{rt: rt, black: black}
	g.safeIdx = vt.Known(prop, fPreCount)
	g.reqEnd = zeroReq && vt.Known(prop, fZeroAll)
	g.noReqCont = !zeroReq && vt.Known(prop, fBlackReqCont)
	g.noUnion = vt.Known(prop, fUnion)
	return g
}

// history mode ---------------------------------------------------------------

var histFirst = []string{"narrow", "white", "narrow", "black", "narrow", "parent", "nil"}
var histKinds = []string{"narrow", "nil", "parent", "white", "black", "narrow", "empty", "nil", "parent", "black"}

// histMask draws the mask of one history step over the object's current value:
// a conflict-free set in the exact region (no black path ending in `*`).
// nil: Set_FieldMask(nil); empty: a mask without paths; narrow: 1-2 white paths
// of 2-4 steps through struct-holding fields; parent: one white path that ends
// at a struct-holding field; white / black: an ordinary set.
func histMask(rt *rapid.T, kind string, st *ref.StructT, cur *ref.StructV, zeroReq bool) (step histStep, root *node, w *walker, skip string) {
	step = histStep{Op: "write", Paths: []string{}}
	var paths [][]pstep
	switch kind {
	case "nil":
		step.NoMask = true
	case "empty":
	default:
		step.Black = kind == "black"
		g := newPathGen(rt, step.Black, zeroReq)
		if g.noUnion && st.Kind != "struct" {
			return step, nil, &walker{}, fUnion
		}
		g.structy = true
		n := rapid.SampledFrom([]int{2, 1, 3}).Draw(rt, "npaths")
		switch kind {
		case "narrow":
			g.forceLen = rapid.SampledFrom([]int{2, 3, 3, 4}).Draw(rt, "narrowlen")
			n = rapid.SampledFrom([]int{1, 2}).Draw(rt, "npaths")
		case "parent":
			g.forceLen, n = 1, 1
		}
		tr := newNode()
		for i := 0; i < n; i++ {
			p := g.path(st, cur, 4)
			if p == nil || tr.conflicts(p) || (step.Black && len(p) > 0 && p[len(p)-1].star) {
				continue
			}
			tr.insert(p)
			paths = append(paths, p)
		}
		step.Paths = render(paths)
	}
	if len(paths) > 0 {
		root, _ = trieOf(paths)
	}
	w = &walker{m: fmode{black: step.Black, zeroReq: zeroReq}}
	w.walk(&ref.Type{Kind: ref.Struct, Struct: st}, cur, root, nil, 0)
	return step, root, w, knownShape(w, step.Black, zeroReq, false, paths)
}

// genHistory draws 2-3 successive operations on one object holding v.  narrowWider reports a step
// that puts a sub-mask on a child struct followed by a Write that selects structs below the root
// without any sub-mask.
func genHistory(rt *rapid.T, st *ref.StructT, v *ref.StructV, zeroReq bool, fresh baselines) (steps []histStep, kinds []string, narrowWider bool, skip string) {
	top := &ref.Type{Kind: ref.Struct, Struct: st}
	cur := v
	n := rapid.SampledFrom([]int{2, 3, 3, 2}).Draw(rt, "nsteps")
	narrowSeen := false
	for k := 0; k < n; k++ {
		kinds0 := histKinds
		if k == 0 {
			kinds0 = histFirst // start narrow more often: later steps then have something to clear
		}
		kind := rapid.SampledFrom(kinds0).Draw(rt, "stepkind")
		step, root, w, sk := histMask(rt, kind, st, cur, zeroReq)
		if sk != "" {
			return nil, nil, false, sk
		}
		m := fmode{black: step.Black, zeroReq: zeroReq}
		// (objects that hold a union anywhere are not re-read: how a union member read into a used
		// object merges with the member it already holds is not something the reference models)
		if k < n-1 && !reachesUnion(top, map[*ref.StructT]bool{}) && rapid.SampledFrom([]bool{false, false, false, false, true}).Draw(rt, "readstep") {
			// read the complete encoding of v into the same object; later writes see the merged content
			nv, ok := complete(top, mergeRead(top, cur, v, root, m, fresh), 16)
			if ok && writable(top, canon(top, nv), true) {
				step.Op = "read"
				step.Want = ref.StructToJSON(st, nv.(*ref.StructV))
				cur = canon(top, nv).(*ref.StructV)
				steps, kinds = append(steps, step), append(kinds, "read_"+kind)
				if w.maxSel.structBelow {
					narrowSeen = true
				}
				continue
			}
		}
		step.Want = ref.StructToJSON(st, canon(top, filterWrite(top, cur, root, m)).(*ref.StructV))
		steps, kinds = append(steps, step), append(kinds, kind)
		if narrowSeen && !w.maxSel.structBelow {
			narrowWider = true
		}
		if w.maxSel.structBelow {
			narrowSeen = true
		}
	}
	return steps, kinds, narrowWider, ""
}

// hasIndexStep: some path names specific list / set indices.
func hasIndexStep(paths [][]pstep) bool {
	for _, p := range paths {
		for _, s := range p {
			if s.kind == 'i' && !s.star {
				return true
			}
		}
	}
	return false
}

func pathClasses(paths [][]pstep) (kinds map[string]bool, depth int) {
	kinds = map[string]bool{}
	for _, p := range paths {
		if len(p) > depth {
			depth = len(p)
		}
		if len(p) == 0 {
			kinds["root"] = true
		}
		for _, s := range p {
			switch {
			case s.star:
				kinds["star"] = true
			case s.kind == 'f' && s.byID:
				kinds["field_id"] = true
			case s.kind == 'f':
				kinds["field_name"] = true
			case s.kind == 'i':
				kinds["index"] = true
			case s.kind == 'k':
				kinds["int_key"] = true
			case s.kind == 's':
				kinds["str_key"] = true
			}
		}
	}
	return
}

func maxContainer(v ref.V) int {
	m := 0
	up := func(n int) {
		if n > m {
			m = n
		}
	}
	switch x := v.(type) {
	case *ref.ListV:
		up(len(x.E))
		for _, e := range x.E {
			up(maxContainer(e))
		}
	case *ref.MapV:
		up(len(x.K))
		for _, e := range x.E {
			up(maxContainer(e))
		}
	case *ref.StructV:
		for _, e := range x.F {
			up(maxContainer(e))
		}
	}
	return m
}

func sizeClass(n int) string {
	switch {
	case n == 0:
		return "0"
	case n <= 2:
		return "1-2"
	case n <= 4:
		return "3-4"
	}
	return "5+"
}

func TestMask(t *testing.T) {
	rapid.Check(t, func(rt *rapid.T) {
		p := idl.Gen(rt, modelCfg())
		sch := ref.Build(p)
		// roots: struct-likes with at least one field (the shared registry pass does not see a field-less struct
		// once it carries the _fieldmask member, and there is nothing to select in it anyway)
		var roots, rich []*ref.StructT
		for _, st := range sch.Structs {
			if st.Def == nil || len(st.Fields) == 0 {
				continue
			}
			roots = append(roots, st)
			if st.Kind == "struct" {
				for _, f := range st.Fields {
					if !isScalarT(f.Type) && !unmaskable(f.Type) {
						rich = append(rich, st)
						break
					}
				}
			}
		}
		if len(roots) == 0 {
			rt.Skip("no struct-like with fields in the program")
		}
		option := rapid.SampledFrom(options).Draw(rt, "option")
		base := maskCase{Main: p.Files[0].Path, Files: p.Texts(nil), Schema: sch.Export()}
		if option == "field_mask_zero_required" {
			un, td := zeroBlockers(p)
			switch {
			case un && vt.Known(prop, fZeroUnion):
				vt.Excluded(fZeroUnion)
				option = rapid.SampledFrom(options[:2]).Draw(rt, "option2")
			case td && vt.Known(prop, fZeroTypedef):
				vt.Excluded(fZeroTypedef)
				option = rapid.SampledFrom(options[:2]).Draw(rt, "option2")
			case un || td:
				c := base
				c.Option, c.Gen, c.Mode = option, genOf(option), "generate"
				vt.Eval()
				vt.Class("mode:generate")
				if o := judge(c); o.err != nil {
					if strings.HasPrefix(o.err.Error(), "harness:") {
						rt.Fatalf("%v", o.err)
					}
					vt.Fail(rt, prop, "mask", c, "%v", o.err)
				}
			}
		}
		base.Option, base.Gen = option, genOf(option)
		zeroReq := option == "field_mask_zero_required"
		vt.Class("option:" + optName(option))
		sess, err := drv.Open(base.Files, base.Main, base.Gen, extra)
		if err != nil {
			rt.Fatalf("harness: %v", err)
		}
		if sess.Status != "ok" {
			vt.Class("session:" + sess.Status)
			if os.Getenv("VERIF_C13_DEBUG") != "" {
				fmt.Fprintf(os.Stderr, "DEBUG session %s under %s: %s\n", sess.Status, base.Gen, sess.Detail)
			}
			vt.Sample(map[string]interface{}{"program": p.Describe(), "gen": base.Gen, "status": sess.Status, "detail": sess.Detail})
			return
		}
		fresh, err := loadBaselines(sess, sch)
		if err != nil {
			rt.Fatalf("%v", err)
		}
		usable := func(in []*ref.StructT) (out []*ref.StructT) {
			for _, st := range in {
				if fresh[st.Name] != nil {
					out = append(out, st)
				}
			}
			return
		}
		if roots, rich = usable(roots), usable(rich); len(roots) == 0 {
			vt.Class("no_generated_root")
			return
		}
		var nested []*ref.StructT // roots holding structs: a sub-mask lands on a child object
		for _, st := range rich {
			for _, f := range st.Fields {
				if containsStruct(f.Type) {
					nested = append(nested, st)
					break
				}
			}
		}

		npairs := rapid.IntRange(40, 100).Draw(rt, "npairs")
		for i := 0; i < npairs; i++ {
			st := rapid.SampledFrom(roots).Draw(rt, "struct")
			if len(rich) > 0 && rapid.SampledFrom(weights3of4).Draw(rt, "richroot") {
				st = rapid.SampledFrom(rich).Draw(rt, "struct")
			}
			c := base
			c.Struct = st.Name
			c.Mode = "mask"
			top := &ref.Type{Kind: ref.Struct, Struct: st}
			v0 := ref.GenStruct(rt, st, ref.GenOpts{MaxLen: 5})
			if v0 == nil {
				vt.Class("value_not_constructible")
				continue
			}
			v1, ok := complete(top, v0, 16)
			if !ok {
				vt.Class("value_with_nil_struct")
				continue
			}
			v := dedupSets(top, canon(top, v1)).(*ref.StructV)
			c.Value = ref.StructToJSON(st, v)
			histShare := oneInFive
			if len(nested) > 0 {
				histShare = oneInThree
			}
			if option != "field_mask_halfway" && rapid.SampledFrom(histShare).Draw(rt, "history") {
				// several operations on ONE object (not under field_mask_halfway, where a child keeps the first mask by design)
				hst, hv := st, v
				if len(nested) > 0 && rapid.IntRange(0, 7).Draw(rt, "nestedroot") > 0 {
					hst = rapid.SampledFrom(nested).Draw(rt, "struct")
					hv0 := ref.GenStruct(rt, hst, ref.GenOpts{MaxLen: 4, AllFields: true})
					if hv0 == nil {
						vt.Class("value_not_constructible")
						continue
					}
					hv1, ok := complete(&ref.Type{Kind: ref.Struct, Struct: hst}, hv0, 16)
					if !ok {
						vt.Class("value_with_nil_struct")
						continue
					}
					hv = dedupSets(&ref.Type{Kind: ref.Struct, Struct: hst}, canon(&ref.Type{Kind: ref.Struct, Struct: hst}, hv1)).(*ref.StructV)
				}
				steps, kinds, narrowWider, skip := genHistory(rt, hst, hv, zeroReq, fresh)
				if skip != "" {
					vt.Excluded(skip)
					continue
				}
				c.Mode, c.Struct, c.Steps, c.Paths = "history", hst.Name, steps, []string{}
				c.Value = ref.StructToJSON(hst, hv)
				vt.Eval()
				o := judge(c)
				vt.Class("status:" + o.status)
				if o.status != "judged" && o.err == nil {
					continue
				}
				vt.Class("mode:history")
				vt.Class(fmt.Sprintf("history_steps:%d", len(steps)))
				for _, k := range kinds {
					vt.Class("history_step:" + k)
				}
				vt.ClassIf(narrowWider, "history:narrow_then_wider")
				if narrowWider {
					vt.Nontrivial(base.Files[base.Main] + c.Gen + c.Struct + fmt.Sprint(c.Value) + fmt.Sprint(c.Steps))
				}
				vt.Sample(map[string]interface{}{"gen": c.Gen, "struct": c.Struct, "history": fmt.Sprint(steps), "value": ref.Show(hv)})
				if o.err != nil {
					if strings.HasPrefix(o.err.Error(), "harness:") {
						rt.Fatalf("%v", o.err)
					}
					vt.Fail(rt, prop, "mask", c, "%v", o.err)
				}
				continue
			}
			c.Black = rapid.Bool().Draw(rt, "black")
			m := fmode{black: c.Black, zeroReq: zeroReq}

			// where the mask is attached and over which type the paths run
			mst, mv := st, v
			if option == "field_mask_halfway" && rapid.IntRange(0, 4).Draw(rt, "atchild") == 0 {
				var cands []*ref.FieldT
				for _, f := range st.Fields {
					if f.Type.Kind == ref.Struct && v.F[f.ID] != nil {
						cands = append(cands, f)
					}
				}
				if len(cands) > 0 {
					f := rapid.SampledFrom(cands).Draw(rt, "atfield")
					id := f.ID
					c.At = &id
					mst, mv = f.Type.Struct, v.F[f.ID].(*ref.StructV)
				}
			}
			mtop := &ref.Type{Kind: ref.Struct, Struct: mst}

			var paths [][]pstep
			switch rapid.SampledFrom(shapes).Draw(rt, "shape") {
			case "nomask":
				c.Mode = "nomask"
				c.At = nil
				mst, mv, mtop = st, v, top
			case "nopaths":
				// a mask without any path: "A empty mask means PASS ALL"
			default:
				g := newPathGen(rt, c.Black, zeroReq)
				if g.noUnion && mst.Kind != "struct" {
					// a mask cannot be built over a union / exception: only the empty path set
					vt.Excluded(fUnion)
					break
				}
				paths, c.Conflict = g.pathSet(mst, mv, rapid.IntRange(0, 7).Draw(rt, "keepconflicts") == 0)
			}
			c.Paths = render(paths)
			root, _ := trieOf(paths)
			if len(paths) == 0 {
				root = nil // no path: everything is selected
			}

			// shapes of listed findings
			w := &walker{m: m}
			w.walk(mtop, mv, root, nil, 0)
			if zeroReq && len(w.offenders) > 0 && vt.Known(prop, fZeroAll) && !c.Black && !c.Conflict {
				// white list: also select every set non-required field the mask would filter (they come out as zero)
				for round := 0; round < 4 && len(w.offenders) > 0; round++ {
					for _, o := range w.offenders {
						if !root.conflicts(o) {
							root.insert(o)
							paths = append(paths, o)
						}
					}
					w = &walker{m: m}
					w.walk(mtop, mv, root, nil, 0)
				}
				c.Paths = render(paths)
				_, c.Conflict = trieOf(paths)
			}
			skip := knownShape(w, c.Black, zeroReq, c.Conflict, paths)
			if skip != "" {
				vt.Excluded(skip)
				continue
			}

			c.Exact = c.Mode == "mask" && !c.Conflict && !(c.Black && blackStarEnd(paths))
			if c.Mode == "nomask" {
				c.WantRead = ref.StructToJSON(st, filterRead(top, v, nil, m, fresh).(*ref.StructV))
			}
			if c.Exact {
				if c.At == nil {
					c.WantWrite = ref.StructToJSON(st, canon(top, filterWrite(top, v, root, m)).(*ref.StructV))
					c.WantRead = ref.StructToJSON(st, filterRead(top, v, root, m, fresh).(*ref.StructV))
				} else {
					ww := ref.NewStruct()
					for id, fv := range v.F {
						ww.F[id] = fv
					}
					ww.F[*c.At] = filterWrite(mtop, mv, root, m)
					c.WantWrite = ref.StructToJSON(st, canon(top, ww).(*ref.StructV))
				}
			}

			vt.Eval()
			o := judge(c)
			vt.Class("status:" + o.status)
			if o.status != "judged" && o.err == nil {
				if o.status == "rejected" || o.status == "nocompile" {
					vt.Sample(map[string]interface{}{"program": p.Describe(), "gen": c.Gen, "status": o.status, "detail": o.note})
					return
				}
				vt.Sample(map[string]interface{}{"program": p.Describe(), "struct": c.Struct, "status": o.status, "detail": o.note})
				continue
			}
			vt.Class("mode:" + c.Mode)
			vt.Class("kind:" + st.Kind)
			vt.Class("list:" + colour(c.Black))
			vt.ClassIf(c.At != nil, "attached_to_child")
			vt.ClassIf(c.Exact, "oracle:exact")
			vt.ClassIf(!c.Exact && c.Mode == "mask", "oracle:wellformed_only")
			vt.ClassIf(c.Conflict, "conflicting_paths")
			vt.ClassIf(o.note != "", o.note)
			kinds, depth := pathClasses(paths)
			for k := range kinds {
				vt.Class("path:" + k)
			}
			vt.Class(fmt.Sprintf("path_depth:%d", depth))
			vt.Class(fmt.Sprintf("npaths:%d", len(paths)))
			vt.Class("max_container:" + sizeClass(maxContainer(mv)))
			vt.Class(fmt.Sprintf("mask_depth_reached:%d", w.maxSel.depth))
			vt.ClassIf(w.maxSel.strictLast, "strict_subset_with_last_element")
			if c.Mode == "mask" && (w.maxSel.strictLast || w.maxSel.depth >= 3) {
				vt.Nontrivial(base.Files[base.Main] + c.Gen + c.Struct + fmt.Sprint(c.Value) + fmt.Sprint(c.Paths, c.Black, c.At != nil))
			}
			vt.Sample(map[string]interface{}{"gen": c.Gen, "struct": c.Struct, "paths": c.Paths, "black": c.Black, "value": ref.Show(v)})
			if o.err != nil {
				if strings.HasPrefix(o.err.Error(), "harness:") {
					rt.Fatalf("%v", o.err)
				}
				vt.Fail(rt, prop, "mask", c, "%v", o.err)
			}
		}
	})
}

func optName(o string) string {
	if o == "" {
		return "default"
	}
	return o
}

func TestReplay(t *testing.T) {
	vt.Replay(t, prop, map[string]vt.Handler{
		"mask": func(raw json.RawMessage) error {
			var c maskCase
			if err := vt.Decode(raw, &c); err != nil {
				return err
			}
			return judge(c).err
		},
	})
}

// reachesUnion reports whether a value of t can contain a union.
func reachesUnion(t *ref.Type, seen map[*ref.StructT]bool) bool {
	switch t.Kind {
	case ref.List, ref.Set:
		return reachesUnion(t.Elem, seen)
	case ref.Map:
		return reachesUnion(t.Key, seen) || reachesUnion(t.Elem, seen)
	case ref.Struct:
		if t.Struct.Kind == "union" {
			return true
		}
		if seen[t.Struct] {
			return false
		}
		seen[t.Struct] = true
		for _, f := range t.Struct.Fields {
			if reachesUnion(f.Type, seen) {
				return true
			}
		}
	}
	return false
}
