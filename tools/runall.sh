#!/bin/bash
# tools/runall.sh <quick|thorough> [seed] [ids...] -- runs the checks one after another, prints one summary line each.
tier=${1:-quick}; seed=${2:-1}; shift 2 2>/dev/null
ids=${@:-C01 C02 C03 C04 C05 C06 C07 C08 C09 C10 C11 C12 C13 C14 C15 C16 C17 C18 C19 C20}
cd /verif
for id in $ids; do
  out=$(VERIF_SEED=$seed ./run.sh $id $tier 2>&1); code=$?
  echo "$id exit=$code $(echo "$out" | grep -c '^VIOLATION') violations; $(echo "$out" | grep -c '^KNOWN-FINDING') known; $(echo "$out" | tail -1 | cut -c1-160)"
  if [ $code -ne 0 ]; then echo "$out" | grep -v "^KNOWN" | head -30 | cut -c1-300; fi
done
