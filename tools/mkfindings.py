#!/usr/bin/env python3
"""Prints the findings table (markdown) from known_findings.json and known/*/findings.json."""
import json, glob, os
ROOT = os.path.dirname(os.path.dirname(os.path.abspath(__file__)))
fs = json.load(open(os.path.join(ROOT, 'known_findings.json')))['findings']
for p in sorted(glob.glob(os.path.join(ROOT, 'known', '*', 'findings.json'))):
    fs += json.load(open(p))['findings']
fs.sort(key=lambda f: (f['property'], f['status'] != 'fixed', f['id']))
print('| property | id | status | commit | what |')
print('|---|---|---|---|---|')
for f in fs:
    what = f['what']
    if what.startswith('fixed: '):
        what = what.split(' ', 3)[3] if len(what.split(' ', 3)) > 3 else what
    what = what.replace('|', '\\|').replace('\n', ' ')
    if len(what) > 260:
        what = what[:257] + '...'
    print(f"| {f['property']} | {f['id']} | {f['status']} | {f.get('commit','')} | {what} |")
import collections
c = collections.Counter((f['status']) for f in fs)
print()
print(f"Total: {len(fs)} findings, {c['fixed']} repaired by `fix:` commits, {c['known']} listed as known.")
