package c16

import (
	"encoding/json"
	"fmt"
	"os"
	"testing"

	"verif/internal/vt"
)

func TestDbg(t *testing.T) {
	f := os.Getenv("C16_DBG")
	if f == "" {
		t.Skip()
	}
	b, _ := os.ReadFile(f)
	var fl vt.Failure
	json.Unmarshal(b, &fl)
	var c trimCase
	json.Unmarshal(fl.Case, &c)
	dir, _ := os.MkdirTemp("", "dbg")
	ok, msg, err := goCompiles(dir, "orig", c.Files, c.Main, "go")
	fmt.Println("orig", ok, msg, err)
	fmt.Println("judge:", judge(c))
}
