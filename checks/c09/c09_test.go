// C09 — schema evolution: unknown fields are tolerated, and preserved when asked.
//
// Layer A (TestRuntime): the unknown-fields runtime alone.  Fields of any
// Thrift type (recursive generator, nesting up to and beyond the documented
// limit of 64) are written with a tiny binary-protocol writer of this file,
// fed through unknown.Fields.Append over an apache TBinaryProtocol exactly as
// generated code does, and written back with Fields.Write: the bytes must be
// the bytes read.
//
// Layer B (TestEvolve): pairs (old, new) of programs where old is new minus a
// set of optional/default fields, enum members and union members; both are
// generated, compiled and driven; values of new travel old→new→old.
package c09

import (
	"encoding/binary"
	"encoding/hex"
	"encoding/json"
	"errors"
	"fmt"
	"math"
	"sort"
	"strings"
	"testing"

	"github.com/apache/thrift/lib/go/thrift"
	"github.com/cloudwego/thriftgo/generator/golang/extension/unknown"
	"pgregory.net/rapid"

	"verif/internal/drv"
	"verif/internal/idl"
	"verif/internal/ref"
	"verif/internal/vt"
)

const prop = "C09"

// finding ids (known/C09/findings.json)
const fdUnionRewrite = "keep-unknown-union-member-rewrite"

func TestMain(m *testing.M) {
	vt.AtExit(drv.CloseAll)
	vt.Main(m)
}

// =====================================================================
// Layer A: the runtime
// =====================================================================

// wire type ids of the Thrift binary protocol (from the specification)
const (
	wStop   = 0
	wBool   = 2
	wByte   = 3
	wDouble = 4
	wI16    = 6
	wI32    = 8
	wI64    = 10
	wString = 11
	wStruct = 12
	wMap    = 13
	wSet    = 14
	wList   = 15
)

var wireNames = map[byte]string{wBool: "bool", wByte: "byte", wDouble: "double", wI16: "i16", wI32: "i32", wI64: "i64", wString: "string", wStruct: "struct", wMap: "map", wSet: "set", wList: "list"}

// depthLimit is the documented nesting limit of the runtime (unknown.go:
// maxNestingDepth = 64, "SetNestingDepthLimit sets the max number of nesting
// level").  Levels are counted with the value of the unknown field itself as
// level 1.  Whether "64 levels" includes that outermost value is not said, so
// level 65 may go either way; 64 and less must work, 66 and more must fail
// with ErrExceedDepthLimit.
const depthLimit = 64

// rawCase is the body of a struct made of unknown fields only.
type rawCase struct {
	Hex    string `json:"hex"`    // field, field, ..., STOP
	Fields int    `json:"fields"` // number of fields
	Depth  int    `json:"depth"`  // deepest nesting level of any value (field value = 1)
	Expect string `json:"expect"` // same | depth_error | either
	Proto  string `json:"proto,omitempty"` // "" = binary protocol objects, "compact" = compact protocol objects on both sides
}

func judgeRaw(c rawCase) (err error) {
	if c.Proto == "compact" {
		return judgeRawCompact(c)
	}
	in, herr := hex.DecodeString(c.Hex)
	if herr != nil || len(in) == 0 {
		return fmt.Errorf("harness: bad hex")
	}
	defer func() {
		if r := recover(); r != nil {
			err = fmt.Errorf("unknown-fields runtime panicked: %v\n  input %s", r, vt.Truncate(c.Hex, 400))
		}
	}()
	buf := thrift.NewTMemoryBuffer()
	buf.Write(in)
	iprot := thrift.NewTBinaryProtocol(buf, true, true)
	var fs unknown.Fields
	var appendErr error
	n := 0
	for {
		name, tid, id, e := iprot.ReadFieldBegin()
		if e != nil {
			return fmt.Errorf("harness: input is not a field sequence: %v", e)
		}
		if tid == thrift.STOP {
			break
		}
		if appendErr = fs.Append(iprot, name, tid, id); appendErr != nil {
			break
		}
		n++
		if e := iprot.ReadFieldEnd(); e != nil {
			return fmt.Errorf("harness: %v", e)
		}
		if len(fs) == 0 {
			return fmt.Errorf("Fields is empty after appending field %d (type %d): CarryingUnknownFields would say false", id, tid)
		}
	}
	if appendErr != nil {
		if !errors.Is(appendErr, unknown.ErrExceedDepthLimit) {
			return fmt.Errorf("Append failed on a well-formed field (deepest nesting %d): %v\n  input %s", c.Depth, appendErr, vt.Truncate(c.Hex, 400))
		}
		if c.Expect == "same" {
			return fmt.Errorf("Append reports %v although the deepest nesting is %d (limit %d)\n  input %s", appendErr, c.Depth, depthLimit, vt.Truncate(c.Hex, 400))
		}
		return nil
	}
	if c.Expect == "depth_error" {
		return fmt.Errorf("Append accepted a field nested %d deep, beyond the limit of %d, without ErrExceedDepthLimit", c.Depth, depthLimit)
	}
	if buf.Len() != 0 {
		return fmt.Errorf("Append left %d bytes of the field unread\n  input %s", buf.Len(), vt.Truncate(c.Hex, 400))
	}
	obuf := thrift.NewTMemoryBuffer()
	oprot := thrift.NewTBinaryProtocol(obuf, true, true)
	if e := fs.Write(oprot); e != nil {
		return fmt.Errorf("Write of %d appended fields failed: %v\n  input %s", n, e, vt.Truncate(c.Hex, 400))
	}
	want := in[:len(in)-1]
	if got := obuf.Bytes(); string(got) != string(want) {
		return fmt.Errorf("Write after Append does not reproduce the bytes read (%d fields, deepest nesting %d)\n  read    %x\n  written %x%s", n, c.Depth,
			clip(want), clip(got), firstDiff(want, got))
	}
	return nil
}

func clip(b []byte) []byte {
	if len(b) > 300 {
		return b[:300]
	}
	return b
}

func firstDiff(a, b []byte) string {
	for i := 0; i < len(a) && i < len(b); i++ {
		if a[i] != b[i] {
			return fmt.Sprintf("\n  first difference at byte %d (lengths %d / %d)", i, len(a), len(b))
		}
	}
	return fmt.Sprintf("\n  lengths %d / %d", len(a), len(b))
}

type rawGen struct {
	rt       *rapid.T
	maxDepth int
	nested3  bool // a container or struct at level >= 3
	shapes   map[string]bool
}

var scalarWire = []byte{wBool, wByte, wDouble, wI16, wI32, wI64, wString}
var allWire = []byte{wBool, wByte, wDouble, wI16, wI32, wI64, wString, wStruct, wMap, wSet, wList, wStruct, wMap, wSet, wList}

func (g *rawGen) pick(budget int, label string) byte {
	if budget <= 0 {
		return rapid.SampledFrom(scalarWire).Draw(g.rt, label)
	}
	return rapid.SampledFrom(allWire).Draw(g.rt, label)
}

var nastyDoubles = []uint64{0, 1 << 63, 0x7ff0000000000000, 0xfff0000000000000, 0x7ff8000000000001, 0x7ff0000000000001, 0xfff4000000000abc, 1, 0x3ff8000000000000}

// value appends the payload of one value of wire type t at nesting level lvl.
func (g *rawGen) value(b []byte, t byte, lvl, budget int) []byte {
	if lvl > g.maxDepth {
		g.maxDepth = lvl
	}
	if lvl >= 3 && t >= wStruct {
		g.nested3 = true
	}
	rt := g.rt
	switch t {
	case wBool:
		if rapid.Bool().Draw(rt, "bool") {
			return append(b, 1)
		}
		return append(b, 0)
	case wByte:
		return append(b, rapid.Byte().Draw(rt, "byte"))
	case wI16:
		return binary.BigEndian.AppendUint16(b, rapid.Uint16().Draw(rt, "i16"))
	case wI32:
		return binary.BigEndian.AppendUint32(b, rapid.Uint32().Draw(rt, "i32"))
	case wI64:
		return binary.BigEndian.AppendUint64(b, rapid.Uint64().Draw(rt, "i64"))
	case wDouble:
		if rapid.Bool().Draw(rt, "nastydbl") {
			return binary.BigEndian.AppendUint64(b, rapid.SampledFrom(nastyDoubles).Draw(rt, "dblbits"))
		}
		return binary.BigEndian.AppendUint64(b, math.Float64bits(rapid.Float64().Draw(rt, "dbl")))
	case wString:
		var s []byte
		switch rapid.IntRange(0, 9).Draw(rt, "strshape") {
		case 0:
		case 1:
			// long enough to cross the buffer doubling of the runtime
			s = make([]byte, rapid.IntRange(60, 700).Draw(rt, "longlen"))
			for i := range s {
				s[i] = byte(i*7 + len(s))
			}
		default:
			s = rapid.SliceOfN(rapid.Byte(), 0, 12).Draw(rt, "str") // any bytes, also invalid UTF-8 (binary)
		}
		b = binary.BigEndian.AppendUint32(b, uint32(len(s)))
		return append(b, s...)
	case wList, wSet:
		n := rapid.IntRange(0, 4).Draw(rt, "len")
		et := g.pick(budget-1, "elemtype")
		b = append(b, et)
		b = binary.BigEndian.AppendUint32(b, uint32(n))
		for i := 0; i < n; i++ {
			b = g.value(b, et, lvl+1, budget-1)
		}
		return b
	case wMap:
		n := rapid.IntRange(0, 3).Draw(rt, "len")
		if n == 0 && rapid.IntRange(0, 3).Draw(rt, "zerotypes") == 0 {
			// an empty map whose header carries no element types (some writers do that)
			g.shapes["empty_map_zero_types"] = true
			b = append(b, 0, 0)
			return binary.BigEndian.AppendUint32(b, 0)
		}
		var kt byte
		if rapid.IntRange(0, 5).Draw(rt, "containerkey") == 0 {
			kt = g.pick(budget-1, "keytype")
			if kt >= wStruct {
				g.shapes["container_or_struct_map_key"] = true
			}
		} else {
			kt = rapid.SampledFrom(scalarWire).Draw(rt, "keytype")
		}
		et := g.pick(budget-1, "valtype")
		b = append(b, kt, et)
		b = binary.BigEndian.AppendUint32(b, uint32(n))
		for i := 0; i < n; i++ {
			b = g.value(b, kt, lvl+1, budget-1)
			b = g.value(b, et, lvl+1, budget-1)
		}
		return b
	case wStruct:
		n := rapid.IntRange(0, 3).Draw(rt, "nfields")
		for i := 0; i < n; i++ {
			ft := g.pick(budget-1, "fieldtype")
			b = append(b, ft)
			b = binary.BigEndian.AppendUint16(b, g.fieldID())
			b = g.value(b, ft, lvl+1, budget-1)
		}
		return append(b, wStop)
	}
	panic("unreachable")
}

func (g *rawGen) fieldID() uint16 {
	if rapid.IntRange(0, 4).Draw(g.rt, "edgeid") == 0 {
		return rapid.SampledFrom([]uint16{0, 1, 0x7fff, 0x8000, 0xffff, 255, 256}).Draw(g.rt, "id")
	}
	return rapid.Uint16().Draw(g.rt, "id")
}

// chain builds a value nested exactly depth levels deep: depth-1 wrappers
// (list, set, map value, map key, struct field) around a scalar or an empty container.
func (g *rawGen) chain(depth int) (byte, []byte) {
	rt := g.rt
	var t byte
	var p []byte
	switch rapid.IntRange(0, 3).Draw(rt, "leaf") {
	case 0:
		t, p = wI32, []byte{0, 0, 0, 42}
	case 1:
		t, p = wString, []byte{0, 0, 0, 2, 'h', 'i'}
	case 2:
		t, p = wList, []byte{wBool, 0, 0, 0, 0} // an empty list still is a value of its level
	default:
		t, p = wStruct, []byte{wStop}
	}
	uniform := rapid.IntRange(-1, 4).Draw(rt, "uniform") // -1: draw per level
	for i := 1; i < depth; i++ {
		w := uniform
		if w < 0 {
			w = rapid.IntRange(0, 4).Draw(rt, "wrap")
		}
		var q []byte
		switch w {
		case 0:
			q = append(q, t, 0, 0, 0, 1)
			q = append(q, p...)
			t = wList
		case 1:
			q = append(q, t, 0, 0, 0, 1)
			q = append(q, p...)
			t = wSet
		case 2:
			q = append(q, wByte, t, 0, 0, 0, 1, 7)
			q = append(q, p...)
			t = wMap
		case 3:
			q = append(q, t, wBool, 0, 0, 0, 1)
			q = append(q, p...)
			q = append(q, 1)
			t = wMap
		default:
			q = append(q, t, 0, byte(i%100+1))
			q = append(q, p...)
			q = append(q, wStop)
			t = wStruct
		}
		p = q
	}
	if depth > g.maxDepth {
		g.maxDepth = depth
	}
	if depth >= 3 {
		g.nested3 = true
	}
	return t, p
}

func genRaw(rt *rapid.T) (rawCase, []string) {
	g := &rawGen{rt: rt, shapes: map[string]bool{}}
	var b []byte
	var classes []string
	nf := rapid.IntRange(1, 6).Draw(rt, "nfields")
	deepAt := -1
	if rapid.IntRange(0, 4).Draw(rt, "deep") == 0 {
		deepAt = rapid.IntRange(0, nf-1).Draw(rt, "deepat")
	}
	for i := 0; i < nf; i++ {
		if i == deepAt {
			var d int
			switch rapid.IntRange(0, 9).Draw(rt, "deepkind") {
			case 0:
				d = rapid.IntRange(200, 3000).Draw(rt, "verydeep")
			case 1, 2:
				d = rapid.IntRange(20, 62).Draw(rt, "depth")
			default:
				d = rapid.IntRange(depthLimit-1, depthLimit+3).Draw(rt, "depth")
			}
			t, p := g.chain(d)
			b = append(b, t)
			b = binary.BigEndian.AppendUint16(b, g.fieldID())
			b = append(b, p...)
			classes = append(classes, "A:chain")
			continue
		}
		t := g.pick(5, "fieldtype")
		b = append(b, t)
		b = binary.BigEndian.AppendUint16(b, g.fieldID())
		b = g.value(b, t, 1, rapid.IntRange(1, 5).Draw(rt, "budget"))
		classes = append(classes, "A:type:"+wireNames[t])
	}
	b = append(b, wStop)
	c := rawCase{Hex: hex.EncodeToString(b), Fields: nf, Depth: g.maxDepth, Expect: "same"}
	switch {
	case g.maxDepth == depthLimit+1:
		c.Expect = "either"
	case g.maxDepth > depthLimit+1:
		c.Expect = "depth_error"
	}
	for s := range g.shapes {
		classes = append(classes, "A:shape:"+s)
	}
	sort.Strings(classes)
	classes = append(classes, "A:expect:"+c.Expect, fmt.Sprintf("A:fields:%d", nf), "A:depth:"+depthBucket(g.maxDepth))
	if g.nested3 {
		classes = append(classes, "A:nested_depth>=3")
	}
	return c, classes
}

func depthBucket(d int) string {
	switch {
	case d <= 2:
		return fmt.Sprint(d)
	case d <= 5:
		return "3-5"
	case d < depthLimit-1:
		return "6-62"
	case d <= depthLimit+3:
		return fmt.Sprint(d)
	}
	return ">67"
}

func TestRuntime(t *testing.T) {
	rapid.Check(t, func(rt *rapid.T) {
		c, classes := genRaw(rt)
		if rapid.IntRange(0, 2).Draw(rt, "compact") == 0 {
			c.Proto = "compact"
			classes = append(classes, "A:compact_protocol")
		}
		vt.Eval()
		nontrivial := false
		for _, k := range classes {
			vt.Class(k)
			if k == "A:nested_depth>=3" {
				nontrivial = true
			}
		}
		if nontrivial {
			vt.Nontrivial("raw" + c.Hex)
		}
		vt.Sample(map[string]interface{}{"layer": "runtime", "fields": c.Fields, "depth": c.Depth, "expect": c.Expect, "hex": vt.Truncate(c.Hex, 120)})
		if err := judgeRaw(c); err != nil {
			if strings.HasPrefix(err.Error(), "harness:") {
				rt.Fatalf("%v", err)
			}
			vt.Fail(rt, prop, "raw", c, "%v", err)
		}
	})
}

// =====================================================================
// Layer B: generated code of two versions
// =====================================================================

// evoCase is one (old program, new program, struct, value of new, mode, chain length).
type evoCase struct {
	Main      string            `json:"main"`
	FilesNew  map[string]string `json:"files_new"`
	FilesOld  map[string]string `json:"files_old"`
	GenNew    string            `json:"gen_new"`
	GenOld    string            `json:"gen_old"` // go | go:keep_unknown_fields
	SchemaNew *ref.SchemaJ      `json:"schema_new"`
	SchemaOld *ref.SchemaJ      `json:"schema_old"`
	Removed   []string          `json:"removed"` // what old lacks (informational)
	Struct    string            `json:"struct"`
	Value     interface{}       `json:"value"` // value of the new schema (driver JSON form)
	Chain     int               `json:"chain"` // 1: old reads new data and re-writes; 2: new reads that and re-writes; 3: old reads that and re-writes
}

const (
	genPlain = "go"
	genKeep  = "go:keep_unknown_fields"
)

type outcome struct {
	status string // judged | rejected | nocompile | unmapped | new_unwritable | harness
	err    error
	notes  []string // classes observed while judging
	ps     *projStats
}

// projStats says what a projection onto the old schema dropped.
type projStats struct {
	dropped       map[string]int // kind@top / kind@nested → count
	nestedBig     bool           // a container- or struct-typed field dropped below the top level
	emptiedUnions int            // union instances whose set member is unknown to old
	unknownEnum   int            // enum values old has no member for
}

func kindClass(t *ref.Type) string {
	switch t.Kind {
	case ref.List, ref.Set, ref.Map:
		return "container"
	case ref.Struct:
		return "struct"
	case ref.Enum:
		return "enum"
	}
	return "scalar"
}

// project drops from a value of the new schema everything the old schema does not have.
func project(nt, ot *ref.Type, v ref.V, depth int, ps *projStats) ref.V {
	if v == nil {
		return nil
	}
	switch nt.Kind {
	case ref.List, ref.Set:
		x := v.(*ref.ListV)
		o := &ref.ListV{E: []ref.V{}}
		for _, e := range x.E {
			o.E = append(o.E, project(nt.Elem, ot.Elem, e, depth, ps))
		}
		return o
	case ref.Map:
		x := v.(*ref.MapV)
		o := &ref.MapV{K: []ref.V{}, E: []ref.V{}}
		for i := range x.K {
			o.K = append(o.K, project(nt.Key, ot.Key, x.K[i], depth, ps))
			o.E = append(o.E, project(nt.Elem, ot.Elem, x.E[i], depth, ps))
		}
		return o
	case ref.Enum:
		known := false
		for _, m := range ot.Enum.Values {
			if m.Value == v.(int64) {
				known = true
			}
		}
		if !known {
			for _, m := range nt.Enum.Values {
				if m.Value == v.(int64) {
					ps.unknownEnum++ // a member of new that old does not have: stays a number
					break
				}
			}
		}
		return v
	case ref.Struct:
		return projectStruct(nt.Struct, ot.Struct, v.(*ref.StructV), depth, ps)
	}
	return v
}

func projectStruct(ns, os *ref.StructT, v *ref.StructV, depth int, ps *projStats) *ref.StructV {
	out := ref.NewStruct()
	for _, id := range v.IDs() {
		nf := ns.Field(id)
		of := os.Field(id)
		if of == nil {
			where := "@top"
			if depth > 0 {
				where = "@nested"
				if k := kindClass(nf.Type); k == "container" || k == "struct" {
					ps.nestedBig = true
				}
			}
			ps.dropped[kindClass(nf.Type)+where]++
			if ns.Kind == "union" {
				ps.emptiedUnions++
			}
			continue
		}
		out.F[id] = project(nf.Type, of.Type, v.F[id], depth+1, ps)
	}
	return out
}

// distinctUnderOld reports whether all map keys and set elements inside v are
// still pairwise different when seen with the old schema.
func distinctUnderOld(t *ref.Type, v ref.V) bool {
	if v == nil {
		return true
	}
	switch t.Kind {
	case ref.List, ref.Set:
		x := v.(*ref.ListV)
		for i, e := range x.E {
			if !distinctUnderOld(t.Elem, e) {
				return false
			}
			if t.Kind == ref.Set {
				for j := 0; j < i; j++ {
					if ref.Equal(ref.Normalise(t.Elem, x.E[j]), ref.Normalise(t.Elem, e)) {
						return false
					}
				}
			}
		}
	case ref.Map:
		x := v.(*ref.MapV)
		for i := range x.K {
			if !distinctUnderOld(t.Key, x.K[i]) || !distinctUnderOld(t.Elem, x.E[i]) {
				return false
			}
			for j := 0; j < i; j++ {
				if ref.Equal(ref.Normalise(t.Key, x.K[j]), ref.Normalise(t.Key, x.K[i])) {
					return false
				}
			}
		}
	case ref.Struct:
		x := v.(*ref.StructV)
		for id, fv := range x.F {
			if f := t.Struct.Field(id); f != nil && !distinctUnderOld(f.Type, fv) {
				return false
			}
		}
	}
	return true
}

// writable reports whether a value of the old schema is one the old code can
// write: no union without a member, no set with two equal elements, no map with two equal keys (a
// projection can produce both; neither is "data of the older version").
func writable(t *ref.Type, v ref.V) bool {
	if v == nil {
		return true
	}
	switch t.Kind {
	case ref.List, ref.Set:
		x := v.(*ref.ListV)
		for i, e := range x.E {
			if !writable(t.Elem, e) {
				return false
			}
			if t.Kind == ref.Set {
				for j := 0; j < i; j++ {
					if ref.Equal(ref.Normalise(t.Elem, x.E[j]), ref.Normalise(t.Elem, e)) {
						return false
					}
				}
			}
		}
	case ref.Map:
		x := v.(*ref.MapV)
		for i := range x.K {
			if !writable(t.Key, x.K[i]) || !writable(t.Elem, x.E[i]) {
				return false
			}
			// two keys that differ only in fields old lacks are one key to old
			for j := 0; j < i; j++ {
				if ref.Equal(ref.Normalise(t.Key, x.K[j]), ref.Normalise(t.Key, x.K[i])) {
					return false
				}
			}
		}
	case ref.Struct:
		x := v.(*ref.StructV)
		if t.Struct.Kind == "union" && len(x.F) != 1 {
			return false
		}
		for id, fv := range x.F {
			if f := t.Struct.Field(id); f != nil && !writable(f.Type, fv) {
				return false
			}
		}
	}
	return true
}

// withAdded turns a value of the old schema into the value the new code must
// see after reading it: every field old lacks holds what a freshly
// constructed object of the new code holds there (its default).
func withAdded(nt, ot *ref.Type, v ref.V, fresh map[string]*ref.StructV) ref.V {
	if v == nil {
		return nil
	}
	switch nt.Kind {
	case ref.List, ref.Set:
		o := &ref.ListV{E: []ref.V{}}
		for _, e := range v.(*ref.ListV).E {
			o.E = append(o.E, withAdded(nt.Elem, ot.Elem, e, fresh))
		}
		return o
	case ref.Map:
		x := v.(*ref.MapV)
		o := &ref.MapV{K: []ref.V{}, E: []ref.V{}}
		for i := range x.K {
			o.K = append(o.K, withAdded(nt.Key, ot.Key, x.K[i], fresh))
			o.E = append(o.E, withAdded(nt.Elem, ot.Elem, x.E[i], fresh))
		}
		return o
	case ref.Struct:
		x := v.(*ref.StructV)
		out := ref.NewStruct()
		for _, nf := range nt.Struct.Fields {
			of := ot.Struct.Field(nf.ID)
			if of == nil {
				if fr := fresh[nt.Struct.Name]; fr != nil {
					if fv, ok := fr.F[nf.ID]; ok {
						out.F[nf.ID] = fv
					}
				}
				continue
			}
			if fv, ok := x.F[nf.ID]; ok {
				out.F[nf.ID] = withAdded(nf.Type, of.Type, fv, fresh)
			}
		}
		return out
	}
	return v
}

type caller func(req map[string]interface{}) (map[string]interface{}, error)

func mkCaller(sess *drv.Session) caller {
	return func(req map[string]interface{}) (map[string]interface{}, error) {
		resp, err := sess.Proc.Call(req)
		if err != nil {
			return nil, fmt.Errorf("harness: %v", err)
		}
		if h, ok := resp["harness"]; ok {
			return nil, fmt.Errorf("harness: driver: %v", h)
		}
		return resp, nil
	}
}

// readBack is one driver `read` with rewrite.
type readBack struct {
	value    ref.V
	rehex    []byte
	reerr    interface{} // error text of the re-write, nil if it succeeded
	repanic  interface{} // panic during the re-write
	carrying *bool
}

// readRewrite lets the generated code of one version read bytes and write the
// object again.  A failing or panicking Read is a violation (err), trouble of
// the driver is a harness error.
func readRewrite(call caller, key string, st *ref.StructT, b []byte, who, what string) (*readBack, error) {
	resp, err := call(map[string]interface{}{"op": "read", "type": key, "hex": hex.EncodeToString(b), "rewrite": true})
	if err != nil {
		return nil, err
	}
	_, readDone := resp["err"]
	if p, ok := resp["panic"]; ok && !readDone {
		return nil, fmt.Errorf("%s Read of %s panicked on %s: %v\n  bytes %x", who, st.Name, what, p, b)
	}
	if e := resp["err"]; e != nil {
		return nil, fmt.Errorf("%s Read of %s failed on %s: %v\n  bytes %x", who, st.Name, what, e, b)
	}
	got, err := ref.StructFromJSON(st, resp["value"])
	if err != nil {
		return nil, fmt.Errorf("%s Read of %s: object does not fit the schema: %v", who, st.Name, err)
	}
	rb := &readBack{value: got, reerr: resp["reerr"], repanic: resp["panic"]}
	if resp["panic"] != nil && resp["panic_stack"] != nil {
		rb.repanic = fmt.Sprintf("%v [%v]", resp["panic"], resp["panic_stack"])
	}
	if s, ok := resp["rehex"].(string); ok {
		rb.rehex, _ = hex.DecodeString(s)
	} else if rb.repanic == nil {
		return nil, fmt.Errorf("harness: driver sent no rehex")
	}
	if ex, ok := resp["extra"].(map[string]interface{}); ok {
		if c, ok := ex["carrying_unknown"].(bool); ok {
			rb.carrying = &c
		}
	}
	return rb, nil
}

// topUnknown counts the fields of the outermost struct in b that st does not have.
func topUnknown(st *ref.StructT, b []byte) (int, error) {
	dr, err := ref.Decode(st, b, true)
	if err != nil {
		return 0, err
	}
	n := 0
	for _, u := range dr.Unknown {
		if u.Path == st.Name {
			n++
		}
	}
	return n, nil
}

// freshCache holds, per driver (scratch module root), the dump of a freshly
// constructed object of every struct that declares a default.
var freshCache = map[string]map[string]interface{}{}

// freshObject asks the driver for a newly constructed object of a struct.
func freshObject(sess *drv.Session, st *ref.StructT) (*ref.StructV, error) {
	ti, ok := sess.Type(st.Name)
	if !ok {
		return nil, nil
	}
	byName := freshCache[sess.Mod.Root]
	if byName == nil {
		if len(freshCache) > 16 {
			freshCache = map[string]map[string]interface{}{}
		}
		byName = map[string]interface{}{}
		freshCache[sess.Mod.Root] = byName
	}
	raw, ok := byName[st.Name]
	if !ok {
		r, err := mkCaller(sess)(map[string]interface{}{"op": "new", "type": ti.Key})
		if err != nil {
			return nil, err
		}
		raw = r["value"]
		byName[st.Name] = raw
	}
	fv, err := ref.StructFromJSON(st, raw)
	if err != nil {
		return nil, fmt.Errorf("harness: fresh %s: %v", st.Name, err)
	}
	sv, _ := fv.(*ref.StructV)
	return sv, nil
}

// materialiseDefaults replaces the declared defaults of the (imported, hence
// private) schema by what the constructor of the generated code puts into a
// new object.  The reference evaluation of a struct literal holds only the
// fields the literal names, the Go object also holds the zero values of the
// other non-optional fields; "an optional field that holds its default is
// unset" has to be decided against the default as the code under test builds
// it (whether that is the right default is C06's property, and both versions
// declare the same defaults by construction).
func materialiseDefaults(sess *drv.Session, sch *ref.Schema) error {
	for _, st := range sch.Structs {
		has := false
		for _, f := range st.Fields {
			has = has || f.HasDef
		}
		if !has {
			continue
		}
		fr, err := freshObject(sess, st)
		if err != nil {
			return err
		}
		if fr == nil {
			continue
		}
		for _, f := range st.Fields {
			if fv, ok := fr.F[f.ID]; ok && f.HasDef {
				f.Default = fv
			}
		}
	}
	return nil
}

// judgeEvo decides one case.  With excludeKnown (generator side only, never
// in replay) the exact shape of the listed finding is left out.
func judgeEvo(c evoCase, excludeKnown bool) outcome {
	sNew, err := drv.Open(c.FilesNew, c.Main, c.GenNew, nil)
	if err != nil {
		return outcome{status: "harness", err: fmt.Errorf("harness: %v", err)}
	}
	if sNew.Status != "ok" {
		return outcome{status: "new_" + sNew.Status}
	}
	sOld, err := drv.Open(c.FilesOld, c.Main, c.GenOld, nil)
	if err != nil {
		return outcome{status: "harness", err: fmt.Errorf("harness: %v", err)}
	}
	if sOld.Status != "ok" {
		return outcome{status: "old_" + sOld.Status}
	}
	schNew, err := ref.Import(c.SchemaNew)
	if err != nil {
		return outcome{status: "harness", err: fmt.Errorf("harness: %v", err)}
	}
	schOld, err := ref.Import(c.SchemaOld)
	if err != nil {
		return outcome{status: "harness", err: fmt.Errorf("harness: %v", err)}
	}
	if err := materialiseDefaults(sNew, schNew); err != nil {
		return outcome{status: "harness", err: err}
	}
	if err := materialiseDefaults(sOld, schOld); err != nil {
		return outcome{status: "harness", err: err}
	}
	nst, ost := schNew.ByName(c.Struct), schOld.ByName(c.Struct)
	if nst == nil || ost == nil {
		return outcome{status: "harness", err: fmt.Errorf("harness: struct %s not in both schemas", c.Struct)}
	}
	tiNew, ok1 := sNew.Type(c.Struct)
	tiOld, ok2 := sOld.Type(c.Struct)
	if !ok1 || !ok2 {
		return outcome{status: "unmapped"}
	}
	raw := roundJSON(c.Value)
	v0, err := ref.StructFromJSON(nst, raw)
	if err != nil {
		return outcome{status: "harness", err: fmt.Errorf("harness: %v", err)}
	}
	ntop := &ref.Type{Kind: ref.Struct, Struct: nst}
	otop := &ref.Type{Kind: ref.Struct, Struct: ost}
	keep := c.GenOld == genKeep
	callNew, callOld := mkCaller(sNew), mkCaller(sOld)
	var notes []string
	harness := func(err error) outcome { return outcome{status: "harness", err: err} }
	isHarness := func(err error) bool { return strings.HasPrefix(err.Error(), "harness:") }

	// precondition: every declared default of both programs is a value a strict reader accepts
	// in the form the generated code writes it.  A default literal that leaves out a required
	// struct field is a nil pointer in the object, written as an empty struct that lacks the
	// inner required fields: such an IDL cannot exchange its own defaults, whatever the version.
	for _, sc := range []*ref.Schema{schNew, schOld} {
		for _, st := range sc.Structs {
			for _, f := range st.Fields {
				if f.HasDef && f.Default != nil && !ref.Readable(f.Type, ref.WireForm(f.Type, f.Default, 0)) {
					return outcome{status: "unreadable_default"}
				}
			}
		}
	}

	// step 0: data written by the code of the newer version.  The value that
	// travels is the one these bytes denote under the new schema (strict
	// reference decoder): the generated constructor may have completed the drawn
	// value with defaults (a struct literal default that leaves fields out).
	resp, err := callNew(map[string]interface{}{"op": "write", "type": tiNew.Key, "value": ref.StructToJSON(nst, v0.(*ref.StructV))})
	if err != nil {
		return harness(err)
	}
	if resp["panic"] != nil || resp["err"] != nil {
		return outcome{status: "new_unwritable"} // not a value the newer code can send (C02 decides whether it should)
	}
	data, _ := hex.DecodeString(resp["hex"].(string))
	dr0, derr := ref.Decode(nst, data, false)
	if derr != nil {
		return outcome{status: "new_write_invalid"} // C02's business
	}
	// ... and these bytes must be data of the newer version in the first place:
	// the newer code itself reads them (a drawn value can lack required fields
	// through a declared struct default that leaves them out; such bytes are
	// nobody's valid data)
	// The newer code must also be able to write again what it read from its own
	// data: Read starts from a constructed object, and a declared struct-literal
	// default that leaves out a non-optional union field puts a value there that
	// no version can write (the optional field holding it counts as set).  A
	// round trip that fails within one version is not a question of evolution.
	if r0, err := callNew(map[string]interface{}{"op": "read", "type": tiNew.Key, "hex": resp["hex"], "rewrite": true}); err != nil {
		return harness(err)
	} else if _, readDone := r0["err"]; !readDone || r0["err"] != nil {
		return outcome{status: "new_cannot_read_own_data"}
	} else if r0["panic"] != nil || r0["reerr"] != nil {
		return outcome{status: "new_cannot_rewrite_own_data"}
	}
	v := dr0.Value
	want := ref.Normalise(ntop, v)
	ps := &projStats{dropped: map[string]int{}}
	proj := projectStruct(nst, ost, v, 0, ps)
	wantOld := ref.Normalise(otop, proj)
	if !distinctUnderOld(otop, proj) {
		// two map keys or set elements that differ only in fields old lacks are one
		// key / element to old: what "keeps its value" means there is not defined
		return outcome{status: "projection_merges_keys", ps: ps}
	}
	// the shape of the listed finding: a union whose set member old does not know, re-written by old with
	// keep_unknown_fields.  Reading it is still judged; only the re-write (and the rest of the chain) is left out.
	knownShape := excludeKnown && keep && ps.emptiedUnions > 0
	fail := func(format string, args ...interface{}) outcome {
		return outcome{status: "judged", err: fmt.Errorf(format, args...), notes: notes, ps: ps}
	}
	ctx := fmt.Sprintf("\n  old lacks: %s\n  value (new schema) %s", strings.Join(c.Removed, "; "), ref.Show(v))

	fresh := map[string]*ref.StructV{}
	loadFresh := func() error {
		for _, st := range schNew.Structs {
			o := schOld.ByName(st.Name)
			if o == nil || len(o.Fields) == len(st.Fields) {
				continue
			}
			sv, err := freshObject(sNew, st)
			if err != nil {
				return err
			}
			if sv != nil {
				fresh[st.Name] = sv
			}
		}
		return nil
	}

	oldWho := "old (" + c.GenOld + ")"
	for hop := 1; hop <= c.Chain; hop++ {
		switch hop {
		case 1, 3:
			what := "data written by the newer version"
			if hop == 3 {
				what = "data after old→new round trip, written by the newer version"
			}
			rb, err := readRewrite(callOld, tiOld.Key, ost, data, oldWho, what)
			if err != nil {
				if isHarness(err) {
					return harness(err)
				}
				return fail("hop %d: %v%s", hop, err, ctx)
			}
			// (a) every field common to both versions keeps its value
			if got := ref.Normalise(otop, rb.value); !ref.Equal(wantOld, got) {
				return fail("hop %d: %s Read of %s: fields common to both versions changed\n  want %s\n  got  %s\n  bytes %x%s", hop, oldWho, c.Struct, ref.Show(wantOld), ref.Show(got), data, ctx)
			}
			if keep {
				if rb.repanic != nil {
					return fail("hop %d: %s Write of %s panicked after reading data of the newer version: %v%s", hop, oldWho, c.Struct, rb.repanic, ctx)
				}
				// the object says it carries unknown fields exactly when it does
				n, uerr := topUnknown(ost, data)
				if uerr != nil {
					notes = append(notes, "carrying_not_checked")
				} else if rb.carrying == nil {
					return fail("hop %d: %s %s has no CarryingUnknownFields()%s", hop, oldWho, c.Struct, ctx)
				} else if *rb.carrying != (n > 0) {
					return fail("hop %d: %s %s.CarryingUnknownFields() = %v but the object received %d unknown field(s) at its top level\n  bytes %x%s", hop, oldWho, c.Struct, *rb.carrying, n, data, ctx)
				} else {
					notes = append(notes, fmt.Sprintf("carrying:%v", n > 0))
				}
				if knownShape {
					return outcome{status: "excluded_known", notes: notes, ps: ps}
				}
				// (b) re-written bytes decode under the NEW schema to the original value
				if rb.reerr != nil {
					return fail("hop %d: %s cannot re-write %s after reading data of the newer version: %v\n  bytes read %x%s", hop, oldWho, c.Struct, rb.reerr, data, ctx)
				}
				dr, derr := ref.Decode(nst, rb.rehex, false)
				if derr != nil {
					return fail("hop %d: bytes re-written by %s are not a valid encoding under the new schema: %v\n  read    %x\n  written %x%s", hop, oldWho, derr, data, rb.rehex, ctx)
				}
				if got := ref.Normalise(ntop, dr.Value); !ref.Equal(want, got) {
					return fail("hop %d: bytes re-written by %s decode under the new schema to a different value\n  want %s\n  got  %s\n  read    %x\n  written %x%s", hop, oldWho, ref.Show(want), ref.Show(got), data, rb.rehex, ctx)
				}
			} else {
				if rb.carrying != nil {
					notes = append(notes, "plain_has_carrying_method")
				}
				// (c) plain: what old writes is the projection
				if rb.repanic != nil || rb.reerr != nil {
					if writable(otop, proj) {
						return fail("hop %d: %s cannot re-write %s after reading data of the newer version although what it holds is a valid value of the old schema: err=%v panic=%v\n  projection %s%s", hop, oldWho, c.Struct, rb.reerr, rb.repanic, ref.Show(proj), ctx)
					}
					notes = append(notes, "chain_stopped:projection_not_writable")
					return outcome{status: "judged", notes: notes, ps: ps}
				}
				dr, derr := ref.Decode(ost, rb.rehex, false)
				if derr != nil {
					return fail("hop %d: bytes re-written by %s are not a valid encoding under the old schema: %v\n  read    %x\n  written %x%s", hop, oldWho, derr, data, rb.rehex, ctx)
				}
				if got := ref.Normalise(otop, dr.Value); !ref.Equal(wantOld, got) {
					return fail("hop %d: bytes re-written by %s decode under the old schema to a different value\n  want %s\n  got  %s\n  written %x%s", hop, oldWho, ref.Show(wantOld), ref.Show(got), rb.rehex, ctx)
				}
			}
			data = rb.rehex
		case 2:
			what := "data re-written by " + oldWho
			rb, err := readRewrite(callNew, tiNew.Key, nst, data, "new", what)
			if err != nil {
				if isHarness(err) {
					return harness(err)
				}
				return fail("hop 2: %v%s", err, ctx)
			}
			exp := want
			if !keep {
				// data of the older version: added fields take their defaults
				if err := loadFresh(); err != nil {
					return harness(err)
				}
				exp = ref.Normalise(ntop, withAdded(ntop, otop, proj, fresh))
			}
			if got := ref.Normalise(ntop, rb.value); !ref.Equal(exp, got) {
				return fail("hop 2: new Read of %s (%s) yields a different value\n  want %s\n  got  %s\n  bytes %x%s", c.Struct, what, ref.Show(exp), ref.Show(got), data, ctx)
			}
			if rb.repanic != nil || rb.reerr != nil {
				// the newer code cannot write what it read (e.g. an added non-optional union field is empty): not this property's business
				notes = append(notes, "chain_stopped:new_rewrite_failed")
				return outcome{status: "judged", notes: notes, ps: ps}
			}
			data = rb.rehex
			if keep {
				// the third hop starts from bytes that must still carry the original value
				if dr, derr := ref.Decode(nst, data, false); derr != nil || !ref.Equal(ref.Normalise(ntop, dr.Value), want) {
					notes = append(notes, "chain_stopped:new_rewrite_differs")
					return outcome{status: "judged", notes: notes, ps: ps}
				}
			} else {
				// plain: from here on the travelling value is the projection plus defaults
				dr, derr := ref.Decode(nst, data, false)
				if derr != nil {
					notes = append(notes, "chain_stopped:new_rewrite_differs")
					return outcome{status: "judged", notes: notes, ps: ps}
				}
				ps2 := &projStats{dropped: map[string]int{}}
				proj = projectStruct(nst, ost, dr.Value, 0, ps2)
				if !ref.Equal(ref.Normalise(otop, proj), wantOld) {
					notes = append(notes, "chain_stopped:new_rewrite_differs")
					return outcome{status: "judged", notes: notes, ps: ps}
				}
			}
		}
	}
	return outcome{status: "judged", notes: notes, ps: ps}
}

func roundJSON(v interface{}) interface{} {
	b, _ := json.Marshal(v)
	var out interface{}
	json.Unmarshal(b, &out)
	return out
}

// ---------- generation ----------

func modelCfg() idl.Cfg {
	c := idl.GoSafe()
	c.MaxFiles = 2
	c.MaxDefs = 4
	c.Annotations = false
	c.NastyLits = false
	c.Comments = false
	c.Services = false
	if vt.Known("C01", "binary-map-key-const-ref") {
		c.NoBinKeyConstRef = true // would not compile (C01's finding); a pair needs both versions to build
	}
	return c
}

// stripUnionRefDefaults removes declared defaults of container- or struct-typed
// union members.  The constructor of such a union pre-sets the member and
// IsSet reports it (non-nil), so an object that Read filled with another
// member counts two members and cannot be written — with one single version
// of the schema already, so it is not a question of evolution (C02/C06 own
// reading, writing and defaults of one version).
func stripUnionRefDefaults(p *idl.Program) int {
	n := 0
	for _, f := range p.Files {
		for _, d := range f.Defs {
			if d.Kind != idl.KUnion {
				continue
			}
			for _, fl := range d.Fields {
				if fl.Default == nil {
					continue
				}
				switch fl.Type.FinalCat() {
				case "list", "set", "map", "struct", "union", "exception":
					fl.Default = nil
					n++
				}
			}
		}
	}
	return n
}

// removal is one part of new that old lacks.
type removal struct {
	def    *idl.Def
	field  *idl.Field   // struct-like member, or
	member *idl.EnumVal // enum member
}

func (r removal) String() string {
	if r.field != nil {
		return fmt.Sprintf("%s %s field %d %s (%s)", r.def.Kind, r.def.Name, r.field.ID, r.field.Name, r.field.Type.FinalCat())
	}
	return fmt.Sprintf("enum %s member %s=%d", r.def.Name, r.member.Name, r.member.Value)
}

func (r removal) class() string {
	if r.member != nil {
		return "removed:enum_member"
	}
	k := "scalar"
	switch r.field.Type.FinalCat() {
	case "list", "set", "map":
		k = "container"
	case "struct", "union", "exception":
		k = "struct"
	case "enum":
		k = "enum"
	}
	if r.def.Kind == idl.KUnion {
		return "removed:union_member:" + k
	}
	return "removed:field:" + k
}

// deriveOld draws what old lacks and builds old from a copy of new: fields
// that are not required, enum members and union members — never anything a
// constant or a declared default mentions, and no field of a struct-like that
// a struct literal instantiates, so that every constant and default of old is
// the one of new.
func deriveOld(rt *rapid.T, p *idl.Program) (*idl.Program, []removal) {
	ms := idl.CollectMentions(p)
	var cands []removal
	for _, f := range p.Files {
		for _, d := range f.Defs {
			switch {
			case d.Kind.IsStructLike():
				if ms.Instantiated[d] {
					// a constant or default builds a value of this struct-like with a literal; the literal fixes
					// all fields (the absent ones too), and code that cannot tell "unset" from "holds the
					// default" (optional struct/container fields with a default) writes that value out: with a
					// field less in old, the two versions would declare different defaults
					continue
				}
				for _, fl := range d.Fields {
					if fl.Req != idl.ReqRequired && !ms.Fields[fl] {
						cands = append(cands, removal{def: d, field: fl})
					}
				}
			case d.Kind == idl.KEnum:
				for _, m := range d.Values {
					if !ms.Members[m] {
						cands = append(cands, removal{def: d, member: m})
					}
				}
			}
		}
	}
	var rem []removal
	for _, c := range cands {
		// container- and struct-typed fields are the interesting unknown fields: removed twice as often
		big := c.field != nil && (strings.HasSuffix(c.class(), ":container") || strings.HasSuffix(c.class(), ":struct"))
		k := rapid.IntRange(0, 2).Draw(rt, "remove")
		if k == 0 || (big && k == 1) {
			rem = append(rem, c)
		}
	}
	if len(rem) == 0 && len(cands) > 0 {
		rem = append(rem, rapid.SampledFrom(cands).Draw(rt, "removeone"))
	}
	old, cm := idl.Clone(p)
	goneF := map[*idl.Field]bool{}
	goneM := map[*idl.EnumVal]bool{}
	touched := map[*idl.Def]bool{}
	for _, r := range rem {
		touched[r.def] = true
		if r.field != nil {
			goneF[r.field] = true
		} else {
			goneM[r.member] = true
		}
	}
	for d := range touched {
		od := cm.Defs[d]
		if d.Kind == idl.KEnum {
			var vs []*idl.EnumVal
			for i, m := range d.Values {
				if goneM[m] {
					continue
				}
				om := od.Values[i]
				om.Explicit = true // an implicit value depends on the member before it
				vs = append(vs, om)
			}
			od.Values = vs
			continue
		}
		var fs []*idl.Field
		for i, fl := range d.Fields {
			if goneF[fl] {
				continue
			}
			of := od.Fields[i]
			of.Explicit = true // an implicit id depends on the field before it
			fs = append(fs, of)
		}
		od.Fields = fs
	}
	return old, rem
}

// affected returns the structs of new whose values can contain something old lacks.
func affected(schNew, schOld *ref.Schema) map[string]bool {
	changed := map[string]bool{}
	for _, st := range schNew.Structs {
		if o := schOld.ByName(st.Name); o != nil && len(o.Fields) != len(st.Fields) {
			changed[st.Name] = true
		}
	}
	memo := map[string]bool{}
	var typeHit func(nt, ot *ref.Type, seen map[string]bool) bool
	var structHit func(ns, os *ref.StructT, seen map[string]bool) bool
	typeHit = func(nt, ot *ref.Type, seen map[string]bool) bool {
		switch nt.Kind {
		case ref.List, ref.Set:
			return typeHit(nt.Elem, ot.Elem, seen)
		case ref.Map:
			return typeHit(nt.Key, ot.Key, seen) || typeHit(nt.Elem, ot.Elem, seen)
		case ref.Enum:
			return len(nt.Enum.Values) != len(ot.Enum.Values)
		case ref.Struct:
			return structHit(nt.Struct, ot.Struct, seen)
		}
		return false
	}
	structHit = func(ns, os *ref.StructT, seen map[string]bool) bool {
		if changed[ns.Name] || memo[ns.Name] {
			return true
		}
		if seen[ns.Name] {
			return false
		}
		seen[ns.Name] = true
		for _, f := range ns.Fields {
			if of := os.Field(f.ID); of != nil && typeHit(f.Type, of.Type, seen) {
				memo[ns.Name] = true
				return true
			}
		}
		return false
	}
	out := map[string]bool{}
	for _, st := range schNew.Structs {
		if o := schOld.ByName(st.Name); o != nil && structHit(st, o, map[string]bool{}) {
			out[st.Name] = true
		}
	}
	return out
}

// nestedBig returns the structs of new whose values can hold, below their top
// level, a container- or struct-typed field that old lacks (the non-trivial
// shape of this check).
func nestedBig(schNew, schOld *ref.Schema) map[string]bool {
	big := map[string]bool{} // structs that lost a container- or struct-typed field
	for _, st := range schNew.Structs {
		o := schOld.ByName(st.Name)
		if o == nil {
			continue
		}
		for _, f := range st.Fields {
			if k := kindClass(f.Type); o.Field(f.ID) == nil && (k == "container" || k == "struct") {
				big[st.Name] = true
			}
		}
	}
	var reach func(t *ref.Type, seen map[string]bool) bool
	reach = func(t *ref.Type, seen map[string]bool) bool {
		switch t.Kind {
		case ref.List, ref.Set:
			return reach(t.Elem, seen)
		case ref.Map:
			return reach(t.Key, seen) || reach(t.Elem, seen)
		case ref.Struct:
			if big[t.Struct.Name] {
				return true
			}
			if seen[t.Struct.Name] {
				return false
			}
			seen[t.Struct.Name] = true
			o := schOld.ByName(t.Struct.Name)
			for _, f := range t.Struct.Fields {
				if o != nil && o.Field(f.ID) != nil && reach(f.Type, seen) {
					return true
				}
			}
		}
		return false
	}
	out := map[string]bool{}
	for _, st := range schNew.Structs {
		o := schOld.ByName(st.Name)
		for _, f := range st.Fields {
			if o != nil && o.Field(f.ID) != nil && reach(f.Type, map[string]bool{st.Name: true}) {
				out[st.Name] = true
			}
		}
	}
	return out
}

func TestEvolve(t *testing.T) {
	rapid.Check(t, func(rt *rapid.T) {
		p := idl.Gen(rt, modelCfg())
		if n := stripUnionRefDefaults(p); n > 0 {
			vt.ClassN("narrowed:union_member_container_or_struct_default_stripped", int64(n))
		}
		schNew := ref.Build(p)
		if len(schNew.Structs) == 0 {
			rt.Skip("no struct-like in the program")
		}
		old, rem := deriveOld(rt, p)
		if len(rem) == 0 {
			rt.Skip("nothing can be removed")
		}
		schOld := ref.Build(old)
		base := evoCase{Main: p.Files[0].Path, FilesNew: p.Texts(nil), FilesOld: old.Texts(nil), GenNew: genPlain,
			SchemaNew: schNew.Export(), SchemaOld: schOld.Export()}
		for _, r := range rem {
			base.Removed = append(base.Removed, r.String())
		}
		// build the three drivers first: a pair is usable only if both versions are
		var sessions []*drv.Session
		for _, b := range []struct {
			files map[string]string
			gen   string
			who   string
		}{{base.FilesNew, genPlain, "new"}, {base.FilesOld, genPlain, "old"}, {base.FilesOld, genKeep, "old_keep"}} {
			s, err := drv.Open(b.files, base.Main, b.gen, nil)
			if err != nil {
				rt.Fatalf("harness: %v", err)
			}
			if s.Status != "ok" {
				vt.Eval()
				vt.Class("pair:" + b.who + "_" + s.Status)
				vt.Sample(map[string]interface{}{"program": p.Describe(), "who": b.who, "status": s.Status, "detail": vt.Truncate(s.Detail, 300)})
				return
			}
			sessions = append(sessions, s)
		}
		vt.Class("pair:ok")
		for _, r := range rem {
			vt.Class(r.class())
		}
		aff := affected(schNew, schOld)
		nb := nestedBig(schNew, schOld)
		var affList, all, nbList []*ref.StructT
		for _, st := range schNew.Structs {
			// structs of a file the main file does not include are not generated at all
			mapped := true
			for _, s := range sessions {
				if _, ok := s.Type(st.Name); !ok {
					mapped = false
				}
			}
			if !mapped {
				vt.Class("struct_not_generated")
				continue
			}
			all = append(all, st)
			if aff[st.Name] {
				affList = append(affList, st)
			}
			if nb[st.Name] {
				nbList = append(nbList, st)
			}
		}
		if len(all) == 0 {
			vt.Class("pair:no_generated_struct")
			return
		}
		exclUnion := vt.Known(prop, fdUnionRewrite)
		nvals := rapid.IntRange(50, 200).Draw(rt, "nvalues")
		for i := 0; i < nvals; i++ {
			pool := all
			switch k := rapid.IntRange(0, 9).Draw(rt, "affected"); {
			case k < 4 && len(nbList) > 0:
				pool = nbList
			case k < 8 && len(affList) > 0:
				pool = affList
			}
			st := rapid.SampledFrom(pool).Draw(rt, "struct")
			v := ref.GenStruct(rt, st, ref.GenOpts{AllFields: rapid.IntRange(0, 2).Draw(rt, "allfields") == 0})
			if v == nil {
				vt.Class("value_not_constructible")
				continue
			}
			c := base
			c.Struct = st.Name
			c.Value = ref.StructToJSON(st, v)
			c.Chain = rapid.IntRange(1, 3).Draw(rt, "chain")
			c.GenOld = genPlain
			if rapid.Bool().Draw(rt, "keep") {
				c.GenOld = genKeep
			}
			vt.Eval()
			o := judgeEvo(c, exclUnion)
			if o.status == "harness" {
				rt.Fatalf("%v", o.err)
			}
			if o.status == "excluded_known" {
				// exactly the shape of the listed finding
				vt.Excluded(fdUnionRewrite)
				continue
			}
			vt.Class("B:status:" + o.status)
			if o.status != "judged" {
				continue
			}
			ps := o.ps
			mode := "plain"
			if c.GenOld == genKeep {
				mode = "keep_unknown"
			}
			vt.Class("B:mode:" + mode)
			vt.Class(fmt.Sprintf("B:chain:%d", c.Chain))
			vt.Class("B:kind:" + st.Kind)
			for _, n := range o.notes {
				vt.Class("B:" + n)
			}
			if len(ps.dropped) == 0 {
				vt.Class("B:dropped:nothing")
			}
			for k, n := range ps.dropped {
				vt.ClassN("B:dropped:"+k, int64(n))
			}
			vt.ClassIf(ps.emptiedUnions > 0, "B:union_member_unknown_to_old")
			vt.ClassIf(ps.unknownEnum > 0, "B:enum_value_unknown_to_old")
			if ps.nestedBig {
				vt.Class("B:nested_container_or_struct_dropped")
				vt.Nontrivial(c.Struct + c.GenOld + fmt.Sprint(c.Chain) + fmt.Sprint(c.Value) + strings.Join(c.Removed, ";") + base.FilesNew[base.Main])
			}
			vt.Sample(map[string]interface{}{"layer": "evolve", "removed": c.Removed, "struct": c.Struct, "gen_old": c.GenOld, "chain": c.Chain, "value": vt.Truncate(ref.Show(v), 300)})
			if o.err != nil {
				vt.Fail(rt, prop, "evolve", c, "%v", o.err)
			}
		}
	})
}

func TestReplay(t *testing.T) {
	vt.Replay(t, prop, map[string]vt.Handler{
		"raw": func(raw json.RawMessage) error {
			var c rawCase
			if err := vt.Decode(raw, &c); err != nil {
				return err
			}
			return judgeRaw(c)
		},
		"evolve": func(raw json.RawMessage) error {
			var c evoCase
			if err := vt.Decode(raw, &c); err != nil {
				return err
			}
			return judgeEvo(c, false).err
		},
	})
}
