#!/usr/bin/env python3
"""tools/mkseeded.py [<scratch root> ...]
Imports confirmed seeded changes from the scratch roots of the campaign
(<root>/<Cxx>/OUT/{patchX.diff,demoX/,meta.json}, <root>/confirm.txt, <root>/results.txt)
into /verif/seeded/<id>/ and prints the detection table (markdown) from every
/verif/seeded/*/meta.json."""
import json, os, re, shutil, sys, glob
ROOT = os.path.dirname(os.path.dirname(os.path.abspath(__file__)))
for SEED in sys.argv[1:]:
    confirm = {}
    for l in open(f'{SEED}/confirm.txt'):
        m = re.match(r'confirm (C\d+)([A-D]): (\S+) (.*)', l)
        if m: confirm[m.group(1)+m.group(2)] = (m.group(3), m.group(4).strip())
    det = {}
    for l in open(f'{SEED}/results.txt'):
        m = re.match(r'seed (C\d+)([A-D]) check (C\d+): exit=(\d+) violations=(\d+)', l)
        if m: det.setdefault(m.group(1)+m.group(2), {})[m.group(3)] = (int(m.group(4)), int(m.group(5)))  # last run wins
    for prop in sorted(os.listdir(SEED)):
        if not re.fullmatch(r'C\d+', prop) or not os.path.exists(f'{SEED}/{prop}/OUT/meta.json'): continue
        meta = json.load(open(f'{SEED}/{prop}/OUT/meta.json'))
        for L in 'ABCD':
            sid = prop+L
            if not os.path.exists(f'{SEED}/{prop}/OUT/patch{L}.diff'): continue
            if confirm.get(sid, ('',))[0] != 'CONFIRMED': continue
            dst = f'{ROOT}/seeded/{sid}'
            shutil.rmtree(dst, ignore_errors=True)
            os.makedirs(dst)
            shutil.copy(f'{SEED}/{prop}/OUT/patch{L}.diff', f'{dst}/patch.diff')
            def ign(d, names): return [n for n in names if n in ('go.sum','go.sum.deps','go.sum.scratch','scratch.go.sum','go.sum.txt') or n.endswith('.log') or n in ('thriftgo','trimmer') or n.endswith('.test')]
            shutil.copytree(f'{SEED}/{prop}/OUT/demo{L}', f'{dst}/demo', ignore=ign)
            m = meta.get(L, {})
            caught = sorted(c for c,(e,v) in det.get(sid,{}).items() if e == 1 and v > 0)
            missed = sorted(c for c,(e,v) in det.get(sid,{}).items() if not (e == 1 and v > 0))
            out = {
                "id": sid, "property": prop,
                "summary": m.get("summary",""), "needs_to_manifest": m.get("needs_to_manifest",""),
                "files": m.get("files",[]), "demo_cmd": m.get("demo_cmd","") + "   (the go.sum the demo copies is /verif/go.sum)",
                "observed_with_patch": m.get("observed_with_patch",""), "observed_without_patch": m.get("observed_without_patch",""),
                "author": "fresh sub-agent given only the property text and its own scratch worktree of /repo",
                "confirmed_by_me": "tools/seedconfirm.sh %s %s in a separate scratch worktree of /repo's HEAD: %s (patch applies, go build ./... ok, pinned suite passes unedited, demonstration fails with the patch and passes without it)" % (prop, L, confirm[sid][1]),
                "evaluated_with": "tools/seedeval.sh %s %s <checks> (quick tier, VERIF_SEED=1, patch applied in a scratch worktree reached through VERIF_REPO; equivalent to git -C /repo apply + ./run.sh <check> quick + git -C /repo checkout -- .)" % (prop, L),
                "caught_by": caught, "not_caught_by": missed,
            }
            json.dump(out, open(f'{dst}/meta.json','w'), indent=1)
rows = []
for p in sorted(glob.glob(f'{ROOT}/seeded/C*/meta.json')):
    m = json.load(open(p))
    rows.append((m['id'], m.get("summary","")[:150].replace('|','/').replace('\n',' '), ', '.join(m['caught_by']) or '—', ', '.join(m['not_caught_by']) or ''))
print('| seeded change | what | caught by (quick tier) | quick runs that stayed silent |')
print('|---|---|---|---|')
for r in rows: print('| %s | %s | %s | %s |' % r)
print()
print('%d confirmed seeded changes, %d caught by at least one check.' % (len(rows), sum(1 for r in rows if r[2] != '—')))
