#!/bin/bash
# tools/seedconfirm.sh <Cxx> <A|B|C|D>
# Independent confirmation of a seeded change in a scratch worktree of /repo's HEAD:
# applies the patch, builds, runs the pinned suite, runs the demonstration (must
# fail), reverts, runs the demonstration again (must pass).  Prints one line.
set -u
export GOFLAGS=-mod=mod GOPROXY=off GOSUMDB=off GOTOOLCHAIN=local
root=${SEEDROOT:-/tmp/seed}
prop=$1; letter=$2
cw=$root/$prop/cw
out=$root/$prop/confirm_$letter
mkdir -p "$out"
if [ ! -d "$cw" ]; then git -C /repo worktree add -q --detach "$cw" HEAD || exit 2; fi
git -C "$cw" checkout -q -- . ; git -C "$cw" checkout -q --detach "$(git -C /repo rev-parse HEAD)"
demo() {
  d=$root/$prop/OUT/demo$letter
  ( cd "$d" || exit 3
    export THRIFTGO_REPO=$cw REPO=$cw
    if [ -f run.sh ]; then timeout 1500 bash run.sh "$cw"
    elif ls *_test.go >/dev/null 2>&1 && [ ! -f main.go ]; then timeout 1500 go test -count=1 ./...
    else timeout 1500 go run . "$cw"; fi )
}
git -C "$cw" apply "$root/$prop/OUT/patch$letter.diff" || { echo "confirm $prop$letter: PATCH DOES NOT APPLY on current HEAD"; exit 1; }
( cd "$cw" && GOFLAGS=-mod=readonly go build ./... ) > "$out/build.log" 2>&1; b=$?
( cd "$cw" && GOFLAGS=-mod=readonly go test -vet=off -count=1 ./... ) > "$out/suite.log" 2>&1; s=$?
demo > "$out/demo_with.log" 2>&1; dw=$?
git -C "$cw" checkout -q -- .
demo > "$out/demo_without.log" 2>&1; dwo=$?
verdict=CONFIRMED
[ $b -ne 0 ] && verdict="REJECTED(build)"
[ $s -ne 0 ] && verdict="REJECTED(suite fails)"
[ $dw -eq 0 ] && verdict="REJECTED(demo passes with patch)"
[ $dwo -ne 0 ] && verdict="REJECTED(demo fails without patch)"
echo "confirm $prop$letter: $verdict build=$b suite=$s demo_with=$dw demo_without=$dwo"
