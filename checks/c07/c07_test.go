// C07 — code generation is deterministic.
//
// Black box on the thriftgo binary: the same IDL files and the same command
// line are run k times in fresh processes (each has its own map-iteration
// seed) under GOMAXPROCS 1/2/4/16, always from the same working directory
// with the same IDL path; only the `-o` directory varies (names of different
// lengths), and some runs write into a directory that still holds a previous
// run's output.  The set of (path relative to -o, content) must be identical
// for all runs, and so must the exit status.  For a fraction of the cases a
// recording plugin (plugins/recorder) stores the request it receives on stdin;
// those byte strings must be identical too.
//
// Oracle decisions taken to stay sound:
//   - the property exempts the output directory's own name: the absolute -o
//     path is replaced by a placeholder before contents are compared (class
//     `output_embeds_outdir` counts how often that mattered);
//   - the plugin request carries the -o path as given on the command line, so
//     plugin cases use one and the same -o string for all runs (the directory
//     is removed between runs or, every other run, left dirty);
//   - stdout/stderr (warnings, their order) are not compared; a run that
//     prints "Recovered from panic" is grouped with its exit code, and a
//     program on which every run fails the same way is `rejected_valid`;
//   - a watchdog expiry is no verdict (counted, C04 decides hangs);
//   - listed known findings are excluded in the comparison and nowhere else:
//     Case.Modulo names the canonicalisations the judge may apply (entry order
//     of thrift maps inside the embedded reflection descriptor / inside the
//     plugin request; order of the import lines of fastgo's k-*.go files under
//     no_fmt).  Witness files carry no Modulo and are judged strictly.
package c07

import (
	"bytes"
	"compress/gzip"
	"crypto/sha256"
	"encoding/binary"
	"encoding/hex"
	"encoding/json"
	"fmt"
	"io"
	"os"
	"os/exec"
	"path/filepath"
	"regexp"
	"sort"
	"strconv"
	"strings"
	"sync"
	"testing"
	"time"

	"pgregory.net/rapid"

	"verif/internal/idl"
	"verif/internal/tg"
	"verif/internal/vt"
)

const prop = "C07"

func TestMain(m *testing.M) { vt.Main(m) }

// ---------- the case ----------

const (
	// finding ids (known/C07/findings.json) and at the same time the names of
	// the canonicalisations a case may allow
	fReflDesc = "reflection-descriptor-map-order"
	fPlugReq  = "plugin-request-map-order"
	fFastImp  = "fastgo-nofmt-import-order"
)

type runCase struct {
	Main   string            `json:"main"`
	Files  map[string]string `json:"files"`
	Args   []string          `json:"args"`             // thriftgo arguments before `-o <dir> <main>`, e.g. ["-g","go:with_reflection","-r"]
	K      int               `json:"k"`                // number of runs
	Plugin string            `json:"plugin,omitempty"` // "" | "record" | "patch": run with -p rec=<recorder>[:patch]
	Modulo []string          `json:"modulo,omitempty"` // canonicalisations allowed because of listed known findings
}

func (c runCase) modulo(id string) bool {
	for _, m := range c.Modulo {
		if m == id {
			return true
		}
	}
	return false
}

const (
	stOK       = "generated"
	stRejected = "rejected_valid"
	stTimeout  = "harness_timeout"
)

// verdict is what the judge learned besides the error.
type verdict struct {
	Status      string
	Runs        int // thriftgo processes started
	Files       int // files in the (first) output tree
	EmbedsOut   bool
	MaskedDescs int    // descriptor literals that could not be decoded and were left out of the comparison
	Millis      int64  // time spent in thriftgo processes
	Reject      string // last line of the output of a rejected program
}

// ---------- recorder plugin ----------

var (
	recOnce sync.Once
	recPath string
	recErr  error
)

// recorder builds plugins/recorder once per test process (or takes the one
// named by VERIF_RECORDER).
func recorder() (string, error) {
	recOnce.Do(func() {
		if p := os.Getenv("VERIF_RECORDER"); p != "" {
			recPath = p
			return
		}
		dir, err := os.MkdirTemp("", "vrec")
		if err != nil {
			recErr = err
			return
		}
		out := filepath.Join(dir, "recorder")
		cmd := exec.Command("go", "build", "-o", out, "./plugins/recorder")
		cmd.Dir = vt.Root()
		cmd.Env = append(os.Environ(), "GOFLAGS=-mod=mod", "GOPROXY=off", "GOSUMDB=off", "GOTOOLCHAIN=local")
		if o, err := cmd.CombinedOutput(); err != nil {
			recErr = fmt.Errorf("go build ./plugins/recorder: %v\n%s", err, o)
			return
		}
		recPath = out
	})
	return recPath, recErr
}

// ---------- canonical form of thrift binary payloads (known findings only) ----------

type bdec struct {
	b []byte
	i int
}

func (d *bdec) take(n int) ([]byte, error) {
	if n < 0 || d.i+n > len(d.b) {
		return nil, fmt.Errorf("short payload at offset %d (+%d of %d)", d.i, n, len(d.b))
	}
	s := d.b[d.i : d.i+n]
	d.i += n
	return s, nil
}

// canonValue copies one value of thrift binary protocol from d to out with the
// entries of every map sorted bytewise (after canonicalising them).
func canonValue(d *bdec, typ byte, depth int, out *[]byte) error {
	if depth > 64 {
		return fmt.Errorf("too deep")
	}
	fixed := map[byte]int{2: 1, 3: 1, 4: 8, 6: 2, 8: 4, 10: 8}
	if n, ok := fixed[typ]; ok {
		s, err := d.take(n)
		*out = append(*out, s...)
		return err
	}
	switch typ {
	case 11: // string / binary
		h, err := d.take(4)
		if err != nil {
			return err
		}
		s, err := d.take(int(int32(binary.BigEndian.Uint32(h))))
		if err != nil {
			return err
		}
		*out = append(append(*out, h...), s...)
		return nil
	case 12: // struct
		for {
			t, err := d.take(1)
			if err != nil {
				return err
			}
			*out = append(*out, t[0])
			if t[0] == 0 {
				return nil
			}
			id, err := d.take(2)
			if err != nil {
				return err
			}
			*out = append(*out, id...)
			if err := canonValue(d, t[0], depth+1, out); err != nil {
				return err
			}
		}
	case 13: // map
		h, err := d.take(6)
		if err != nil {
			return err
		}
		n := int(int32(binary.BigEndian.Uint32(h[2:])))
		if n < 0 || n > len(d.b) {
			return fmt.Errorf("map size %d", n)
		}
		*out = append(*out, h...)
		entries := make([][]byte, 0, n)
		for i := 0; i < n; i++ {
			var e []byte
			if err := canonValue(d, h[0], depth+1, &e); err != nil {
				return err
			}
			if err := canonValue(d, h[1], depth+1, &e); err != nil {
				return err
			}
			entries = append(entries, e)
		}
		sort.Slice(entries, func(i, j int) bool { return bytes.Compare(entries[i], entries[j]) < 0 })
		for _, e := range entries {
			*out = append(*out, e...)
		}
		return nil
	case 14, 15: // set, list: written from slices, order is content
		h, err := d.take(5)
		if err != nil {
			return err
		}
		n := int(int32(binary.BigEndian.Uint32(h[1:])))
		if n < 0 || n > len(d.b) {
			return fmt.Errorf("list size %d", n)
		}
		*out = append(*out, h...)
		for i := 0; i < n; i++ {
			if err := canonValue(d, h[0], depth+1, out); err != nil {
				return err
			}
		}
		return nil
	}
	return fmt.Errorf("unknown type id %d at offset %d", typ, d.i)
}

// canonStruct canonicalises a serialized struct; bytes after it (a data
// trailer) are kept verbatim.
func canonStruct(b []byte) ([]byte, error) {
	d := &bdec{b: b}
	var out []byte
	if err := canonValue(d, 12, 0, &out); err != nil {
		return nil, err
	}
	return append(out, b[d.i:]...), nil
}

var descLit = regexp.MustCompile(`(?s)(_rawDesc = \[\]byte\{)(.*?)(\n\})`)

// canonReflection rewrites the embedded descriptor of a *-reflection.go file
// into a canonical form (gunzipped, thrift maps sorted, hex); ok=false when it
// could not be decoded and was masked instead.
func canonReflection(src []byte) (res []byte, ok bool) {
	ok = true
	res = descLit.ReplaceAllFunc(src, func(m []byte) []byte {
		sm := descLit.FindSubmatch(m)
		var raw []byte
		for _, tok := range strings.Split(string(sm[2]), ",") {
			tok = strings.TrimSpace(tok)
			if tok == "" {
				continue
			}
			v, err := strconv.ParseUint(tok, 0, 8)
			if err != nil {
				ok = false
				return []byte("_rawDesc = <descriptor not decodable, not compared>")
			}
			raw = append(raw, byte(v))
		}
		var canon []byte
		zr, err := gzip.NewReader(bytes.NewReader(raw))
		if err == nil {
			var plain []byte
			if plain, err = io.ReadAll(zr); err == nil {
				canon, err = canonStruct(plain)
			}
		}
		if err != nil {
			ok = false
			return []byte("_rawDesc = <descriptor not decodable, not compared>")
		}
		return []byte("_rawDesc = <canonical descriptor " + hex.EncodeToString(canon) + ">")
	})
	return res, ok
}

var importBlock = regexp.MustCompile(`(?s)\nimport \(\n(.*?)\n\)\n`)

// canonImports sorts the lines of the first import block of a Go file inside
// each group (groups are separated by empty lines).
func canonImports(src []byte) []byte {
	loc := importBlock.FindSubmatchIndex(src)
	if loc == nil {
		return src
	}
	groups := strings.Split(string(src[loc[2]:loc[3]]), "\n\n")
	for i, g := range groups {
		ls := strings.Split(g, "\n")
		sort.Strings(ls)
		groups[i] = strings.Join(ls, "\n")
	}
	res := append([]byte{}, src[:loc[2]]...)
	res = append(res, strings.Join(groups, "\n\n")...)
	return append(res, src[loc[3]:]...)
}

// ---------- the judge ----------

var outNames = []string{"out", "o2", "a-much-longer-output-directory-name"}
var maxProcs = []string{"1", "2", "4", "16"}

type snapshot struct {
	exit    int
	panicky bool
	files   map[string][]byte // rel -> normalised content
	req     []byte            // recorded plugin request (normalised), nil without plugin
	label   string
}

func (s *snapshot) accepted() bool { return s.exit == 0 && !s.panicky }

func judge(c runCase) (verdict, error) {
	v := verdict{}
	harness := func(err error) (verdict, error) { return v, fmt.Errorf("harness: %v", err) }
	bin, err := tg.Thriftgo()
	if err != nil {
		return harness(err)
	}
	if c.K < 2 {
		return harness(fmt.Errorf("case with k=%d", c.K))
	}
	var rec string
	if c.Plugin != "" {
		if rec, err = recorder(); err != nil {
			return harness(err)
		}
	}
	dir, err := os.MkdirTemp("", "c07")
	if err != nil {
		return harness(err)
	}
	defer os.RemoveAll(dir)
	idlDir := filepath.Join(dir, "idl")
	if err := tg.WriteFiles(idlDir, c.Files); err != nil {
		return harness(err)
	}
	var first *snapshot
	for i := 0; i < c.K; i++ {
		name := outNames[i%len(outNames)]
		if c.Plugin != "" {
			name = outNames[0] // the request contains the -o string: keep it fixed
		}
		out := filepath.Join(dir, name)
		// runs 0..2 start from nothing; later ones find the output of an earlier
		// run: every other one of them writes over it, the others start clean
		dirty := false
		if _, err := os.Stat(out); err == nil {
			if i%2 == 1 {
				dirty = true
				// "regardless of previous runs": the earlier output is also made longer,
				// as it would be after a definition was removed from the IDL
				for _, rel := range tg.ListFiles(out) {
					if f, err := os.OpenFile(filepath.Join(out, rel), os.O_APPEND|os.O_WRONLY, 0o644); err == nil {
						f.WriteString("\n// stale tail of a previous, longer output\nvar _ = 0\n")
						f.Close()
					}
				}
			} else if err := os.RemoveAll(out); err != nil {
				return harness(err)
			}
		}
		args := append([]string{}, c.Args...)
		env := []string{"GOMAXPROCS=" + maxProcs[i%len(maxProcs)]}
		recFile := ""
		if c.Plugin != "" {
			p := "rec=" + rec
			if c.Plugin == "patch" {
				p += ":patch"
			}
			args = append(args, "-p", p)
			recFile = filepath.Join(dir, fmt.Sprintf("request-%d.bin", i))
			env = append(env, "VERIF_REC_OUT="+recFile)
		}
		args = append(args, "-o", out, c.Main)
		r := tg.Exec(bin, idlDir, env, 60*time.Second, args...)
		v.Runs++
		v.Millis += r.Dur.Milliseconds()
		if r.Exit != 0 && v.Reject == "" {
			ls := strings.Split(strings.TrimSpace(r.Output), "\n")
			v.Reject = vt.Truncate(ls[len(ls)-1], 200)
		}
		if r.TimedOut {
			v.Status = stTimeout
			return v, nil
		}
		s := &snapshot{exit: r.Exit, panicky: strings.Contains(r.Output, "Recovered from panic"), files: map[string][]byte{},
			label: fmt.Sprintf("run %d (GOMAXPROCS=%s, -o %s%s)", i, maxProcs[i%len(maxProcs)], name, map[bool]string{true: ", directory held a previous run's output", false: ""}[dirty])}
		if first != nil && (s.exit != first.exit || s.panicky != first.panicky) {
			return v, fmt.Errorf("exit status differs between runs of the same command (thriftgo %s -o <dir> %s):\n  %s: exit %d%s\n  %s: exit %d%s\n  output of the latter: %s",
				strings.Join(c.Args, " "), c.Main, first.label, first.exit, panicNote(first.panicky), s.label, s.exit, panicNote(s.panicky), vt.Truncate(r.Output, 600))
		}
		if s.accepted() {
			for _, rel := range tg.ListFiles(out) {
				b, err := os.ReadFile(filepath.Join(out, rel))
				if err != nil {
					return harness(err)
				}
				if bytes.Contains(b, []byte(out)) {
					v.EmbedsOut = true
					b = bytes.ReplaceAll(b, []byte(out), []byte("<OUT>"))
				}
				if c.modulo(fReflDesc) && strings.HasSuffix(rel, "-reflection.go") {
					var ok bool
					if b, ok = canonReflection(b); !ok {
						v.MaskedDescs++
					}
				}
				if c.modulo(fFastImp) && strings.HasPrefix(filepath.Base(rel), "k-") && strings.HasSuffix(rel, ".go") {
					b = canonImports(b)
				}
				s.files[rel] = b
			}
			if recFile != "" {
				b, err := os.ReadFile(recFile)
				if err != nil {
					return v, fmt.Errorf("thriftgo exited 0 with -p rec=<recorder> but the plugin recorded no request (%v); output: %s", err, vt.Truncate(r.Output, 400))
				}
				if c.modulo(fPlugReq) {
					if cb, err := canonStruct(b); err == nil {
						b = cb
					}
				}
				s.req = b
			}
		}
		if first == nil {
			first = s
			v.Files = len(s.files)
			continue
		}
		if !s.accepted() {
			continue
		}
		if msg := diffSnapshots(first, s); msg != "" {
			return v, fmt.Errorf("two runs of the same command differ (thriftgo %s%s -o <dir> %s, cwd and IDL files unchanged)\n%s",
				strings.Join(c.Args, " "), pluginNote(c.Plugin), c.Main, msg)
		}
	}
	if first.accepted() {
		v.Status = stOK
	} else {
		v.Status = stRejected
	}
	return v, nil
}

func panicNote(p bool) string {
	if p {
		return " after a recovered panic"
	}
	return ""
}

func pluginNote(p string) string {
	switch p {
	case "record":
		return " -p rec=<recorder>"
	case "patch":
		return " -p rec=<recorder>:patch"
	}
	return ""
}

func sha(b []byte) string {
	h := sha256.Sum256(b)
	return hex.EncodeToString(h[:6])
}

// diffSnapshots compares the multisets {(rel, sha256)} and the recorded
// requests; "" when equal.
func diffSnapshots(a, b *snapshot) string {
	var onlyA, onlyB, differ []string
	for rel, ca := range a.files {
		cb, ok := b.files[rel]
		switch {
		case !ok:
			onlyA = append(onlyA, rel)
		case sha256.Sum256(ca) != sha256.Sum256(cb):
			differ = append(differ, rel)
		}
	}
	for rel := range b.files {
		if _, ok := a.files[rel]; !ok {
			onlyB = append(onlyB, rel)
		}
	}
	sort.Strings(onlyA)
	sort.Strings(onlyB)
	sort.Strings(differ)
	reqDiffers := !bytes.Equal(a.req, b.req)
	if len(onlyA)+len(onlyB)+len(differ) == 0 && !reqDiffers {
		return ""
	}
	var m strings.Builder
	fmt.Fprintf(&m, "  A = %s\n  B = %s\n", a.label, b.label)
	if len(onlyA) > 0 {
		fmt.Fprintf(&m, "  files only written by A: %s\n", strings.Join(onlyA, ", "))
	}
	if len(onlyB) > 0 {
		fmt.Fprintf(&m, "  files only written by B: %s\n", strings.Join(onlyB, ", "))
	}
	if len(differ) > 0 {
		fmt.Fprintf(&m, "  files with different content: %s\n", strings.Join(differ, ", "))
		rel := differ[0]
		fmt.Fprintf(&m, "  --- A/%s sha256 %s\n  +++ B/%s sha256 %s\n%s", rel, sha(a.files[rel]), rel, sha(b.files[rel]), lineDiff(a.files[rel], b.files[rel]))
	}
	if reqDiffers {
		fmt.Fprintf(&m, "  the request sent to the plugin on stdin differs (%d vs %d bytes, sha256 %s vs %s)\n%s", len(a.req), len(b.req), sha(a.req), sha(b.req), byteDiff(a.req, b.req))
	}
	return m.String()
}

// lineDiff shows the first differing lines with a little context.
func lineDiff(a, b []byte) string {
	la, lb := strings.Split(string(a), "\n"), strings.Split(string(b), "\n")
	i := 0
	for i < len(la) && i < len(lb) && la[i] == lb[i] {
		i++
	}
	var m strings.Builder
	fmt.Fprintf(&m, "  @@ line %d @@\n", i+1)
	if i > 0 {
		fmt.Fprintf(&m, "    %s\n", vt.Truncate(la[i-1], 160))
	}
	// a long line (a canonical descriptor) is shown around its first differing column
	col := 0
	if i < len(la) && i < len(lb) {
		for col < len(la[i]) && col < len(lb[i]) && la[i][col] == lb[i][col] {
			col++
		}
	}
	win := func(l string, first bool) string {
		if !first || len(l) <= 160 {
			return vt.Truncate(l, 160)
		}
		lo, hi := col-60, col+100
		if lo < 0 {
			lo = 0
		}
		if hi > len(l) {
			hi = len(l)
		}
		return fmt.Sprintf("...(column %d) %s...", lo+1, l[lo:hi])
	}
	for j := i; j < i+3 && j < len(la); j++ {
		fmt.Fprintf(&m, "  - %s\n", win(la[j], j == i))
	}
	for j := i; j < i+3 && j < len(lb); j++ {
		fmt.Fprintf(&m, "  + %s\n", win(lb[j], j == i))
	}
	return m.String()
}

// byteDiff shows the surroundings of the first differing byte.
func byteDiff(a, b []byte) string {
	i := 0
	for i < len(a) && i < len(b) && a[i] == b[i] {
		i++
	}
	win := func(x []byte) string {
		lo, hi := i-24, i+40
		if lo < 0 {
			lo = 0
		}
		if hi > len(x) {
			hi = len(x)
		}
		if lo > hi {
			lo = hi
		}
		return fmt.Sprintf("%q", x[lo:hi])
	}
	return fmt.Sprintf("  @@ first differing byte at offset %d @@\n  - %s\n  + %s\n", i, win(a), win(b))
}

// ---------- the generator ----------

// options that can be exercised offline (the list of checks/c01; code_ref*,
// streaming, use_option and skip_go_gen need things that are not available or
// write nothing).
var boolOpts = []string{
	"ignore_initialisms", "json_enum_as_text", "enum_marshal", "enum_unmarshal", "gen_setter", "gen_db_tag", "omitempty_for_optional",
	"use_type_alias", "validate_set", "value_type_in_container", "scan_value_for_enum", "reorder_fields", "typed_enum_string",
	"keep_unknown_fields", "gen_deep_equal", "compatible_names", "reserve_comments", "nil_safe", "frugal_tag", "unescape_double_quote",
	"gen_type_meta", "gen_json_tag", "always_gen_json_tag", "snake_style_json_tag", "lower_camel_style_json_tag", "with_reflection",
	"enum_as_int_32", "trim_idl", "json_stringer", "with_field_mask", "field_mask_halfway", "field_mask_zero_required",
	"no_default_serdes", "no_alias_type_reflection_method", "enable_ref_interface", "no_fmt", "skip_empty", "no_processor",
	"get_enum_annotation", "apache_warning",
}

func optOn(opts []string, name string) bool {
	v := false
	for _, o := range opts {
		if o == name || o == name+"=true" {
			v = true
		}
		if o == name+"=false" {
			v = false
		}
	}
	return v
}

func randomOptions(rt *rapid.T) []string {
	var opts []string
	n := rapid.IntRange(1, 8).Draw(rt, "nopts")
	for i := 0; i < n; i++ {
		o := rapid.SampledFrom(boolOpts).Draw(rt, "opt")
		switch rapid.IntRange(0, 3).Draw(rt, "optform") {
		case 0:
		case 1:
			o += "=true"
		default:
			if rapid.Bool().Draw(rt, "optoff") {
				o += "=false"
			}
		}
		opts = append(opts, o)
	}
	if rapid.IntRange(0, 3).Draw(rt, "style") == 0 {
		opts = append(opts, "naming_style="+rapid.SampledFrom([]string{"golint", "apache", "thriftgo"}).Draw(rt, "ns"))
	}
	if rapid.IntRange(0, 4).Draw(rt, "tmpl") == 0 {
		opts = append(opts, "template="+rapid.SampledFrom([]string{"slim", "raw_struct"}).Draw(rt, "template"))
		if rapid.Bool().Draw(rt, "nested") {
			opts = append(opts, "enable_nested_struct")
		}
	}
	// documented requirement: with_field_mask needs with_reflection
	if optOn(opts, "with_field_mask") && !optOn(opts, "with_reflection") {
		opts = append(opts, "with_reflection")
	}
	return opts
}

// genConfig draws the -g argument and its evidence class.
func genConfig(rt *rapid.T) (class string, backend string, opts []string) {
	switch rapid.IntRange(0, 10).Draw(rt, "config") {
	case 0:
		return "default", "go", nil
	case 1:
		return "with_reflection", "go", []string{"with_reflection"}
	case 2:
		return "gen_type_meta", "go", []string{"gen_type_meta"}
	case 3:
		return "with_field_mask", "go", []string{"with_field_mask", "with_reflection"}
	case 4:
		return "fastgo", "fastgo", nil
	case 5:
		return "reserve_comments", "go", []string{"reserve_comments"}
	case 6:
		return "template_slim", "go", []string{"template=slim"}
	case 7:
		return "random_fastgo", "fastgo", randomOptions(rt)
	default:
		return "random_go", "go", randomOptions(rt)
	}
}

var extraKeys = []string{"k1", "k2", "k3", "api.x", "a.b.c", "vt.note", "K", "some_key", "z.last", "A.first"}

// boost adds what can vary from run to run to a drawn program: several
// annotation keys on one node, map constants with several entries, a service
// whose methods throw several exception types.
func boost(rt *rapid.T, p *idl.Program) {
	moreAnnos := func(as []idl.Anno, label string) []idl.Anno {
		if rapid.IntRange(0, 5).Draw(rt, label) != 0 {
			return as
		}
		n := rapid.IntRange(2, 5).Draw(rt, "nextra")
		keys := rapid.Permutation(extraKeys).Draw(rt, "extrakeys")[:n]
		for _, k := range keys {
			as = append(as, idl.Anno{Key: k, Val: idl.PlainLit(rapid.SampledFrom([]string{"v", "1", "a b", ""}).Draw(rt, "extraval"))})
		}
		return as
	}
	for _, f := range p.Files {
		for _, d := range f.Defs {
			d.Annos = moreAnnos(d.Annos, "boostdef")
			for _, x := range d.Fields {
				x.Annos = moreAnnos(x.Annos, "boostfield")
			}
			for _, x := range d.Values {
				x.Annos = moreAnnos(x.Annos, "boostenumval")
			}
			for _, x := range d.Funcs {
				x.Annos = moreAnnos(x.Annos, "boostfunc")
			}
		}
	}
	n := 0
	for _, f := range p.Files {
		// map constants
		for i := rapid.IntRange(0, 2).Draw(rt, "nmapconst"); i > 0; i-- {
			n++
			ne := rapid.IntRange(2, 9).Draw(rt, "nentries")
			d := &idl.Def{Kind: idl.KConst, Name: fmt.Sprintf("CvtMap%d", n), File: f}
			v := &idl.Value{Kind: idl.VMap, Keys: []*idl.Value{}, List: []*idl.Value{}}
			if rapid.Bool().Draw(rt, "strkey") {
				d.Type = &idl.Type{Base: "map", Key: &idl.Type{Base: "string"}, Elem: &idl.Type{Base: "i32"}}
				for j := 0; j < ne; j++ {
					v.Keys = append(v.Keys, &idl.Value{Kind: idl.VLit, Lit: idl.PlainLit(fmt.Sprintf("key%d", j))})
					v.List = append(v.List, &idl.Value{Kind: idl.VInt, Int: int64(j * 7)})
				}
			} else {
				d.Type = &idl.Type{Base: "map", Key: &idl.Type{Base: "i64"}, Elem: &idl.Type{Base: "string"}}
				for j := 0; j < ne; j++ {
					v.Keys = append(v.Keys, &idl.Value{Kind: idl.VInt, Int: int64(100 - 3*j)})
					v.List = append(v.List, &idl.Value{Kind: idl.VLit, Lit: idl.PlainLit(fmt.Sprintf("val%d", j))})
				}
			}
			d.Value = v
			at := rapid.IntRange(0, len(f.Defs)).Draw(rt, "mapconstat")
			f.Defs = append(f.Defs[:at:at], append([]*idl.Def{d}, f.Defs[at:]...)...)
		}
		// a service with several exception types
		if rapid.IntRange(0, 2).Draw(rt, "excsvc") == 0 {
			n++
			ne := rapid.IntRange(2, 5).Draw(rt, "nexc")
			var excs []*idl.Def
			for j := 0; j < ne; j++ {
				e := &idl.Def{Kind: idl.KException, Name: fmt.Sprintf("TvtExc%d_%d", n, j), File: f,
					Fields: []*idl.Field{{ID: 1, Explicit: true, Name: "msg", Type: &idl.Type{Base: "string"}}}}
				excs = append(excs, e)
			}
			svc := &idl.Def{Kind: idl.KService, Name: fmt.Sprintf("TvtSvc%d", n), File: f}
			nf := rapid.IntRange(1, 3).Draw(rt, "nexcfuncs")
			for j := 0; j < nf; j++ {
				fn := &idl.Func{Name: fmt.Sprintf("mvt%d_%d", n, j), HasThrows: true, Ret: &idl.Type{Base: "i32"}}
				for x, e := range rapid.Permutation(excs).Draw(rt, "throwsorder") {
					if x > 0 && rapid.IntRange(0, 3).Draw(rt, "dropthrow") == 0 {
						continue
					}
					fn.Throws = append(fn.Throws, &idl.Field{ID: int32(len(fn.Throws) + 1), Explicit: true, Name: fmt.Sprintf("e%d", x), Type: &idl.Type{Ref: e}})
				}
				svc.Funcs = append(svc.Funcs, fn)
			}
			f.Defs = append(append(append([]*idl.Def{}, excs...), f.Defs...), svc)
		}
	}
}

// shape facts for the evidence
type shape struct {
	multiFile, mapConst2, annoKeys2 bool
}

func distinctKeys(as []idl.Anno) int {
	m := map[string]bool{}
	for _, a := range as {
		m[a.Key] = true
	}
	return len(m)
}

func valueHasMap2(v *idl.Value) bool {
	if v == nil {
		return false
	}
	if v.Kind == idl.VMap && len(v.Keys) >= 2 {
		return true
	}
	for _, x := range v.Keys {
		if valueHasMap2(x) {
			return true
		}
	}
	for _, x := range v.List {
		if valueHasMap2(x) {
			return true
		}
	}
	return false
}

func shapeOf(p *idl.Program) shape {
	s := shape{multiFile: len(p.Files) > 1}
	an := func(as []idl.Anno) {
		if distinctKeys(as) >= 2 {
			s.annoKeys2 = true
		}
	}
	var ty func(t *idl.Type)
	ty = func(t *idl.Type) {
		if t == nil {
			return
		}
		an(t.Annos)
		ty(t.Key)
		ty(t.Elem)
	}
	fields := func(fs []*idl.Field) {
		for _, f := range fs {
			an(f.Annos)
			ty(f.Type)
			if valueHasMap2(f.Default) {
				s.mapConst2 = true
			}
		}
	}
	for _, f := range p.Files {
		for _, d := range f.Defs {
			an(d.Annos)
			ty(d.Type)
			if valueHasMap2(d.Value) {
				s.mapConst2 = true
			}
			fields(d.Fields)
			for _, ev := range d.Values {
				an(ev.Annos)
			}
			for _, fn := range d.Funcs {
				an(fn.Annos)
				ty(fn.Ret)
				fields(fn.Args)
				fields(fn.Throws)
			}
		}
	}
	return s
}

func modelCfg(rt *rapid.T) idl.Cfg {
	c := idl.GoSafe()
	c.MaxFiles = rapid.IntRange(3, 4).Draw(rt, "maxfiles")
	c.MaxDefs = 3
	c.Annotations = true
	c.NoNamespace = true
	c.SharedNS = rapid.IntRange(0, 3).Draw(rt, "sharedns") == 0
	return c
}

// once a difference was seen in this process, later cases (rapid is shrinking)
// use more runs: a two-entry Go map comes out in its minority order in only
// about one process of eight, so four runs miss a single such map more often
// than not and shrinking would stop early (rapid gives up as soon as a failing
// case passes once).  The judge stops at the first difference, so only cases
// that agree pay for all runs.
var sawDifference bool

// stableTB keeps the failure text that rapid sees independent of which runs
// happened to differ: rapid only shrinks failures it can reproduce with the
// same message.  The details go to the log and to the replay file.
type stableTB struct{ rt *rapid.T }

func (s stableTB) Logf(format string, args ...interface{}) { s.rt.Logf(format, args...) }
func (s stableTB) Fatalf(format string, args ...interface{}) {
	s.rt.Logf(format, args...)
	s.rt.Fatalf("%s/deterministic: runs of one command line on the same files differ (details in the log above and in the replay file)", prop)
}

func runs() int {
	k := 4
	if vt.Thorough() {
		k = 12
	}
	if sawDifference && k < 48 {
		k = 48
	}
	return k
}

func caseKey(c runCase) string {
	var ks []string
	for k := range c.Files {
		ks = append(ks, k)
	}
	sort.Strings(ks)
	var b strings.Builder
	for _, k := range ks {
		b.WriteString(k + "\x00" + c.Files[k] + "\x00")
	}
	b.WriteString(strings.Join(c.Args, " ") + "\x00" + c.Plugin)
	return b.String()
}

func TestDeterministic(t *testing.T) {
	rapid.Check(t, func(rt *rapid.T) {
		p := idl.Gen(rt, modelCfg(rt))
		boost(rt, p)
		class, backend, opts := genConfig(rt)
		if rapid.IntRange(0, 3).Draw(rt, "prefix") == 0 {
			opts = append(opts, "package_prefix=vmod/gen")
		}
		g := backend
		if len(opts) > 0 {
			g += ":" + strings.Join(opts, ",")
		}
		c := runCase{Main: p.Files[0].Path, Files: p.Texts(nil), Args: []string{"-g", g}, K: runs()}
		recurse := rapid.IntRange(0, 4).Draw(rt, "recurse") > 0
		if recurse {
			c.Args = append(c.Args, "-r")
		}
		switch rapid.IntRange(0, 9).Draw(rt, "plugin") { // rapid favours small values: the plugin cases sit at the far end
		case 8:
			c.Plugin = "record"
		case 9:
			c.Plugin = "patch"
		}
		// development aid for producing small witnesses: VERIF_C07_ONLY=reflection|plugin
		switch os.Getenv("VERIF_C07_ONLY") {
		case "reflection":
			c.Args, c.Plugin, backend, opts = []string{"-g", "go:with_reflection", "-r"}, "", "go", []string{"with_reflection"}
		case "plugin":
			c.Args, c.Plugin, backend, opts = []string{"-g", "go", "-r"}, "record", "go", nil
		}
		// (the fastgo backend writes the same *-reflection.go files)
		if optOn(opts, "with_reflection") && vt.Known(prop, fReflDesc) {
			c.Modulo = append(c.Modulo, fReflDesc)
			vt.Excluded(fReflDesc)
		}
		if backend == "fastgo" && optOn(opts, "no_fmt") && vt.Known(prop, fFastImp) {
			c.Modulo = append(c.Modulo, fFastImp)
			vt.Excluded(fFastImp)
		}
		if c.Plugin != "" && vt.Known(prop, fPlugReq) {
			c.Modulo = append(c.Modulo, fPlugReq)
			vt.Excluded(fPlugReq)
		}
		sh := shapeOf(p)
		vt.Eval()
		v, err := judge(c)
		vt.ClassN("thriftgo_runs", int64(v.Runs))
		vt.ClassN("thriftgo_ms", v.Millis)
		if os.Getenv("VERIF_SURVEY") != "" && v.Status == stRejected {
			fmt.Fprintf(os.Stderr, "SURVEY rejected | %s | %s\n", strings.Join(c.Args, " "), v.Reject)
		}
		if v.Status != "" {
			vt.Class("status:" + v.Status)
		}
		vt.Class("config:" + class)
		vt.ClassIf(c.Plugin != "", "with_plugin")
		vt.ClassIf(c.Plugin == "patch", "plugin_patches_insertion_points")
		vt.ClassIf(sh.multiFile, "multi_file")
		vt.ClassIf(sh.mapConst2, "map_constant_ge2_entries")
		vt.ClassIf(sh.annoKeys2, "node_ge2_annotation_keys")
		vt.ClassIf(!recurse, "without_-r")
		vt.ClassIf(v.EmbedsOut, "output_embeds_outdir")
		vt.ClassIf(v.MaskedDescs > 0, "descriptor_masked_undecodable")
		vt.ClassIf(v.Status == stOK && v.Files >= 2, "ge2_generated_files")
		if v.Status == stOK && (sh.annoKeys2 || sh.mapConst2) && v.Files >= 2 {
			vt.Nontrivial(caseKey(c))
		}
		vt.Sample(map[string]interface{}{"program": p.Describe(), "args": strings.Join(c.Args, " "), "plugin": c.Plugin, "k": c.K, "status": v.Status, "files": v.Files})
		if err != nil {
			if !strings.HasPrefix(err.Error(), "harness:") {
				sawDifference = true
			}
			vt.Fail(stableTB{rt}, prop, "deterministic", c, "%v", err)
		}
	})
}

// replayRuns: a witness of a run-to-run difference fails only with some
// probability per run (a two-entry map: about 1/8 per process), so saved
// cases are re-run up to 80 times; the judge stops at the first difference.
const replayRuns = 80

func TestReplay(t *testing.T) {
	vt.Replay(t, prop, map[string]vt.Handler{
		"deterministic": func(raw json.RawMessage) error {
			var c runCase
			if err := vt.Decode(raw, &c); err != nil {
				return err
			}
			if c.K < replayRuns {
				c.K = replayRuns
			}
			_, err := judge(c)
			return err
		},
	})
}
