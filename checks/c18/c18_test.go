// C18 — generated DeepEqual is structural equality; the set-uniqueness check of
// Write rejects exactly the sets with two equal elements.
package c18

import (
	"encoding/json"
	"fmt"
	"math"
	"strings"
	"testing"

	"pgregory.net/rapid"

	"verif/internal/drv"
	"verif/internal/idl"
	"verif/internal/ref"
	"verif/internal/vt"
)

const prop = "C18"

// ids of the listed findings (known/C18/findings.json); each is an exclusion switch
const (
	findMapLookup = "map-lookup-without-presence-check" // S10a
	findPtrKeys   = "struct-keyed-map-pointer-identity" // S10b
)

func TestMain(m *testing.M) {
	vt.AtExit(drv.CloseAll)
	vt.Main(m)
}

// eqCase is one (program, configuration, struct, pair of values, mode).
type eqCase struct {
	Main   string            `json:"main"`
	Files  map[string]string `json:"files"`
	Gen    string            `json:"gen"`
	Schema *ref.SchemaJ      `json:"schema"`
	Struct string            `json:"struct"`
	A      interface{}       `json:"a"` // driver JSON form; null = nil pointer
	B      interface{}       `json:"b"`
	Mode   string            `json:"mode"`   // pair | same_object | write (write uses A only)
	Kind   string            `json:"kind"`   // how the pair was made (informational)
	Expect string            `json:"expect"` // pair: equal | differ | any ; write: error | ok | any
}

// ---------- reference equality ----------

// conv selects the reading of the statement.
//
//	strict  (zero value): the letter of the statement as the Go mapping realises it.
//	liberal: every point the statement leaves open counts as "equal".  An
//	         expectation is asserted only when both readings agree.
//	bugA / bugB: simulation of the two listed findings (used only to recognise
//	         exactly the shapes they explain, never to build an expectation).
type conv struct {
	liberal bool
	bugA    bool // map lookup without presence check: a missing key reads as the zero value
	bugB    bool // struct-typed map keys are Go pointers: a lookup by another object never hits
}

func isContainer(t *ref.Type) bool {
	return t.Kind == ref.List || t.Kind == ref.Set || t.Kind == ref.Map
}

// eq compares two present values of type t.  (A nil container nested in a
// container is the empty one: "nil and empty containers count as equal".)
func (c conv) eq(t *ref.Type, a, b ref.V) bool {
	if isContainer(t) || t.Kind == ref.Binary {
		// a nil slice/map as an element or map value has no "unset" reading: it is the empty one
		if a == nil {
			a = ref.Zero(t)
		}
		if b == nil {
			b = ref.Zero(t)
		}
	}
	if a == nil || b == nil {
		return a == nil && b == nil
	}
	switch t.Kind {
	case ref.Bool:
		return a.(bool) == b.(bool)
	case ref.Byte, ref.I16, ref.I32, ref.I64, ref.Enum:
		return a.(int64) == b.(int64)
	case ref.Double:
		x, y := a.(float64), b.(float64)
		same := math.Float64bits(x) == math.Float64bits(y)
		if c.liberal {
			return same || x == y // NaN with itself, -0 with 0: the statement is silent
		}
		return same && x == x
	case ref.String, ref.Binary:
		return string(a.([]byte)) == string(b.([]byte))
	case ref.List, ref.Set:
		// 5a: sets are compared in order ("element-wise")
		x, y := a.(*ref.ListV), b.(*ref.ListV)
		if len(x.E) != len(y.E) {
			return false
		}
		for i := range x.E {
			if !c.eq(t.Elem, x.E[i], y.E[i]) {
				return false
			}
		}
		return true
	case ref.Map:
		x, y := a.(*ref.MapV), b.(*ref.MapV)
		if len(x.K) != len(y.K) {
			return false
		}
		for i, k := range x.K {
			j := -1
			if !(c.bugB && t.Key.Kind == ref.Struct) {
				for jj := range y.K {
					if c.eq(t.Key, k, y.K[jj]) {
						j = jj
						break
					}
				}
			}
			if j < 0 {
				if c.bugA && c.eqZero(t.Elem, x.E[i]) {
					continue
				}
				return false
			}
			if !c.eq(t.Elem, x.E[i], y.E[j]) {
				return false
			}
		}
		return true
	}
	return c.eqStruct(t.Struct, a.(*ref.StructV), b.(*ref.StructV))
}

// eqZero: does v compare equal to the Go zero value of its type (bug simulation only)?
func (c conv) eqZero(t *ref.Type, v ref.V) bool {
	if v == nil {
		return true
	}
	switch t.Kind {
	case ref.Bool:
		return !v.(bool)
	case ref.Byte, ref.I16, ref.I32, ref.I64, ref.Enum:
		return v.(int64) == 0
	case ref.Double:
		return v.(float64) == 0
	case ref.String, ref.Binary:
		return len(v.([]byte)) == 0
	case ref.List, ref.Set:
		return len(v.(*ref.ListV).E) == 0
	case ref.Map:
		return len(v.(*ref.MapV).K) == 0
	}
	return false // a non-nil struct against a nil pointer
}

func (c conv) eqStruct(st *ref.StructT, a, b *ref.StructV) bool {
	for _, f := range st.Fields {
		if !c.field(f, a.F[f.ID], b.F[f.ID]) {
			return false
		}
	}
	return true
}

// reps lists the values a field content stands for under the reading (nil =
// unset); wild = equal to anything (liberal reading of a nil pointer in a
// non-optional struct-typed field, about which the statement says nothing but
// "no panic").
func (c conv) reps(f *ref.FieldT, v ref.V) (out []ref.V, wild bool) {
	if v != nil {
		return []ref.V{v}, false
	}
	t := f.Type
	if f.Req != idl.ReqOptional {
		switch {
		case isContainer(t) || t.Kind == ref.Binary:
			return []ref.V{ref.Zero(t)}, false // nil = empty
		case t.Kind == ref.Struct:
			return []ref.V{nil}, c.liberal
		case f.HasDef:
			return []ref.V{f.Default}, false // the constructor put the default there
		}
		return []ref.V{ref.Zero(t)}, false
	}
	switch {
	case isContainer(t):
		out = []ref.V{ref.Zero(t)} // nil = empty, also for optional containers
	case t.Kind == ref.Binary:
		out = []ref.V{nil}
		if c.liberal {
			out = append(out, ref.Zero(t)) // is binary a scalar or a container?  not asserted
		}
	default:
		out = []ref.V{nil} // "an unset optional scalar or struct differs from every set one"
	}
	if c.liberal && f.HasDef {
		out = append(out, f.Default) // granted convention: holding the default = unset
	}
	return out, false
}

func (c conv) field(f *ref.FieldT, a, b ref.V) bool {
	as, wa := c.reps(f, a)
	bs, wb := c.reps(f, b)
	if wa || wb {
		return true
	}
	for _, x := range as {
		for _, y := range bs {
			if x == nil || y == nil {
				if x == nil && y == nil {
					return true
				}
				continue
			}
			if c.eq(f.Type, x, y) {
				return true
			}
		}
	}
	return false
}

// top compares two top-level objects (nil = nil pointer).
func (c conv) top(st *ref.StructT, a, b *ref.StructV) bool {
	if a == nil || b == nil {
		if a == nil && b == nil {
			return true
		}
		return c.liberal // nil receiver against an object: only "no panic" is stated
	}
	return c.eqStruct(st, a, b)
}

// hasDup: does some set anywhere in the value (as Write walks it: every present
// field) hold two equal elements?
func (c conv) hasDup(t *ref.Type, v ref.V) bool {
	if v == nil {
		return false
	}
	switch t.Kind {
	case ref.List, ref.Set:
		l := v.(*ref.ListV)
		if t.Kind == ref.Set {
			for i := range l.E {
				for j := i + 1; j < len(l.E); j++ {
					if c.eq(t.Elem, l.E[i], l.E[j]) {
						return true
					}
				}
			}
		}
		for _, e := range l.E {
			if c.hasDup(t.Elem, e) {
				return true
			}
		}
	case ref.Map:
		m := v.(*ref.MapV)
		for i := range m.K {
			if c.hasDup(t.Key, m.K[i]) || c.hasDup(t.Elem, m.E[i]) {
				return true
			}
		}
	case ref.Struct:
		s := v.(*ref.StructV)
		for _, f := range t.Struct.Fields {
			if c.hasDup(f.Type, s.F[f.ID]) {
				return true
			}
		}
	}
	return false
}

func word(b bool, yes, no string) string {
	if b {
		return yes
	}
	return no
}

// expectPair: what the statement says about DeepEqual on (a, b).
func expectPair(st *ref.StructT, a, b *ref.StructV, mode string) string {
	if mode == "same_object" {
		return "equal" // reflexive
	}
	s, l := conv{}.top(st, a, b), conv{liberal: true}.top(st, a, b)
	if s != l {
		return "any"
	}
	return word(s, "equal", "differ")
}

func expectWrite(st *ref.StructT, a *ref.StructV) string {
	top := &ref.Type{Kind: ref.Struct, Struct: st}
	s, l := conv{}.hasDup(top, a), conv{liberal: true}.hasDup(top, a)
	if s != l {
		return "any"
	}
	return word(s, "error", "ok")
}

// explainedBy returns the id of a listed finding whose simulation contradicts
// the expectation on this case ("" if none): exactly the excluded shapes.
func explainedBy(st *ref.StructT, a, b *ref.StructV, mode, expect string) string {
	if expect == "any" || mode == "same_object" {
		return ""
	}
	top := &ref.Type{Kind: ref.Struct, Struct: st}
	differs := func(c conv) bool {
		if mode == "write" {
			return word(c.hasDup(top, a), "error", "ok") != expect
		}
		return word(c.top(st, a, b), "equal", "differ") != expect || word(c.top(st, b, a), "equal", "differ") != expect
	}
	kA, kB := vt.Known(prop, findMapLookup), vt.Known(prop, findPtrKeys)
	if kA && differs(conv{bugA: true}) {
		return findMapLookup
	}
	if kB && (differs(conv{bugB: true}) || differs(conv{bugA: true, bugB: true})) {
		return findPtrKeys
	}
	return ""
}

// ---------- judge ----------

// asV avoids a typed nil pointer inside the value interface.
func asV(v *ref.StructV) ref.V {
	if v == nil {
		return nil
	}
	return v
}

func show(v *ref.StructV) string {
	if v == nil {
		return "(nil pointer)"
	}
	return ref.Show(v)
}

type outcome struct {
	status string // judged | rejected | nocompile | unmapped | no_deepequal | harness
	err    error
}

func roundJSON(v interface{}) interface{} {
	b, _ := json.Marshal(v)
	var out interface{}
	json.Unmarshal(b, &out)
	return out
}

func parseTop(st *ref.StructT, raw interface{}) (*ref.StructV, error) {
	v, err := ref.StructFromJSON(st, roundJSON(raw))
	if err != nil || v == nil {
		return nil, err
	}
	return v.(*ref.StructV), nil
}

func judge(c eqCase) outcome {
	sess, err := drv.Open(c.Files, c.Main, c.Gen, nil)
	if err != nil {
		return outcome{"harness", fmt.Errorf("harness: %v", err)}
	}
	if sess.Status != "ok" {
		return outcome{sess.Status, nil}
	}
	sch, err := ref.Import(c.Schema)
	if err != nil {
		return outcome{"harness", fmt.Errorf("harness: %v", err)}
	}
	st := sch.ByName(c.Struct)
	if st == nil {
		return outcome{"harness", fmt.Errorf("harness: struct %s not in schema", c.Struct)}
	}
	ti, ok := sess.Type(c.Struct)
	if !ok {
		return outcome{"unmapped", nil}
	}
	a, err := parseTop(st, c.A)
	if err != nil {
		return outcome{"harness", fmt.Errorf("harness: %v", err)}
	}
	b, err := parseTop(st, c.B)
	if err != nil {
		return outcome{"harness", fmt.Errorf("harness: %v", err)}
	}
	call := func(req map[string]interface{}) (map[string]interface{}, error) {
		resp, err := sess.Proc.Call(req)
		if err != nil {
			return nil, fmt.Errorf("harness: %v", err)
		}
		if h, ok := resp["harness"]; ok {
			return nil, fmt.Errorf("harness: driver: %v", h)
		}
		return resp, nil
	}
	switch c.Mode {
	case "pair", "same_object":
		if !ti.Methods["DeepEqual"] {
			if st.Kind == "args" || st.Kind == "result" {
				return outcome{"no_deepequal", nil} // synthesized, not a struct-like of the IDL
			}
			return outcome{"judged", fmt.Errorf("gen_deep_equal: %s (%s) has no DeepEqual method", c.Struct, ti.Key)}
		}
		exp := expectPair(st, a, b, c.Mode)
		if c.Expect != "" && c.Expect != exp {
			return outcome{"harness", fmt.Errorf("harness: stored expectation %s, recomputed %s", c.Expect, exp)}
		}
		resp, err := call(map[string]interface{}{"op": "deepequal", "type": ti.Key, "a": c.A, "b": c.B, "same_object": c.Mode == "same_object"})
		if err != nil {
			return outcome{"harness", err}
		}
		what := fmt.Sprintf("%s.DeepEqual [%s]\n  a %s\n  b %s", c.Struct, c.Kind, show(a), show(b))
		if c.Mode == "same_object" {
			what = fmt.Sprintf("%s: x.DeepEqual(x)\n  x %s", c.Struct, show(a))
		}
		if p, ok := resp["panic"]; ok {
			return outcome{"judged", fmt.Errorf("DeepEqual panicked: %v\n  %s", p, what)}
		}
		ab, ok1 := resp["ab"].(bool)
		ba, ok2 := resp["ba"].(bool)
		if !ok1 || !ok2 {
			return outcome{"harness", fmt.Errorf("harness: driver response %v", resp)}
		}
		if ab != ba {
			return outcome{"judged", fmt.Errorf("DeepEqual is not symmetric: a.DeepEqual(b)=%v, b.DeepEqual(a)=%v (by the statement the values %s)\n  %s", ab, ba, map[string]string{"any": "are not decided", "equal": "are equal", "differ": "differ"}[exp], what)}
		}
		if exp == "equal" && !ab {
			return outcome{"judged", fmt.Errorf("DeepEqual reports equal values as different\n  %s", what)}
		}
		if exp == "differ" && ab {
			return outcome{"judged", fmt.Errorf("DeepEqual reports different values as equal\n  %s", what)}
		}
		return outcome{"judged", nil}
	case "write":
		if a == nil {
			return outcome{"harness", fmt.Errorf("harness: write of nil")}
		}
		exp := expectWrite(st, a)
		if c.Expect != "" && c.Expect != exp {
			return outcome{"harness", fmt.Errorf("harness: stored expectation %s, recomputed %s", c.Expect, exp)}
		}
		resp, err := call(map[string]interface{}{"op": "write", "type": ti.Key, "value": c.A})
		if err != nil {
			return outcome{"harness", err}
		}
		if p, ok := resp["panic"]; ok {
			return outcome{"judged", fmt.Errorf("Write of %s panicked: %v\n  value %s", c.Struct, p, show(a))}
		}
		msg, _ := resp["err"].(string)
		failed := resp["err"] != nil
		if exp == "error" && !failed {
			return outcome{"judged", fmt.Errorf("Write of %s accepted a set with two equal elements\n  value %s", c.Struct, show(a))}
		}
		if exp == "ok" && failed {
			if !strings.Contains(msg, "not unique") {
				return outcome{"write_other_error", nil} // not the uniqueness check: C02 decides valid values
			}
			return outcome{"judged", fmt.Errorf("Write of %s rejected sets without equal elements: %s\n  value %s", c.Struct, msg, show(a))}
		}
		return outcome{"judged", nil}
	}
	return outcome{"harness", fmt.Errorf("harness: unknown mode %s", c.Mode)}
}

// ---------- generation ----------

// options that must not change DeepEqual or the uniqueness check (validate_set=false switches the latter off)
var presentation = []string{"naming_style=golint", "naming_style=apache", "ignore_initialisms", "gen_setter", "gen_db_tag", "omitempty_for_optional=false",
	"validate_set=false", "scan_value_for_enum=false", "reorder_fields", "typed_enum_string", "compatible_names",
	"reserve_comments", "nil_safe", "frugal_tag", "gen_type_meta", "gen_json_tag=false", "snake_style_json_tag", "lower_camel_style_json_tag",
	"json_enum_as_text", "enum_marshal", "enum_unmarshal", "enum_as_int_32", "json_stringer", "get_enum_annotation", "keep_unknown_fields",
	"with_reflection", "with_field_mask,with_reflection", "use_type_alias=false", "value_type_in_container", "skip_empty", "no_processor"}

func modelCfg() idl.Cfg {
	c := idl.GoSafe()
	c.MaxFiles = 2
	c.MaxDefs = 3
	c.Annotations = false
	c.NastyLits = false
	c.Comments = false
	c.DistinctThrows = true
	c.NoZeroThrowsID = true
	return c
}

func genSpec(rt *rapid.T) string {
	opts := []string{"gen_deep_equal"}
	n := rapid.IntRange(0, 2).Draw(rt, "nopts")
	for i := 0; i < n; i++ {
		o := rapid.SampledFrom(presentation).Draw(rt, "opt")
		if excludedOption(o) {
			continue
		}
		opts = append(opts, o)
	}
	return "go:" + strings.Join(opts, ",")
}

// excludedOption: options under which C01 has a listed finding that prevents compilation for common shapes.
func excludedOption(o string) bool {
	for _, k := range []string{"use_type_alias=false", "value_type_in_container"} {
		if o == k && vt.Known("C01", "option:"+k) {
			vt.Excluded("C01-option:" + k)
			return true
		}
	}
	return false
}

func clone(v ref.V) ref.V {
	switch x := v.(type) {
	case []byte:
		return append([]byte{}, x...)
	case *ref.ListV:
		o := &ref.ListV{E: []ref.V{}}
		for _, e := range x.E {
			o.E = append(o.E, clone(e))
		}
		return o
	case *ref.MapV:
		o := &ref.MapV{K: []ref.V{}, E: []ref.V{}}
		for i := range x.K {
			o.K = append(o.K, clone(x.K[i]))
			o.E = append(o.E, clone(x.E[i]))
		}
		return o
	case *ref.StructV:
		if x == nil {
			return nil
		}
		o := ref.NewStruct()
		for id, fv := range x.F {
			o.F[id] = clone(fv)
		}
		return o
	}
	return v
}

var liberal = conv{liberal: true}

// sanitise keeps the values inside what the statement decides: -0 becomes 0
// (Go's == and bit equality disagree), and set elements / map keys that could
// be called equal under any reading are dropped (the reference generator only
// guarantees exact inequality).  In place.
func sanitise(t *ref.Type, v ref.V) ref.V {
	switch t.Kind {
	case ref.Double:
		if d, ok := v.(float64); ok && d == 0 {
			return float64(0)
		}
	case ref.List, ref.Set:
		l := v.(*ref.ListV)
		var out []ref.V
	elems:
		for _, e := range l.E {
			e = sanitise(t.Elem, e)
			if t.Kind == ref.Set {
				for _, o := range out {
					if liberal.eq(t.Elem, o, e) {
						continue elems
					}
				}
			}
			out = append(out, e)
		}
		l.E = append([]ref.V{}, out...)
	case ref.Map:
		m := v.(*ref.MapV)
		var ks, es []ref.V
	keys:
		for i := range m.K {
			k := sanitise(t.Key, m.K[i])
			for _, o := range ks {
				if liberal.eq(t.Key, o, k) {
					continue keys
				}
			}
			ks = append(ks, k)
			es = append(es, sanitise(t.Elem, m.E[i]))
		}
		m.K, m.E = append([]ref.V{}, ks...), append([]ref.V{}, es...)
	case ref.Struct:
		s := v.(*ref.StructV)
		for _, f := range t.Struct.Fields {
			if fv, ok := s.F[f.ID]; ok && fv != nil {
				s.F[f.ID] = sanitise(f.Type, fv)
			}
		}
	}
	return v
}

var genOpts = ref.GenOpts{NoNaN: true}

func genTop(rt *rapid.T, st *ref.StructT) *ref.StructV {
	v := ref.GenStruct(rt, st, genOpts)
	if v == nil {
		return nil
	}
	// clone first: declared defaults are shared with the schema
	return sanitise(&ref.Type{Kind: ref.Struct, Struct: st}, clone(v)).(*ref.StructV)
}

// genType draws a value of any type through a one-field wrapper struct.
func genType(rt *rapid.T, t *ref.Type) ref.V {
	w := &ref.StructT{Name: "_", Kind: "struct", Fields: []*ref.FieldT{{ID: 1, Name: "v", Req: idl.ReqDefault, Type: t}}}
	v := ref.GenStruct(rt, w, ref.GenOpts{NoNaN: true, MaxDepth: 2})
	if v == nil || v.F[1] == nil {
		return nil
	}
	return sanitise(t, clone(v.F[1]))
}

// mutator changes exactly one leaf of a value in place.
type mutator struct {
	rt     *rapid.T
	what   string
	depth  int
	mapKey bool // the only difference is one map key (same size, same values)
}

func (m *mutator) done(what string, d int) bool {
	m.what, m.depth = what, d
	return true
}

func (m *mutator) mutStruct(st *ref.StructT, sv *ref.StructV, d int) bool {
	n := len(st.Fields)
	if n == 0 {
		return false
	}
	start := rapid.IntRange(0, n-1).Draw(m.rt, "field")
	// two times out of three go for a nested field first (deeper changes are the interesting ones)
	order := make([]*ref.FieldT, 0, 2*n)
	if rapid.IntRange(0, 2).Draw(m.rt, "deep") > 0 {
		for o := 0; o < n; o++ {
			if f := st.Fields[(start+o)%n]; (isContainer(f.Type) || f.Type.Kind == ref.Struct) && sv.F[f.ID] != nil {
				order = append(order, f)
			}
		}
	}
	for o := 0; o < n; o++ {
		order = append(order, st.Fields[(start+o)%n])
	}
	for _, f := range order {
		fv, present := sv.F[f.ID]
		if !present || fv == nil {
			if f.Req != idl.ReqOptional {
				continue
			}
			nv := genType(m.rt, f.Type)
			if nv == nil {
				continue
			}
			sv.F[f.ID] = nv
			return m.done("set_optional", d)
		}
		if f.Req == idl.ReqOptional && rapid.IntRange(0, 3).Draw(m.rt, "unset") == 0 {
			delete(sv.F, f.ID)
			return m.done("unset_optional", d)
		}
		if nv, ok := m.mutValue(f.Type, fv, d); ok {
			sv.F[f.ID] = nv
			return true
		}
	}
	return false
}

func inRange(k ref.Kind) (lo, hi int64) {
	switch k {
	case ref.Byte:
		return math.MinInt8, math.MaxInt8
	case ref.I16:
		return math.MinInt16, math.MaxInt16
	case ref.I32, ref.Enum:
		return math.MinInt32, math.MaxInt32
	}
	return math.MinInt64, math.MaxInt64
}

// leaf returns a scalar different from v.
func (m *mutator) leaf(t *ref.Type, v ref.V) ref.V {
	switch t.Kind {
	case ref.Bool:
		return !v.(bool)
	case ref.Byte, ref.I16, ref.I32, ref.I64, ref.Enum:
		_, hi := inRange(t.Kind)
		if x := v.(int64); x < hi {
			return x + 1
		} else {
			return x - 1
		}
	case ref.Double:
		x := v.(float64)
		if y := x + 1; y != x && y != 0 && !math.IsInf(y, 0) {
			return y
		}
		if x == 1.5 {
			return 2.5
		}
		return 1.5
	}
	b := append([]byte{}, v.([]byte)...)
	how := rapid.IntRange(0, 3).Draw(m.rt, "byteschange")
	switch {
	case len(b) == 0 || how == 0:
		return append(b, 'a')
	case how == 1:
		return b[:len(b)-1]
	}
	b[rapid.IntRange(0, len(b)-1).Draw(m.rt, "byteidx")] ^= 1 // same length
	return b
}

func (m *mutator) mutValue(t *ref.Type, v ref.V, d int) (ref.V, bool) {
	if v == nil {
		if !isContainer(t) {
			return nil, false
		}
		v = ref.Zero(t)
	}
	switch t.Kind {
	case ref.List, ref.Set:
		l := v.(*ref.ListV)
		how := rapid.IntRange(0, 5).Draw(m.rt, "listchange")
		if len(l.E) == 0 || how == 0 {
			e := genType(m.rt, t.Elem)
			fresh := e != nil
			if fresh && t.Kind == ref.Set {
				for _, o := range l.E {
					if liberal.eq(t.Elem, o, e) {
						fresh = false
					}
				}
			}
			if fresh {
				at := rapid.IntRange(0, len(l.E)).Draw(m.rt, "at")
				l.E = append(l.E[:at:at], append([]ref.V{e}, l.E[at:]...)...)
				return l, m.done("insert_element", d)
			}
			if len(l.E) == 0 {
				return nil, false
			}
		}
		i := rapid.IntRange(0, len(l.E)-1).Draw(m.rt, "elem")
		if how == 1 {
			l.E = append(l.E[:i:i], l.E[i+1:]...)
			return l, m.done("remove_element", d)
		}
		ne, ok := m.mutValue(t.Elem, l.E[i], d+1)
		if !ok {
			l.E = append(l.E[:i:i], l.E[i+1:]...)
			return l, m.done("remove_element", d)
		}
		l.E[i] = ne
		return l, true
	case ref.Map:
		mv := v.(*ref.MapV)
		how := rapid.IntRange(0, 6).Draw(m.rt, "mapchange")
		freshKey := func(k ref.V, except int) bool {
			for j, o := range mv.K {
				if j != except && liberal.eq(t.Key, o, k) {
					return false
				}
			}
			return true
		}
		if len(mv.K) == 0 || how == 0 {
			k, e := genType(m.rt, t.Key), genType(m.rt, t.Elem)
			if k != nil && e != nil && freshKey(k, -1) {
				mv.K, mv.E = append(mv.K, k), append(mv.E, e)
				return mv, m.done("add_entry", d)
			}
			if len(mv.K) == 0 {
				return nil, false
			}
		}
		i := rapid.IntRange(0, len(mv.K)-1).Draw(m.rt, "entry")
		switch {
		case how == 1:
			mv.K, mv.E = append(mv.K[:i:i], mv.K[i+1:]...), append(mv.E[:i:i], mv.E[i+1:]...)
			return mv, m.done("remove_entry", d)
		case how <= 4: // one key replaced, same size, same values
			if t.Key.Kind == ref.Struct {
				sub := &mutator{rt: m.rt}
				nk := clone(mv.K[i])
				if sub.mutStruct(t.Key.Struct, nk.(*ref.StructV), d+2) && freshKey(nk, i) {
					mv.K[i] = nk
					m.mapKey = true
					return mv, m.done("map_key", sub.depth)
				}
			} else {
				nk := mv.K[i]
				for try := 0; try < 4; try++ {
					nk = m.leaf(t.Key, nk)
					if freshKey(nk, i) {
						mv.K[i] = nk
						m.mapKey = true
						return mv, m.done("map_key", d+1)
					}
				}
			}
		}
		ne, ok := m.mutValue(t.Elem, mv.E[i], d+1)
		if !ok {
			mv.K, mv.E = append(mv.K[:i:i], mv.K[i+1:]...), append(mv.E[:i:i], mv.E[i+1:]...)
			return mv, m.done("remove_entry", d)
		}
		mv.E[i] = ne
		m.what = "map_value>" + m.what
		return mv, true
	case ref.Struct:
		sv := v.(*ref.StructV)
		return sv, m.mutStruct(t.Struct, sv, d+1)
	}
	return m.leaf(t, v), m.done(t.Kind.String(), d)
}

// site is one place of a (cloned) value where a named change can be applied in place.
type site struct {
	apply func()
	list  *ref.ListV
	et    *ref.Type // element type (set sites)
	depth int
}

// nilEmptySites: container positions holding nil or the empty container; apply toggles between the two.
func nilEmptySites(t *ref.Type, v ref.V, d int, out *[]site) {
	if v == nil {
		return
	}
	empty := func(t *ref.Type, v ref.V) bool {
		switch t.Kind {
		case ref.List, ref.Set:
			return len(v.(*ref.ListV).E) == 0
		case ref.Map:
			return len(v.(*ref.MapV).K) == 0
		case ref.Binary:
			return len(v.([]byte)) == 0
		}
		return false
	}
	slot := func(et *ref.Type, vs []ref.V, i int) {
		if !isContainer(et) && et.Kind != ref.Binary {
			return
		}
		if vs[i] == nil {
			*out = append(*out, site{depth: d + 1, apply: func() { vs[i] = ref.Zero(et) }})
		} else if empty(et, vs[i]) {
			*out = append(*out, site{depth: d + 1, apply: func() { vs[i] = nil }})
		}
	}
	switch t.Kind {
	case ref.List, ref.Set:
		l := v.(*ref.ListV)
		for i := range l.E {
			slot(t.Elem, l.E, i)
			nilEmptySites(t.Elem, l.E[i], d+1, out)
		}
	case ref.Map:
		m := v.(*ref.MapV)
		for i := range m.K {
			slot(t.Elem, m.E, i)
			nilEmptySites(t.Key, m.K[i], d+1, out)
			nilEmptySites(t.Elem, m.E[i], d+1, out)
		}
	case ref.Struct:
		s := v.(*ref.StructV)
		for _, f := range t.Struct.Fields {
			f := f
			fv := s.F[f.ID]
			if isContainer(f.Type) {
				if fv == nil {
					*out = append(*out, site{depth: d + 1, apply: func() { s.F[f.ID] = ref.Zero(f.Type) }})
				} else if empty(f.Type, fv) {
					*out = append(*out, site{depth: d + 1, apply: func() { delete(s.F, f.ID) }})
				}
			}
			nilEmptySites(f.Type, fv, d+1, out)
		}
	}
}

// nilStructSites: present struct-typed non-optional fields; apply makes the pointer nil.
func nilStructSites(t *ref.Type, v ref.V, d int, out *[]site) {
	if v == nil {
		return
	}
	switch t.Kind {
	case ref.List, ref.Set:
		for _, e := range v.(*ref.ListV).E {
			nilStructSites(t.Elem, e, d+1, out)
		}
	case ref.Map:
		m := v.(*ref.MapV)
		for i := range m.K {
			nilStructSites(t.Key, m.K[i], d+1, out)
			nilStructSites(t.Elem, m.E[i], d+1, out)
		}
	case ref.Struct:
		s := v.(*ref.StructV)
		for _, f := range t.Struct.Fields {
			f := f
			if f.Type.Kind == ref.Struct && f.Req != idl.ReqOptional && s.F[f.ID] != nil {
				*out = append(*out, site{depth: d + 1, apply: func() { delete(s.F, f.ID) }})
			}
			nilStructSites(f.Type, s.F[f.ID], d+1, out)
		}
	}
}

// setSites: sets (also empty ones) anywhere in the value.
func setSites(t *ref.Type, v ref.V, d int, out *[]site) {
	if v == nil {
		return
	}
	switch t.Kind {
	case ref.List, ref.Set:
		l := v.(*ref.ListV)
		if t.Kind == ref.Set {
			*out = append(*out, site{depth: d, list: l, et: t.Elem})
		}
		for _, e := range l.E {
			setSites(t.Elem, e, d+1, out)
		}
	case ref.Map:
		m := v.(*ref.MapV)
		for i := range m.K {
			setSites(t.Key, m.K[i], d+1, out)
			setSites(t.Elem, m.E[i], d+1, out)
		}
	case ref.Struct:
		s := v.(*ref.StructV)
		for _, f := range t.Struct.Fields {
			setSites(f.Type, s.F[f.ID], d+1, out)
		}
	}
}

// hasStructKeyedMap: does the value hold a non-empty map with struct-typed keys?
func hasStructKeyedMap(t *ref.Type, v ref.V) bool {
	if v == nil {
		return false
	}
	switch t.Kind {
	case ref.List, ref.Set:
		for _, e := range v.(*ref.ListV).E {
			if hasStructKeyedMap(t.Elem, e) {
				return true
			}
		}
	case ref.Map:
		m := v.(*ref.MapV)
		if t.Key.Kind == ref.Struct && len(m.K) > 0 {
			return true
		}
		for i := range m.K {
			if hasStructKeyedMap(t.Key, m.K[i]) || hasStructKeyedMap(t.Elem, m.E[i]) {
				return true
			}
		}
	case ref.Struct:
		s := v.(*ref.StructV)
		for _, f := range t.Struct.Fields {
			if hasStructKeyedMap(f.Type, s.F[f.ID]) {
				return true
			}
		}
	}
	return false
}

// kinds of pairs, with their weights
var kinds = []string{"copy", "one_leaf", "one_leaf", "one_leaf", "one_leaf", "one_leaf", "one_leaf", "one_leaf", "nil_empty_container", "same_object",
	"nil_pointer", "nil_struct_field", "independent", "write", "write", "write", "write"}

// reaches: does the type contain (at any depth) a type satisfying pred?
func reaches(t *ref.Type, pred func(*ref.Type) bool, seen map[*ref.StructT]bool) bool {
	if t == nil {
		return false
	}
	if pred(t) {
		return true
	}
	if t.Kind == ref.Struct {
		if seen[t.Struct] {
			return false
		}
		seen[t.Struct] = true
		for _, f := range t.Struct.Fields {
			if reaches(f.Type, pred, seen) {
				return true
			}
		}
		return false
	}
	return reaches(t.Key, pred, seen) || reaches(t.Elem, pred, seen)
}

// defReaches: does the written type mention the definition (through typedefs, containers, fields)?
func defReaches(t *idl.Type, target *idl.Def, seen map[*idl.Def]bool) bool {
	if t == nil {
		return false
	}
	t = t.Final()
	if t.Ref != nil {
		if t.Ref == target {
			return true
		}
		if seen[t.Ref] {
			return false
		}
		seen[t.Ref] = true
		for _, f := range t.Ref.Fields {
			if defReaches(f.Type, target, seen) {
				return true
			}
		}
		return false
	}
	return defReaches(t.Key, target, seen) || defReaches(t.Elem, target, seen)
}

// enrich appends to two structs out of three one field holding a set whose
// elements are not struct-likes but containers, binaries or maps with struct
// keys (also nested in a list / map): the model's own generator makes such
// sets rarely, and they are where the uniqueness check of Write and
// DeepEqual must agree on nil = empty and on keys compared by value.  Key
// structs come from the same file and do not lead back to the enriched struct.
func enrich(rt *rapid.T, p *idl.Program) {
	b := func(n string) *idl.Type { return &idl.Type{Base: n} }
	list := func(e *idl.Type) *idl.Type { return &idl.Type{Base: "list", Elem: e} }
	set := func(e *idl.Type) *idl.Type { return &idl.Type{Base: "set", Elem: e} }
	mp := func(k, e *idl.Type) *idl.Type { return &idl.Type{Base: "map", Key: k, Elem: e} }
	n := 0
	for _, f := range p.Files {
		for _, d := range f.DefsOf(idl.KStruct) {
			if rapid.IntRange(0, 2).Draw(rt, "addset") == 0 {
				continue
			}
			max := int32(0)
			names := map[string]bool{}
			for _, x := range d.Fields {
				if x.ID > max {
					max = x.ID
				}
				names[x.Name] = true
			}
			if max > 30000 {
				continue
			}
			var keys []*idl.Def
			for _, k := range f.DefsOf(idl.KStruct) {
				if k != d && !defReaches(&idl.Type{Ref: k}, d, map[*idl.Def]bool{}) {
					keys = append(keys, k)
				}
			}
			shape := rapid.IntRange(0, 7).Draw(rt, "setshape")
			if len(keys) == 0 && (shape == 3 || shape == 7) {
				shape--
			}
			var t *idl.Type
			switch shape {
			case 0:
				t = set(list(b("i32")))
			case 1:
				t = set(b("binary"))
			case 2:
				t = set(mp(b("string"), b("i32")))
			case 3:
				t = set(mp(&idl.Type{Ref: rapid.SampledFrom(keys).Draw(rt, "keystruct")}, b("string")))
			case 4:
				t = list(set(list(b("string"))))
			case 5:
				t = mp(b("string"), set(list(b("string"))))
			case 6:
				t = set(list(b("binary")))
			default:
				t = set(list(mp(&idl.Type{Ref: rapid.SampledFrom(keys).Draw(rt, "keystruct")}, b("bool"))))
			}
			n++
			name := fmt.Sprintf("fsetx%d", n)
			for names[name] {
				name += "x"
			}
			req := idl.ReqDefault
			if rapid.IntRange(0, 2).Draw(rt, "setoptional") == 0 {
				req = idl.ReqOptional
			}
			d.Fields = append(d.Fields, &idl.Field{ID: max + int32(rapid.IntRange(1, 3).Draw(rt, "setid")), Explicit: true, Name: name, Req: req, Type: t})
			vt.Class(fmt.Sprintf("enriched_set_shape:%d", shape))
		}
	}
}

func depthClass(d int) string {
	if d >= 4 {
		return "depth:4+"
	}
	return fmt.Sprintf("depth:%d", d)
}

func TestDeepEqual(t *testing.T) {
	rapid.Check(t, func(rt *rapid.T) {
		p := idl.Gen(rt, modelCfg())
		enrich(rt, p)
		sch := ref.Build(p)
		if len(sch.Structs) == 0 {
			rt.Skip("no struct-like in the program")
		}
		base := eqCase{Main: p.Files[0].Path, Files: p.Texts(nil), Gen: genSpec(rt), Schema: sch.Export()}
		validateSet := !strings.Contains(base.Gen, "validate_set=false")
		// struct-likes that hold a map or a set somewhere get a larger share of the pairs
		var withMaps []*ref.StructT
		for _, st := range sch.Structs {
			if reaches(&ref.Type{Kind: ref.Struct, Struct: st}, func(t *ref.Type) bool { return t.Kind == ref.Map || t.Kind == ref.Set }, map[*ref.StructT]bool{}) {
				withMaps = append(withMaps, st)
			}
		}
		npairs := rapid.IntRange(30, 100).Draw(rt, "npairs")
		for i := 0; i < npairs; i++ {
			st := rapid.SampledFrom(sch.Structs).Draw(rt, "struct")
			if len(withMaps) > 0 && rapid.IntRange(0, 3).Draw(rt, "prefermaps") == 0 {
				st = rapid.SampledFrom(withMaps).Draw(rt, "mapstruct")
			}
			top := &ref.Type{Kind: ref.Struct, Struct: st}
			x := genTop(rt, st)
			if x == nil {
				vt.Class("value_not_constructible")
				continue
			}
			c := base
			c.Struct, c.Mode = st.Name, "pair"
			a, b := x, clone(x).(*ref.StructV)
			mu := &mutator{rt: rt}
			depth := 0
			inj, injElem, injSK := "", "", false
			kind := kinds[rapid.IntRange(0, len(kinds)-1).Draw(rt, "kind")]
			if kind == "write" && !validateSet {
				vt.Class("write_skipped:validate_set=false")
				kind = "one_leaf"
			}
			if kind == "write" && !reaches(top, func(t *ref.Type) bool { return t.Kind == ref.Set }, map[*ref.StructT]bool{}) {
				kind = "one_leaf" // no set anywhere in this type: nothing to learn from its Write here
			}
			var sites []site
			switch kind {
			case "nil_empty_container":
				nilEmptySites(top, b, 0, &sites)
			case "nil_struct_field":
				nilStructSites(top, b, 0, &sites)
			}
			if (kind == "nil_empty_container" || kind == "nil_struct_field") && len(sites) == 0 {
				kind = "one_leaf"
			}
			c.Kind = kind
			switch kind {
			case "copy":
			case "one_leaf":
				if !mu.mutStruct(st, b, 1) {
					c.Kind = "copy"
				}
				depth = mu.depth
			case "nil_empty_container":
				s := rapid.SampledFrom(sites).Draw(rt, "site")
				s.apply()
				depth = s.depth
			case "same_object":
				c.Mode = "same_object"
			case "nil_pointer":
				switch rapid.IntRange(0, 2).Draw(rt, "nilcase") {
				case 0:
					c.Kind, a, b = "nil_nil", nil, nil
				case 1:
					c.Kind, a = "nil_receiver", nil
				default:
					c.Kind, b = "nil_argument", nil
				}
			case "nil_struct_field":
				j := rapid.IntRange(0, len(sites)-1).Draw(rt, "site")
				sites[j].apply()
				depth = sites[j].depth
				if rapid.Bool().Draw(rt, "both") {
					// the same nil field on both sides: two distinct objects holding the same value
					c.Kind = "nil_struct_field_both"
					a = clone(b).(*ref.StructV)
				}
			case "independent":
				if y := genTop(rt, st); y != nil {
					b = y
				}
			case "write":
				c.Mode, c.Kind = "write", "set_unique"
				if rapid.IntRange(0, 3).Draw(rt, "inject") > 0 {
					setSites(top, a, 0, &sites)
					// 0: exact copy of an element; 1: a nil and an empty element (container or binary elements);
					// 2: copy of an element with one nil<->empty toggle inside: equal, not identical
					how := []int{0, 1, 1, 2, 2}[rapid.IntRange(0, 4).Draw(rt, "injecthow")]
					pick := func(how int) (cands []site) {
						for _, s := range sites {
							if how == 1 && (isContainer(s.et) || s.et.Kind == ref.Binary) || how != 1 && len(s.list.E) > 0 {
								cands = append(cands, s)
							}
						}
						return cands
					}
					cands := pick(how)
					if len(cands) == 0 {
						how = 1 - how%2 // 0,2 -> 1; 1 -> 0
						cands = pick(how)
					}
					// elements holding a struct-keyed map (equal by value, never by pointer) get half of the copies
					skElems := func(s site) (idx []int) {
						for i, e := range s.list.E {
							if hasStructKeyedMap(s.et, e) {
								idx = append(idx, i)
							}
						}
						return idx
					}
					if how != 1 {
						var sk []site
						for _, s := range cands {
							if len(skElems(s)) > 0 {
								sk = append(sk, s)
							}
						}
						if len(sk) > 0 && rapid.Bool().Draw(rt, "preferstructkeys") {
							cands = sk
						} else {
							skElems = func(site) []int { return nil }
						}
					}
					if len(cands) > 0 {
						s := rapid.SampledFrom(cands).Draw(rt, "site")
						l := s.list
						insert := func(e ref.V) {
							at := rapid.IntRange(0, len(l.E)).Draw(rt, "at")
							l.E = append(l.E[:at:at], append([]ref.V{e}, l.E[at:]...)...)
						}
						inj = "exact_copy"
						if how == 1 {
							inj = "nil_and_empty"
							insert(nil)
							insert(ref.Zero(s.et))
						} else {
							from := rapid.IntRange(0, len(l.E)-1).Draw(rt, "dupelem")
							if idx := skElems(s); len(idx) > 0 {
								from = rapid.SampledFrom(idx).Draw(rt, "dupskelem")
							}
							e := clone(l.E[from])
							if how == 2 {
								holder := &ref.ListV{E: []ref.V{e}}
								var inner []site
								nilEmptySites(&ref.Type{Kind: ref.List, Elem: s.et}, holder, 0, &inner)
								if len(inner) > 0 {
									rapid.SampledFrom(inner).Draw(rt, "toggle").apply()
									e = holder.E[0]
									inj = "copy_with_nil_empty_toggle"
								}
							}
							injSK = hasStructKeyedMap(s.et, e)
							insert(e)
						}
						injElem = s.et.Kind.String()
						c.Kind = "set_duplicate_injected"
						depth = s.depth
					}
				}
				b = nil
			}
			c.A, c.B = ref.StructToJSON(st, a), ref.StructToJSON(st, b)
			if a == nil {
				c.A = nil
			}
			if b == nil {
				c.B = nil
			}
			if c.Mode == "write" {
				c.Expect = expectWrite(st, a)
			} else {
				c.Expect = expectPair(st, a, b, c.Mode)
			}
			if id := explainedBy(st, a, b, c.Mode, c.Expect); id != "" {
				vt.Excluded(id)
				continue
			}
			vt.Eval()
			o := judge(c)
			vt.Class("status:" + o.status)
			if o.status != "judged" && o.err == nil {
				if o.status == "rejected" || o.status == "nocompile" {
					vt.Sample(map[string]interface{}{"program": p.Describe(), "gen": c.Gen, "status": o.status})
					return
				}
				continue
			}
			vt.Class("kind:" + c.Kind)
			vt.Class("expect:" + c.Mode + ":" + c.Expect)
			vt.Class("struct_kind:" + st.Kind)
			if c.Kind == "one_leaf" {
				vt.Class("change:" + mu.what)
				vt.Class("leaf_" + depthClass(depth))
				vt.ClassIf(mu.mapKey, "only_map_key_differs")
			}
			if c.Kind == "set_duplicate_injected" {
				vt.Class("dup_" + depthClass(depth))
				vt.Class("inject:" + inj)
				vt.Class("inject_elem:" + injElem)
				vt.ClassIf(injSK, "inject:element_with_struct_keyed_map")
			}
			vt.ClassIf(hasStructKeyedMap(top, asV(a)) || hasStructKeyedMap(top, asV(b)), "struct_keyed_map")
			if c.Kind == "one_leaf" && (depth >= 2 || mu.mapKey) {
				vt.Nontrivial(base.Files[base.Main] + c.Gen + c.Struct + fmt.Sprint(c.A) + fmt.Sprint(c.B))
			}
			vt.Sample(map[string]interface{}{"gen": c.Gen, "struct": c.Struct, "kind": c.Kind, "expect": c.Expect, "a": show(a), "b": show(b)})
			if o.err != nil {
				if strings.HasPrefix(o.err.Error(), "harness:") {
					rt.Fatalf("%v", o.err)
				}
				vt.Fail(rt, prop, "deepequal", c, "%v", o.err)
			}
		}
	})
}

func TestReplay(t *testing.T) {
	vt.Replay(t, prop, map[string]vt.Handler{
		"deepequal": func(raw json.RawMessage) error {
			var c eqCase
			if err := vt.Decode(raw, &c); err != nil {
				return err
			}
			return judge(c).err
		},
	})
}
