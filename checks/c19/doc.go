// Package c19 holds the check of property C19 (concurrent persist: all files
// written or an error, under every schedule).  The check itself lives in
// c19_test.go and is compiled only with `-tags verif`, because it installs the
// scheduling hook generator.VerifYield that exists only under that tag.
package c19
