//go:build verif

package c19

// The Go backend's own post-processor under Persist: "returns success only if
// every file of the response was post-processed and written completely with
// its own content".  The schedule test uses a test backend; this one drives the
// real golang.GoBackend (gofmt of .go files, which only warns when a file does
// not parse) through the same exported path.

import (
	"encoding/json"
	"fmt"
	"go/format"
	"os"
	"path/filepath"
	"runtime"
	"strings"
	"testing"

	"github.com/cloudwego/thriftgo/generator"
	"github.com/cloudwego/thriftgo/generator/backend"
	"github.com/cloudwego/thriftgo/generator/golang"
	"github.com/cloudwego/thriftgo/parser"
	"github.com/cloudwego/thriftgo/plugin"
	"github.com/cloudwego/thriftgo/semantic"
	"pgregory.net/rapid"

	"verif/internal/vt"
)

type realFile struct {
	Rel     string `json:"rel"`
	Content string `json:"content"`
	Kind    string `json:"kind"` // go_ok | go_unformatted | go_unparsable | text | empty
}

type realCase struct {
	K      int        `json:"k"` // GOMAXPROCS
	NoFmt  bool       `json:"no_fmt"`
	Files  []realFile `json:"files"`
	Repeat int        `json:"repeat"`
}

func judgeReal(c realCase) (err error) {
	defer func() {
		if r := recover(); r != nil {
			err = fmt.Errorf("panic: %v", r)
		}
	}()
	old := runtime.GOMAXPROCS(c.K)
	defer runtime.GOMAXPROCS(old)
	dir, derr := os.MkdirTemp("", "c19real-")
	if derr != nil {
		return nil
	}
	defer os.RemoveAll(dir)

	ast, perr := parser.ParseString("main.thrift", "namespace go p0\nstruct S { 1: i32 a }\n")
	if perr != nil {
		return fmt.Errorf("harness: %v", perr)
	}
	if _, cerr := semantic.NewChecker(semantic.Options{FixWarnings: true}).CheckAll(ast); cerr != nil {
		return fmt.Errorf("harness: %v", cerr)
	}
	if rerr := semantic.ResolveSymbols(ast); rerr != nil {
		return fmt.Errorf("harness: %v", rerr)
	}
	var g generator.Generator
	if rerr := g.RegisterBackend(new(golang.GoBackend)); rerr != nil {
		return fmt.Errorf("harness: %v", rerr)
	}
	opts := []plugin.Option{}
	if c.NoFmt {
		opts = append(opts, plugin.Option{Name: "no_fmt", Desc: "true"})
	}
	log := backend.DummyLogFunc()
	req := &plugin.Request{Version: "v", OutputPath: filepath.Join(dir, "gen"), AST: ast, Language: "go"}
	gres := g.Generate(&generator.Arguments{Out: &generator.LangSpec{Language: "go", Options: opts}, Req: req, Log: log})
	if e := gres.GetError(); e != "" {
		return fmt.Errorf("harness: Generate failed: %s", e)
	}
	res := &plugin.Response{}
	for i := range c.Files {
		p := filepath.Join(dir, "out", c.Files[i].Rel)
		content := c.Files[i].Content
		res.Contents = append(res.Contents, &plugin.Generated{Name: &p, Content: content})
	}
	if perr := g.Persist(res); perr != nil {
		return fmt.Errorf("Persist failed although no step can fail: %v", perr)
	}
	for _, f := range c.Files {
		p := filepath.Join(dir, "out", f.Rel)
		got, rerr := os.ReadFile(p)
		if rerr != nil {
			return fmt.Errorf("Persist returned success but %s was not written: %v", f.Rel, rerr)
		}
		want := f.Content
		if !c.NoFmt && strings.HasSuffix(f.Rel, ".go") {
			if formatted, ferr := format.Source([]byte(f.Content)); ferr == nil {
				want = string(formatted)
			}
		}
		if string(got) != want {
			return fmt.Errorf("Persist returned success but %s (%s) does not hold its own content: %d bytes on disk, %d expected\n  disk: %q\n  want: %q",
				f.Rel, f.Kind, len(got), len(want), vt.Truncate(string(got), 120), vt.Truncate(want, 120))
		}
	}
	return nil
}

var goBodies = map[string][]string{
	"go_ok":          {"package p\n\nfunc F() int { return 1 }\n", "package q\n\nvar X = 1\n"},
	"go_unformatted": {"package   p\nfunc  F( )  int{return 1}\n", "package q\nimport \"fmt\"\nvar _=fmt.Sprint\n"},
	"go_unparsable":  {"package p\nfunc {{HOOK}} (\n", "package\n", "not go at all }{", "package p\nfunc F() { return \n"},
	"text":           {"hello\n", "# notes\n\n\ttabs kept\n", "{\"json\": true}"},
	"empty":          {""},
}

func TestPersistGoBackend(t *testing.T) {
	rapid.Check(t, func(rt *rapid.T) {
		c := realCase{K: rapid.IntRange(1, 16).Draw(rt, "k"), NoFmt: rapid.IntRange(0, 5).Draw(rt, "nofmt") == 0}
		n := rapid.IntRange(1, 12).Draw(rt, "n")
		kinds := map[string]bool{}
		for i := 0; i < n; i++ {
			kind := rapid.SampledFrom([]string{"go_ok", "go_unformatted", "go_unparsable", "go_unparsable", "text", "empty"}).Draw(rt, "kind")
			body := rapid.SampledFrom(goBodies[kind]).Draw(rt, "body")
			ext := ".go"
			if kind == "text" || (kind == "empty" && rapid.Bool().Draw(rt, "emptytext")) {
				ext = rapid.SampledFrom([]string{".txt", ".md", ""}).Draw(rt, "ext")
			}
			rel := fmt.Sprintf("d%d/f%d%s", rapid.IntRange(0, 2).Draw(rt, "dir"), i, ext)
			// make contents distinct per file so that mix-ups are visible
			if body != "" {
				body += fmt.Sprintf("// file %d\n", i)
			}
			c.Files = append(c.Files, realFile{Rel: rel, Content: body, Kind: kind})
			kinds[kind] = true
		}
		vt.Eval()
		vt.Class("real_backend_cases")
		vt.ClassIf(kinds["go_unparsable"], "real:unparsable_go_file")
		vt.ClassIf(kinds["go_unformatted"], "real:unformatted_go_file")
		if kinds["go_unparsable"] && n > 1 {
			b, _ := json.Marshal(c)
			vt.Nontrivial(string(b))
		}
		if err := judgeReal(c); err != nil {
			if strings.HasPrefix(err.Error(), "harness:") {
				rt.Fatalf("%v", err)
			}
			vt.Fail(rt, prop, "persist_go_backend", c, "%v", err)
		}
	})
}
