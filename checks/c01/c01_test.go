// C01 — every accepted IDL yields Go code that compiles.
package c01

import (
	"encoding/json"
	"fmt"
	"os"
	"path/filepath"
	"sort"
	"strings"
	"testing"
	"time"

	"pgregory.net/rapid"

	"verif/internal/idl"
	"verif/internal/tg"
	"verif/internal/vt"
)

const prop = "C01"

func TestMain(m *testing.M) { vt.Main(m) }

type genCase struct {
	Main    string            `json:"main"`
	Files   map[string]string `json:"files"`
	Backend string            `json:"backend"` // go | fastgo
	Options []string          `json:"options"`
	Recurse bool              `json:"recurse"`
	Prefix  string            `json:"prefix"` // package_prefix value ("" = none)
}

func (c genCase) genArg() string {
	opts := append([]string{}, c.Options...)
	if c.Prefix != "" {
		opts = append(opts, "package_prefix="+c.Prefix)
	}
	if len(opts) == 0 {
		return c.Backend
	}
	return c.Backend + ":" + strings.Join(opts, ",")
}

const (
	stOK       = "compiled"
	stRejected = "rejected_valid"
)

// judge returns the status and, for a violation, an error.
func judge(c genCase) (string, error) {
	bin, err := tg.Thriftgo()
	if err != nil {
		return "", fmt.Errorf("harness: %v", err)
	}
	dir, err := os.MkdirTemp("", "c01")
	if err != nil {
		return "", fmt.Errorf("harness: %v", err)
	}
	defer os.RemoveAll(dir)
	idlDir := filepath.Join(dir, "idl")
	if err := tg.WriteFiles(idlDir, c.Files); err != nil {
		return "", fmt.Errorf("harness: %v", err)
	}
	out := filepath.Join(dir, "out")
	// the recursive run: everything the root needs to link against
	r := tg.Exec(bin, idlDir, nil, 60*time.Second, "-g", c.genArg(), "-o", out, "-r", c.Main)
	if r.TimedOut {
		return "", fmt.Errorf("harness: thriftgo timed out (C04 decides hangs)")
	}
	if r.Exit != 0 {
		return stRejected, nil
	}
	if strings.Contains(r.Output, "Recovered from panic") {
		// exit 0 after a recovered panic: nothing (or not everything) was written; C04 decides that clause
		return stRejected, nil
	}
	if !c.Recurse {
		out2 := filepath.Join(dir, "out2")
		r2 := tg.Exec(bin, idlDir, nil, 60*time.Second, "-g", c.genArg(), "-o", out2, c.Main)
		if r2.Exit != 0 || r2.TimedOut {
			return stRejected, nil
		}
		// the root's own files are the ones judged: overlay them on the recursive output
		for _, rel := range tg.ListFiles(out2) {
			b, err := os.ReadFile(filepath.Join(out2, rel))
			if err != nil {
				return "", fmt.Errorf("harness: %v", err)
			}
			os.MkdirAll(filepath.Dir(filepath.Join(out, rel)), 0o755)
			if err := os.WriteFile(filepath.Join(out, rel), b, 0o644); err != nil {
				return "", fmt.Errorf("harness: %v", err)
			}
		}
	}
	res := tg.TypeCheck(out, c.Prefix)
	if len(res.Errors) > 0 {
		n := len(res.Errors)
		if n > 6 {
			res.Errors = res.Errors[:6]
		}
		return "", fmt.Errorf("thriftgo exited 0 but the generated code does not compile (%d errors):\n  %s\n  command: thriftgo -g %s -r=%v", n, strings.Join(res.Errors, "\n  "), c.genArg(), c.Recurse)
	}
	if len(res.Packages) == 0 && !hasOpt(c.Options, "skip_empty") {
		return "", fmt.Errorf("thriftgo exited 0 but wrote no Go file")
	}
	return stOK, nil
}

func hasOpt(opts []string, name string) bool {
	for _, o := range opts {
		if o == name || strings.HasPrefix(o, name+"=") {
			return true
		}
	}
	return false
}

// options that can be exercised offline; the rest is named in the evidence
// assumptions (code_ref* need idl-ref.yaml and a foreign package, streaming
// needs kitex, use_option needs the option IDL, skip_go_gen writes nothing).
var boolOpts = []string{
	"ignore_initialisms", "json_enum_as_text", "enum_marshal", "enum_unmarshal", "gen_setter", "gen_db_tag", "omitempty_for_optional",
	"use_type_alias", "validate_set", "value_type_in_container", "scan_value_for_enum", "reorder_fields", "typed_enum_string",
	"keep_unknown_fields", "gen_deep_equal", "compatible_names", "reserve_comments", "nil_safe", "frugal_tag", "unescape_double_quote",
	"gen_type_meta", "gen_json_tag", "always_gen_json_tag", "snake_style_json_tag", "lower_camel_style_json_tag", "with_reflection",
	"enum_as_int_32", "trim_idl", "json_stringer", "with_field_mask", "field_mask_halfway", "field_mask_zero_required",
	"no_default_serdes", "no_alias_type_reflection_method", "enable_ref_interface", "no_fmt", "skip_empty", "no_processor",
	"get_enum_annotation", "apache_warning",
}

func genOptions(rt *rapid.T) []string {
	var opts []string
	pick := func() string {
		o := rapid.SampledFrom(boolOpts).Draw(rt, "opt")
		switch rapid.IntRange(0, 3).Draw(rt, "optform") {
		case 0:
			return o
		case 1:
			return o + "=true"
		default:
			return o + "=false"
		}
	}
	switch rapid.IntRange(0, 5).Draw(rt, "optmode") {
	case 0:
	case 1, 2:
		opts = append(opts, pick())
	default:
		n := rapid.IntRange(2, 8).Draw(rt, "nopts")
		for i := 0; i < n; i++ {
			opts = append(opts, pick())
		}
	}
	if rapid.IntRange(0, 3).Draw(rt, "style") == 0 {
		opts = append(opts, "naming_style="+rapid.SampledFrom([]string{"golint", "apache", "thriftgo"}).Draw(rt, "ns"))
	}
	if rapid.IntRange(0, 5).Draw(rt, "tmpl") == 0 {
		opts = append(opts, "template="+rapid.SampledFrom([]string{"slim", "raw_struct"}).Draw(rt, "template"))
		if rapid.Bool().Draw(rt, "nested") {
			opts = append(opts, "enable_nested_struct")
		}
	}
	// documented requirement: with_field_mask needs with_reflection
	on := func(name string) bool {
		v := false
		for _, o := range opts {
			if o == name || o == name+"=true" {
				v = true
			}
			if o == name+"=false" {
				v = false
			}
		}
		return v
	}
	if on("with_field_mask") && !on("with_reflection") {
		opts = append(opts, "with_reflection")
	}
	return opts
}

func modelCfg() idl.Cfg {
	c := idl.GoSafe()
	c.MaxFiles = 3
	c.MaxDefs = 3
	c.NoNamespace = true
	if vt.Known(prop, "duplicate-throws-type") {
		c.DistinctThrows = true
		vt.Excluded("duplicate-throws-type")
	}
	return c
}

func crossFile(p *idl.Program) bool {
	for _, f := range p.Files {
		if len(f.Includes) > 0 {
			return true
		}
	}
	return false
}

func TestCompiles(t *testing.T) {
	rapid.Check(t, func(rt *rapid.T) {
		p := idl.Gen(rt, modelCfg())
		c := genCase{Main: p.Files[0].Path, Files: p.Texts(nil), Backend: "go", Options: genOptions(rt), Recurse: rapid.IntRange(0, 3).Draw(rt, "recurse") > 0}
		if rapid.IntRange(0, 3).Draw(rt, "fastgo") == 0 {
			c.Backend = "fastgo"
		}
		if rapid.Bool().Draw(rt, "prefix") {
			c.Prefix = "vmod/gen"
		}
		if vt.Known(prop, "typedef-struct-no-alias") && hasOptFalse(c.Options, "use_type_alias") {
			c.Options = dropOpt(c.Options, "use_type_alias")
			vt.Excluded("typedef-struct-no-alias")
		}
		vt.Eval()
		st, err := judge(c)
		vt.Class("status:" + st)
		vt.Class("backend:" + c.Backend)
		vt.ClassIf(len(c.Options) > 0, "non_default_options")
		vt.ClassIf(crossFile(p), "cross_file")
		vt.ClassIf(!c.Recurse, "without_-r")
		if st == stOK && (crossFile(p) || len(c.Options) > 0) {
			vt.Nontrivial(key(c))
		}
		vt.Sample(map[string]interface{}{"program": p.Describe(), "gen": c.genArg(), "recurse": c.Recurse, "status": st})
		if err != nil {
			if os.Getenv("VERIF_SURVEY") != "" {
				surveyNote(c, err)
				return
			}
			vt.Fail(rt, prop, "compiles", c, "%v", err)
		}
	})
}

// surveyNote (development aid): bucket failures instead of stopping at the first.
func surveyNote(c genCase, err error) {
	ls := strings.Split(err.Error(), "\n")
	msg := ""
	if len(ls) > 1 {
		msg = strings.TrimSpace(ls[1])
		if i := strings.Index(msg, ": "); i >= 0 {
			msg = msg[i+2:]
		}
	}
	var b strings.Builder
	for _, r := range msg {
		if r >= '0' && r <= '9' {
			continue
		}
		b.WriteRune(r)
	}
	k := b.String()
	if len(k) > 90 {
		k = k[:90]
	}
	fmt.Fprintf(os.Stderr, "SURVEY %s | %s | %s\n", k, c.genArg(), msg)
}

func hasOptFalse(opts []string, name string) bool {
	for _, o := range opts {
		if o == name+"=false" {
			return true
		}
	}
	return false
}

func dropOpt(opts []string, name string) []string {
	var r []string
	for _, o := range opts {
		if o == name || strings.HasPrefix(o, name+"=") {
			continue
		}
		r = append(r, o)
	}
	return r
}

func key(c genCase) string {
	var ks []string
	for k := range c.Files {
		ks = append(ks, k)
	}
	sort.Strings(ks)
	var b strings.Builder
	for _, k := range ks {
		b.WriteString(k + "\x00" + c.Files[k] + "\x00")
	}
	b.WriteString(c.genArg())
	return b.String()
}

func TestReplay(t *testing.T) {
	vt.Replay(t, prop, map[string]vt.Handler{
		"compiles": func(raw json.RawMessage) error {
			var c genCase
			if err := vt.Decode(raw, &c); err != nil {
				return err
			}
			_, err := judge(c)
			return err
		},
	})
}
