package c08

import (
	"bytes"
	"fmt"
	"go/ast"
	"go/parser"
	"go/printer"
	"go/token"
	"os"
	"path"
	"path/filepath"
	"sort"
	"strconv"
	"strings"

	"verif/internal/drv"
	"verif/internal/tg"
)

// ---------------------------------------------------------------------------
// Driver side, part 1: vdriver/x_svc.go (package vdriver).  Generic: it knows
// nothing about a particular program.  The generated packages register their
// services through zz_verif_svc_*.go (written by the syntactic pass below).
//
// The connection is apache's own thrift.TStandardClient (the client the
// generated New<S>ClientFactory builds) over a loop-back transport: Flush of
// the request runs the generated processor on the bytes written so far and
// makes its output readable, all in one goroutine.  Request and reply bytes
// are captured per call.
// ---------------------------------------------------------------------------
const svcDriverSrc = `package vdriver

import (
	"bytes"
	"context"
	"encoding/hex"
	"errors"
	"fmt"
	"reflect"

	"github.com/apache/thrift/lib/go/thrift"
)

type svcEntry struct {
	Pkg, GoName  string
	Iface        reflect.Type
	NewHandler   func() interface{}
	NewProcessor func(h interface{}) thrift.TProcessor
	NewClient    func(c thrift.TClient) interface{}
}

var svcs = map[string]*svcEntry{}
var svcOrder []string

func RegisterService(pkg, goName string, iface reflect.Type, newHandler func() interface{}, newProcessor func(h interface{}) thrift.TProcessor, newClient func(c thrift.TClient) interface{}) {
	k := pkg + "#" + goName
	svcs[k] = &svcEntry{pkg, goName, iface, newHandler, newProcessor, newClient}
	svcOrder = append(svcOrder, k)
}

// what the handler does on the current call, and what it saw
var svcCur struct {
	script  map[string]interface{}
	log     []interface{}
	harness string
}

// Dispatch is what every method of every synthesized handler forwards to.
func Dispatch(pkg, svc, method string, args []interface{}, ret interface{}) error {
	dumps := []interface{}{}
	for _, a := range args {
		dumps = append(dumps, dump(reflect.ValueOf(a)))
	}
	svcCur.log = append(svcCur.log, map[string]interface{}{"service": pkg + "#" + svc, "method": method, "args": dumps})
	s := svcCur.script
	kind, _ := s["kind"].(string)
	switch kind {
	case "value":
		if ret != nil {
			rv := reflect.ValueOf(ret).Elem()
			v, err := decode(s["value"], rv.Type())
			if err != nil {
				svcCur.harness = "cannot build the scripted return value: " + err.Error()
				return nil
			}
			rv.Set(v)
		}
		return nil
	case "exception":
		k, _ := s["type"].(string)
		e, ok := types[k]
		if !ok {
			svcCur.harness = "unknown exception type " + k
			return nil
		}
		p, err := build(e, s["value"])
		if err != nil {
			svcCur.harness = "cannot build the scripted exception: " + err.Error()
			return nil
		}
		ee, ok := p.Interface().(error)
		if !ok {
			svcCur.harness = "scripted exception type " + k + " is not an error"
			return nil
		}
		return ee
	case "error":
		return errors.New("boom")
	}
	svcCur.harness = "unknown script kind " + kind
	return nil
}

type svcExchange struct {
	req, rep  []byte
	unread    int
	unflushed int
	ok        bool
	err       string
	panicked  string
}

// svcLoop is the loop-back transport.
type svcLoop struct {
	proc thrift.TProcessor
	w, r bytes.Buffer
	ex   []*svcExchange
}

func (t *svcLoop) Write(p []byte) (int, error) { return t.w.Write(p) }
func (t *svcLoop) Read(p []byte) (int, error)  { return t.r.Read(p) }
func (t *svcLoop) Close() error                { return nil }
func (t *svcLoop) Open() error                 { return nil }
func (t *svcLoop) IsOpen() bool                { return true }
func (t *svcLoop) RemainingBytes() uint64      { return uint64(t.r.Len()) }
func (t *svcLoop) Flush(ctx context.Context) (err error) {
	x := &svcExchange{req: append([]byte{}, t.w.Bytes()...)}
	t.w.Reset()
	t.ex = append(t.ex, x)
	in := thrift.NewTMemoryBuffer()
	in.Write(x.req)
	// the reply goes through a buffering transport, as on a real server: what
	// the processor does not flush never reaches the client
	out := thrift.NewTMemoryBuffer()
	outT := thrift.NewTBufferedTransport(out, 1<<20)
	func() {
		defer func() {
			if r := recover(); r != nil {
				x.panicked = fmt.Sprint(r)
				err = errors.New("processor panicked")
			}
		}()
		ok, perr := t.proc.Process(ctx, thrift.NewTBinaryProtocol(in, true, true), thrift.NewTBinaryProtocol(outT, true, true))
		x.ok = ok
		if perr != nil {
			x.err = perr.Error()
		}
	}()
	x.unread = in.Len()
	x.rep = append([]byte{}, out.Bytes()...)
	outT.Flush(ctx)
	x.unflushed = out.Len() - len(x.rep)
	t.r.Write(x.rep)
	return err
}

// svcRawArgs is the argument struct of a call to a method the processor does not know.
type svcRawArgs struct{}

func (svcRawArgs) Read(p thrift.TProtocol) error { return p.Skip(thrift.STRUCT) }
func (svcRawArgs) Write(p thrift.TProtocol) error {
	p.WriteStructBegin("zz_args")
	p.WriteFieldBegin("a", thrift.I32, 1)
	p.WriteI32(7)
	p.WriteFieldEnd()
	p.WriteFieldBegin("b", thrift.STRING, 2)
	p.WriteString("abc")
	p.WriteFieldEnd()
	p.WriteFieldBegin("c", thrift.STRUCT, 3)
	p.WriteStructBegin("zz_inner")
	p.WriteFieldBegin("d", thrift.BOOL, 1)
	p.WriteBool(true)
	p.WriteFieldEnd()
	p.WriteFieldStop()
	p.WriteStructEnd()
	p.WriteFieldEnd()
	p.WriteFieldStop()
	return p.WriteStructEnd()
}

type svcProbe struct{ names []interface{} }

func (c *svcProbe) Call(ctx context.Context, method string, args, result thrift.TStruct) error {
	c.names = append(c.names, method)
	return errors.New("probe")
}

var svcCtxType = reflect.TypeOf((*context.Context)(nil)).Elem()

func svcDescErr(err error) interface{} {
	if err == nil {
		return nil
	}
	out := map[string]interface{}{"gotype": fmt.Sprintf("%T", err)}
	func() {
		defer func() {
			if r := recover(); r != nil {
				out["msg_panic"] = fmt.Sprint(r)
			}
		}()
		out["msg"] = err.Error()
	}()
	if ae, ok := err.(thrift.TApplicationException); ok {
		out["app"] = true
		out["app_type"] = int(ae.TypeId())
	}
	if e, ok := byType[reflect.TypeOf(err)]; ok {
		out["key"] = e.Pkg + "#" + e.GoName
		out["value"] = dump(reflect.ValueOf(err))
	}
	return out
}

func svcIns(mt reflect.Type, first int, raw []interface{}) ([]reflect.Value, error) {
	// mt is the type of a bound method / interface method: no receiver
	var ins []reflect.Value
	k := 0
	for i := 0; i < mt.NumIn(); i++ {
		if i == 0 && mt.In(0) == svcCtxType {
			ins = append(ins, reflect.ValueOf(context.Background()))
			continue
		}
		if raw == nil {
			ins = append(ins, reflect.Zero(mt.In(i)))
			continue
		}
		if k >= len(raw) {
			return nil, fmt.Errorf("method takes more than the %d arguments given", len(raw))
		}
		v, err := decode(raw[k], mt.In(i))
		if err != nil {
			return nil, fmt.Errorf("argument %d: %v", k, err)
		}
		ins = append(ins, v)
		k++
	}
	if raw != nil && k != len(raw) {
		return nil, fmt.Errorf("method takes %d arguments, %d given", k, len(raw))
	}
	return ins, nil
}

func init() {
	// svc_list: every registered service with its Go methods and, learned by
	// behaviour, the method name each of them hands to the thrift.TClient.
	Hooks["svc_list"] = func(req map[string]interface{}) map[string]interface{} {
		out := []interface{}{}
		for _, k := range svcOrder {
			e := svcs[k]
			entry := map[string]interface{}{"key": k, "pkg": e.Pkg, "go": e.GoName}
			rec := &svcProbe{}
			var cl reflect.Value
			func() {
				defer func() {
					if r := recover(); r != nil {
						entry["panic"] = fmt.Sprint(r)
					}
				}()
				cl = reflect.ValueOf(e.NewClient(rec))
			}()
			ms := []interface{}{}
			for i := 0; cl.IsValid() && i < e.Iface.NumMethod(); i++ {
				m := e.Iface.Method(i)
				mi := map[string]interface{}{"go": m.Name, "nout": m.Type.NumOut()}
				nin := m.Type.NumIn()
				if nin > 0 && m.Type.In(0) == svcCtxType {
					nin--
				}
				mi["nin"] = nin
				cm := cl.MethodByName(m.Name)
				if !cm.IsValid() {
					mi["noclient"] = true
				} else {
					rec.names = []interface{}{}
					func() {
						defer func() {
							if r := recover(); r != nil {
								mi["panic"] = fmt.Sprint(r)
							}
						}()
						ins, _ := svcIns(cm.Type(), 0, nil)
						cm.Call(ins)
					}()
					mi["wire"] = rec.names
				}
				ms = append(ms, mi)
			}
			entry["methods"] = ms
			out = append(out, entry)
		}
		return map[string]interface{}{"services": out}
	}

	// svc_call: one connection, a sequence of calls.
	Hooks["svc_call"] = func(req map[string]interface{}) (resp map[string]interface{}) {
		resp = map[string]interface{}{}
		defer func() {
			if r := recover(); r != nil {
				resp["harness"] = "svc_call: " + fmt.Sprint(r)
			}
		}()
		k, _ := req["service"].(string)
		e, ok := svcs[k]
		if !ok {
			resp["harness"] = "unknown service " + k
			return
		}
		tr := &svcLoop{}
		tr.proc = e.NewProcessor(e.NewHandler())
		std := thrift.NewTStandardClient(thrift.NewTBinaryProtocol(tr, true, true), thrift.NewTBinaryProtocol(tr, true, true))
		cl := reflect.ValueOf(e.NewClient(std))
		calls, _ := req["calls"].([]interface{})
		results := []interface{}{}
		for _, c0 := range calls {
			c, _ := c0.(map[string]interface{})
			res := map[string]interface{}{}
			svcCur.script, _ = c["script"].(map[string]interface{})
			svcCur.log = []interface{}{}
			svcCur.harness = ""
			tr.w.Reset()
			tr.r.Reset()
			tr.ex = nil
			func() {
				defer func() {
					if r := recover(); r != nil {
						res["panic"] = fmt.Sprint(r)
					}
				}()
				if name, ok := c["unknown"].(string); ok && name != "" {
					res["err"] = svcDescErr(std.Call(context.Background(), name, svcRawArgs{}, svcRawArgs{}))
					return
				}
				mn, _ := c["method"].(string)
				m := cl.MethodByName(mn)
				if !m.IsValid() {
					res["harness"] = "client has no method " + mn
					return
				}
				raw, _ := c["args"].([]interface{})
				if raw == nil {
					raw = []interface{}{}
				}
				ins, err := svcIns(m.Type(), 0, raw)
				if err != nil {
					res["harness"] = mn + ": " + err.Error()
					return
				}
				outs := m.Call(ins)
				if n := len(outs); n > 0 {
					if !outs[n-1].IsNil() {
						res["err"] = svcDescErr(outs[n-1].Interface().(error))
					}
					if n == 2 {
						res["ret"] = dump(outs[0])
						res["has_ret"] = true
					}
				}
			}()
			res["handler"] = svcCur.log
			if svcCur.harness != "" {
				res["harness"] = svcCur.harness
			}
			exs := []interface{}{}
			for _, x := range tr.ex {
				xe := map[string]interface{}{"req": hex.EncodeToString(x.req), "rep": hex.EncodeToString(x.rep), "unread": x.unread, "unflushed": x.unflushed, "ok": x.ok, "err": x.err}
				if x.panicked != "" {
					xe["panic"] = x.panicked
				}
				exs = append(exs, xe)
			}
			res["exchanges"] = exs
			res["rep_unread"] = tr.r.Len()
			results = append(results, res)
		}
		resp["results"] = results
		return
	}
}
`

// ---------------------------------------------------------------------------
// Driver side, part 2: the syntactic pass that writes zz_verif_svc_<n>.go
// into the generated package directories.  Nothing here applies a naming rule
// of thriftgo to IDL names: a service is an interface type T for which the
// package has a function taking exactly one T (the processor constructor) and
// a function "New"+T+"Client" taking one <pkg>.TClient; signatures are copied
// verbatim (go/printer) with parameters named by position.
// ---------------------------------------------------------------------------

type goFile struct {
	dir  string // package directory relative to GenDir
	path string
	ast  *ast.File
}

type goSvc struct {
	file       *goFile
	name       string
	iface      *ast.InterfaceType
	procCtor   string
	clientCtor string
	bases      []*goSvc
	baseExprs  []ast.Expr
	usable     bool
	resolved   bool
}

func extra(m *drv.Module) error {
	if m.Extra == nil {
		m.Extra = map[string]string{}
	}
	m.Extra["vdriver/x_svc.go"] = svcDriverSrc
	// drv.Registry's zz_verif.go imports vdriver even when the package has nothing to
	// register (a file with services and typedefs only): keep such a package compiling
	for _, d := range m.PkgDirs {
		p := filepath.Join(m.GenDir, d, "zz_verif.go")
		if b, err := os.ReadFile(p); err == nil && !bytes.Contains(b, []byte("vdriver.Register")) {
			os.WriteFile(p, append(b, []byte("\nvar _ = vdriver.Hooks\n")...), 0o644)
		}
	}
	return writeHandlers(m)
}

func printExpr(fset *token.FileSet, e ast.Expr) string {
	var b bytes.Buffer
	printer.Fprint(&b, fset, e)
	return b.String()
}

func writeHandlers(m *drv.Module) error {
	fset := token.NewFileSet()
	pkgName := map[string]string{}
	var files []*goFile
	for _, d := range m.PkgDirs {
		for _, rel := range tg.ListFiles(filepath.Join(m.GenDir, d)) {
			if filepath.Dir(rel) != "." || !strings.HasSuffix(rel, ".go") || strings.HasPrefix(rel, "zz_verif") {
				continue
			}
			p := filepath.Join(m.GenDir, d, rel)
			f, err := parser.ParseFile(fset, p, nil, parser.SkipObjectResolution)
			if err != nil {
				return nil // drv.Registry parsed it already; leave the judgement to the build
			}
			pkgName[d] = f.Name.Name
			files = append(files, &goFile{dir: d, path: p, ast: f})
		}
	}
	// interfaces and constructor-shaped functions per package directory
	type pkgInfo struct {
		ifaces map[string]*goSvc
		byParm map[string][]string // single parameter type name -> function names
		client map[string]bool     // functions with one parameter of type <x>.TClient
	}
	pkgs := map[string]*pkgInfo{}
	for _, f := range files {
		pi := pkgs[f.dir]
		if pi == nil {
			pi = &pkgInfo{ifaces: map[string]*goSvc{}, byParm: map[string][]string{}, client: map[string]bool{}}
			pkgs[f.dir] = pi
		}
		for _, decl := range f.ast.Decls {
			switch x := decl.(type) {
			case *ast.GenDecl:
				for _, sp := range x.Specs {
					if ts, ok := sp.(*ast.TypeSpec); ok && ts.TypeParams == nil {
						if it, ok := ts.Type.(*ast.InterfaceType); ok {
							pi.ifaces[ts.Name.Name] = &goSvc{file: f, name: ts.Name.Name, iface: it}
						}
					}
				}
			case *ast.FuncDecl:
				if x.Recv != nil || x.Type.Params.NumFields() != 1 || x.Type.Results.NumFields() != 1 {
					continue
				}
				switch t := x.Type.Params.List[0].Type.(type) {
				case *ast.Ident:
					pi.byParm[t.Name] = append(pi.byParm[t.Name], x.Name.Name)
				case *ast.SelectorExpr:
					if t.Sel.Name == "TClient" {
						pi.client[x.Name.Name] = true
					}
				}
			}
		}
	}
	importDir := func(f *goFile, alias string) (string, bool) {
		for _, im := range f.ast.Imports {
			ip, err := strconv.Unquote(im.Path.Value)
			if err != nil {
				continue
			}
			if importName(im, ip, pkgName) == alias && strings.HasPrefix(ip, drv.Prefix+"/") {
				return filepath.FromSlash(strings.TrimPrefix(ip, drv.Prefix+"/")), true
			}
		}
		return "", false
	}
	var resolve func(s *goSvc) bool
	resolve = func(s *goSvc) bool {
		if s.resolved {
			return s.usable
		}
		s.resolved = true
		pi := pkgs[s.file.dir]
		if fs := pi.byParm[s.name]; len(fs) == 1 {
			s.procCtor = fs[0]
		}
		if pi.client["New"+s.name+"Client"] {
			s.clientCtor = "New" + s.name + "Client"
		}
		if s.procCtor == "" || s.clientCtor == "" {
			return false
		}
		for _, fl := range s.iface.Methods.List {
			if len(fl.Names) > 0 {
				ft, ok := fl.Type.(*ast.FuncType)
				if !ok || ft.Results.NumFields() < 1 || ft.Results.NumFields() > 2 || ft.TypeParams != nil {
					return false
				}
				last := ft.Results.List[len(ft.Results.List)-1]
				if id, ok := last.Type.(*ast.Ident); !ok || id.Name != "error" {
					return false
				}
				continue
			}
			var b *goSvc
			switch t := fl.Type.(type) {
			case *ast.Ident:
				b = pi.ifaces[t.Name]
			case *ast.SelectorExpr:
				if x, ok := t.X.(*ast.Ident); ok {
					if d, ok := importDir(s.file, x.Name); ok && pkgs[d] != nil {
						b = pkgs[d].ifaces[t.Sel.Name]
					}
				}
			}
			if b == nil || !resolve(b) {
				return false
			}
			s.bases = append(s.bases, b)
			s.baseExprs = append(s.baseExprs, fl.Type)
		}
		s.usable = true
		return true
	}
	for i, f := range files {
		pi := pkgs[f.dir]
		var names []string
		for n, s := range pi.ifaces {
			if s.file == f {
				names = append(names, n)
			}
		}
		sort.Strings(names)
		var body strings.Builder
		used := map[string]bool{}
		n := 0
		for _, name := range names {
			s := pi.ifaces[name]
			if !resolve(s) {
				continue
			}
			n++
			emitService(&body, fset, s, used)
		}
		if n == 0 {
			continue
		}
		var out strings.Builder
		fmt.Fprintf(&out, "package %s\n\nimport (\n\tzzreflect \"reflect\"\n\tzzthrift \"github.com/apache/thrift/lib/go/thrift\"\n\tzzvdriver \"vmod/vdriver\"\n", f.ast.Name.Name)
		for _, im := range f.ast.Imports {
			ip, err := strconv.Unquote(im.Path.Value)
			if err != nil {
				continue
			}
			if nm := importName(im, ip, pkgName); used[nm] {
				fmt.Fprintf(&out, "\t%s %q\n", nm, ip)
			}
		}
		out.WriteString(")\n\n")
		out.WriteString(body.String())
		if err := os.WriteFile(filepath.Join(m.GenDir, f.dir, fmt.Sprintf("zz_verif_svc_%d.go", i)), []byte(out.String()), 0o644); err != nil {
			return err
		}
	}
	return nil
}

// importName is the name an import is used under in its file.
func importName(im *ast.ImportSpec, ip string, pkgName map[string]string) string {
	if im.Name != nil {
		return im.Name.Name
	}
	if strings.HasPrefix(ip, drv.Prefix+"/") {
		if n, ok := pkgName[filepath.FromSlash(strings.TrimPrefix(ip, drv.Prefix+"/"))]; ok {
			return n
		}
	}
	return path.Base(ip)
}

func mentions(e ast.Expr, used map[string]bool) {
	ast.Inspect(e, func(n ast.Node) bool {
		if se, ok := n.(*ast.SelectorExpr); ok {
			if x, ok := se.X.(*ast.Ident); ok {
				used[x.Name] = true
			}
		}
		return true
	})
}

func emitService(b *strings.Builder, fset *token.FileSet, s *goSvc, used map[string]bool) {
	h := "ZzverifHandler_" + s.name
	fmt.Fprintf(b, "type %s struct {\n", h)
	for _, be := range s.baseExprs {
		// the base service's handler lives in the base's package under the same rule
		switch t := be.(type) {
		case *ast.Ident:
			fmt.Fprintf(b, "\tZzverifHandler_%s\n", t.Name)
		case *ast.SelectorExpr:
			mentions(be, used)
			fmt.Fprintf(b, "\t%s.ZzverifHandler_%s\n", printExpr(fset, t.X), t.Sel.Name)
		}
	}
	b.WriteString("}\n\n")
	for _, fl := range s.iface.Methods.List {
		if len(fl.Names) == 0 {
			continue
		}
		ft := fl.Type.(*ast.FuncType)
		for _, mn := range fl.Names {
			var ps, pass []string
			i := 0
			if ft.Params != nil {
				for _, p := range ft.Params.List {
					mentions(p.Type, used)
					ts := printExpr(fset, p.Type)
					k := len(p.Names)
					if k == 0 {
						k = 1
					}
					for ; k > 0; k-- {
						nm := fmt.Sprintf("zzp%d", i)
						ps = append(ps, nm+" "+ts)
						if se, ok := p.Type.(*ast.SelectorExpr); !(i == 0 && ok && se.Sel.Name == "Context") {
							pass = append(pass, nm)
						}
						i++
					}
				}
			}
			var rs []string
			j := 0
			for _, r := range ft.Results.List {
				mentions(r.Type, used)
				ts := printExpr(fset, r.Type)
				k := len(r.Names)
				if k == 0 {
					k = 1
				}
				for ; k > 0; k-- {
					rs = append(rs, fmt.Sprintf("zzr%d %s", j, ts))
					j++
				}
			}
			ret := "nil"
			if j == 2 {
				ret = "&zzr0"
			}
			fmt.Fprintf(b, "func (zzh *%s) %s(%s) (%s) {\n", h, mn.Name, strings.Join(ps, ", "), strings.Join(rs, ", "))
			fmt.Fprintf(b, "\tzzr%d = zzvdriver.Dispatch(%q, %q, %q, []interface{}{%s}, %s)\n\treturn\n}\n\n", j-1, filepath.ToSlash(s.file.dir), s.name, mn.Name, strings.Join(pass, ", "), ret)
		}
	}
	fmt.Fprintf(b, "func init() {\n\tzzvdriver.RegisterService(%q, %q, zzreflect.TypeOf((*%s)(nil)).Elem(),\n", filepath.ToSlash(s.file.dir), s.name, s.name)
	fmt.Fprintf(b, "\t\tfunc() interface{} { return &%s{} },\n", h)
	fmt.Fprintf(b, "\t\tfunc(zzh interface{}) zzthrift.TProcessor { return %s(zzh.(%s)) },\n", s.procCtor, s.name)
	fmt.Fprintf(b, "\t\tfunc(zzc zzthrift.TClient) interface{} { return %s(zzc) })\n}\n\n", s.clientCtor)
}
