// C04 — invalid input is diagnosed: non-zero exit, message, no output, no crash.
//
// Black-box check of the thriftgo binary.  A case is a valid IDL program drawn
// from the shared model plus ONE rule-breaking edit from the catalogue of the
// property (or one invalid command line).  The judge runs the binary twice in
// scratch directories: on the unedited program (contra-positive: exit 0 means
// the complete output was written) and on the edited one (must be rejected
// with a message, without writing a file, without a Go crash trace, in time).
//
// Oracle decisions taken to stay sound (see also the comments at the edits):
//   - thriftgo does not enforce unique ids or names in argument and throws
//     lists (semantic/checker.go CheckStructLikes only walks struct-likes,
//     CheckFunctions has no such test): those positions are NOT generated for
//     the duplicate-id / duplicate-field-name edits.
//   - constant/default values are type-checked by the Go backend, i.e. only
//     for files that are generated: when such an edit sits in an included file
//     the run always uses -r (without -r an include that the main file does
//     not use is never looked at: generator/golang/scope_internal.go
//     buildIncludes skips unused includes).  Every other rule is enforced by
//     the front end on the whole include graph, with and without -r.
//   - a valid program that thriftgo rejects is not a C04 matter: counted
//     (status:rejected_valid, or rejected_valid_with_go_trace when the message
//     of the Go backend carries a stack) and skipped.
//   - S5 (main.handlePanic prints "Recovered from panic" and exits 0): the
//     clause is judged on both runs (exit 0 with that text, or exit 0 without
//     the expected files, is a violation).  Since the fastgo repair 86c07e2 no
//     generated input reaches a panic in main, so there is no listed finding
//     and no exclusion for it.
//   - things thriftgo does not claim to reject (integer constants out of the
//     range of their type, `const bool b = 5`, a string for an enum, unknown
//     option NAMES) are not generated.
//   - expected output of the valid run is checked by base name only
//     (<base>.go per generated IDL file, k-<base>.go in addition for fastgo);
//     directory layout and renaming on collisions belong to C11/C12.
package c04

import (
	"encoding/json"
	"fmt"
	"math"
	"os"
	"path"
	"path/filepath"
	"regexp"
	"sort"
	"strings"
	"testing"
	"time"

	"pgregory.net/rapid"

	"verif/internal/idl"
	"verif/internal/tg"
	"verif/internal/vt"
)

const prop = "C04"

// ids of the known findings (known/C04/findings.json) and their exclusion switches
const (
	kStackOverflow = "typedef-cycle-enum-selector-stack-overflow" // S3
	kUnionDefault  = "union-second-default-accepted"              // S4
	kSecondBackend = "invalid-second-backend-partial-output"
)

func TestMain(m *testing.M) { vt.Main(m) }

// ---------------------------------------------------------------- case + judge

type editInfo struct {
	Kind     string `json:"kind"`              // catalogue entry
	Variant  string `json:"variant,omitempty"` // sub-shape of the entry
	File     string `json:"file,omitempty"`    // file the edit sits in
	Where    string `json:"where"`             // main | included | cmdline
	Pos      string `json:"pos,omitempty"`     // struct union exception args throws ret typedef const enum service file
	Nested   bool   `json:"nested,omitempty"`  // inside a container element / an element of a constant literal
	Ref      string `json:"ref,omitempty"`     // local | qualified | unknown_prefix
	CycleLen int    `json:"cycle_len,omitempty"`
	Detail   string `json:"detail,omitempty"`
}

type expectation struct {
	Rejected     bool     `json:"rejected"`      // the edited input must be diagnosed (always true)
	ValidOutputs []string `json:"valid_outputs"` // base names of the files the unedited run must write
	// the unedited program has an input shape on which thriftgo is known to fail
	// (listed findings of C05 / C06); otherwise a Go trace on it is a violation
	ValidKnownReject bool `json:"valid_known_reject,omitempty"`
}

// c04Case is everything the judge needs.  "{out}" in an argument list stands
// for the scratch output directory.
type c04Case struct {
	Main      string            `json:"main"`
	Valid     map[string]string `json:"valid_files"`
	ValidArgs []string          `json:"valid_args"`
	Files     map[string]string `json:"files"`
	Args      []string          `json:"args"`
	Edit      editInfo          `json:"edit"`
	Expect    expectation       `json:"expect"`
}

const (
	stDiagnosed     = "diagnosed"
	stRejected      = "rejected_valid"
	stRejectedTrace = "rejected_valid_with_go_trace"
	watchdog        = 60 * time.Second
)

var goroutineRe = regexp.MustCompile(`goroutine \d+ \[`)

// crashMark returns the first trace marker found in the output, or "".
func crashMark(out string) string {
	for _, m := range []string{"panic:", "fatal error:", "Recovered from panic"} {
		if strings.Contains(out, m) {
			return m
		}
	}
	if m := goroutineRe.FindString(out); m != "" {
		return m
	}
	return ""
}

func runTG(bin, cwd, out string, args []string) (tg.Result, error) {
	a := make([]string, len(args))
	for i, x := range args {
		a[i] = strings.ReplaceAll(x, "{out}", out)
	}
	r := tg.Exec(bin, cwd, nil, watchdog, a...)
	if r.TimedOut {
		r = tg.Exec(bin, cwd, nil, watchdog, a...) // expiry must reproduce before it is reported
		if r.TimedOut {
			return r, fmt.Errorf("thriftgo did not finish within %v (two runs): thriftgo %s", watchdog, strings.Join(args, " "))
		}
	}
	return r, nil
}

func judge(c c04Case) (string, error) {
	bin, err := tg.Thriftgo()
	if err != nil {
		return "", fmt.Errorf("harness: %v", err)
	}
	dir, err := os.MkdirTemp("", "c04")
	if err != nil {
		return "", fmt.Errorf("harness: %v", err)
	}
	defer os.RemoveAll(dir)

	// 1. contra-positive on the unedited program
	vidl, vout := filepath.Join(dir, "v", "idl"), filepath.Join(dir, "v", "out")
	if err := os.MkdirAll(vidl, 0o755); err != nil {
		return "", fmt.Errorf("harness: %v", err)
	}
	if err := tg.WriteFiles(vidl, c.Valid); err != nil {
		return "", fmt.Errorf("harness: %v", err)
	}
	r, err := runTG(bin, vidl, vout, c.ValidArgs)
	if err != nil {
		return "", fmt.Errorf("valid program: %v", err)
	}
	cmd := "thriftgo " + strings.Join(c.ValidArgs, " ")
	if r.Exit == 0 {
		if strings.Contains(r.Output, "Recovered from panic") {
			return "", fmt.Errorf("valid program: %s exits 0 after a recovered panic, output directory holds %d file(s):\n%s", cmd, len(tg.ListFiles(vout)), vt.Truncate(r.Output, 1500))
		}
		have := map[string]bool{}
		for _, rel := range tg.ListFiles(vout) {
			have[filepath.Base(rel)] = true
		}
		var missing []string
		for _, w := range c.Expect.ValidOutputs {
			if !have[w] {
				missing = append(missing, w)
			}
		}
		if len(missing) > 0 {
			return "", fmt.Errorf("valid program: %s exits 0 without having written the complete output: missing %v, wrote %v\n%s", cmd, missing, tg.ListFiles(vout), vt.Truncate(r.Output, 800))
		}
	}
	if r.Exit != 0 {
		// a valid program that is rejected is not C04's business (C01 owns it), even
		// when the rejection message carries a Go trace; it is counted separately
		if os.Getenv("VERIF_SURVEY") != "" {
			fmt.Fprintf(os.Stderr, "REJECTED %s\n", vt.Truncate(strings.ReplaceAll(lastNonWarn(r.Output), "\n", " | "), 400))
		}
		if m := crashMark(r.Output); m != "" {
			if !c.Expect.ValidKnownReject {
				return "", fmt.Errorf("valid program: %s (exit %d) dies with a Go trace (%q) although the program has none of the input shapes of the listed C05/C06 findings:\n%s", cmd, r.Exit, m, vt.Truncate(r.Output, 1500))
			}
			return stRejectedTrace, nil
		}
		if !c.Expect.ValidKnownReject && os.Getenv("VERIF_C04_REJECT_OK") == "" {
			// the model says the program is valid and none of the listed C05/C06 shapes applies:
			// a diagnostic here blames something the IDL does not contain
			return "", fmt.Errorf("valid program: %s is rejected (exit %d) although the program is well-formed and has none of the input shapes of the listed C05/C06 findings:\n%s", cmd, r.Exit, vt.Truncate(lastNonWarn(r.Output), 1200))
		}
		return stRejected, nil
	}

	// 2. the edited input must be diagnosed
	eidl, eout := filepath.Join(dir, "e", "idl"), filepath.Join(dir, "e", "out")
	if err := os.MkdirAll(eidl, 0o755); err != nil {
		return "", fmt.Errorf("harness: %v", err)
	}
	if err := tg.WriteFiles(eidl, c.Files); err != nil {
		return "", fmt.Errorf("harness: %v", err)
	}
	r, err = runTG(bin, eidl, eout, c.Args)
	if err != nil {
		return "", fmt.Errorf("edit %s: %v", c.Edit.Kind, err)
	}
	cmd = "thriftgo " + strings.Join(c.Args, " ")
	what := fmt.Sprintf("edit %s/%s in %s (%s)", c.Edit.Kind, c.Edit.Variant, c.Edit.File, c.Edit.Detail)
	if m := crashMark(r.Output); m != "" {
		return "", fmt.Errorf("%s: %s (exit %d) dies with a Go trace (%q):\n%s", what, cmd, r.Exit, m, vt.Truncate(r.Output, 1500))
	}
	wrote := tg.ListFiles(eout)
	if r.Exit == 0 {
		return "", fmt.Errorf("%s: %s accepts the input (exit 0, %d file(s) written)\n%s", what, cmd, len(wrote), vt.Truncate(r.Output, 800))
	}
	if strings.TrimSpace(r.Output) == "" {
		return "", fmt.Errorf("%s: %s exits %d without any diagnostic", what, cmd, r.Exit)
	}
	if len(wrote) > 0 {
		return "", fmt.Errorf("%s: %s exits %d but wrote %v\n%s", what, cmd, r.Exit, wrote, vt.Truncate(r.Output, 800))
	}
	return stDiagnosed, nil
}

// ---------------------------------------------------------------- generator: environment

type env struct {
	t     *rapid.T
	p     *idl.Program
	reach []*idl.File // files reachable from main in the valid program (main first)
	n     int         // fresh-name counter

	valid            map[string]string // rendered before the edit
	validKnownReject bool              // the valid program has a shape of a listed C05 / C06 finding
	snapped          bool
	post             []func(files map[string]string) // text-level part of the edit
	info             editInfo
	needGen          bool // the rule is enforced by the backend: the edited file must be generated
	excluded         map[string]bool
}

func (e *env) fresh(prefix string) string {
	e.n++
	return fmt.Sprintf("%sZz%d", prefix, e.n)
}

func pick[T any](e *env, label string, xs []T) T { return rapid.SampledFrom(xs).Draw(e.t, label) }
func (e *env) intn(lo, hi int, label string) int { return rapid.IntRange(lo, hi).Draw(e.t, label) }
func (e *env) coin(label string) bool            { return rapid.Bool().Draw(e.t, label) }

func reachable(p *idl.Program) []*idl.File {
	seen := map[*idl.File]bool{p.Files[0]: true}
	out := []*idl.File{p.Files[0]}
	for i := 0; i < len(out); i++ {
		for _, inc := range out[i].Includes {
			if !seen[inc] {
				seen[inc] = true
				out = append(out, inc)
			}
		}
	}
	return out
}

// snap renders the valid program.  Nothing may call Type.Final() after the
// edit: a typedef chain may have become cyclic.
func (e *env) snap() {
	if e.snapped {
		panic("snap twice")
	}
	e.snapped = true
	e.valid = e.p.Texts(nil)
	a, b := idl.KnownRejectShapes(e.p)
	e.validKnownReject = a || b
}

func (e *env) where(f *idl.File) string {
	if f == e.p.Files[0] {
		return "main"
	}
	return "included"
}

func (e *env) at(f *idl.File, pos string) {
	e.info.File = f.Path
	e.info.Where = e.where(f)
	e.info.Pos = pos
}

// ---------------------------------------------------------------- slots

// tslot is one written type expression (possibly inside a container).
type tslot struct {
	f      *idl.File
	d      *idl.Def
	pos    string // typedef const struct union exception args throws ret
	nested bool
	pp     **idl.Type
}

func typeSlots(files []*idl.File) []tslot {
	var out []tslot
	var walk func(f *idl.File, d *idl.Def, pos string, pp **idl.Type, nested bool)
	walk = func(f *idl.File, d *idl.Def, pos string, pp **idl.Type, nested bool) {
		if *pp == nil {
			return
		}
		out = append(out, tslot{f, d, pos, nested, pp})
		t := *pp
		if t.Ref == nil {
			walk(f, d, pos, &t.Key, true)
			walk(f, d, pos, &t.Elem, true)
		}
	}
	for _, f := range files {
		for _, d := range f.Defs {
			switch {
			case d.Kind == idl.KTypedef || d.Kind == idl.KConst:
				walk(f, d, d.Kind.String(), &d.Type, false)
			case d.Kind.IsStructLike():
				for _, fl := range d.Fields {
					walk(f, d, d.Kind.String(), &fl.Type, false)
				}
			case d.Kind == idl.KService:
				for _, fn := range d.Funcs {
					walk(f, d, "ret", &fn.Ret, false)
					for _, a := range fn.Args {
						walk(f, d, "args", &a.Type, false)
					}
					for _, a := range fn.Throws {
						walk(f, d, "throws", &a.Type, false)
					}
				}
			}
		}
	}
	return out
}

// vslot is one written constant value (a whole initialiser or an element of a
// literal) together with its declared type.
type vslot struct {
	f      *idl.File
	d      *idl.Def
	pos    string // const struct union exception
	nested bool
	v      *idl.Value
	t      *idl.Type
}

func valueSlots(files []*idl.File) []vslot {
	var out []vslot
	var walk func(f *idl.File, d *idl.Def, pos string, v *idl.Value, t *idl.Type, nested bool)
	walk = func(f *idl.File, d *idl.Def, pos string, v *idl.Value, t *idl.Type, nested bool) {
		if v == nil || t == nil {
			return
		}
		out = append(out, vslot{f, d, pos, nested, v, t})
		if v.Kind == idl.VIdent {
			return
		}
		ft := t.Final()
		switch t.FinalCat() {
		case "list", "set":
			if v.Kind == idl.VList {
				for _, x := range v.List {
					walk(f, d, pos, x, ft.Elem, true)
				}
			}
		case "map":
			if v.Kind == idl.VMap {
				for i, x := range v.List {
					walk(f, d, pos, v.Keys[i], ft.Key, true)
					walk(f, d, pos, x, ft.Elem, true)
				}
			}
		case "struct", "union", "exception":
			if v.Kind == idl.VMap {
				for i, x := range v.List {
					if v.Keys[i].Kind != idl.VLit {
						continue
					}
					for _, fl := range ft.Ref.Fields {
						if fl.Name == v.Keys[i].Lit.Text() {
							walk(f, d, pos, x, fl.Type, true)
						}
					}
				}
			}
		}
	}
	for _, f := range files {
		for _, d := range f.Defs {
			switch {
			case d.Kind == idl.KConst:
				walk(f, d, "const", d.Value, d.Type, false)
			case d.Kind.IsStructLike():
				for _, fl := range d.Fields {
					walk(f, d, d.Kind.String(), fl.Default, fl.Type, false)
				}
			}
		}
	}
	return out
}

func defsOf(files []*idl.File, pred func(*idl.Def) bool) []*idl.Def {
	var out []*idl.Def
	for _, f := range files {
		for _, d := range f.Defs {
			if pred(d) {
				out = append(out, d)
			}
		}
	}
	return out
}

func freshID(fs []*idl.Field) int32 {
	used := map[int32]bool{}
	for _, f := range fs {
		used[f.ID] = true
	}
	id := int32(25000)
	for used[id] {
		id++
	}
	return id
}

func (e *env) insertDef(f *idl.File, d *idl.Def) {
	d.File = f
	i := e.intn(0, len(f.Defs), "insert_at")
	f.Defs = append(f.Defs, nil)
	copy(f.Defs[i+1:], f.Defs[i:])
	f.Defs[i] = d
}

// phantom makes a definition that no file contains: a reference to it renders
// as a name that is not defined where it is looked up.
func (e *env) phantom(from *idl.File, kind idl.Kind) (*idl.Def, string) {
	choices := []string{"local", "unknown_prefix"}
	if len(from.Includes) > 0 {
		choices = append(choices, "qualified", "qualified")
	}
	d := &idl.Def{Kind: kind, Name: e.fresh("Nope")}
	ref := pick(e, "refshape", choices)
	switch ref {
	case "local":
		d.File = from
	case "qualified":
		d.File = pick(e, "refinclude", from.Includes)
	default:
		d.File = &idl.File{Path: "zznosuch.thrift"}
	}
	return d, ref
}

// ---------------------------------------------------------------- the edits

type editFn func(e *env) bool // false = not applicable (nothing drawn, nothing changed)

var edits = map[string]editFn{
	"syntax":                  editSyntax,
	"missing_include":         editMissingInclude,
	"include_cycle":           editIncludeCycle,
	"dup_global_name":         editDupGlobal,
	"dup_field_name":          editDupFieldName,
	"dup_function_name":       editDupFuncName,
	"dup_enum_value_name":     editDupEnumValueName,
	"dup_field_id":            editDupFieldID,
	"dup_enum_number":         editDupEnumNumber,
	"enum_outside_int32":      editEnumRange,
	"undefined_type":          editUndefinedType,
	"const_as_type":           func(e *env) bool { return editNonType(e, idl.KConst) },
	"service_as_type":         func(e *env) bool { return editNonType(e, idl.KService) },
	"typedef_cycle":           editTypedefCycle,
	"undefined_const":         editUndefinedConst,
	"ambiguous_const":         editAmbiguousConst,
	"string_for_integer":      editStringForInt,
	"unknown_field_in_struct": func(e *env) bool { return editStructLiteral(e, false) },
	"non_string_key_in_struct": func(e *env) bool {
		return editStructLiteral(e, true)
	},
	"oneway_returns":       editOnewayReturns,
	"oneway_throws":        editOnewayThrows,
	"unknown_base_service": editUnknownBase,
	"union_second_default": editUnionSecondDefault,
}

// weights: kinds with several positions/sub-shapes are drawn more often
var kindBag = func() []string {
	w := map[string]int{"include_cycle": 4, "dup_global_name": 3, "dup_field_id": 2, "undefined_type": 3, "typedef_cycle": 3,
		"string_for_integer": 3, "syntax": 2, "undefined_const": 3, "missing_include": 2, "enum_outside_int32": 2,
		// kinds that need a service (rare in the model) are drawn more often to make up for the cases where they do not apply
		"oneway_throws": 4, "oneway_returns": 3, "unknown_base_service": 3, "service_as_type": 2, "dup_function_name": 2, "union_second_default": 2,
		"non_string_key_in_struct": 3, "unknown_field_in_struct": 2}
	var ks []string
	for k := range edits {
		ks = append(ks, k)
	}
	sort.Strings(ks)
	var bag []string
	for _, k := range ks {
		n := w[k]
		if n == 0 {
			n = 1
		}
		for i := 0; i < n; i++ {
			bag = append(bag, k)
		}
	}
	return bag
}()

// --- syntax error (text level: the model can only express well-formed files)
func editSyntax(e *env) bool {
	f := pick(e, "file", e.reach)
	e.snap()
	e.at(f, "file")
	vs := []string{"unclosed_definition_at_eof", "stray_close_at_start", "unterminated_literal", "missing_name", "field_without_name"}
	if n := len(f.Defs); n > 0 {
		last := f.Defs[n-1]
		if (last.Kind == idl.KEnum || last.Kind == idl.KService || last.Kind.IsStructLike()) && last.Annos == nil {
			vs = append(vs, "drop_last_brace", "drop_last_brace")
		}
	}
	v := pick(e, "syntax_shape", vs)
	e.info.Variant = v
	p := f.Path
	e.post = append(e.post, func(m map[string]string) {
		switch v {
		case "unclosed_definition_at_eof":
			m[p] += "struct {\n"
		case "stray_close_at_start":
			m[p] = "}\n" + m[p]
		case "unterminated_literal":
			m[p] += "const string zzs = \"abc\n"
		case "missing_name":
			m[p] += "const i32 = 5\n"
		case "field_without_name":
			m[p] += "struct ZzS { 1: i32 }\n"
		case "drop_last_brace":
			s := strings.TrimRight(m[p], "\n")
			if !strings.HasSuffix(s, "}") {
				panic("harness: canonical text does not end with a brace")
			}
			m[p] = strings.TrimSuffix(s, "}") + "\n"
		}
	})
	return true
}

// --- include of a file that does not exist
func editMissingInclude(e *env) bool {
	f := pick(e, "file", e.reach)
	e.snap()
	e.at(f, "file")
	lit := pick(e, "missing", []string{"zz_missing.thrift", "zzdir/missing.thrift", "../zz_missing.thrift", "main.thrift.bak"})
	e.info.Detail = lit
	p := f.Path
	e.post = append(e.post, func(m map[string]string) { m[p] = "include \"" + lit + "\"\n" + m[p] })
	return true
}

// includeLit spells an include of g written in f the way the generator does:
// relative to the working directory, or relative to the including file when
// that cannot be mistaken for another file of the program.
func (e *env) includeLit(f, g *idl.File) string {
	rel, err := filepath.Rel(path.Dir(f.Path), g.Path)
	if err != nil || rel == g.Path {
		return g.Path
	}
	for _, x := range e.p.Files {
		if x.Path == path.Clean(rel) {
			return g.Path
		}
	}
	if e.coin("includer_relative") {
		return rel
	}
	return g.Path
}

// --- include cycle of length 1..4 through files reachable from main
func editIncludeCycle(e *env) bool {
	first := pick(e, "file", e.reach)
	maxLen := len(e.p.Files)
	if maxLen > 4 {
		maxLen = 4
	}
	k := maxLen
	if e.intn(0, 2, "shorter") == 0 {
		k = e.intn(1, maxLen, "cycle_len")
	}
	cyc := []*idl.File{first}
	var rest []*idl.File
	for _, f := range e.p.Files {
		if f != first {
			rest = append(rest, f)
		}
	}
	if k > 1 {
		rest = rapid.Permutation(rest).Draw(e.t, "cycle_files")
		cyc = append(cyc, rest[:k-1]...)
	}
	e.snap()
	e.at(first, "file")
	for _, f := range cyc {
		if f != e.p.Files[0] {
			e.info.Where = "included"
		}
	}
	type edge struct{ from, lit string }
	var edges []edge
	adj := map[*idl.File][]*idl.File{}
	for _, f := range e.p.Files {
		adj[f] = append(adj[f], f.Includes...)
	}
	var names []string
	for i, f := range cyc {
		g := cyc[(i+1)%len(cyc)]
		edges = append(edges, edge{f.Path, e.includeLit(f, g)})
		adj[f] = append(adj[f], g)
		names = append(names, f.Path)
	}
	// length of the shortest cycle actually present (existing includes may shorten the constructed one)
	girth := 0
	for _, s := range e.p.Files {
		dist := map[*idl.File]int{s: 0}
		q := []*idl.File{s}
		for len(q) > 0 {
			x := q[0]
			q = q[1:]
			for _, y := range adj[x] {
				if y == s && (girth == 0 || dist[x]+1 < girth) {
					girth = dist[x] + 1
				}
				if _, ok := dist[y]; !ok {
					dist[y] = dist[x] + 1
					q = append(q, y)
				}
			}
		}
	}
	e.info.CycleLen = len(cyc)
	e.info.Variant = fmt.Sprintf("shortest_cycle_%d", girth)
	e.info.Detail = strings.Join(names, " -> ")
	e.post = append(e.post, func(m map[string]string) {
		for _, ed := range edges {
			m[ed.from] = "include \"" + ed.lit + "\"\n" + m[ed.from]
		}
	})
	return true
}

// --- a second definition with a name that is already taken in the file
func editDupGlobal(e *env) bool {
	cands := defsOf(e.reach, func(*idl.Def) bool { return true })
	if len(cands) == 0 {
		return false
	}
	a := pick(e, "dup_of", cands)
	k := pick(e, "dup_kind", []idl.Kind{idl.KConst, idl.KTypedef, idl.KEnum, idl.KStruct, idl.KUnion, idl.KException, idl.KService})
	e.snap()
	e.at(a.File, "file")
	e.info.Variant = a.Kind.String() + "/" + k.String()
	e.info.Detail = a.Name
	d := &idl.Def{Kind: k, Name: a.Name}
	switch k {
	case idl.KConst:
		d.Type = &idl.Type{Base: "i32"}
		d.Value = &idl.Value{Kind: idl.VInt, Int: 1}
	case idl.KTypedef:
		d.Type = &idl.Type{Base: "string"}
	case idl.KEnum:
		d.Values = []*idl.EnumVal{{Name: e.fresh("E")}}
	}
	e.insertDef(a.File, d)
	return true
}

// --- struct / union / exception: a further field with a name already used
// (argument and throws lists are not checked by thriftgo: not generated)
func editDupFieldName(e *env) bool {
	cands := defsOf(e.reach, func(d *idl.Def) bool { return d.Kind.IsStructLike() && len(d.Fields) > 0 })
	if len(cands) == 0 {
		return false
	}
	d := pick(e, "in", cands)
	of := pick(e, "dup_of", d.Fields)
	e.snap()
	e.at(d.File, d.Kind.String())
	e.info.Detail = d.Name + "." + of.Name
	d.Fields = append(d.Fields, &idl.Field{ID: freshID(d.Fields), Explicit: true, Name: of.Name, Type: &idl.Type{Base: "i32"}})
	return true
}

func editDupFuncName(e *env) bool {
	cands := defsOf(e.reach, func(d *idl.Def) bool { return d.Kind == idl.KService && len(d.Funcs) > 0 })
	if len(cands) == 0 {
		return false
	}
	d := pick(e, "in", cands)
	of := pick(e, "dup_of", d.Funcs)
	at := e.intn(0, len(d.Funcs), "insert_at")
	e.snap()
	e.at(d.File, "service")
	e.info.Detail = d.Name + "." + of.Name
	fn := &idl.Func{Name: of.Name}
	d.Funcs = append(d.Funcs, nil)
	copy(d.Funcs[at+1:], d.Funcs[at:])
	d.Funcs[at] = fn
	return true
}

func enumFreshNumber(d *idl.Def) int64 {
	used := map[int64]bool{}
	for _, v := range d.Values {
		used[v.Value] = true
	}
	n := int64(1000)
	for used[n] {
		n++
	}
	return n
}

func editDupEnumValueName(e *env) bool {
	cands := defsOf(e.reach, func(d *idl.Def) bool { return d.Kind == idl.KEnum && len(d.Values) > 0 })
	if len(cands) == 0 {
		return false
	}
	d := pick(e, "in", cands)
	of := pick(e, "dup_of", d.Values)
	e.snap()
	e.at(d.File, "enum")
	e.info.Detail = d.Name + "." + of.Name
	// appended with an explicit unused number, so that only the name clashes
	d.Values = append(d.Values, &idl.EnumVal{Name: of.Name, Value: enumFreshNumber(d), Explicit: true})
	return true
}

// --- struct / union / exception: a further field with an id already used
// (thriftgo has no such test for argument and throws lists: not generated)
func editDupFieldID(e *env) bool {
	cands := defsOf(e.reach, func(d *idl.Def) bool { return d.Kind.IsStructLike() && len(d.Fields) > 0 })
	if len(cands) == 0 {
		return false
	}
	d := pick(e, "in", cands)
	of := pick(e, "dup_of", d.Fields)
	hex := of.ID >= 0 && e.intn(0, 3, "hex") == 0
	e.snap()
	e.at(d.File, d.Kind.String())
	e.info.Detail = fmt.Sprintf("%s id %d", d.Name, of.ID)
	d.Fields = append(d.Fields, &idl.Field{ID: of.ID, Explicit: true, HexID: hex, Name: e.fresh("fdup"), Type: &idl.Type{Base: "i32"}})
	return true
}

func editDupEnumNumber(e *env) bool {
	cands := defsOf(e.reach, func(d *idl.Def) bool { return d.Kind == idl.KEnum && len(d.Values) > 0 })
	if len(cands) == 0 {
		return false
	}
	d := pick(e, "in", cands)
	of := pick(e, "dup_of", d.Values)
	sp := 0
	if of.Value >= 0 {
		sp = e.intn(0, 2, "spelling")
	}
	e.snap()
	e.at(d.File, "enum")
	e.info.Detail = fmt.Sprintf("%s = %d", d.Name, of.Value)
	d.Values = append(d.Values, &idl.EnumVal{Name: e.fresh("Edup"), Value: of.Value, Explicit: true, Spelling: sp})
	return true
}

// --- enum value outside int32 (explicit, or implicit successor of MaxInt32)
func editEnumRange(e *env) bool {
	cands := defsOf(e.reach, func(d *idl.Def) bool { return d.Kind == idl.KEnum })
	if len(cands) == 0 {
		return false
	}
	d := pick(e, "in", cands)
	hasMax := false
	for _, v := range d.Values {
		if v.Value == math.MaxInt32 {
			hasMax = true
		}
	}
	last := len(d.Values) > 0 && d.Values[len(d.Values)-1].Value == math.MaxInt32
	if (last || !hasMax) && e.intn(0, 3, "implicit") == 0 {
		if !last {
			// still valid: the largest legal value, written explicitly
			d.Values = append(d.Values, &idl.EnumVal{Name: e.fresh("Emax"), Value: math.MaxInt32, Explicit: true})
		}
		e.snap()
		e.at(d.File, "enum")
		e.info.Variant = "implicit_successor_of_maxint32"
		e.info.Detail = d.Name
		d.Values = append(d.Values, &idl.EnumVal{Name: e.fresh("Ebig"), Value: math.MaxInt32 + 1})
		return true
	}
	v := pick(e, "value", []int64{math.MaxInt32 + 1, math.MinInt32 - 1, 1 << 32, 1 << 40, -(1 << 40), 1 << 62, math.MaxInt64})
	sp := 0
	if v >= 0 {
		sp = e.intn(0, 1, "spelling")
	}
	e.snap()
	e.at(d.File, "enum")
	e.info.Variant = "explicit"
	e.info.Detail = fmt.Sprintf("%s = %d", d.Name, v)
	d.Values = append(d.Values, &idl.EnumVal{Name: e.fresh("Ebig"), Value: v, Explicit: true, Spelling: sp})
	return true
}

func (e *env) atSlot(s tslot) {
	e.at(s.f, s.pos)
	e.info.Nested = s.nested
	e.info.Detail = s.d.Name
}

// --- a type name that is not defined (locally, in the named include, or with a prefix that is no include)
func editUndefinedType(e *env) bool {
	slots := typeSlots(e.reach)
	if len(slots) == 0 {
		return false
	}
	s := pick(e, "slot", slots)
	ph, ref := e.phantom(s.f, idl.KStruct)
	e.snap()
	e.atSlot(s)
	e.info.Ref = ref
	*s.pp = &idl.Type{Ref: ph}
	return true
}

// --- a constant or a service used where a type is expected
func editNonType(e *env, kind idl.Kind) bool {
	slots := typeSlots(e.reach)
	byFile := map[*idl.File][]*idl.Def{}
	for _, f := range e.reach {
		vis := append([]*idl.File{f}, f.Includes...)
		byFile[f] = defsOf(vis, func(d *idl.Def) bool { return d.Kind == kind })
	}
	var ok []tslot
	for _, s := range slots {
		if len(byFile[s.f]) > 0 {
			ok = append(ok, s)
		}
	}
	if len(ok) == 0 {
		return false
	}
	s := pick(e, "slot", ok)
	d := pick(e, "nontype", byFile[s.f])
	e.snap()
	e.atSlot(s)
	e.info.Ref = "local"
	if d.File != s.f {
		e.info.Ref = "qualified"
	}
	e.info.Detail += " <- " + d.Name
	*s.pp = &idl.Type{Ref: d}
	return true
}

// viaChainHits reports whether some constant value written in d's file names
// an enum member through a typedef whose chain passes through d: thriftgo
// follows that chain in getEnum before typedef cycles are rejected (S3).
func viaChainHits(e *env, d *idl.Def) bool {
	for _, s := range valueSlots([]*idl.File{d.File}) {
		if s.v.Kind != idl.VIdent || s.v.Via == nil {
			continue
		}
		for x := s.v.Via; x != nil && x.Kind == idl.KTypedef; x = x.Type.Ref {
			if x == d {
				return true
			}
			if x.Type == nil {
				break
			}
		}
	}
	return false
}

// --- typedef chain that never reaches a type: cycle of 1..3 typedefs
func editTypedefCycle(e *env) bool {
	cands := defsOf(e.reach, func(d *idl.Def) bool { return d.Kind == idl.KTypedef })
	if vt.Known(prop, kStackOverflow) {
		var keep []*idl.Def
		for _, d := range cands {
			if viaChainHits(e, d) {
				e.excluded[kStackOverflow] = true
				continue
			}
			keep = append(keep, d)
		}
		cands = keep
	}
	// typedefs that a constant of the same file uses as an enum selector (`const T c = T.Member`) are
	// preferred: there thriftgo walks the chain (getEnum) before it rejects typedef cycles.  When the
	// program has none, one is added first (still valid: a typedef of an enum and a constant naming a
	// member through it).
	var sel []*idl.Def
	for _, d := range cands {
		if viaChainHits(e, d) {
			sel = append(sel, d)
		}
	}
	enums := defsOf(e.reach, func(d *idl.Def) bool { return d.Kind == idl.KEnum && len(d.Values) > 0 })
	if !vt.Known(prop, kStackOverflow) {
		switch {
		case len(sel) > 0 && e.coin("enum_selector"):
			cands = sel
		case len(sel) == 0 && len(enums) > 0 && e.intn(0, 2, "add_enum_selector") == 0:
			en := pick(e, "enum", enums)
			td := &idl.Def{Kind: idl.KTypedef, Name: e.fresh("Tsel"), Type: &idl.Type{Ref: en}}
			e.insertDef(en.File, td)
			m := pick(e, "member", en.Values)
			e.insertDef(en.File, &idl.Def{Kind: idl.KConst, Name: e.fresh("Csel"), Type: &idl.Type{Ref: td},
				Value: &idl.Value{Kind: idl.VIdent, Ident: td.Name + "." + m.Name, RefEnum: en, RefVal: m.Name, Via: td}})
			cands = []*idl.Def{td}
		}
	} else if len(enums) > 0 {
		e.excluded[kStackOverflow] = true
	}
	if len(cands) == 0 {
		return false
	}
	d := pick(e, "typedef", cands)
	k := e.intn(1, 3, "td_cycle_len")
	e.snap()
	e.at(d.File, "typedef")
	e.info.CycleLen = k
	e.info.Detail = d.Name
	if viaChainHits(e, d) {
		e.info.Variant = "used_as_enum_selector"
	}
	prev := d
	for i := 1; i < k; i++ {
		n := &idl.Def{Kind: idl.KTypedef, Name: e.fresh("Tcyc")}
		e.insertDef(d.File, n)
		prev.Type = &idl.Type{Ref: n}
		prev = n
	}
	prev.Type = &idl.Type{Ref: d}
	return true
}

func (e *env) atValue(s vslot) {
	e.at(s.f, s.pos)
	e.info.Nested = s.nested
	e.info.Detail = s.d.Name
}

// --- an identifier that names no constant and no enum value
func editUndefinedConst(e *env) bool {
	slots := valueSlots(e.reach)
	if len(slots) == 0 {
		return false
	}
	s := pick(e, "slot", slots)
	// a bare undefined name as the WHOLE value of a container-typed position takes another
	// path through the resolver and the backend than one inside a scalar position: half of the edits
	var whole []vslot
	for _, x := range slots {
		if c := x.t.FinalCat(); c == "list" || c == "set" || c == "map" {
			whole = append(whole, x)
		}
	}
	forceLocal := false
	if len(whole) > 0 && e.coin("whole_container_value") {
		s = pick(e, "containerslot", whole)
		forceLocal = true
	}
	shapes := []string{"local", "unknown_prefix"}
	if forceLocal {
		shapes = []string{"local"}
	} else if len(s.f.Includes) > 0 {
		shapes = append(shapes, "qualified", "qualified")
	}
	enums := defsOf(append([]*idl.File{s.f}, s.f.Includes...), func(d *idl.Def) bool { return d.Kind == idl.KEnum })
	if len(enums) > 0 && !forceLocal {
		shapes = append(shapes, "no_such_member", "no_such_member")
	}
	sh := pick(e, "identshape", shapes)
	id := e.fresh("cNope")
	ref := sh
	switch sh {
	case "qualified":
		id = pick(e, "refinclude", s.f.Includes).Prefix() + "." + id
	case "unknown_prefix":
		id = "zznosuch." + id
	case "no_such_member":
		en := pick(e, "enum", enums)
		ref = "local"
		if en.File != s.f {
			ref = "qualified"
		}
		id = idl.TypeRefText(s.f, en) + "." + id
	}
	e.snap()
	e.atValue(s)
	e.info.Variant = sh
	e.info.Ref = ref
	e.info.Detail += " = " + id
	*s.v = idl.Value{Kind: idl.VIdent, Ident: id}
	return true
}

func visibleType(f *idl.File, t *idl.Type) bool {
	if t == nil {
		return true
	}
	if t.Ref != nil {
		return t.Ref.File == f || f.IncludeIndex(t.Ref.File) >= 0
	}
	return visibleType(f, t.Key) && visibleType(f, t.Elem)
}

func copyType(t *idl.Type) *idl.Type {
	if t == nil {
		return nil
	}
	return &idl.Type{Base: t.Base, Ref: t.Ref, Key: copyType(t.Key), Elem: copyType(t.Elem)}
}

// --- `inc.C` that is both the constant C of include inc and the member C of a local enum named inc
func editAmbiguousConst(e *env) bool {
	type cand struct {
		f *idl.File
		c *idl.Def
	}
	var have, can []cand
	for _, s := range valueSlots(e.reach) {
		if s.v.Kind == idl.VIdent && s.v.RefConst != nil && s.v.RefConst.File != s.f {
			have = append(have, cand{s.f, s.v.RefConst})
		}
	}
	for _, f := range e.reach {
		for _, inc := range f.Includes {
			for _, c := range inc.Defs {
				if c.Kind == idl.KConst && visibleType(f, c.Type) {
					can = append(can, cand{f, c})
				}
			}
		}
	}
	if len(have)+len(can) == 0 {
		return false
	}
	var c cand
	if len(have) > 0 && (len(can) == 0 || e.coin("existing_reference")) {
		c = pick(e, "reference", have)
		e.info.Variant = "existing_reference"
	} else {
		// still valid: a constant that refers to the included constant
		c = pick(e, "constant", can)
		e.info.Variant = "added_reference"
		e.insertDef(c.f, &idl.Def{Kind: idl.KConst, Name: e.fresh("Cref"), Type: copyType(c.c.Type),
			Value: &idl.Value{Kind: idl.VIdent, Ident: idl.ConstRefText(c.f, c.c), RefConst: c.c}})
	}
	e.snap()
	e.at(c.f, "const")
	e.info.Ref = "qualified"
	e.info.Detail = idl.ConstRefText(c.f, c.c)
	e.insertDef(c.f, &idl.Def{Kind: idl.KEnum, Name: c.c.File.Prefix(), Values: []*idl.EnumVal{{Name: c.c.Name}}})
	return true
}

// --- a string literal where the declared type is an integer (enforced by the Go backend)
func editStringForInt(e *env) bool {
	var slots []vslot
	for _, s := range valueSlots(e.reach) {
		switch s.t.FinalCat() {
		case "byte", "i16", "i32", "i64":
			slots = append(slots, s)
		}
	}
	if len(slots) == 0 {
		return false
	}
	s := pick(e, "slot", slots)
	txt := pick(e, "text", []string{"x", "", "1", "0x10"})
	e.snap()
	e.atValue(s)
	e.needGen = true
	e.info.Variant = s.t.FinalCat()
	*s.v = idl.Value{Kind: idl.VLit, Lit: idl.PlainLit(txt)}
	return true
}

// --- struct literal with a key that is no field name / that is not a string (enforced by the Go backend)
func editStructLiteral(e *env, nonString bool) bool {
	var slots []vslot
	for _, s := range valueSlots(e.reach) {
		switch s.t.FinalCat() {
		case "struct", "union", "exception":
			if s.v.Kind == idl.VMap {
				slots = append(slots, s)
			}
		}
	}
	if len(slots) == 0 {
		return false
	}
	s := pick(e, "slot", slots)
	e.snap()
	e.atValue(s)
	e.needGen = true
	e.info.Variant = s.t.FinalCat() + "_literal"
	key := &idl.Value{Kind: idl.VLit, Lit: idl.PlainLit(e.fresh("no_such_field"))}
	if nonString {
		key = &idl.Value{Kind: idl.VInt, Int: 7}
	}
	s.v.Keys = append(s.v.Keys, key)
	s.v.List = append(s.v.List, &idl.Value{Kind: idl.VInt, Int: 1})
	return true
}

type fnAt struct {
	d  *idl.Def
	fn *idl.Func
}

func funcsOf(files []*idl.File, pred func(*idl.Def, *idl.Func) bool) []fnAt {
	var out []fnAt
	for _, f := range files {
		for _, d := range f.Defs {
			for _, fn := range d.Funcs {
				if pred(d, fn) {
					out = append(out, fnAt{d, fn})
				}
			}
		}
	}
	return out
}

// --- oneway function with a return type
func editOnewayReturns(e *env) bool {
	cands := funcsOf(e.reach, func(d *idl.Def, fn *idl.Func) bool {
		return (fn.Oneway && fn.Ret == nil) || (!fn.Oneway && fn.Ret != nil && len(fn.Throws) == 0)
	})
	if len(cands) == 0 {
		return false
	}
	c := pick(e, "func", cands)
	e.snap()
	e.at(c.d.File, "ret")
	e.info.Detail = c.d.Name + "." + c.fn.Name
	if c.fn.Oneway {
		e.info.Variant = "add_return_type"
		c.fn.Ret = &idl.Type{Base: "i32"}
	} else {
		e.info.Variant = "make_oneway"
		c.fn.Oneway = true
	}
	return true
}

// --- oneway function with a non-empty throws list
func editOnewayThrows(e *env) bool {
	excOf := func(f *idl.File) []*idl.Def {
		return defsOf(append([]*idl.File{f}, f.Includes...), func(d *idl.Def) bool { return d.Kind == idl.KException })
	}
	cands := funcsOf(e.reach, func(d *idl.Def, fn *idl.Func) bool {
		if fn.Oneway {
			return fn.Ret == nil && len(fn.Throws) == 0 && len(excOf(d.File)) > 0
		}
		return fn.Ret == nil && len(fn.Throws) > 0
	})
	if len(cands) == 0 {
		return false
	}
	c := pick(e, "func", cands)
	var exc *idl.Def
	if c.fn.Oneway {
		exc = pick(e, "exception", excOf(c.d.File))
	}
	e.snap()
	e.at(c.d.File, "throws")
	e.info.Detail = c.d.Name + "." + c.fn.Name
	if c.fn.Oneway {
		e.info.Variant = "add_throws"
		c.fn.HasThrows = true
		c.fn.Throws = []*idl.Field{{ID: 1, Explicit: true, Name: e.fresh("ex"), Type: &idl.Type{Ref: exc}}}
	} else {
		e.info.Variant = "make_oneway"
		c.fn.Oneway = true
	}
	return true
}

// --- service that extends something that is no service
func editUnknownBase(e *env) bool {
	cands := defsOf(e.reach, func(d *idl.Def) bool { return d.Kind == idl.KService })
	if len(cands) == 0 {
		return false
	}
	d := pick(e, "service", cands)
	others := defsOf([]*idl.File{d.File}, func(x *idl.Def) bool { return x.Kind != idl.KService })
	if len(others) > 0 && e.intn(0, 3, "non_service") == 0 {
		o := pick(e, "non_service_def", others)
		e.snap()
		e.at(d.File, "service")
		e.info.Variant = "extends_" + o.Kind.String()
		e.info.Ref = "local"
		e.info.Detail = d.Name + " extends " + o.Name
		d.Extends = o
		return true
	}
	ph, ref := e.phantom(d.File, idl.KService)
	e.snap()
	e.at(d.File, "service")
	e.info.Variant = "undefined"
	e.info.Ref = ref
	e.info.Detail = d.Name
	d.Extends = ph
	return true
}

// --- union with two members that carry a default value
func editUnionSecondDefault(e *env) bool {
	cands := defsOf(e.reach, func(d *idl.Def) bool { return d.Kind == idl.KUnion })
	if len(cands) == 0 {
		return false
	}
	if vt.Known(prop, kUnionDefault) {
		e.excluded[kUnionDefault] = true
		return false
	}
	d := pick(e, "union", cands)
	mk := func() *idl.Field {
		f := &idl.Field{ID: freshID(d.Fields), Explicit: true, Name: e.fresh("fdef")}
		// the requiredness keyword of a union member is legal (ignored with a warning): the rule must hold for all three
		f.Req = pick(e, "default_req", []idl.Req{idl.ReqDefault, idl.ReqDefault, idl.ReqOptional, idl.ReqRequired})
		switch pick(e, "default_type", []string{"i32", "string", "bool"}) {
		case "i32":
			f.Type, f.Default = &idl.Type{Base: "i32"}, &idl.Value{Kind: idl.VInt, Int: 1}
		case "string":
			f.Type, f.Default = &idl.Type{Base: "string"}, &idl.Value{Kind: idl.VLit, Lit: idl.PlainLit("s")}
		default:
			f.Type, f.Default = &idl.Type{Base: "bool"}, &idl.Value{Kind: idl.VIdent, Ident: "true", IsBoolKw: true}
		}
		return f
	}
	has := false
	for _, f := range d.Fields {
		if f.Default != nil {
			has = true
		}
	}
	if !has {
		d.Fields = append(d.Fields, mk()) // still valid: the first default
	}
	e.snap()
	e.at(d.File, "union")
	e.info.Detail = d.Name
	d.Fields = append(d.Fields, mk())
	return true
}

// ---------------------------------------------------------------- generator: assembling a case

func modelCfg() idl.Cfg {
	c := idl.GoSafe()
	c.MaxFiles = 4
	c.MaxDefs = 3
	c.NoNamespace = true
	return c
}

func outputsOf(files []*idl.File, recurse bool, backend string) []string {
	var out []string
	for i, f := range files {
		if i > 0 && !recurse {
			break
		}
		out = append(out, f.Prefix()+".go")
		if backend == "fastgo" {
			out = append(out, "k-"+f.Prefix()+".go")
		}
	}
	sort.Strings(out)
	return out
}

func cmdline(backend string, recurse bool, main string) []string {
	a := []string{"-g", backend, "-o", "{out}"}
	if recurse {
		a = append(a, "-r")
	}
	return append(a, main)
}

func texts(m map[string]string) string {
	var ks []string
	for k := range m {
		ks = append(ks, k)
	}
	sort.Strings(ks)
	var b strings.Builder
	for _, k := range ks {
		b.WriteString(k + "\x00" + m[k] + "\x00")
	}
	return b.String()
}

func drawBackend(e *env) string {
	if e.intn(0, 2, "fastgo") == 0 {
		return "fastgo"
	}
	return "go"
}

func genIDLCase(rt *rapid.T) (c04Case, *env) {
	p := idl.Gen(rt, modelCfg())
	idl.AddEnumNumberConsts(rt, p)
	e := &env{t: rt, p: p, reach: reachable(p), excluded: map[string]bool{}}
	bag := kindBag
	for {
		k := pick(e, "edit", bag)
		if edits[k](e) {
			e.info.Kind = k
			break
		}
		var rest []string
		for _, x := range bag {
			if x != k {
				rest = append(rest, x)
			}
		}
		bag = rest
	}
	if !e.snapped {
		panic("harness: edit did not render the valid program")
	}
	files := p.Texts(nil)
	for _, f := range e.post {
		f(files)
	}
	recurse := e.coin("recurse")
	if e.needGen && e.info.Where != "main" {
		recurse = true // the rule is enforced while the file is generated
	}
	backend := drawBackend(e)
	main := p.Files[0].Path
	c := c04Case{Main: main, Valid: e.valid, Files: files, Edit: e.info,
		ValidArgs: cmdline(backend, recurse, main), Args: cmdline(backend, recurse, main),
		Expect: expectation{Rejected: true, ValidOutputs: outputsOf(e.reach, recurse, backend), ValidKnownReject: e.validKnownReject}}
	return c, e
}

func count(c c04Case, e *env, st string) {
	vt.Class("status:" + st)
	vt.Class("edit:" + c.Edit.Kind)
	if c.Edit.Variant != "" {
		vt.Class("edit:" + c.Edit.Kind + "/" + c.Edit.Variant)
	}
	vt.Class("where:" + c.Edit.Where)
	if c.Edit.Pos != "" {
		vt.Class("pos:" + c.Edit.Pos)
		vt.Class("pos:" + c.Edit.Pos + "@" + c.Edit.Where)
	}
	vt.ClassIf(c.Edit.Nested, "nested_position")
	vt.ClassIf(c.Edit.Ref != "", "ref:"+c.Edit.Ref)
	if c.Edit.Kind == "include_cycle" {
		vt.Class(fmt.Sprintf("include_cycle_len:%d", c.Edit.CycleLen))
	}
	if c.Edit.Kind == "typedef_cycle" {
		vt.Class(fmt.Sprintf("typedef_cycle_len:%d", c.Edit.CycleLen))
	}
	for _, a := range c.Args {
		if a == "-r" {
			vt.Class("recurse:on")
		}
	}
	if len(c.Args) > 1 && c.Args[0] == "-g" {
		vt.Class("backend:" + strings.SplitN(c.Args[1], ":", 2)[0])
	}
	if e != nil {
		for id := range e.excluded {
			vt.Excluded(id)
		}
	}
}

func nontrivial(ed editInfo) bool {
	if ed.Kind == "include_cycle" {
		return ed.CycleLen >= 2
	}
	return ed.Where == "included" || ed.Nested || ed.Pos == "args" || ed.Pos == "throws"
}

func TestInvalidIDL(t *testing.T) {
	rapid.Check(t, func(rt *rapid.T) {
		c, e := genIDLCase(rt)
		vt.Eval()
		st, err := judge(c)
		count(c, e, st)
		if st == stDiagnosed && nontrivial(c.Edit) {
			vt.Nontrivial(texts(c.Files) + strings.Join(c.Args, " "))
		}
		vt.Sample(map[string]interface{}{"program": e.p.Describe(), "edit": c.Edit, "args": strings.Join(c.Args, " "), "status": st})
		if err != nil {
			if survey(c, err) {
				return
			}
			vt.Fail(rt, prop, "idl", c, "%v", err)
		}
	})
}

// ---------------------------------------------------------------- invalid command lines

var boolOpts = []string{"ignore_initialisms", "json_enum_as_text", "gen_setter", "gen_db_tag", "use_type_alias", "validate_set", "reorder_fields",
	"keep_unknown_fields", "gen_deep_equal", "nil_safe", "frugal_tag", "with_reflection", "enum_as_int_32", "trim_idl", "no_fmt", "skip_empty", "no_processor"}

func genCmdCase(rt *rapid.T) (c04Case, *env) {
	cfg := modelCfg()
	cfg.MaxFiles = 3
	p := idl.Gen(rt, cfg)
	idl.AddEnumNumberConsts(rt, p)
	e := &env{t: rt, p: p, reach: reachable(p), excluded: map[string]bool{}}
	e.snap()
	recurse := e.coin("recurse")
	backend := drawBackend(e)
	main := p.Files[0].Path
	good := cmdline(backend, recurse, main)
	tail := []string{"-o", "{out}"}
	if recurse {
		tail = append(tail, "-r")
	}
	kinds := []string{"no_backend", "unknown_backend", "two_idl_files", "no_idl_file", "missing_idl_file", "bad_option_value", "bad_option_value", "unknown_plugin", "unknown_flag", "bad_flag_value", "second_backend_invalid", "first_backend_invalid", "first_backend_invalid"}
	var args []string
	var detail string
	for args == nil {
		k := pick(e, "cmd_edit", kinds)
		e.info = editInfo{Kind: "cmdline:" + k, Where: "cmdline"}
		switch k {
		case "no_backend":
			args = append(append([]string{}, tail...), main)
		case "unknown_backend":
			detail = pick(e, "backend_name", []string{"nosuch", "java", "Go", "golang", "go2", "fast-go"})
			args = append(append([]string{"-g", detail}, tail...), main)
		case "two_idl_files":
			second := main
			if len(p.Files) > 1 && e.coin("other_file") {
				second = p.Files[1].Path
			}
			args = append(append([]string{}, good...), second)
		case "no_idl_file":
			args = good[:len(good)-1]
		case "missing_idl_file":
			args = append(append([]string{}, good[:len(good)-1]...), "zz_missing.thrift")
		case "bad_option_value":
			switch pick(e, "option", []string{"naming_style", "bool", "template", "use_package"}) {
			case "naming_style":
				detail = "naming_style=" + pick(e, "value", []string{"foo", "", "GOLINT", "camel"})
			case "bool":
				detail = pick(e, "boolopt", boolOpts) + "=" + pick(e, "value", []string{"maybe", "1", "TRUE", "yes", "0", "off"})
			case "template":
				detail = "template=" + pick(e, "value", []string{"foo", "Slim"})
			default:
				detail = "use_package=" + pick(e, "value", []string{"foo", ""})
			}
			// an option that switches generation off does not switch validation off
			if backend == "go" && e.coin("after_skip_go_gen") {
				detail = "skip_go_gen," + detail
			}
			args = append(append([]string{"-g", backend + ":" + detail}, tail...), main)
		case "unknown_plugin":
			detail = pick(e, "plugin", []string{"zznosuchplugin", "zznosuch=/nonexistent/zz-plugin", "zznosuch:opt=1"})
			args = append(append([]string{"-g", backend, "-p", detail}, tail...), main)
		case "unknown_flag":
			detail = pick(e, "flag", []string{"-zzz", "--no-such-flag", "-G"})
			args = append(append([]string{"-g", backend, detail}, tail...), main)
		case "bad_flag_value":
			detail = pick(e, "flag", []string{"-plugin-time-limit=abc", "-r=maybe", "-check-keywords=7"})
			args = append(append([]string{"-g", backend, detail}, tail...), main)
		case "first_backend_invalid":
			// an invalid -g followed by valid ones: the failure of an earlier target must not be forgotten
			detail = pick(e, "first", []string{"nosuch", "go:naming_style=foo", "go:gen_setter=maybe", "fastgo:template=foo", "fastgo:naming_style=foo"})
			args = []string{"-g", detail, "-g", backend}
			if e.coin("third") {
				args = append(args, "-g", pick(e, "third_backend", []string{"go", "fastgo"}))
			}
			args = append(append(args, tail...), main)
		case "second_backend_invalid":
			// a valid -g followed by an invalid one: the first backend's files are written before the second is looked at
			if vt.Known(prop, kSecondBackend) {
				e.excluded[kSecondBackend] = true
				var rest []string
				for _, x := range kinds {
					if x != k {
						rest = append(rest, x)
					}
				}
				kinds = rest
				continue
			}
			detail = pick(e, "second", []string{"nosuch", "go:gen_setter=maybe", "go:naming_style=foo"})
			args = append(append([]string{"-g", backend, "-g", detail}, tail...), main)
		}
	}
	e.info.Detail = detail
	c := c04Case{Main: main, Valid: e.valid, Files: e.valid, Edit: e.info, ValidArgs: good, Args: args,
		Expect: expectation{Rejected: true, ValidOutputs: outputsOf(e.reach, recurse, backend), ValidKnownReject: e.validKnownReject}}
	return c, e
}

func TestInvalidCommandLine(t *testing.T) {
	rapid.Check(t, func(rt *rapid.T) {
		c, e := genCmdCase(rt)
		vt.Eval()
		st, err := judge(c)
		count(c, e, st)
		if st == stDiagnosed && len(c.Files) > 1 {
			vt.Nontrivial(texts(c.Files) + strings.Join(c.Args, " "))
		}
		vt.Sample(map[string]interface{}{"program": e.p.Describe(), "edit": c.Edit, "args": strings.Join(c.Args, " "), "status": st})
		if err != nil {
			if survey(c, err) {
				return
			}
			vt.Fail(rt, prop, "cmdline", c, "%v", err)
		}
	})
}

func lastNonWarn(out string) string {
	var ls []string
	for _, l := range strings.Split(out, "\n") {
		if !strings.HasPrefix(l, "[WARN]") {
			ls = append(ls, l)
		}
	}
	return strings.Join(ls, "\n")
}

// survey (development aid, VERIF_SURVEY=1): list failures instead of stopping at the first.
func survey(c c04Case, err error) bool {
	if os.Getenv("VERIF_SURVEY") == "" {
		return false
	}
	msg := strings.SplitN(err.Error(), "\n", 2)[0]
	fmt.Fprintf(os.Stderr, "SURVEY %s/%s %s | %s\n", c.Edit.Kind, c.Edit.Variant, c.Edit.Where, vt.Truncate(msg, 260))
	return true
}

// ---------------------------------------------------------------- replay

func TestReplay(t *testing.T) {
	h := func(raw json.RawMessage) error {
		var c c04Case
		if err := vt.Decode(raw, &c); err != nil {
			return err
		}
		_, err := judge(c)
		return err
	}
	vt.Replay(t, prop, map[string]vt.Handler{"idl": h, "cmdline": h})
}
