package c09

import (
	"encoding/json"
	"fmt"
	"os"
	"testing"

	"verif/internal/drv"
	"verif/internal/ref"
	"verif/internal/vt"
)

func TestDbg(t *testing.T) {
	b, _ := os.ReadFile("/verif/replay/C09/evolve-seed0.json")
	var f vt.Failure
	json.Unmarshal(b, &f)
	var c evoCase
	json.Unmarshal(f.Case, &c)
	sNew, _ := drv.Open(c.FilesNew, c.Main, c.GenNew, nil)
	sch, _ := ref.Import(c.SchemaNew)
	st := sch.ByName(c.Struct)
	fld := st.Field(18)
	fmt.Printf("field 18: req=%d hasdef=%v type=%s\n refdefault=%s\n", fld.Req, fld.HasDef, fld.Type.Kind, ref.Show(fld.Default))
	materialiseDefaults(sNew, sch)
	fmt.Printf(" materialised=%s\n normalised  =%s\n", ref.Show(fld.Default), ref.Show(ref.Normalise(fld.Type, fld.Default)))
	// write an empty-ish object and decode
	fr, _ := freshObject(sNew, st)
	ti, _ := sNew.Type(c.Struct)
	resp, _ := sNew.Proc.Call(map[string]interface{}{"op": "new", "type": ti.Key})
	_ = resp
	fmt.Printf(" fresh18=%s\n", ref.Show(fr.F[18]))
	for _, fj := range c.SchemaNew.Structs {
		if fj.Name == c.Struct {
			for _, x := range fj.Fields {
				if x.ID == 18 {
					bb, _ := json.Marshal(x)
					fmt.Println(string(bb)[:600])
				}
			}
		}
	}
}
