package c17

// The trimmer writes one dumped file per IDL file ("as the trimmer does for
// every output file").  What it writes must be the dump of that file whatever
// the output directory held before: a second run into a directory that already
// holds (longer) files from an earlier run must leave exactly what a run into a
// fresh directory leaves, and every written file must parse.

import (
	"encoding/json"
	"fmt"
	"os"
	"path/filepath"
	"sort"
	"strings"
	"sync"
	"testing"
	"time"

	"github.com/cloudwego/thriftgo/parser"
	"pgregory.net/rapid"

	"verif/internal/idl"
	"verif/internal/tg"
	"verif/internal/vt"
)

var (
	trimOnce sync.Once
	trimBin  string
	trimErr  error
)

func trimmer() (string, error) {
	trimOnce.Do(func() {
		if p := os.Getenv("VERIF_TRIMMER"); p != "" {
			trimBin = p
			return
		}
		trimBin, trimErr = tg.BuildRepoBin("./tool/trimmer", "trimmer")
	})
	return trimBin, trimErr
}

type rewriteCase struct {
	Main    string            `json:"main"`
	Files   map[string]string `json:"files"`
	Method  string            `json:"method"`  // -m argument of the second run ("" = none)
	Prefill map[string]string `json:"prefill"` // files placed in the output directory before the first run
}

func readThrift(dir string) map[string]string {
	m := map[string]string{}
	for _, rel := range tg.ListFiles(dir) {
		if strings.HasSuffix(rel, ".thrift") {
			b, _ := os.ReadFile(filepath.Join(dir, rel))
			m[rel] = string(b)
		}
	}
	return m
}

func judgeRewrite(c rewriteCase) error {
	bin, err := trimmer()
	if err != nil {
		return fmt.Errorf("harness: %v", err)
	}
	dir, err := os.MkdirTemp("", "c17rw")
	if err != nil {
		return fmt.Errorf("harness: %v", err)
	}
	defer os.RemoveAll(dir)
	src := filepath.Join(dir, "src")
	if err := tg.WriteFiles(src, c.Files); err != nil {
		return fmt.Errorf("harness: %v", err)
	}
	run := func(out string, method string) tg.Result {
		args := []string{}
		if method != "" {
			args = append(args, "-m", method)
		}
		args = append(args, "-r", src, "-o", out, c.Main)
		return tg.Exec(bin, src, nil, 60*time.Second, args...)
	}
	reused := filepath.Join(dir, "reused")
	if err := tg.WriteFiles(reused, c.Prefill); err != nil {
		return fmt.Errorf("harness: %v", err)
	}
	r1 := run(reused, "")
	if r1.TimedOut {
		return fmt.Errorf("harness: trimmer timed out")
	}
	if r1.Exit != 0 {
		return nil // the trimmer rejects this program: C16's business
	}
	r2 := run(reused, c.Method)
	fresh := filepath.Join(dir, "fresh")
	r3 := run(fresh, c.Method)
	if r2.Exit != r3.Exit {
		return fmt.Errorf("trimmer exit status depends on what the output directory held: %d into a used directory, %d into a fresh one", r2.Exit, r3.Exit)
	}
	if r3.Exit != 0 {
		return nil
	}
	a, b := readThrift(reused), readThrift(fresh)
	var names []string
	for n := range b {
		names = append(names, n)
	}
	sort.Strings(names)
	for _, n := range names {
		if a[n] != b[n] {
			return fmt.Errorf("%s written into a directory that already held an earlier run's output differs from the same run into a fresh directory: %d bytes vs %d bytes\n--- tail of the file in the used directory ---\n%s", n, len(a[n]), len(b[n]), tail(a[n], 300))
		}
		if _, err := parser.ParseString(n, a[n]); err != nil {
			return fmt.Errorf("%s written by the trimmer is not accepted by the parser: %v", n, firstLine(err.Error()))
		}
	}
	return nil
}

func tail(s string, n int) string {
	if len(s) > n {
		return "..." + s[len(s)-n:]
	}
	return s
}

func TestTrimmerRewrite(t *testing.T) {
	rapid.Check(t, func(rt *rapid.T) {
		cfg := idl.GoSafe()
		cfg.MaxFiles = 3
		cfg.MaxDefs = 3
		cfg.NastyLits = false
		cfg.EnumViaTypedefFar = false
		p := idl.Gen(rt, cfg)
		c := rewriteCase{Main: p.Files[0].Path, Files: p.Texts(nil), Prefill: map[string]string{}}
		// a method filter for the second run, so that its output is shorter than the first run's
		var methods []string
		for _, d := range p.Files[0].Defs {
			if d.Kind == idl.KService {
				for _, fn := range d.Funcs {
					methods = append(methods, d.Name+"."+fn.Name)
				}
			}
		}
		if len(methods) > 0 && rapid.IntRange(0, 3).Draw(rt, "usemethod") > 0 {
			c.Method = "^" + strings.ReplaceAll(rapid.SampledFrom(methods).Draw(rt, "method"), ".", "\\.") + "$"
		}
		if rapid.Bool().Draw(rt, "prefill") {
			// stale, longer content under the names the trimmer is going to write
			for path := range c.Files {
				c.Prefill[path] = c.Files[path] + "\n// stale trailer\nstruct Zzz_stale { 1: i32 a }\n"
			}
		}
		vt.Eval()
		vt.Class("rewrite_cases")
		vt.ClassIf(c.Method != "", "rewrite:second_run_with_-m")
		vt.ClassIf(len(c.Prefill) > 0, "rewrite:prefilled_output_dir")
		if c.Method != "" || len(c.Prefill) > 0 {
			b, _ := json.Marshal(c)
			vt.Nontrivial(string(b))
		}
		if err := judgeRewrite(c); err != nil {
			if strings.HasPrefix(err.Error(), "harness:") {
				rt.Fatalf("%v", err)
			}
			vt.Fail(rt, prop, "rewrite", c, "%v", err)
		}
	})
}
