#!/bin/bash
# tools/seedeval.sh <Cxx> <A|B|C|D> <check> [<check>...]
# Applies the seeded change <Cxx><letter> (patch from $SEEDROOT/<Cxx>/OUT/patch<letter>.diff or
# /verif/seeded/<Cxx><letter>/patch.diff) in a scratch worktree of /repo's HEAD, runs the given
# checks' quick tier against that worktree (VERIF_REPO redirection), reverts, and prints one line
# per check.  Replay and evidence files of these runs go to a scratch directory (VERIF_SCRATCH),
# so runs against /repo itself are not disturbed.
set -u
root=${SEEDROOT:-/tmp/seed}
prop=$1; letter=$2; shift 2
wt=$root/$prop/wt
out=$root/$prop/eval_$letter
mkdir -p "$out"
cd /verif || exit 2
patch=$root/$prop/OUT/patch$letter.diff
[ -f "$patch" ] || patch=/verif/seeded/$prop$letter/patch.diff
if [ ! -d "$wt" ]; then git -C /repo worktree add -q --detach "$wt" HEAD || exit 2; fi
git -C "$wt" checkout -q -- . || exit 2
# evaluate on top of the current /repo HEAD (fix: commits made after the seed was written must be present)
git -C "$wt" checkout -q --detach "$(git -C /repo rev-parse HEAD)" || exit 2
git -C "$wt" apply "$patch" || { echo "seed $prop$letter: cannot apply"; exit 2; }
for chk in "$@"; do
  scratch=$out/scratch_$chk
  rm -rf "$scratch"; mkdir -p "$scratch"
  VERIF_SCRATCH=$scratch VERIF_REPO=$wt VERIF_REPO_DIR=$wt ./run.sh "$chk" quick > "$out/$chk.log" 2>&1
  code=$?
  nviol=$(grep -c '^VIOLATION' "$out/$chk.log")
  echo "seed $prop$letter check $chk: exit=$code violations=$nviol $(grep -m1 '^VIOLATION' "$out/$chk.log" | cut -c1-120)"
done
git -C "$wt" checkout -q -- .
# remove the scratch worktree with its build output when asked to (SEED_CLEAN=1)
if [ "${SEED_CLEAN:-0}" = 1 ]; then git -C /repo worktree remove --force "$wt"; rm -rf "/verif/.build/alt-$(echo "$wt" | tr -cd 'A-Za-z0-9')"; fi
