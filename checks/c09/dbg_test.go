package c09

import (
	"encoding/hex"
	"fmt"
	"testing"

	"pgregory.net/rapid"

	"verif/internal/drv"
	"verif/internal/idl"
	"verif/internal/ref"
)

func TestDbg(t *testing.T) {
	seen := 0
	rapid.Check(t, func(rt *rapid.T) {
		p := idl.Gen(rt, modelCfg())
		sch := ref.Build(p)
		if len(sch.Structs) == 0 {
			rt.Skip()
		}
		s, err := drv.Open(p.Texts(nil), "main.thrift", "go", nil)
		if err != nil || s.Status != "ok" {
			return
		}
		for _, st := range sch.Structs {
			ti, ok := s.Type(st.Name)
			if !ok {
				fmt.Printf("UNMAPPED %s: %d candidates %v\n", st.Name, len(s.ByIDL[st.Name]), s.ByIDL[st.Name])
				continue
			}
			for i := 0; i < 20; i++ {
				v := ref.GenStruct(rt, st, ref.GenOpts{AllFields: i%2 == 0})
				if v == nil {
					continue
				}
				resp, _ := s.Proc.Call(map[string]interface{}{"op": "write", "type": ti.Key, "value": ref.StructToJSON(st, v)})
				if resp["err"] != nil || resp["panic"] != nil {
					continue
				}
				b, _ := hex.DecodeString(resp["hex"].(string))
				top := &ref.Type{Kind: ref.Struct, Struct: st}
				dr, derr := ref.Decode(st, b, false)
				if derr != nil {
					fmt.Printf("DIFF decode %v\n", derr)
					continue
				}
				if w, g := ref.Normalise(top, v), ref.Normalise(top, dr.Value); !ref.Equal(w, g) && seen < 5 {
					seen++
					fmt.Printf("DIFF %s\n want %s\n got  %s\n%s\n", st.Name, ref.Show(w), ref.Show(g), p.Texts(nil)["main.thrift"])
				}
			}
		}
	})
}
