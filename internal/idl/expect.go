package idl

import (
	"fmt"
	"reflect"

	"github.com/cloudwego/thriftgo/parser"
)

// ExpectedAST builds, from the model alone, the tree the parser must return
// for file f (before semantic analysis).
func ExpectedAST(f *File, filename string) *parser.Thrift {
	t := &parser.Thrift{Filename: filename}
	for _, lit := range f.IncludeLit {
		t.Includes = append(t.Includes, &parser.Include{Path: lit})
	}
	t.CppIncludes = append(t.CppIncludes, f.CppIncludes...)
	for _, ns := range f.Namespaces {
		t.Namespaces = append(t.Namespaces, &parser.Namespace{Language: ns.Lang, Name: ns.Name, Annotations: expAnnos(ns.Annos)})
	}
	for _, d := range f.Defs {
		switch d.Kind {
		case KConst:
			t.Constants = append(t.Constants, &parser.Constant{Name: d.Name, Type: expType(f, d.Type), Value: expValue(d.Value), Annotations: expAnnos(d.Annos)})
		case KTypedef:
			t.Typedefs = append(t.Typedefs, &parser.Typedef{Type: expType(f, d.Type), Alias: d.Name, Annotations: expAnnos(d.Annos)})
		case KEnum:
			e := &parser.Enum{Name: d.Name, Annotations: expAnnos(d.Annos)}
			for _, v := range d.Values {
				e.Values = append(e.Values, &parser.EnumValue{Name: v.Name, Value: v.Value, Annotations: expAnnos(v.Annos)})
			}
			t.Enums = append(t.Enums, e)
		case KStruct, KUnion, KException:
			s := &parser.StructLike{Category: d.Kind.String(), Name: d.Name, Annotations: expAnnos(d.Annos)}
			for _, fl := range d.Fields {
				s.Fields = append(s.Fields, expField(f, fl, false))
			}
			switch d.Kind {
			case KStruct:
				t.Structs = append(t.Structs, s)
			case KUnion:
				t.Unions = append(t.Unions, s)
			default:
				t.Exceptions = append(t.Exceptions, s)
			}
		case KService:
			s := &parser.Service{Name: d.Name, Annotations: expAnnos(d.Annos)}
			if d.Extends != nil {
				s.Extends = TypeRefText(f, d.Extends)
			}
			for _, fn := range d.Funcs {
				pf := &parser.Function{Name: fn.Name, Oneway: fn.Oneway, Annotations: expAnnos(fn.Annos)}
				if fn.Ret == nil {
					pf.Void = true
					pf.FunctionType = &parser.Type{Name: "void"}
				} else {
					pf.FunctionType = expType(f, fn.Ret)
				}
				for _, a := range fn.Args {
					pf.Arguments = append(pf.Arguments, expField(f, a, false))
				}
				for _, a := range fn.Throws {
					pf.Throws = append(pf.Throws, expField(f, a, true))
				}
				s.Functions = append(s.Functions, pf)
			}
			t.Services = append(t.Services, s)
		}
	}
	return t
}

func expAnnos(as []Anno) parser.Annotations {
	var r parser.Annotations
	for _, a := range as {
		found := false
		for _, x := range r {
			if x.Key == a.Key {
				x.Values = append(x.Values, a.Val.Text())
				found = true
				break
			}
		}
		if !found {
			r = append(r, &parser.Annotation{Key: a.Key, Values: []string{a.Val.Text()}})
		}
	}
	return r
}

func expType(from *File, t *Type) *parser.Type {
	if t == nil {
		return nil
	}
	r := &parser.Type{Annotations: expAnnos(t.Annos)}
	switch {
	case t.Ref != nil:
		r.Name = TypeRefText(from, t.Ref)
	case t.Base == "map":
		r.Name = "map"
		r.KeyType = expType(from, t.Key)
		r.ValueType = expType(from, t.Elem)
	case t.Base == "list" || t.Base == "set":
		r.Name = t.Base
		r.ValueType = expType(from, t.Elem)
	default:
		r.Name = t.Base
	}
	if t.HasCpp {
		r.CppType = t.CppType
	}
	return r
}

func expField(from *File, f *Field, throws bool) *parser.Field {
	r := &parser.Field{ID: f.ID, Name: f.Name, Type: expType(from, f.Type), Annotations: expAnnos(f.Annos)}
	switch f.Req {
	case ReqRequired:
		r.Requiredness = parser.FieldType_Required
	case ReqOptional:
		r.Requiredness = parser.FieldType_Optional
	}
	if throws {
		r.Requiredness = parser.FieldType_Optional
	}
	if f.Default != nil {
		r.Default = expValue(f.Default)
	}
	return r
}

func expValue(v *Value) *parser.ConstValue {
	if v == nil {
		return nil
	}
	switch v.Kind {
	case VInt:
		i := v.Int
		return &parser.ConstValue{Type: parser.ConstType_ConstInt, TypedValue: &parser.ConstTypedValue{Int: &i}}
	case VDouble:
		d := v.Dbl
		return &parser.ConstValue{Type: parser.ConstType_ConstDouble, TypedValue: &parser.ConstTypedValue{Double: &d}}
	case VLit:
		s := v.Lit.Text()
		return &parser.ConstValue{Type: parser.ConstType_ConstLiteral, TypedValue: &parser.ConstTypedValue{Literal: &s}}
	case VIdent:
		s := v.Ident
		return &parser.ConstValue{Type: parser.ConstType_ConstIdentifier, TypedValue: &parser.ConstTypedValue{Identifier: &s}}
	case VList:
		l := []*parser.ConstValue{}
		for _, e := range v.List {
			l = append(l, expValue(e))
		}
		return &parser.ConstValue{Type: parser.ConstType_ConstList, TypedValue: &parser.ConstTypedValue{List: l}}
	case VMap:
		m := []*parser.MapConstValue{}
		for i, e := range v.List {
			m = append(m, &parser.MapConstValue{Key: expValue(v.Keys[i]), Value: expValue(e)})
		}
		return &parser.ConstValue{Type: parser.ConstType_ConstMap, TypedValue: &parser.ConstTypedValue{Map: m}}
	}
	return nil
}

// Diff compares two values structurally and returns a description of the
// first difference, or "".  nil and empty slices/maps are the same; struct
// fields whose name is in ignore are skipped; doubles compare by value with
// NaN equal to NaN.
func Diff(a, b interface{}, ignore map[string]bool) string {
	return diff(reflect.ValueOf(a), reflect.ValueOf(b), "", ignore)
}

func diff(a, b reflect.Value, path string, ignore map[string]bool) string {
	if !a.IsValid() || !b.IsValid() {
		if a.IsValid() != b.IsValid() {
			return fmt.Sprintf("%s: one side missing", path)
		}
		return ""
	}
	if a.Type() != b.Type() {
		return fmt.Sprintf("%s: type %s vs %s", path, a.Type(), b.Type())
	}
	switch a.Kind() {
	case reflect.Ptr, reflect.Interface:
		if a.IsNil() || b.IsNil() {
			if a.IsNil() != b.IsNil() {
				return fmt.Sprintf("%s: nil=%v vs nil=%v (%s)", path, a.IsNil(), b.IsNil(), brief(a, b))
			}
			return ""
		}
		return diff(a.Elem(), b.Elem(), path, ignore)
	case reflect.Struct:
		for i := 0; i < a.NumField(); i++ {
			name := a.Type().Field(i).Name
			if ignore[name] || a.Type().Field(i).PkgPath != "" {
				continue
			}
			if d := diff(a.Field(i), b.Field(i), path+"."+name, ignore); d != "" {
				return d
			}
		}
		return ""
	case reflect.Slice:
		if a.Len() != b.Len() {
			return fmt.Sprintf("%s: length %d vs %d", path, a.Len(), b.Len())
		}
		for i := 0; i < a.Len(); i++ {
			if d := diff(a.Index(i), b.Index(i), fmt.Sprintf("%s[%d]", path, i), ignore); d != "" {
				return d
			}
		}
		return ""
	case reflect.Map:
		if a.Len() != b.Len() {
			return fmt.Sprintf("%s: map size %d vs %d", path, a.Len(), b.Len())
		}
		for _, k := range a.MapKeys() {
			bv := b.MapIndex(k)
			if !bv.IsValid() {
				return fmt.Sprintf("%s: key %v missing on one side", path, k)
			}
			if d := diff(a.MapIndex(k), bv, fmt.Sprintf("%s[%v]", path, k), ignore); d != "" {
				return d
			}
		}
		return ""
	case reflect.Float64, reflect.Float32:
		x, y := a.Float(), b.Float()
		if x != y && !(x != x && y != y) {
			return fmt.Sprintf("%s: %v vs %v", path, x, y)
		}
		return ""
	default:
		if a.CanInterface() && b.CanInterface() {
			if !reflect.DeepEqual(a.Interface(), b.Interface()) {
				return fmt.Sprintf("%s: %#v vs %#v", path, a.Interface(), b.Interface())
			}
		}
		return ""
	}
}

func brief(a, b reflect.Value) string {
	f := func(v reflect.Value) string {
		if v.IsNil() {
			return "<nil>"
		}
		s := fmt.Sprintf("%+v", v.Interface())
		if len(s) > 120 {
			s = s[:120] + "..."
		}
		return s
	}
	return f(a) + " vs " + f(b)
}
