package c14

// The caching Unmarshal keeps a process-wide table from document text to mask.
// A caller is free to reuse its receive buffer: after Unmarshal(buf) returned,
// overwriting buf must not change what any later Unmarshal answers.  This is a
// property of histories (which documents arrived in which buffer in which
// order), so it is generated as one: a few documents, two reusable buffers, a
// sequence of "receive document d into buffer b, Unmarshal it".  The oracle for
// every step is the non-caching UnmarshalJSON of a private copy of the same
// document.

import (
	"fmt"
	"testing"

	"github.com/cloudwego/thriftgo/fieldmask"
	"pgregory.net/rapid"

	"verif/internal/vt"
)

type histStep struct {
	Doc int `json:"doc"` // index into Docs
	Buf int `json:"buf"` // which reusable buffer receives it (-1: a fresh slice)
}

type histCase struct {
	Docs  [][]byte   `json:"docs"`
	Steps []histStep `json:"steps"`
	Skip  []string   `json:"skip,omitempty"`
}

func judgeHistory(c histCase) error {
	bufs := [2][]byte{make([]byte, 0, 1<<16), make([]byte, 0, 1<<16)}
	for i, st := range c.Steps {
		if st.Doc < 0 || st.Doc >= len(c.Docs) {
			return fmt.Errorf("harness: bad step")
		}
		doc := c.Docs[st.Doc]
		if len(doc) > 1<<16 {
			continue
		}
		var in []byte
		if st.Buf >= 0 && st.Buf < 2 {
			in = append(bufs[st.Buf][:0], doc...) // same backing array as earlier steps
		} else {
			in = append([]byte{}, doc...)
		}
		want := &fieldmask.FieldMask{}
		var e1, e2 error
		var got *fieldmask.FieldMask
		if e := guard("UnmarshalJSON", func() { e1 = want.UnmarshalJSON(append([]byte{}, doc...)) }); e != nil {
			return fmt.Errorf("step %d: %v", i, e)
		}
		if e := guard("Unmarshal", func() { got, e2 = fieldmask.Unmarshal(in) }); e != nil {
			return fmt.Errorf("step %d: %v", i, e)
		}
		if (e1 == nil) != (e2 == nil) {
			return fmt.Errorf("step %d (document %d received in buffer %d): UnmarshalJSON err=%v, Unmarshal err=%v\n  document %s", i, st.Doc, st.Buf, e1, e2, vt.Truncate(string(doc), 300))
		}
		if e1 != nil {
			continue
		}
		ints, strs := probeKeys(doc)
		for _, d := range c.Docs { // keys of the other documents tell the masks apart
			i2, s2 := probeKeys(d)
			ints, strs = append(ints, i2...), append(strs, s2...)
		}
		ints = append(ints, 0, 64)
		strs = append(strs, "a")
		var err error
		if e := guard("querying the unmarshalled mask", func() {
			budget := 600
			err = explore(want, got, ints, strs, c.Skip, 3, &budget, "$")
		}); e != nil {
			return fmt.Errorf("step %d: %v", i, e)
		}
		if err != nil {
			return fmt.Errorf("step %d of %d: the mask Unmarshal returns for document %d (received in reusable buffer %d) is not the mask of that document: %v\n  document %s\n  history %v", i, len(c.Steps), st.Doc, st.Buf, err, vt.Truncate(string(doc), 300), c.Steps[:i+1])
		}
	}
	return nil
}

func TestUnmarshalHistory(t *testing.T) {
	rapid.Check(t, func(rt *rapid.T) {
		var c histCase
		n := rapid.IntRange(2, 5).Draw(rt, "ndocs")
		sameLen := 0
		for i := 0; i < n; i++ {
			jc := genJSONCase(rt)
			c.Docs = append(c.Docs, jc.Doc)
			for _, s := range jc.Skip {
				if !has(c.Skip, s) {
					c.Skip = append(c.Skip, s)
				}
			}
		}
		// siblings: the same document with one digit changed (another field id / index / key of the same length)
		for k := rapid.IntRange(0, 3).Draw(rt, "nsiblings"); k > 0; k-- {
			src := c.Docs[rapid.IntRange(0, len(c.Docs)-1).Draw(rt, "sibling_of")]
			var pos []int
			for i, b := range src {
				if b >= '0' && b <= '9' {
					pos = append(pos, i)
				}
			}
			if len(pos) == 0 {
				continue
			}
			i := rapid.SampledFrom(pos).Draw(rt, "digit_at")
			d := append([]byte{}, src...)
			d[i] = '0' + byte((int(src[i]-'0')+rapid.IntRange(1, 9).Draw(rt, "digit_shift"))%10)
			c.Docs = append(c.Docs, d)
		}
		n = len(c.Docs)
		// documents of equal length are the ones an in-place overwrite turns into each other
		for i := range c.Docs {
			for j := range c.Docs {
				if i < j && len(c.Docs[i]) == len(c.Docs[j]) && string(c.Docs[i]) != string(c.Docs[j]) {
					sameLen++
				}
			}
		}
		ns := rapid.IntRange(3, 14).Draw(rt, "nsteps")
		reuse := 0
		for i := 0; i < ns; i++ {
			st := histStep{Doc: rapid.IntRange(0, n-1).Draw(rt, "doc"), Buf: rapid.IntRange(-1, 1).Draw(rt, "buf")}
			if st.Buf >= 0 {
				reuse++
			}
			c.Steps = append(c.Steps, st)
		}
		flushExcl()
		vt.Eval()
		vt.Class("history_cases")
		vt.ClassIf(sameLen > 0, "history:two_documents_of_equal_length")
		vt.ClassIf(reuse >= 2, "history:buffer_reused")
		if reuse >= 2 {
			vt.Nontrivial(fmt.Sprintf("hist\x00%q%v", c.Docs, c.Steps))
		}
		if err := judgeHistory(c); err != nil {
			if len(err.Error()) > 8 && err.Error()[:8] == "harness:" {
				rt.Fatalf("%v", err)
			}
			vt.Fail(rt, prop, "history", c, "%v", err)
		}
	})
}
