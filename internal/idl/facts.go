package idl

import (
	"fmt"
	"sort"

	"github.com/cloudwego/thriftgo/parser"
)

// Fact is what semantic analysis must have established about one node,
// expressed by what the result denotes (files by path, definitions by name),
// not by raw index values.
type Fact struct {
	Cat       string `json:"cat,omitempty"`        // final category of a type
	IsTypedef bool   `json:"is_typedef,omitempty"` // the written name denotes a typedef
	Ref       string `json:"ref,omitempty"`        // "<file>#<name>" when written with an include prefix
	Bound     string `json:"bound,omitempty"`      // constant identifiers: "const <file> <name>" / "enum <file> <enum> <member>" / "keyword"
	Used      *bool  `json:"used,omitempty"`       // includes
}

func (f Fact) String() string {
	u := ""
	if f.Used != nil {
		u = fmt.Sprintf(" used=%v", *f.Used)
	}
	return fmt.Sprintf("{cat=%s typedef=%v ref=%s bound=%s%s}", f.Cat, f.IsTypedef, f.Ref, f.Bound, u)
}

// ExpectedFacts computes the facts for every file of the program from the model.
func ExpectedFacts(p *Program) map[string]Fact {
	m := map[string]Fact{}
	reach := map[*File]bool{}
	var visit func(f *File)
	visit = func(f *File) {
		if reach[f] {
			return
		}
		reach[f] = true
		for _, g := range f.Includes {
			visit(g)
		}
	}
	visit(p.Files[0])
	for _, f := range p.Files {
		if !reach[f] {
			continue
		}
		used := make([]bool, len(f.Includes))
		mark := func(g *File) {
			if g == f {
				return
			}
			if i := f.IncludeIndex(g); i >= 0 {
				used[i] = true
			}
		}
		var typ func(loc string, t *Type)
		typ = func(loc string, t *Type) {
			if t == nil {
				return
			}
			fa := Fact{Cat: t.FinalCat()}
			if t.Ref != nil {
				fa.IsTypedef = t.Ref.Kind == KTypedef
				if t.Ref.File != f {
					fa.Ref = t.Ref.File.Path + "#" + t.Ref.Name
					mark(t.Ref.File)
				}
			}
			m[loc] = fa
			typ(loc+".k", t.Key)
			typ(loc+".v", t.Elem)
		}
		var val func(loc string, v *Value)
		val = func(loc string, v *Value) {
			if v == nil {
				return
			}
			switch v.Kind {
			case VIdent:
				switch {
				case v.IsBoolKw:
					m[loc] = Fact{Bound: "keyword"}
				case v.RefConst != nil:
					m[loc] = Fact{Bound: "const " + v.RefConst.File.Path + " " + v.RefConst.Name}
					mark(v.RefConst.File)
				case v.RefEnum != nil:
					m[loc] = Fact{Bound: "enum " + v.RefEnum.File.Path + " " + v.RefEnum.Name + " " + v.RefVal}
					// the include that is "used" is the one named in the text: the typedef's file when written through a typedef
					if v.Via != nil {
						mark(v.Via.File)
					} else {
						mark(v.RefEnum.File)
					}
				}
			case VList:
				for i, e := range v.List {
					val(fmt.Sprintf("%s[%d]", loc, i), e)
				}
			case VMap:
				for i, e := range v.List {
					val(fmt.Sprintf("%s{%d}k", loc, i), v.Keys[i])
					val(fmt.Sprintf("%s{%d}v", loc, i), e)
				}
			}
		}
		fields := func(loc string, fs []*Field) {
			for _, fl := range fs {
				typ(loc+"."+fl.Name+":type", fl.Type)
				val(loc+"."+fl.Name+":default", fl.Default)
			}
		}
		base := f.Path + "|"
		for _, d := range f.Defs {
			switch d.Kind {
			case KConst:
				typ(base+"const:"+d.Name+":type", d.Type)
				val(base+"const:"+d.Name+":value", d.Value)
			case KTypedef:
				typ(base+"typedef:"+d.Name+":type", d.Type)
			case KStruct, KUnion, KException:
				fields(base+"sl:"+d.Name, d.Fields)
			case KService:
				loc := base + "svc:" + d.Name
				if d.Extends != nil {
					fa := Fact{}
					if d.Extends.File != f {
						fa.Ref = d.Extends.File.Path + "#" + d.Extends.Name
						mark(d.Extends.File)
					}
					m[loc+":extends"] = fa
				}
				for _, fn := range d.Funcs {
					if fn.Ret != nil {
						typ(loc+"."+fn.Name+":ret", fn.Ret)
					}
					fields(loc+"."+fn.Name+":args", fn.Args)
					fields(loc+"."+fn.Name+":throws", fn.Throws)
				}
			}
		}
		for i := range f.Includes {
			u := used[i]
			m[fmt.Sprintf("%sinclude[%d]", base, i)] = Fact{Used: &u}
		}
	}
	return m
}

var catNames = map[parser.Category]string{
	parser.Category_Bool: "bool", parser.Category_Byte: "byte", parser.Category_I16: "i16", parser.Category_I32: "i32", parser.Category_I64: "i64",
	parser.Category_Double: "double", parser.Category_String: "string", parser.Category_Binary: "binary", parser.Category_Map: "map",
	parser.Category_List: "list", parser.Category_Set: "set", parser.Category_Enum: "enum", parser.Category_Struct: "struct",
	parser.Category_Union: "union", parser.Category_Exception: "exception", parser.Category_Typedef: "typedef(unresolved)",
	parser.Category_Service: "service", parser.Category_Constant: "constant(unset)",
}

// ActualFacts reads the same facts off a resolved AST (all files reachable through includes).
func ActualFacts(root *parser.Thrift) map[string]Fact {
	m := map[string]Fact{}
	seen := map[*parser.Thrift]bool{}
	var file func(ast *parser.Thrift)
	file = func(ast *parser.Thrift) {
		if ast == nil || seen[ast] {
			return
		}
		seen[ast] = true
		incFile := func(idx int32) *parser.Thrift {
			if idx < 0 || int(idx) >= len(ast.Includes) {
				return nil
			}
			return ast.Includes[idx].Reference
		}
		var typ func(loc string, t *parser.Type)
		typ = func(loc string, t *parser.Type) {
			if t == nil {
				return
			}
			fa := Fact{Cat: catNames[t.Category], IsTypedef: t.GetIsTypedef()}
			if r := t.Reference; r != nil {
				if g := incFile(r.Index); g != nil {
					fa.Ref = g.Filename + "#" + r.Name
				} else {
					fa.Ref = fmt.Sprintf("dangling-index(%d)#%s", r.Index, r.Name)
				}
			}
			m[loc] = fa
			if t.Name == "map" {
				typ(loc+".k", t.KeyType)
			}
			if t.Name == "map" || t.Name == "list" || t.Name == "set" {
				typ(loc+".v", t.ValueType)
			}
		}
		var val func(loc string, v *parser.ConstValue)
		val = func(loc string, v *parser.ConstValue) {
			if v == nil {
				return
			}
			switch v.Type {
			case parser.ConstType_ConstIdentifier:
				id := v.TypedValue.GetIdentifier()
				ex := v.Extra
				switch {
				case ex == nil && (id == "true" || id == "false"):
					m[loc] = Fact{Bound: "keyword"}
				case ex == nil:
					m[loc] = Fact{Bound: "unbound"}
				default:
					g := ast
					if ex.Index != -1 {
						g = incFile(ex.Index)
					}
					if g == nil {
						m[loc] = Fact{Bound: fmt.Sprintf("dangling(index=%d name=%q sel=%q)", ex.Index, ex.Name, ex.Sel)}
						break
					}
					if ex.IsEnum {
						e, ok := g.GetEnum(ex.Sel)
						found := false
						if ok {
							for _, ev := range e.Values {
								if ev.Name == ex.Name {
									found = true
								}
							}
						}
						if found {
							m[loc] = Fact{Bound: "enum " + g.Filename + " " + ex.Sel + " " + ex.Name}
						} else {
							m[loc] = Fact{Bound: fmt.Sprintf("dangling(enum %q member %q not in %s; index=%d)", ex.Sel, ex.Name, g.Filename, ex.Index)}
						}
					} else {
						found := false
						for _, c := range g.Constants {
							if c.Name == ex.Name {
								found = true
							}
						}
						if found {
							m[loc] = Fact{Bound: "const " + g.Filename + " " + ex.Name}
						} else {
							m[loc] = Fact{Bound: fmt.Sprintf("dangling(const %q not in %s; index=%d)", ex.Name, g.Filename, ex.Index)}
						}
					}
				}
			case parser.ConstType_ConstList:
				for i, e := range v.TypedValue.List {
					val(fmt.Sprintf("%s[%d]", loc, i), e)
				}
			case parser.ConstType_ConstMap:
				for i, e := range v.TypedValue.Map {
					val(fmt.Sprintf("%s{%d}k", loc, i), e.Key)
					val(fmt.Sprintf("%s{%d}v", loc, i), e.Value)
				}
			}
		}
		fields := func(loc string, fs []*parser.Field) {
			for _, fl := range fs {
				typ(loc+"."+fl.Name+":type", fl.Type)
				val(loc+"."+fl.Name+":default", fl.Default)
			}
		}
		base := ast.Filename + "|"
		for _, c := range ast.Constants {
			typ(base+"const:"+c.Name+":type", c.Type)
			val(base+"const:"+c.Name+":value", c.Value)
		}
		for _, td := range ast.Typedefs {
			typ(base+"typedef:"+td.Alias+":type", td.Type)
		}
		for _, s := range ast.GetStructLikes() {
			fields(base+"sl:"+s.Name, s.Fields)
		}
		for _, s := range ast.Services {
			loc := base + "svc:" + s.Name
			if s.Extends != "" {
				fa := Fact{}
				if r := s.Reference; r != nil {
					if g := incFile(r.Index); g != nil {
						fa.Ref = g.Filename + "#" + r.Name
					} else {
						fa.Ref = fmt.Sprintf("dangling-index(%d)#%s", r.Index, r.Name)
					}
				}
				m[loc+":extends"] = fa
			}
			for _, fn := range s.Functions {
				if !fn.Void {
					typ(loc+"."+fn.Name+":ret", fn.FunctionType)
				}
				fields(loc+"."+fn.Name+":args", fn.Arguments)
				fields(loc+"."+fn.Name+":throws", fn.Throws)
			}
		}
		for i, inc := range ast.Includes {
			u := inc.GetUsed()
			m[fmt.Sprintf("%sinclude[%d]", base, i)] = Fact{Used: &u}
			file(inc.Reference)
		}
	}
	file(root)
	return m
}

// DiffFacts returns a description of the differences (at most max), or "".
func DiffFacts(want, got map[string]Fact, max int) string {
	var keys []string
	for k := range want {
		keys = append(keys, k)
	}
	for k := range got {
		if _, ok := want[k]; !ok {
			keys = append(keys, k)
		}
	}
	sort.Strings(keys)
	out := ""
	n := 0
	for _, k := range keys {
		w, wok := want[k]
		g, gok := got[k]
		var line string
		switch {
		case !wok:
			line = fmt.Sprintf("%s: unexpected node %s", k, g)
		case !gok:
			line = fmt.Sprintf("%s: node missing, want %s", k, w)
		case w.String() != g.String():
			line = fmt.Sprintf("%s: want %s got %s", k, w, g)
		default:
			continue
		}
		n++
		if n <= max {
			out += line + "\n"
		}
	}
	if n > max {
		out += fmt.Sprintf("... and %d more\n", n-max)
	}
	return out
}
