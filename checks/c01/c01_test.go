// C01 — every accepted IDL yields Go code that compiles.
package c01

import (
	"encoding/json"
	"fmt"
	"os"
	"path/filepath"
	"sort"
	"strings"
	"testing"
	"time"

	"pgregory.net/rapid"

	"verif/internal/idl"
	"verif/internal/tg"
	"verif/internal/vt"
)

const prop = "C01"

func TestMain(m *testing.M) { vt.Main(m) }

type genCase struct {
	Main    string            `json:"main"`
	Files   map[string]string `json:"files"`
	Backend string            `json:"backend"` // go | fastgo
	Options []string          `json:"options"`
	Recurse bool              `json:"recurse"`
	Prefix  string            `json:"prefix"` // package_prefix value ("" = none)
	// MustAccept is set only in hand-written witnesses of fixed findings where the
	// defect was that a valid program was rejected with a crash.
	MustAccept bool `json:"must_accept,omitempty"`
}

func (c genCase) genArg() string {
	opts := append([]string{}, c.Options...)
	if c.Prefix != "" {
		opts = append(opts, "package_prefix="+c.Prefix)
	}
	if len(opts) == 0 {
		return c.Backend
	}
	return c.Backend + ":" + strings.Join(opts, ",")
}

const (
	stOK       = "compiled"
	stRejected = "rejected_valid"
)

// judge returns the status and, for a violation, an error.
func judge(c genCase) (string, error) {
	bin, err := tg.Thriftgo()
	if err != nil {
		return "", fmt.Errorf("harness: %v", err)
	}
	dir, err := os.MkdirTemp("", "c01")
	if err != nil {
		return "", fmt.Errorf("harness: %v", err)
	}
	defer os.RemoveAll(dir)
	idlDir := filepath.Join(dir, "idl")
	if err := tg.WriteFiles(idlDir, c.Files); err != nil {
		return "", fmt.Errorf("harness: %v", err)
	}
	out := filepath.Join(dir, "out")
	// the recursive run: everything the root needs to link against
	r := tg.Exec(bin, idlDir, nil, 60*time.Second, "-g", c.genArg(), "-o", out, "-r", c.Main)
	if r.TimedOut {
		return "", fmt.Errorf("harness: thriftgo timed out (C04 decides hangs)")
	}
	if r.Exit != 0 {
		if c.MustAccept {
			return stRejected, fmt.Errorf("valid program rejected (exit %d): %s", r.Exit, vt.Truncate(r.Output, 300))
		}
		return stRejected, nil
	}
	if strings.Contains(r.Output, "Recovered from panic") {
		// exit 0 after a recovered panic: nothing (or not everything) was written; C04 decides that clause
		return stRejected, nil
	}
	if !c.Recurse {
		out2 := filepath.Join(dir, "out2")
		r2 := tg.Exec(bin, idlDir, nil, 60*time.Second, "-g", c.genArg(), "-o", out2, c.Main)
		if r2.Exit != 0 || r2.TimedOut {
			return stRejected, nil
		}
		// the root's own files are the ones judged: overlay them on the recursive output
		for _, rel := range tg.ListFiles(out2) {
			b, err := os.ReadFile(filepath.Join(out2, rel))
			if err != nil {
				return "", fmt.Errorf("harness: %v", err)
			}
			os.MkdirAll(filepath.Dir(filepath.Join(out, rel)), 0o755)
			if err := os.WriteFile(filepath.Join(out, rel), b, 0o644); err != nil {
				return "", fmt.Errorf("harness: %v", err)
			}
		}
	}
	res := tg.TypeCheck(out, c.Prefix)
	if len(res.Errors) > 0 {
		n := len(res.Errors)
		if n > 6 {
			res.Errors = res.Errors[:6]
		}
		return "", fmt.Errorf("thriftgo exited 0 but the generated code does not compile (%d errors):\n  %s\n  command: thriftgo -g %s -r=%v", n, strings.Join(res.Errors, "\n  "), c.genArg(), c.Recurse)
	}
	if len(res.Packages) == 0 && !hasOpt(c.Options, "skip_empty") {
		return "", fmt.Errorf("thriftgo exited 0 but wrote no Go file")
	}
	return stOK, nil
}

func hasOpt(opts []string, name string) bool {
	for _, o := range opts {
		if o == name || strings.HasPrefix(o, name+"=") {
			return true
		}
	}
	return false
}

// options that can be exercised offline; the rest is named in the evidence
// assumptions (code_ref* need idl-ref.yaml and a foreign package, streaming
// needs kitex, use_option needs the option IDL, skip_go_gen writes nothing).
var boolOpts = []string{
	"ignore_initialisms", "json_enum_as_text", "enum_marshal", "enum_unmarshal", "gen_setter", "gen_db_tag", "omitempty_for_optional",
	"use_type_alias", "validate_set", "value_type_in_container", "scan_value_for_enum", "reorder_fields", "typed_enum_string",
	"keep_unknown_fields", "gen_deep_equal", "compatible_names", "reserve_comments", "nil_safe", "frugal_tag", "unescape_double_quote",
	"gen_type_meta", "gen_json_tag", "always_gen_json_tag", "snake_style_json_tag", "lower_camel_style_json_tag", "with_reflection",
	"enum_as_int_32", "trim_idl", "json_stringer", "with_field_mask", "field_mask_halfway", "field_mask_zero_required",
	"no_default_serdes", "no_alias_type_reflection_method", "enable_ref_interface", "no_fmt", "skip_empty", "no_processor",
	"get_enum_annotation", "apache_warning", "apache_adaptor",
}

var maskingOpts = map[string]bool{"no_default_serdes": true, "no_processor": true, "skip_empty": true, "no_fmt": true, "trim_idl": true}

func genOptions(rt *rapid.T) []string {
	var opts []string
	pick := func() string {
		o := rapid.SampledFrom(boolOpts).Draw(rt, "opt")
		switch rapid.IntRange(0, 3).Draw(rt, "optform") {
		case 0:
			return o
		case 1:
			return o + "=true"
		default:
			return o + "=false"
		}
	}
	switch rapid.IntRange(0, 6).Draw(rt, "optmode") {
	case 0:
	case 1, 2:
		opts = append(opts, pick())
	case 6:
		// dense: every option on with probability 1/3, so that any two of them meet
		// within a few dozen cases (options that switch whole parts of the output
		// off are kept rare: they would hide what the others do)
		for _, o := range boolOpts {
			den := 3
			if maskingOpts[o] {
				den = 12
			}
			if rapid.IntRange(1, den).Draw(rt, "on:"+o) == 1 {
				opts = append(opts, o)
			}
		}
	default:
		n := rapid.IntRange(2, 8).Draw(rt, "nopts")
		for i := 0; i < n; i++ {
			opts = append(opts, pick())
		}
	}
	if rapid.IntRange(0, 3).Draw(rt, "style") == 0 {
		opts = append(opts, "naming_style="+rapid.SampledFrom([]string{"golint", "apache", "thriftgo"}).Draw(rt, "ns"))
	}
	if rapid.IntRange(0, 5).Draw(rt, "tmpl") == 0 {
		opts = append(opts, "template="+rapid.SampledFrom([]string{"slim", "raw_struct"}).Draw(rt, "template"))
		if rapid.Bool().Draw(rt, "nested") {
			opts = append(opts, "enable_nested_struct")
		}
	}
	// documented requirement: with_field_mask needs with_reflection
	on := func(name string) bool {
		v := false
		for _, o := range opts {
			if o == name || o == name+"=true" {
				v = true
			}
			if o == name+"=false" {
				v = false
			}
		}
		return v
	}
	if on("with_field_mask") && !on("with_reflection") {
		opts = append(opts, "with_reflection")
	}
	// documented: apache_warning and apache_adaptor are mutually exclusive
	if on("apache_warning") && on("apache_adaptor") {
		opts = append(opts, "apache_warning=false")
	}
	return opts
}

func modelCfg() idl.Cfg {
	c := idl.GoSafe()
	c.MaxFiles = 3
	c.MaxDefs = 3
	c.NoNamespace = true
	c.SharedNS = true // several files in one Go package (also with the same base name: output file names collide)
	if vt.Known(prop, "binary-map-key-const-ref") {
		c.NoBinKeyConstRef = true
		vt.Excluded("binary-map-key-const-ref")
	}
	c.NoZeroThrowsID = true // id 0 in a throws list is the id of `success` in the result struct
	return c
}

func crossFile(p *idl.Program) bool {
	for _, f := range p.Files {
		if len(f.Includes) > 0 {
			return true
		}
	}
	return false
}

func TestCompiles(t *testing.T) {
	rapid.Check(t, func(rt *rapid.T) {
		backend := "go"
		if rapid.IntRange(0, 3).Draw(rt, "fastgo") == 0 {
			backend = "fastgo"
		}
		mc := modelCfg()
		if backend == "fastgo" && vt.Known(prop, "fastgo-files-sharing-a-package") {
			mc.SharedNS = false
			mc.SameBase = false // files without a go namespace and with the same base name also share a package
			vt.Excluded("fastgo-files-sharing-a-package")
		}
		p := idl.Gen(rt, mc)
		idl.AddEnumNumberConsts(rt, p)
		if backend == "fastgo" && vt.Known(prop, "fastgo-files-sharing-a-package") && filesShareGoPackage(p) {
			backend = "go" // e.g. two files whose only namespace is the same `namespace * x`
		}
		if vt.Known(prop, "unused-import-typedef-const") && retypeCrossFileBaseTypedefConsts(p) > 0 {
			vt.Excluded("unused-import-typedef-const")
		}
		c := genCase{Main: p.Files[0].Path, Files: p.Texts(nil), Backend: backend, Options: genOptions(rt), Recurse: rapid.IntRange(0, 3).Draw(rt, "recurse") > 0}
		if rapid.Bool().Draw(rt, "prefix") {
			c.Prefix = "vmod/gen"
		}
		applyKnown(p, &c)
		vt.Eval()
		st, err := judge(c)
		vt.Class("status:" + st)
		vt.Class("backend:" + c.Backend)
		vt.ClassIf(len(c.Options) > 0, "non_default_options")
		vt.ClassIf(len(c.Options) >= 9, "options>=9(dense)")
		vt.ClassIf(crossFile(p), "cross_file")
		vt.ClassIf(!c.Recurse, "without_-r")
		if st == stOK && (crossFile(p) || len(c.Options) > 0) {
			vt.Nontrivial(key(c))
		}
		vt.Sample(map[string]interface{}{"program": p.Describe(), "gen": c.genArg(), "recurse": c.Recurse, "status": st})
		if err != nil {
			if os.Getenv("VERIF_SURVEY") != "" {
				surveyNote(c, err)
				return
			}
			vt.Fail(rt, prop, "compiles", c, "%v", err)
		}
	})
}

// surveyNote (development aid): bucket failures instead of stopping at the first.
func surveyNote(c genCase, err error) {
	ls := strings.Split(err.Error(), "\n")
	msg := ""
	if len(ls) > 1 {
		msg = strings.TrimSpace(ls[1])
		if i := strings.Index(msg, ": "); i >= 0 {
			msg = msg[i+2:]
		}
	}
	var b strings.Builder
	for _, r := range msg {
		if r >= '0' && r <= '9' {
			continue
		}
		b.WriteRune(r)
	}
	k := b.String()
	if len(k) > 90 {
		k = k[:90]
	}
	fmt.Fprintf(os.Stderr, "SURVEY %s | %s | %s\n", k, c.genArg(), msg)
	if dir := os.Getenv("VERIF_SURVEY"); strings.HasPrefix(dir, "/") {
		os.MkdirAll(dir, 0o755)
		name := strings.Map(func(r rune) rune {
			if r >= 'a' && r <= 'z' || r >= 'A' && r <= 'Z' {
				return r
			}
			return '_'
		}, k)
		if len(name) > 60 {
			name = name[:60]
		}
		p := filepath.Join(dir, name+".json")
		if _, err2 := os.Stat(p); err2 != nil {
			b, _ := json.MarshalIndent(map[string]interface{}{"case": c, "error": err.Error()}, "", " ")
			os.WriteFile(p, b, 0o644)
		}
	}
}

// optOn reports the final value of a boolean option in the list (last assignment wins).
func optOn(opts []string, name string) bool {
	v := false
	for _, o := range opts {
		if o == name || o == name+"=true" {
			v = true
		}
		if o == name+"=false" {
			v = false
		}
	}
	return v
}

func optValue(opts []string, name string) string {
	v := ""
	for _, o := range opts {
		if strings.HasPrefix(o, name+"=") {
			v = strings.TrimPrefix(o, name+"=")
		}
	}
	return v
}

// applyKnown removes, from a drawn configuration, exactly the option x shape
// combinations behind listed known findings (each with its own witness), so
// that the search continues behind them.  Every removal is counted.
func applyKnown(p *idl.Program, c *genCase) {
	drop := func(id string, names ...string) {
		for _, n := range names {
			c.Options = dropOpt(c.Options, n)
		}
		vt.Excluded(id)
	}
	if vt.Known(prop, "no-type-alias-typedef") && hasOptFalse(c.Options, "use_type_alias") && !optOn(c.Options, "use_type_alias") && hasKind(p, idl.KTypedef) {
		drop("no-type-alias-typedef", "use_type_alias")
	}
	if optOn(c.Options, "value_type_in_container") {
		if c.Backend == "fastgo" && vt.Known(prop, "value-type-in-container-fastgo") && hasContainerOfStruct(p) {
			drop("value-type-in-container-fastgo", "value_type_in_container")
		} else if vt.Known(prop, "value-type-in-container-const") && hasStructLiteralInContainer(p) {
			drop("value-type-in-container-const", "value_type_in_container")
		}
	}
	if optOn(c.Options, "trim_idl") && vt.Known(prop, "trim-idl-unused-import") && len(p.Files) > 1 {
		drop("trim-idl-unused-import", "trim_idl")
	}
	if optOn(c.Options, "apache_adaptor") && vt.Known(prop, "apache-adaptor-unused-import") && len(p.Files) > 1 {
		drop("apache-adaptor-unused-import", "apache_adaptor")
	}
	if optOn(c.Options, "with_reflection") && vt.Known(prop, "reflection-same-base-name-in-package") && sameBaseInOnePackage(p) {
		drop("reflection-same-base-name-in-package", "with_reflection")
	}
	if t := optValue(c.Options, "template"); t != "" || optOn(c.Options, "enable_nested_struct") {
		switch {
		case c.Backend == "fastgo" && vt.Known(prop, "fastgo-with-slim-or-raw-struct"):
			drop("fastgo-with-slim-or-raw-struct", "template", "enable_nested_struct")
		case t == "raw_struct" && vt.Known(prop, "raw-struct-union-default") && (hasKind(p, idl.KUnion) || hasTypedefOfStructLike(p)):
			drop("raw-struct-union-default", "template", "enable_nested_struct")
		case t == "raw_struct" && vt.Known(prop, "raw-struct-extends-import") && hasCrossFileExtends(p):
			drop("raw-struct-extends-import", "template", "enable_nested_struct")
		case t == "raw_struct" && vt.Known(prop, "raw-struct-default-import") && len(p.Files) > 1:
			drop("raw-struct-default-import", "template", "enable_nested_struct")
		}
	}
}

// goPackageOf mirrors Thrift.GetNamespaceOrReferenceName("go").
func goPackageOf(f *idl.File) string {
	ns, found := "", false
	for _, n := range f.Namespaces {
		if n.Lang == "go" {
			return n.Name
		}
		if n.Lang == "*" {
			ns, found = n.Name, true
		}
	}
	if found {
		return ns
	}
	return strings.ToLower(f.Prefix())
}

// filesShareGoPackage: two IDL files land in one Go package.
func filesShareGoPackage(p *idl.Program) bool {
	seen := map[string]bool{}
	for _, f := range p.Files {
		k := goPackageOf(f)
		if seen[k] {
			return true
		}
		seen[k] = true
	}
	return false
}

// sameBaseInOnePackage: two IDL files with the same base name land in one Go package.
func sameBaseInOnePackage(p *idl.Program) bool {
	seen := map[string]bool{}
	for _, f := range p.Files {
		k := goPackageOf(f) + "\x00" + f.Prefix()
		if seen[k] {
			return true
		}
		seen[k] = true
	}
	return false
}

func hasKind(p *idl.Program, k idl.Kind) bool {
	for _, f := range p.Files {
		for _, d := range f.Defs {
			if d.Kind == k {
				return true
			}
		}
	}
	return false
}

func hasTypedefOfStructLike(p *idl.Program) bool {
	for _, f := range p.Files {
		for _, d := range f.Defs {
			if d.Kind == idl.KTypedef && structLike(d.Type) {
				return true
			}
		}
	}
	return false
}

// retypeCrossFileBaseTypedefConsts rewrites constants whose declared type is a
// typedef of a base type defined in another file to the base type itself
// (known finding unused-import-typedef-const); it returns how many it changed.
func retypeCrossFileBaseTypedefConsts(p *idl.Program) int {
	n := 0
	for _, f := range p.Files {
		for _, d := range f.Defs {
			if d.Kind != idl.KConst || d.Type.Ref == nil || d.Type.Ref.Kind != idl.KTypedef || !chainLeavesFile(d.Type, f) {
				continue
			}
			ft := d.Type.Final()
			if ft.Ref == nil && ft.Key == nil && ft.Elem == nil {
				d.Type = &idl.Type{Base: ft.Base}
				n++
			}
		}
		// the same finding: a map key typed by a typedef of binary from another file (the Go key type is string)
		eachTypeOfFile(f, func(t *idl.Type) {
			if t.Base == "map" && t.Key != nil && t.Key.Ref != nil && t.Key.Ref.Kind == idl.KTypedef && chainLeavesFile(t.Key, f) && t.Key.FinalCat() == "binary" {
				t.Key = &idl.Type{Base: "binary"}
				n++
			}
		})
		// the same finding: an enum from another file initialised by number
		for _, d := range f.Defs {
			if d.Kind != idl.KConst || d.Value == nil {
				continue
			}
			// ... or by the name of a constant that lives in another package than the type
			if d.Value.RefConst != nil && d.Type.Ref != nil && d.Type.Ref.File != f && d.Value.RefConst.File != d.Type.Ref.File {
				switch d.Type.FinalCat() {
				case "enum":
					d.Value = &idl.Value{Kind: idl.VInt}
				case "list", "set":
					d.Value = &idl.Value{Kind: idl.VList, List: []*idl.Value{}}
					n++
				case "map", "struct", "exception":
					d.Value = &idl.Value{Kind: idl.VMap, List: []*idl.Value{}, Keys: []*idl.Value{}}
					n++
				}
			}
			if d.Value.Kind != idl.VInt {
				continue
			}
			ft := d.Type.Final()
			if ft.Ref != nil && ft.Ref.Kind == idl.KEnum && (ft.Ref.File != f || (d.Type.Ref != nil && d.Type.Ref.File != f)) {
				d.Type = &idl.Type{Base: "i32"}
				n++
			}
		}
	}
	return n
}

// chainLeavesFile reports whether the typedef chain of t names a definition outside file f.
func chainLeavesFile(t *idl.Type, f *idl.File) bool {
	for t.Ref != nil {
		if t.Ref.File != f {
			return true
		}
		if t.Ref.Kind != idl.KTypedef {
			break
		}
		t = t.Ref.Type
	}
	return false
}

func hasCrossFileExtends(p *idl.Program) bool {
	for _, f := range p.Files {
		for _, d := range f.Defs {
			if d.Kind == idl.KService && d.Extends != nil && d.Extends.File != f {
				return true
			}
		}
	}
	return false
}

func eachType(p *idl.Program, fn func(t *idl.Type)) {
	for _, f := range p.Files {
		eachTypeOfFile(f, fn)
	}
}

func eachTypeOfFile(f *idl.File, fn func(t *idl.Type)) {
	var walk func(t *idl.Type)
	walk = func(t *idl.Type) {
		if t == nil {
			return
		}
		fn(t)
		walk(t.Key)
		walk(t.Elem)
	}
	{
		for _, d := range f.Defs {
			walk(d.Type)
			for _, fl := range d.Fields {
				walk(fl.Type)
			}
			for _, fn := range d.Funcs {
				walk(fn.Ret)
				for _, a := range fn.Args {
					walk(a.Type)
				}
				for _, a := range fn.Throws {
					walk(a.Type)
				}
			}
		}
	}
}

func structLike(t *idl.Type) bool {
	switch t.FinalCat() {
	case "struct", "union", "exception":
		return true
	}
	return false
}

func hasContainerOfStruct(p *idl.Program) bool {
	found := false
	eachType(p, func(t *idl.Type) {
		ft := t.Final()
		if ft.Elem != nil && structLike(ft.Elem) || ft.Key != nil && structLike(ft.Key) {
			found = true
		}
	})
	return found
}

// hasStructLiteralInContainer: a constant or default of container type whose elements are struct-like.
func hasStructLiteralInContainer(p *idl.Program) bool {
	found := false
	var walk func(t *idl.Type, v *idl.Value)
	walk = func(t *idl.Type, v *idl.Value) {
		if t == nil || v == nil {
			return
		}
		ft := t.Final()
		switch ft.Base {
		case "list", "set", "map":
			if (v.Kind == idl.VList || v.Kind == idl.VMap) && len(v.List) > 0 {
				if structLike(ft.Elem) || (ft.Key != nil && structLike(ft.Key)) {
					found = true
				}
				for i, e := range v.List {
					walk(ft.Elem, e)
					if ft.Key != nil && i < len(v.Keys) {
						walk(ft.Key, v.Keys[i])
					}
				}
			}
		default:
			if ft.Ref != nil && ft.Ref.Kind.IsStructLike() && v.Kind == idl.VMap {
				for i, e := range v.List {
					name := v.Keys[i].Lit.Text()
					for _, fl := range ft.Ref.Fields {
						if fl.Name == name {
							walk(fl.Type, e)
						}
					}
				}
			}
		}
		if v.Kind == idl.VIdent && v.RefConst != nil {
			walk(v.RefConst.Type, v.RefConst.Value)
		}
	}
	for _, f := range p.Files {
		for _, d := range f.Defs {
			walk(d.Type, d.Value)
			for _, fl := range d.Fields {
				walk(fl.Type, fl.Default)
			}
		}
	}
	return found
}

// TestCompilesNames is TestCompiles over programs whose names stress the
// naming styles and the collision renaming (different IDL names converting to
// one Go identifier, initialisms, Go keywords, names of generated methods).
func TestCompilesNames(t *testing.T) {
	rapid.Check(t, func(rt *rapid.T) {
		opts := genOptions(rt)
		if rapid.Bool().Draw(rt, "compat") {
			opts = append(opts, "compatible_names")
		}
		mc := modelCfg()
		mc.NameStress = true
		mc.CompatNames = optOn(opts, "compatible_names")
		if mc.CompatNames && vt.Known(prop, "names-of-generated-helpers") {
			mc.NoUnderscoreTwin = true
		}
		mc.NoNamespace = false // files sharing a package must not collide after name conversion:
		mc.SharedNS = false    // with stress names every file gets its own package
		mc.InheritedCaseCollision = true
		if vt.Known(prop, "inherited-function-case-collision") {
			mc.InheritedCaseCollision = false
			vt.Excluded("inherited-function-case-collision")
		}
		mc.HelperNames = true
		if vt.Known(prop, "names-of-generated-helpers") {
			mc.HelperNames = false
			vt.Excluded("names-of-generated-helpers")
		}
		mc.Annotations = false
		mc.NastyLits = false
		p := idl.Gen(rt, mc)
		if vt.Known(prop, "unused-import-typedef-const") && retypeCrossFileBaseTypedefConsts(p) > 0 {
			vt.Excluded("unused-import-typedef-const")
		}
		c := genCase{Main: p.Files[0].Path, Files: p.Texts(nil), Backend: "go", Options: opts, Recurse: true}
		if rapid.IntRange(0, 3).Draw(rt, "fastgo") == 0 {
			c.Backend = "fastgo"
		}
		if rapid.Bool().Draw(rt, "prefix") {
			c.Prefix = "vmod/gen"
		}
		applyKnown(p, &c)
		vt.Eval()
		st, err := judge(c)
		vt.Class("names:status:" + st)
		if st == stOK {
			vt.Nontrivial(key(c))
		}
		vt.Sample(map[string]interface{}{"test": "names", "program": p.Describe(), "gen": c.genArg(), "status": st, "main": vt.Truncate(c.Files[c.Main], 300)})
		if err != nil {
			if os.Getenv("VERIF_SURVEY") != "" {
				surveyNote(c, err)
				return
			}
			vt.Fail(rt, prop, "compiles", c, "%v", err)
		}
	})
}

func hasOptFalse(opts []string, name string) bool {
	for _, o := range opts {
		if o == name+"=false" {
			return true
		}
	}
	return false
}

func dropOpt(opts []string, name string) []string {
	var r []string
	for _, o := range opts {
		if o == name || strings.HasPrefix(o, name+"=") {
			continue
		}
		r = append(r, o)
	}
	return r
}

func key(c genCase) string {
	var ks []string
	for k := range c.Files {
		ks = append(ks, k)
	}
	sort.Strings(ks)
	var b strings.Builder
	for _, k := range ks {
		b.WriteString(k + "\x00" + c.Files[k] + "\x00")
	}
	b.WriteString(c.genArg())
	return b.String()
}

func TestReplay(t *testing.T) {
	vt.Replay(t, prop, map[string]vt.Handler{
		"compiles": func(raw json.RawMessage) error {
			var c genCase
			if err := vt.Decode(raw, &c); err != nil {
				return err
			}
			_, err := judge(c)
			return err
		},
	})
}
