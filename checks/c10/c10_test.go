// C10 — the fastgo codec (BLength / FastAppend / FastWrite / FastRead) agrees
// with the standard generated codec and with the reference codec, BLength is
// exact, and FastRead survives truncated input and corrupted type bytes.
//
// One rapid case = one generated program under `-g fastgo` (built once into a
// driver binary) and many (struct, value, mode) evaluations.  Modes:
//
//	write   BLength / FastAppend / FastWrite against the reference decoder and the standard Read
//	read    FastRead against the standard Read on standard-Write bytes and on reference encodings (both field orders)
//	unknown / retag / omit_required
//	        same accept/reject decision and same object as the standard Read
//	sweep   every truncation point and every single-byte corruption of a type byte (bounded) of the
//	        reference encoding; a failing point is saved as a `robust` case holding the exact input
//	robust  one concrete input: FastRead must answer (error or value), never panic or kill the process
//
// Oracle decisions taken to stay sound (see the comments at the places):
//   - bytes are never compared literally when the value holds a map (Go map order): lengths and decoded values are;
//   - what the standard Read/Write do wrong on their own (against the reference) is C02's business: counted, not failed;
//   - programs the compiler rejects or whose output does not compile are C01/C04's business: counted, not failed;
//   - a driver that dies is a violation only when a fresh driver dies on the same input again.
package c10

import (
	"encoding/binary"
	"encoding/hex"
	"encoding/json"
	"fmt"
	"os"
	"path/filepath"
	"strings"
	"testing"
	"time"

	"pgregory.net/rapid"

	"verif/internal/drv"
	"verif/internal/idl"
	"verif/internal/ref"
	"verif/internal/vt"
)

const prop = "C10"

func TestMain(m *testing.M) {
	vt.AtExit(drv.CloseAll)
	vt.Main(m)
}

// fastCase is one (program, configuration, struct, value, mode [, exact input]).
type fastCase struct {
	Main   string            `json:"main"`
	Files  map[string]string `json:"files"`
	Gen    string            `json:"gen"`
	Schema *ref.SchemaJ      `json:"schema"`
	Struct string            `json:"struct"`
	Value  interface{}       `json:"value"`
	Mode   string            `json:"mode"` // write | read | unknown | retag | omit_required | sweep | robust
	// perturbation parameters
	Target    string `json:"target,omitempty"`     // struct (by name) that receives the unknown field
	ExtraID   int16  `json:"extra_id,omitempty"`   // id of the inserted unknown field
	ExtraKind int    `json:"extra_kind,omitempty"` // payload shape of the unknown field
	FieldID   int32  `json:"field_id,omitempty"`   // retagged / omitted field of the top-level struct
	// robust: the exact bytes handed to FastRead
	Hex   string `json:"hex,omitempty"`
	Trunc bool   `json:"trunc,omitempty"` // Hex is a proper prefix of a valid encoding: an error is required
	What  string `json:"what,omitempty"`  // how Hex was derived (for the reader)
}

type outcome struct {
	status string // judged | rejected | nocompile | unmapped | harness
	err    error
	// sweep bookkeeping
	ntrunc, ncorrupt int
	oversized        int
	kinds            map[string]int
	fail             *fastCase // the concrete robust case a sweep failed on
}

const (
	maxTrunc   = 512
	maxCorrupt = 512
)

// env is an opened case.
type env struct {
	c    fastCase
	sess *drv.Session
	sch  *ref.Schema
	st   *ref.StructT
	key  string
	v    *ref.StructV
	top  *ref.Type
	want ref.V
}

// quietSrc adds the operation `fastread_quiet` to the driver: FastRead on an
// exactly sized copy of the input, reporting offset / error / panic only.  The
// shared `fastread` also dumps the object; after an error the object may hold a
// slice of any length the (hostile) input announced, and dumping that is the
// harness hanging, not FastRead.
const quietSrc = `package vdriver

import (
	"encoding/hex"
	"fmt"
	"reflect"
)

func init() {
	Hooks["fastread_quiet"] = func(req map[string]interface{}) (resp map[string]interface{}) {
		resp = map[string]interface{}{}
		defer func() {
			if r := recover(); r != nil {
				resp["panic"] = fmt.Sprint(r)
			}
		}()
		k, _ := req["type"].(string)
		e := Lookup(k)
		if e == nil {
			resp["harness"] = "unknown type " + k
			return
		}
		hx, _ := req["hex"].(string)
		b, _ := hex.DecodeString(hx)
		obj := reflect.ValueOf(e.New())
		fr := obj.MethodByName("FastRead")
		if !fr.IsValid() {
			resp["harness"] = "no FastRead"
			return
		}
		exact := make([]byte, len(b))
		copy(exact, b)
		outs := fr.Call([]reflect.Value{reflect.ValueOf(exact)})
		resp["off"] = int(outs[0].Int())
		if !outs[1].IsNil() {
			resp["err"] = outs[1].Interface().(error).Error()
		} else {
			resp["err"] = nil
		}
		return
	}
}
`

func extra(m *drv.Module) error {
	if m.Extra == nil {
		m.Extra = map[string]string{}
	}
	m.Extra["vdriver/x_c10.go"] = quietSrc
	return nil
}

func openSession(c fastCase) (*drv.Session, error) {
	return drv.Open(c.Files, c.Main, c.Gen, extra)
}

// complete makes a value explicit about every non-optional field, the way the
// driver (and any user of the generated code) builds the object: an absent
// non-optional field holds what the constructor puts there — the declared
// default, else the zero value; an absent non-optional struct is completed
// recursively.  Values drawn by ref.GenStruct always set these fields, but the
// evaluated default of a struct-typed field (`1: S s = {"a": 1}`) names only
// the fields the literal mentions.  ok is false when a non-optional field of
// union type is absent (there is no such object).
func complete(t *ref.Type, v ref.V, fuel int) (ref.V, bool) {
	if v == nil {
		return nil, true
	}
	switch t.Kind {
	case ref.List, ref.Set:
		o := &ref.ListV{E: []ref.V{}}
		for _, x := range v.(*ref.ListV).E {
			y, ok := complete(t.Elem, x, fuel)
			if !ok {
				return nil, false
			}
			o.E = append(o.E, y)
		}
		return o, true
	case ref.Map:
		m := v.(*ref.MapV)
		o := &ref.MapV{K: []ref.V{}, E: []ref.V{}}
		for i := range m.K {
			k, ok := complete(t.Key, m.K[i], fuel)
			if !ok {
				return nil, false
			}
			x, ok := complete(t.Elem, m.E[i], fuel)
			if !ok {
				return nil, false
			}
			o.K, o.E = append(o.K, k), append(o.E, x)
		}
		return o, true
	case ref.Struct:
		if fuel <= 0 {
			return nil, false
		}
		sv := v.(*ref.StructV)
		o := ref.NewStruct()
		for _, f := range t.Struct.Fields {
			fv, has := sv.F[f.ID]
			if !has || fv == nil {
				if f.Req == idl.ReqOptional || t.Struct.Kind == "union" {
					continue
				}
				switch {
				case f.HasDef:
					fv = f.Default
				case f.Type.Kind == ref.Struct:
					if f.Type.Struct.Kind == "union" {
						return nil, false
					}
					fv = ref.NewStruct()
				default:
					fv = ref.Zero(f.Type)
				}
			}
			y, ok := complete(f.Type, fv, fuel-1)
			if !ok {
				return nil, false
			}
			o.F[f.ID] = y
		}
		return o, true
	}
	return v, true
}

// debugf is a development aid (VERIF_C10_DEBUG=1).
func debugf(format string, args ...interface{}) {
	if os.Getenv("VERIF_C10_DEBUG") != "" {
		fmt.Fprintf(os.Stderr, "DEBUG "+format+"\n", args...)
	}
}

// completeSchema completes the evaluated defaults of every field (see
// complete), so that ref.Normalise compares objects with whole defaults.
func completeSchema(sch *ref.Schema) {
	for _, st := range sch.Structs {
		for _, f := range st.Fields {
			if f.HasDef && f.Default != nil {
				if d, ok := complete(f.Type, f.Default, 32); ok {
					f.Default = d
				}
			}
		}
	}
}

func harness(format string, args ...interface{}) error {
	return fmt.Errorf("harness: "+format, args...)
}

func open(c fastCase) (*env, *outcome) {
	sess, err := openSession(c)
	if err != nil {
		return nil, &outcome{status: "harness", err: harness("%v", err)}
	}
	if sess.Status != "ok" {
		return nil, &outcome{status: sess.Status}
	}
	sch, err := ref.Import(c.Schema)
	if err != nil {
		return nil, &outcome{status: "harness", err: harness("%v", err)}
	}
	completeSchema(sch)
	st := sch.ByName(c.Struct)
	if st == nil {
		return nil, &outcome{status: "harness", err: harness("struct %s not in schema", c.Struct)}
	}
	ti, ok := sess.Type(c.Struct)
	if !ok {
		debugf("unmapped %s: %d candidates, gen %s, %d types, files %v", c.Struct, len(sess.ByIDL[c.Struct]), c.Gen, len(sess.Types), c.Files)
		return nil, &outcome{status: "unmapped"}
	}
	for _, m := range []string{"BLength", "FastAppend", "FastWrite", "FastRead"} {
		if !ti.Methods[m] {
			// the backend promises the four methods for every struct-like, args and result
			return nil, &outcome{status: "judged", err: fmt.Errorf("fastgo generated no %s method for %s (Go type %s)", m, c.Struct, ti.Key)}
		}
	}
	v0, err := ref.StructFromJSON(st, roundJSON(c.Value))
	if err != nil {
		return nil, &outcome{status: "harness", err: harness("%v", err)}
	}
	top := &ref.Type{Kind: ref.Struct, Struct: st}
	if v0 == nil {
		v0 = ref.NewStruct()
	}
	v1, ok := complete(top, v0, 32)
	if !ok {
		return nil, &outcome{status: "harness", err: harness("value of %s cannot be completed", c.Struct)}
	}
	v := v1.(*ref.StructV)
	return &env{c: c, sess: sess, sch: sch, st: st, key: ti.Key, v: v, top: top, want: ref.Normalise(top, v)}, nil
}

// call is for requests that cannot hurt the driver.
func (e *env) call(req map[string]interface{}) (map[string]interface{}, error) {
	resp, err := e.sess.Proc.Call(req)
	if err != nil {
		return nil, harness("%v", err)
	}
	if h, ok := resp["harness"]; ok {
		return nil, harness("driver: %v", h)
	}
	return resp, nil
}

// callHostile is for inputs that may kill the driver (wild allocation, hang).
// It returns the response, or a violation when the driver dies on the same
// request twice (the second time in a freshly built and started process), or
// a harness error when it died only once.
func (e *env) callHostile(req map[string]interface{}) (resp map[string]interface{}, violation, trouble error) {
	t0 := time.Now()
	resp, err := e.sess.Proc.Call(req)
	if d := time.Since(t0); d > 2*time.Second {
		vt.Class("slow_hostile_call")
		debugf("slow call %v: %v -> %v %v", d, req["hex"], resp, err)
	}
	if err == nil {
		if h, ok := resp["harness"]; ok {
			return nil, nil, harness("driver: %v", h)
		}
		return resp, nil, nil
	}
	if !e.sess.Proc.Dead {
		return nil, nil, harness("%v", err)
	}
	reopen := func() error {
		s, oerr := openSession(e.c)
		if oerr != nil {
			return harness("re-opening the driver: %v", oerr)
		}
		if s.Status != "ok" {
			return harness("re-opening the driver: status %s: %s", s.Status, s.Detail)
		}
		e.sess = s
		return nil
	}
	if rerr := reopen(); rerr != nil {
		return nil, nil, rerr
	}
	resp2, err2 := e.sess.Proc.Call(req)
	if err2 == nil {
		return nil, nil, harness("driver died once and answered the same request in a fresh process (first: %v; second answer: %v)", err, resp2)
	}
	if !e.sess.Proc.Dead {
		return nil, nil, harness("%v", err2)
	}
	if rerr := reopen(); rerr != nil { // leave a usable session behind
		return nil, nil, rerr
	}
	return nil, fmt.Errorf("the process dies or hangs, reproducibly in a fresh process (first: %v; second: %v)", err, err2), nil
}

func judge(c fastCase) outcome {
	e, o := open(c)
	if o != nil {
		return *o
	}
	var err error
	out := outcome{status: "judged"}
	switch c.Mode {
	case "write":
		err = e.judgeWrite()
	case "read":
		err = e.judgeRead()
	case "unknown", "retag", "omit_required":
		err = e.judgePerturbed()
	case "sweep":
		err = e.judgeSweep(&out)
	case "robust":
		b, herr := hex.DecodeString(c.Hex)
		if herr != nil {
			err = harness("case hex: %v", herr)
			break
		}
		err = e.judgeRobust(b, c.Trunc, c.What, false)
	default:
		err = harness("unknown mode %s", c.Mode)
	}
	out.err = err
	if err != nil && strings.HasPrefix(err.Error(), "harness:") {
		out.status = "harness"
	}
	return out
}

func asInt(x interface{}) (int, bool) {
	f, ok := x.(float64)
	return int(f), ok
}

func (e *env) norm(raw interface{}) (ref.V, error) {
	got, err := ref.StructFromJSON(e.st, raw)
	if err != nil {
		return nil, err
	}
	if got == nil {
		return nil, fmt.Errorf("nil object")
	}
	return ref.Normalise(e.top, got), nil
}

// judgeWrite: oracle (1).
func (e *env) judgeWrite() error {
	name := e.st.Name
	resp, err := e.call(map[string]interface{}{"op": "fastwrite", "type": e.key, "value": ref.StructToJSON(e.st, e.v)})
	if err != nil {
		return err
	}
	if p, ok := resp["panic"]; ok {
		switch {
		case resp["blength"] == nil:
			return fmt.Errorf("BLength of %s panicked on a valid value: %v\n  value %s", name, p, ref.Show(e.v))
		case resp["append_hex"] == nil:
			return fmt.Errorf("FastAppend(nil) of %s panicked on a valid value: %v\n  value %s", name, p, ref.Show(e.v))
		case resp["write_n"] == nil:
			return fmt.Errorf("FastWrite of %s into a buffer of BLength()+64 bytes panicked on a valid value: %v\n  value %s", name, p, ref.Show(e.v))
		}
		// the standard Write panicked: not this property's business
		vt.Class("std_write_panic")
		delete(resp, "std_hex")
	}
	bl, _ := asInt(resp["blength"])
	ahex, _ := resp["append_hex"].(string)
	b, _ := hex.DecodeString(ahex)
	dr, derr := ref.Decode(e.st, b, false)
	if derr != nil {
		return fmt.Errorf("FastAppend(nil) of %s does not produce a valid encoding under the IDL schema: %v\n  value %s\n  bytes %x", name, derr, ref.Show(e.v), b)
	}
	if got := ref.Normalise(e.top, dr.Value); !ref.Equal(e.want, got) {
		return fmt.Errorf("FastAppend(nil) of %s encodes a different value\n  want %s\n  got  %s\n  bytes %x", name, ref.Show(e.want), ref.Show(got), b)
	}
	if bl != len(b) {
		return fmt.Errorf("BLength() of %s = %d but FastAppend(nil) wrote %d bytes\n  value %s\n  bytes %x", name, bl, len(b), ref.Show(e.v), b)
	}
	wn, _ := asInt(resp["write_n"])
	if wn != bl {
		return fmt.Errorf("FastWrite of %s returned %d, BLength() = %d\n  value %s", name, wn, bl, ref.Show(e.v))
	}
	whex, ok := resp["write_hex"].(string)
	if !ok {
		return fmt.Errorf("FastWrite of %s returned %d, outside the buffer", name, wn)
	}
	// Map entries come in Go's random order, so the two encodings are compared by length and by decoded value, not
	// byte by byte (unless no map with two entries can be involved: then they must be identical).
	wb, _ := hex.DecodeString(whex)
	wr, werr := ref.Decode(e.st, wb, false)
	if werr != nil {
		return fmt.Errorf("FastWrite of %s does not produce a valid encoding: %v\n  value %s\n  bytes %x", name, werr, ref.Show(e.v), wb)
	}
	if got := ref.Normalise(e.top, wr.Value); !ref.Equal(e.want, got) {
		return fmt.Errorf("FastWrite of %s encodes a different value than FastAppend\n  want %s\n  got  %s\n  bytes %x", name, ref.Show(e.want), ref.Show(got), wb)
	}
	if !hasBigMap(e.top, e.v) && whex != ahex {
		return fmt.Errorf("FastWrite and FastAppend(nil) of %s wrote different bytes for a value without multi-entry maps\n  FastWrite  %s\n  FastAppend %s", name, whex, ahex)
	}
	// the standard Read and FastRead of the FastAppend bytes
	rr, err := e.call(map[string]interface{}{"op": "fastread", "type": e.key, "hex": ahex, "std": true})
	if err != nil {
		return err
	}
	return e.compareReads(rr, b, "the bytes FastAppend(nil) wrote", e.want, true)
}

// hasBigMap reports whether the value holds a map with two or more entries.
func hasBigMap(t *ref.Type, v ref.V) bool {
	if v == nil {
		return false
	}
	switch t.Kind {
	case ref.List, ref.Set:
		for _, x := range v.(*ref.ListV).E {
			if hasBigMap(t.Elem, x) {
				return true
			}
		}
	case ref.Map:
		m := v.(*ref.MapV)
		if len(m.K) > 1 {
			return true
		}
		for i := range m.K {
			if hasBigMap(t.Key, m.K[i]) || hasBigMap(t.Elem, m.E[i]) {
				return true
			}
		}
	case ref.Struct:
		s := v.(*ref.StructV)
		for _, f := range t.Struct.Fields {
			if hasBigMap(f.Type, s.F[f.ID]) {
				return true
			}
		}
	}
	return false
}

// compareReads judges one `fastread` response with std:true.  want is the
// reference value of the encoding (nil: unknown).  valid says that the input is
// a valid encoding, so that the standard Read is expected to accept it.
//
// The property is "FastRead == standard Read": the violation is a difference
// between the two (status, consumed bytes, object).  When both agree with each
// other but not with the reference, the standard codec is wrong in the same
// way: that belongs to C02 and is only counted.
func (e *env) compareReads(resp map[string]interface{}, in []byte, what string, want ref.V, valid bool) error {
	name := e.st.Name
	if p, ok := resp["panic"]; ok {
		if _, done := resp["value"]; !done {
			return fmt.Errorf("FastRead of %s panicked on %s: %v\n  bytes %x", name, what, p, in)
		}
		vt.Class("std_read_panic")
		return nil
	}
	ferr, serr := resp["err"], resp["std_err"]
	if s, ok := serr.(string); ok && strings.HasPrefix(s, "harness:") {
		// the standard Read stopped before the end of the input: it did not judge the whole input
		vt.Class("std_read_left_bytes")
		return nil
	}
	if (ferr == nil) != (serr == nil) {
		return fmt.Errorf("FastRead and the standard Read of %s decide differently on %s\n  FastRead: %v\n  Read:     %v\n  bytes %x", name, what, show(ferr), show(serr), in)
	}
	if ferr != nil {
		if valid {
			vt.Class("both_reject_valid_encoding") // C02's business
		}
		return nil
	}
	if off, _ := asInt(resp["off"]); off != len(in) {
		return fmt.Errorf("FastRead of %s returned offset %d after reading %s of %d bytes\n  bytes %x", name, off, what, len(in), in)
	}
	fv, err := e.norm(resp["value"])
	if err != nil {
		return fmt.Errorf("FastRead of %s (%s): object does not fit the schema: %v", name, what, err)
	}
	sv, err := e.norm(resp["std_value"])
	if err != nil {
		vt.Class("std_object_unfit")
		return nil
	}
	if !ref.Equal(fv, sv) {
		msg := fmt.Sprintf("FastRead and the standard Read of %s yield different objects on %s\n  FastRead %s\n  Read     %s", name, what, ref.Show(fv), ref.Show(sv))
		if want != nil {
			msg += "\n  expected " + ref.Show(want)
		}
		return fmt.Errorf("%s\n  bytes %x", msg, in)
	}
	if want != nil && !ref.Equal(fv, want) {
		vt.Class("both_differ_from_reference") // C02's business
		debugf("both_differ_from_reference %s on %s || got  %s || want %s", name, vt.Truncate(what, 60), vt.Truncate(ref.Show(fv), 300), vt.Truncate(ref.Show(want), 300))
	}
	return nil
}

func show(x interface{}) string {
	if x == nil {
		return "<no error>"
	}
	return fmt.Sprint(x)
}

// judgeRead: oracle (2).
func (e *env) judgeRead() error {
	type input struct {
		b    []byte
		what string
	}
	var ins []input
	wr, err := e.call(map[string]interface{}{"op": "write", "type": e.key, "value": ref.StructToJSON(e.st, e.v)})
	if err != nil {
		return err
	}
	if _, p := wr["panic"]; !p && wr["err"] == nil {
		b, _ := hex.DecodeString(wr["hex"].(string))
		ins = append(ins, input{b, "the bytes the standard Write produced"})
	} else {
		vt.Class("std_write_failed") // C02's business
		debugf("std_write_failed %s: %v %v value %s", e.st.Name, wr["panic"], wr["err"], ref.Show(e.v))
	}
	ins = append(ins, input{ref.Encode(e.st, e.v, nil), "the reference encoding (ascending field ids)"})
	ins = append(ins, input{ref.Encode(e.st, e.v, &ref.EncodeOpts{Reverse: true}), "the reference encoding (descending field ids)"})
	for _, in := range ins {
		resp, err := e.call(map[string]interface{}{"op": "fastread", "type": e.key, "hex": hex.EncodeToString(in.b), "std": true})
		if err != nil {
			return err
		}
		if err := e.compareReads(resp, in.b, in.what+" of "+ref.Show(e.v), e.want, true); err != nil {
			return err
		}
	}
	return nil
}

// judgePerturbed: oracle (3).
func (e *env) judgePerturbed() error {
	c := e.c
	var enc []byte
	var what string
	var want ref.V
	switch c.Mode {
	case "unknown":
		tgt := e.sch.ByName(c.Target)
		if tgt == nil {
			return harness("target %s", c.Target)
		}
		enc = ref.Encode(e.st, e.v, &ref.EncodeOpts{Extra: map[*ref.StructT][]byte{tgt: ref.RawField(c.ExtraID, c.ExtraKind)}})
		what = fmt.Sprintf("an encoding with an unknown field id %d (shape %d) inserted into every %s", c.ExtraID, c.ExtraKind%6, c.Target)
		want = e.want
	case "retag":
		f := e.st.Field(c.FieldID)
		if f == nil {
			return harness("field %d", c.FieldID)
		}
		enc = ref.Encode(e.st, e.v, &ref.EncodeOpts{Retag: map[*ref.StructT]map[int32]bool{e.st: {c.FieldID: true}}})
		what = fmt.Sprintf("an encoding where field %s (id %d, %s) carries a different wire type", f.Name, f.ID, reqName(f.Req))
		// the object is compared with the standard Read's as a whole (the retagged field included: both must leave it
		// alone); the reference value is not known for the retagged field
	case "omit_required":
		enc = ref.Encode(e.st, e.v, &ref.EncodeOpts{Omit: map[*ref.StructT]map[int32]bool{e.st: {c.FieldID: true}}})
		what = fmt.Sprintf("an encoding without the required field id %d", c.FieldID)
	}
	resp, err := e.call(map[string]interface{}{"op": "fastread", "type": e.key, "hex": hex.EncodeToString(enc), "std": true})
	if err != nil {
		return err
	}
	return e.compareReads(resp, enc, what, want, false)
}

func reqName(r idl.Req) string {
	return [...]string{"default", "required", "optional"}[r]
}

// ---------- robustness ----------

// tpos is the position of one type byte inside an encoding.
type tpos struct {
	off  int
	kind string // field | stop | elem | mapkey | mapval
}

// typeBytes walks a valid binary-protocol struct encoding (the protocol is
// self-describing) and returns the positions of all type bytes.
func typeBytes(b []byte) []tpos {
	var out []tpos
	var wval func(t byte, off int) int
	wstruct := func(off int) int {
		for off >= 0 && off < len(b) {
			t := b[off]
			if t == 0 {
				out = append(out, tpos{off, "stop"})
				return off + 1
			}
			out = append(out, tpos{off, "field"})
			off = wval(t, off+3)
		}
		return -1
	}
	wval = func(t byte, off int) int {
		if off < 0 || off > len(b) {
			return -1
		}
		switch t {
		case 2, 3:
			return off + 1
		case 6:
			return off + 2
		case 8:
			return off + 4
		case 4, 10:
			return off + 8
		case 11:
			if off+4 > len(b) {
				return -1
			}
			return off + 4 + int(binary.BigEndian.Uint32(b[off:]))
		case 12:
			return wstruct(off)
		case 14, 15:
			if off+5 > len(b) {
				return -1
			}
			out = append(out, tpos{off, "elem"})
			n := int(binary.BigEndian.Uint32(b[off+1:]))
			et := b[off]
			off += 5
			for i := 0; i < n && off >= 0; i++ {
				off = wval(et, off)
			}
			return off
		case 13:
			if off+6 > len(b) {
				return -1
			}
			out = append(out, tpos{off, "mapkey"}, tpos{off + 1, "mapval"})
			n := int(binary.BigEndian.Uint32(b[off+2:]))
			kt, vt := b[off], b[off+1]
			off += 6
			for i := 0; i < n && off >= 0; i++ {
				off = wval(kt, off)
				if off >= 0 {
					off = wval(vt, off)
				}
			}
			return off
		}
		return -1
	}
	wstruct(0)
	return out
}

// every valid wire type plus a few invalid ones
var altTypes = []byte{0, 1, 2, 3, 4, 5, 6, 8, 10, 11, 12, 13, 14, 15, 16, 0x7f, 0xff}

type hostile struct {
	b     []byte
	trunc bool
	what  string
	kind  string
}

// sweepInputs lists, deterministically, the truncations and type-byte
// corruptions of one encoding (each bounded).
func sweepInputs(enc []byte) (truncs, corrs []hostile) {
	n := len(enc)
	step := 1
	if n > maxTrunc {
		step = (n + maxTrunc - 1) / maxTrunc
	}
	for i := 0; i < n; i += step {
		truncs = append(truncs, hostile{b: enc[:i], trunc: true, what: fmt.Sprintf("the reference encoding (%d bytes) cut after %d bytes", n, i)})
	}
	var all []hostile
	for _, p := range typeBytes(enc) {
		for _, a := range altTypes {
			if a == enc[p.off] {
				continue
			}
			c := append([]byte{}, enc...)
			c[p.off] = a
			all = append(all, hostile{b: c, kind: p.kind, what: fmt.Sprintf("the reference encoding with the %s type byte at offset %d changed from %d to %d", p.kind, p.off, enc[p.off], a)})
		}
	}
	step = 1
	if len(all) > maxCorrupt {
		step = (len(all) + maxCorrupt - 1) / maxCorrupt
		if step%len(altTypes) == 0 || step%(len(altTypes)-1) == 0 {
			step++ // do not always hit the same replacement
		}
	}
	for i := 0; i < len(all); i += step {
		corrs = append(corrs, all[i])
	}
	return truncs, corrs
}

// judgeSweep: oracle (4) over all bounded truncations and type corruptions.
func (e *env) judgeSweep(out *outcome) error {
	enc := ref.Encode(e.st, e.v, nil)
	truncs, corrs := sweepInputs(enc)
	out.kinds = map[string]int{}
	for _, h := range append(truncs, corrs...) {
		sim := simulate(e.st, h.b)
		if sim.big > maxCount {
			out.oversized++
			continue
		}
		if h.trunc {
			out.ntrunc++
		} else {
			out.ncorrupt++
			out.kinds[h.kind]++
		}
		// the listed finding: inputs of exactly that shape are still run, but their negative-index panic is not reported
		tolerate := vt.Known(prop, findSkipNeg) && sim.neg
		if err := e.judgeRobust(h.b, h.trunc, h.what, tolerate); err != nil {
			if !strings.HasPrefix(err.Error(), "harness:") {
				fc := e.c
				fc.Mode, fc.Hex, fc.Trunc, fc.What = "robust", hex.EncodeToString(h.b), h.trunc, h.what
				out.fail = &fc
			}
			return err
		}
	}
	return nil
}

// Known finding "skip-negative-type": the generated FastRead hands the type
// byte of a field it does not know (or knows under another wire type) to
// gopkg's BinaryProtocol.Skip unchecked; gopkg v0.2.0 (the version thriftgo's
// own go.mod pins) indexes a table with that int8, so a type byte >= 0x80 met
// anywhere on the skip path panics with "index out of range [-n]".
const findSkipNeg = "skip-negative-type"

// simSkipNeg predicts, from the schema and the bytes alone, whether FastRead
// reaches a Skip that meets a type byte >= 0x80 before any other error stops
// it.  It mirrors the control flow of the generated FastRead and of gopkg's
// skipType (order of the bounds checks included).  Being wrong here can only
// turn an instance of the known finding into a reported one (or the reverse
// for an input that does not panic at all), never hide another defect: the
// exclusion also requires the negative-index panic text.
type simSkipNeg struct {
	b   []byte
	neg bool
	big int // largest container count FastRead allocates for on its way
}

var fixedSize = map[byte]int{2: 1, 3: 1, 4: 8, 6: 2, 8: 4, 10: 8}

func (s *simSkipNeg) readStruct(st *ref.StructT, off int) (int, bool) {
	b := s.b
	seen := map[int32]bool{}
	for {
		if len(b)-off < 1 {
			return off, false
		}
		t := b[off]
		if t == 0 {
			off++
			for _, f := range st.Fields {
				if f.Req == idl.ReqRequired && !seen[f.ID] {
					return off, false
				}
			}
			return off, true
		}
		if len(b)-off < 3 {
			return off, false
		}
		id := int32(int16(binary.BigEndian.Uint16(b[off+1:])))
		off += 3
		if f := st.Field(id); f != nil && ref.WireType(f.Type) == t {
			var ok bool
			if off, ok = s.readValue(f.Type, off); !ok {
				return off, false
			}
			seen[id] = true
			continue
		}
		if off >= len(b) {
			return off, false
		}
		n, ok := s.skip(off, t, 64)
		if !ok {
			return off, false
		}
		off += n
	}
}

func (s *simSkipNeg) readValue(t *ref.Type, off int) (int, bool) {
	b := s.b
	if n := fixedSize[ref.WireType(t)]; n > 0 {
		if len(b)-off < n {
			return off, false
		}
		return off + n, true
	}
	switch t.Kind {
	case ref.String, ref.Binary:
		if len(b)-off < 4 {
			return off, false
		}
		n := int(int32(binary.BigEndian.Uint32(b[off:])))
		if n < 0 || len(b)-off < 4+n {
			return off, false
		}
		return off + 4 + n, true
	case ref.List, ref.Set:
		if len(b)-off < 5 {
			return off, false
		}
		n := int(int32(binary.BigEndian.Uint32(b[off+1:])))
		if n < 0 {
			return off, false
		}
		if n > s.big {
			s.big = n
		}
		off += 5
		for i := 0; i < n; i++ {
			var ok bool
			if off, ok = s.readValue(t.Elem, off); !ok {
				return off, false
			}
		}
		return off, true
	case ref.Map:
		if len(b)-off < 6 {
			return off, false
		}
		n := int(int32(binary.BigEndian.Uint32(b[off+2:])))
		if n < 0 {
			return off, false
		}
		if n > s.big {
			s.big = n
		}
		off += 6
		for i := 0; i < n; i++ {
			var ok bool
			if off, ok = s.readValue(t.Key, off); !ok {
				return off, false
			}
			if off, ok = s.readValue(t.Elem, off); !ok {
				return off, false
			}
		}
		return off, true
	}
	return s.readStruct(t.Struct, off)
}

// skip mirrors gopkg v0.2.0 protocol/thrift/binary.go skipType; it returns the
// number of bytes skipped.  A type byte >= 0x80 sets neg and stops.
func (s *simSkipNeg) skip(off int, t byte, depth int) (int, bool) {
	b := s.b
	if depth == 0 {
		return 0, false
	}
	size := func(t byte) (int, bool) {
		if t >= 0x80 {
			s.neg = true
			return 0, false
		}
		return fixedSize[t], true
	}
	skipstr := func(off int) (int, bool) {
		if off+4 <= len(b) {
			n := int(int32(binary.BigEndian.Uint32(b[off:])))
			if n < 0 {
				return 0, false
			}
			if off+4+n <= len(b) {
				return 4 + n, true
			}
		}
		return 0, false
	}
	one := func(off int, t byte, sz int) (int, bool) {
		switch {
		case sz > 0:
			return sz, true
		case t == 11:
			return skipstr(off)
		}
		return s.skip(off, t, depth-1)
	}
	n, ok := size(t)
	if !ok {
		return 0, false
	}
	if n > 0 {
		if off+n > len(b) {
			return 0, false
		}
		return n, true
	}
	switch t {
	case 11:
		return skipstr(off)
	case 13:
		if off+6 > len(b) {
			return 0, false
		}
		kt, vt := b[off], b[off+1]
		sz := int(int32(binary.BigEndian.Uint32(b[off+2:])))
		if sz < 0 {
			return 0, false
		}
		ksz, ok := size(kt)
		if !ok {
			return 0, false
		}
		vsz, ok := size(vt)
		if !ok {
			return 0, false
		}
		if ksz > 0 && vsz > 0 {
			if off+6+sz*(ksz+vsz) > len(b) {
				return 0, false
			}
			return 6 + sz*(ksz+vsz), true
		}
		i := 6
		for j := 0; j < sz; j++ {
			if off+i >= len(b) {
				return 0, false
			}
			ki, ok := one(off+i, kt, ksz)
			if !ok {
				return 0, false
			}
			i += ki
			if off+i >= len(b) {
				return 0, false
			}
			vi, ok := one(off+i, vt, vsz)
			if !ok {
				return 0, false
			}
			i += vi
		}
		return i, true
	case 14, 15:
		if off+5 > len(b) {
			return 0, false
		}
		vt := b[off]
		sz := int(int32(binary.BigEndian.Uint32(b[off+1:])))
		if sz < 0 {
			return 0, false
		}
		vsz, ok := size(vt)
		if !ok {
			return 0, false
		}
		if vsz > 0 {
			if off+5+sz*vsz > len(b) {
				return 0, false
			}
			return 5 + sz*vsz, true
		}
		i := 5
		for j := 0; j < sz; j++ {
			if off+i >= len(b) {
				return 0, false
			}
			vi, ok := one(off+i, vt, vsz)
			if !ok {
				return 0, false
			}
			i += vi
		}
		return i, true
	case 12:
		i := 0
		for {
			if off+i >= len(b) {
				return 0, false
			}
			ft := b[off+i]
			i++
			if ft == 0 {
				return i, true
			}
			i += 2
			if off+i >= len(b) {
				return 0, false
			}
			fsz, ok := size(ft)
			if !ok {
				return 0, false
			}
			fi, ok := one(off+i, ft, fsz)
			if !ok {
				return 0, false
			}
			i += fi
		}
	}
	return 0, false
}

func simulate(st *ref.StructT, b []byte) *simSkipNeg {
	s := &simSkipNeg{b: b}
	s.readStruct(st, 0)
	return s
}

// maxCount bounds the container sizes hostile inputs may announce to code that
// allocates before it reads.  A corrupted type byte can make FastRead take four
// payload bytes for a list/map size; like the standard Read it then runs
// make(T, n) for any n up to 2^31-1 before finding the input too short.  That
// costs gigabytes and tens of seconds (measured: 5 GB, 26 s for 300 bytes of
// input) but ends in an error, which is all the property asks for; with the
// driver's 30 s watchdog such inputs only make the run flaky, so they are left
// out (counted as skipped_oversized_count).
const maxCount = 1 << 20

// judgeRobust: FastRead of hostile bytes answers with an error or a value.
// tolerateSkipNeg: the caller (the sweep) has predicted that the input has the shape of the known finding.
func (e *env) judgeRobust(b []byte, trunc bool, what string, tolerateSkipNeg bool) error {
	name := e.st.Name
	resp, violation, trouble := e.callHostile(map[string]interface{}{"op": "fastread_quiet", "type": e.key, "hex": hex.EncodeToString(b)})
	if trouble != nil {
		return trouble
	}
	if violation != nil {
		return fmt.Errorf("FastRead of %s on %s: %v\n  bytes %x", name, what, violation, b)
	}
	if p, ok := resp["panic"]; ok {
		if tolerateSkipNeg && strings.Contains(fmt.Sprint(p), "index out of range [-") {
			vt.Excluded(findSkipNeg)
			return nil
		}
		return fmt.Errorf("FastRead of %s panics instead of returning an error on %s: %v\n  bytes %x", name, what, p, b)
	}
	if trunc && resp["err"] == nil {
		// a proper prefix of a valid struct encoding is never a complete encoding itself
		return fmt.Errorf("FastRead of %s returns no error on truncated input: %s\n  bytes %x", name, what, b)
	}
	return nil
}

func roundJSON(v interface{}) interface{} {
	b, _ := json.Marshal(v)
	var out interface{}
	json.Unmarshal(b, &out)
	return out
}

// ---------- generation ----------

// options that change neither the Go types of the fields nor a wire byte
var presentation = []string{"naming_style=golint", "naming_style=apache", "ignore_initialisms", "gen_setter", "gen_db_tag", "omitempty_for_optional=false",
	"scan_value_for_enum=false", "reorder_fields", "typed_enum_string", "gen_deep_equal", "compatible_names", "gen_json_tag=false",
	"snake_style_json_tag", "json_enum_as_text"}

func modelCfg() idl.Cfg {
	c := idl.GoSafe()
	c.MaxFiles = 2
	c.MaxDefs = 3
	c.Annotations = false
	c.NastyLits = false
	c.Comments = false
	c.DistinctThrows = true // C01's finding; irrelevant to the codec
	c.NoZeroThrowsID = true
	return c
}

func genSpec(rt *rapid.T) string {
	n := rapid.IntRange(-2, 2).Draw(rt, "nopts")
	var opts []string
	for i := 0; i < n; i++ {
		opts = append(opts, rapid.SampledFrom(presentation).Draw(rt, "opt"))
	}
	// struct-likes stored by value in containers: another shape of the same codec
	if rapid.IntRange(0, 1).Draw(rt, "valuetype") == 0 {
		opts = append(opts, "value_type_in_container")
	}
	if len(opts) == 0 {
		return "fastgo"
	}
	return "fastgo:" + strings.Join(opts, ",")
}

// everyType calls f on every written type expression of the program (fields,
// arguments, return types, throws, typedef targets, constants), children first.
func everyType(p *idl.Program, f func(t *idl.Type)) {
	var walk func(t *idl.Type)
	walk = func(t *idl.Type) {
		if t == nil {
			return
		}
		walk(t.Key)
		walk(t.Elem)
		f(t)
	}
	fields := func(fs []*idl.Field) {
		for _, x := range fs {
			walk(x.Type)
		}
	}
	for _, file := range p.Files {
		for _, d := range file.Defs {
			walk(d.Type)
			fields(d.Fields)
			for _, fn := range d.Funcs {
				walk(fn.Ret)
				fields(fn.Args)
				fields(fn.Throws)
			}
		}
	}
}

// narrow removes from the program exactly the shapes that other properties
// have listed as known (unrepaired) findings of the fastgo backend, because
// they make the whole program unusable here.  Both are repaired in the tree at
// the time of writing (C01: fastgo-binary-map-key, fastgo-typedef-container),
// so the switches are off and the shapes are part of the domain.
func narrow(p *idl.Program) {
	// map<binary, …>: generated FastRead assigned the []byte ReadBinary returns to the string key: no compile.
	if vt.Known("C01", "fastgo-binary-map-key") {
		hit := false
		everyType(p, func(t *idl.Type) {
			if t.Base == "map" && t.Key != nil && t.Key.FinalCat() == "binary" {
				t.Key = &idl.Type{Base: "string"}
				hit = true
			}
		})
		if hit {
			vt.Excluded("C01-fastgo-binary-map-key")
		}
	}
	// a type expression naming a typedef of a map made `-g fastgo` panic (nil KeyType in genBLengthMap); the panic is
	// recovered in main, the process exits 0 and writes nothing (S5): write the map type out instead of naming it.
	if vt.Known("C01", "fastgo-typedef-container") || vt.Known("C04", "fastgo-typedef-map-panic") {
		hit := false
		everyType(p, func(t *idl.Type) {
			if t.Ref != nil && t.Ref.Kind == idl.KTypedef && t.FinalCat() == "map" {
				fin := t.Final()
				t.Ref, t.Base, t.Key, t.Elem = nil, "map", fin.Key, fin.Elem
				hit = true
			}
		})
		if hit {
			vt.Excluded("fastgo-typedef-map-panic")
		}
	}
}

// classify names the reason a program could not be used.
func classify(status, detail string) string {
	switch {
	case status == "rejected" && strings.Contains(detail, "recovered panic"):
		return "rejected:recovered-panic"
	case status == "rejected":
		return "rejected:other"
	case strings.Contains(detail, "[]byte") && strings.Contains(detail, "string"):
		return "nocompile:bytes-vs-string"
	}
	return "nocompile:other"
}

// shape statistics of a value: optional-with-default fields met, containers directly inside containers
type vstats struct{ optdef, nested int }

func (s *vstats) walk(t *ref.Type, v ref.V, inContainer bool) {
	if v == nil {
		return
	}
	switch t.Kind {
	case ref.List, ref.Set:
		if inContainer {
			s.nested++
		}
		for _, x := range v.(*ref.ListV).E {
			s.walk(t.Elem, x, true)
		}
	case ref.Map:
		if inContainer {
			s.nested++
		}
		m := v.(*ref.MapV)
		for i := range m.K {
			s.walk(t.Key, m.K[i], true)
			s.walk(t.Elem, m.E[i], true)
		}
	case ref.Struct:
		sv := v.(*ref.StructV)
		for _, f := range t.Struct.Fields {
			if f.Req == idl.ReqOptional && f.HasDef {
				s.optdef++
			}
			s.walk(f.Type, sv.F[f.ID], false)
		}
	}
}

// interesting: the struct has an optional field with a default or a container nested in a container.
func interesting(st *ref.StructT) bool {
	for _, f := range st.Fields {
		if f.Req == idl.ReqOptional && f.HasDef {
			return true
		}
		t := f.Type
		if t.Kind == ref.List || t.Kind == ref.Set || t.Kind == ref.Map {
			for _, x := range []*ref.Type{t.Key, t.Elem} {
				if x != nil && (x.Kind == ref.List || x.Kind == ref.Set || x.Kind == ref.Map) {
					return true
				}
			}
		}
	}
	return false
}

var surveyN int

func TestFast(t *testing.T) {
	rapid.Check(t, func(rt *rapid.T) {
		p := idl.Gen(rt, modelCfg())
		narrow(p)
		sch := ref.Build(p)
		completeSchema(sch)
		if len(sch.Structs) == 0 {
			rt.Skip("no struct-like in the program")
		}
		// only files main.thrift reaches are generated
		reach := map[*idl.File]bool{}
		var visit func(f *idl.File)
		visit = func(f *idl.File) {
			if !reach[f] {
				reach[f] = true
				for _, i := range f.Includes {
					visit(i)
				}
			}
		}
		visit(p.Files[0])
		var structs []*ref.StructT
		for _, st := range sch.Structs {
			if reach[st.File] {
				structs = append(structs, st)
			}
		}
		if len(structs) == 0 {
			vt.Class("program:no_reachable_struct")
			return
		}
		// the shapes the property names are drawn three times as often
		weighted := append([]*ref.StructT{}, structs...)
		for _, st := range structs {
			if interesting(st) {
				weighted = append(weighted, st, st)
			}
		}
		base := fastCase{Main: p.Files[0].Path, Files: p.Texts(nil), Gen: genSpec(rt), Schema: sch.Export()}
		sess, err := openSession(base)
		if err != nil {
			rt.Fatalf("harness: %v", err)
		}
		vt.Class("program:" + sess.Status)
		if sess.Status != "ok" {
			// the program cannot be used at all (C01 / C04 decide such programs)
			vt.Eval()
			vt.Class("program:" + classify(sess.Status, sess.Detail))
			vt.Sample(map[string]interface{}{"program": p.Describe(), "gen": base.Gen, "status": sess.Status, "detail": vt.Truncate(sess.Detail, 300)})
			if dir := os.Getenv("VERIF_C10_SURVEY"); dir != "" { // development aid: keep the program for a manual look
				surveyN++
				d := fmt.Sprintf("%s/%s-%d-%d", dir, sess.Status, os.Getpid(), surveyN)
				for name, text := range base.Files {
					os.MkdirAll(filepath.Dir(filepath.Join(d, name)), 0o755)
					os.WriteFile(filepath.Join(d, name), []byte(text), 0o644)
				}
				os.WriteFile(filepath.Join(d, "DETAIL"), []byte(base.Gen+"\n"+sess.Detail+"\n"), 0o644)
			}
			return
		}
		nvals := rapid.IntRange(10, 20).Draw(rt, "nvalues")
		for i := 0; i < nvals; i++ {
			st := rapid.SampledFrom(weighted).Draw(rt, "struct")
			v := ref.GenStruct(rt, st, ref.GenOpts{MaxDepth: rapid.IntRange(3, 5).Draw(rt, "depth")})
			if v != nil {
				if cv, ok := complete(&ref.Type{Kind: ref.Struct, Struct: st}, v, 32); ok {
					v = cv.(*ref.StructV)
				} else {
					v = nil
				}
			}
			if v == nil {
				vt.Class("value_not_constructible")
				continue
			}
			c := base
			c.Struct = st.Name
			c.Value = ref.StructToJSON(st, v)
			var vs vstats
			vs.walk(&ref.Type{Kind: ref.Struct, Struct: st}, v, false)
			vt.Class("kind:" + st.Kind)
			vt.ClassN("optional_with_default_fields", int64(vs.optdef))
			vt.ClassN("nested_containers", int64(vs.nested))
			vt.ClassIf(vs.optdef > 0, "value_with_optional_default")
			vt.ClassIf(vs.nested > 0, "value_with_nested_container")
			rich := vs.optdef > 0 && vs.nested > 0

			modes := []string{"write", "read"}
			// every perturbation the struct allows, with drawn parameters
			{
				tgt := st
				if rapid.Bool().Draw(rt, "nestedtarget") {
					tgt = rapid.SampledFrom(structs).Draw(rt, "target")
				}
				c.Target = tgt.Name
				for {
					c.ExtraID = int16(rapid.IntRange(-40, 400).Draw(rt, "extraid"))
					if tgt.Field(int32(c.ExtraID)) == nil && !(tgt.Kind == "result" && c.ExtraID == 0) {
						break
					}
				}
				c.ExtraKind = rapid.IntRange(0, 5).Draw(rt, "extrakind")
				modes = append(modes, "unknown")
			}
			retagID, omitID := int32(0), int32(0)
			if len(v.F) > 0 && st.Kind != "union" {
				retagID = rapid.SampledFrom(v.IDs()).Draw(rt, "retagfield")
				modes = append(modes, "retag")
			}
			var req []int32
			for _, f := range st.Fields {
				if f.Req == idl.ReqRequired {
					req = append(req, f.ID)
				}
			}
			if len(req) > 0 {
				omitID = rapid.SampledFrom(req).Draw(rt, "omit")
				// bookkeeping of required fields is done in words of bits: the last required
				// field (highest id, and last declared) is the boundary case
				if rapid.Bool().Draw(rt, "omitlast") {
					omitID = req[len(req)-1]
					for _, id := range req {
						if rapid.Bool().Draw(rt, "byid") && id > omitID {
							omitID = id
						}
					}
				}
				modes = append(modes, "omit_required")
			}
			modes = append(modes, "sweep")
			for _, m := range modes {
				c.Mode = m
				switch m {
				case "retag":
					c.FieldID = retagID
				case "omit_required":
					c.FieldID = omitID
				default:
					c.FieldID = 0
				}
				vt.Eval()
				o := judge(c)
				vt.Class("status:" + o.status)
				vt.Class("mode:" + m)
				if m == "sweep" {
					vt.ClassN("truncation_points", int64(o.ntrunc))
					vt.ClassN("type_corruptions", int64(o.ncorrupt))
					vt.ClassN("skipped_oversized_count", int64(o.oversized))
					for k, n := range o.kinds {
						vt.ClassN("corrupted:"+k, int64(n))
					}
				}
				if o.status != "judged" && o.err == nil {
					continue
				}
				if rich || m == "sweep" {
					vt.Nontrivial(base.Files[base.Main] + "|" + c.Gen + "|" + c.Struct + "|" + fmt.Sprint(c.Value) + "|" + m)
				}
				vt.Sample(map[string]interface{}{"gen": c.Gen, "struct": c.Struct, "mode": m, "value": vt.Truncate(ref.Show(v), 400)})
				if o.err != nil {
					if o.status == "harness" {
						rt.Fatalf("%v", o.err)
					}
					fc := c
					if o.fail != nil {
						fc = *o.fail
					}
					vt.Fail(rt, prop, "fast", fc, "%v", o.err)
				}
			}
		}
	})
}

func TestReplay(t *testing.T) {
	vt.Replay(t, prop, map[string]vt.Handler{
		"fast": func(raw json.RawMessage) error {
			var c fastCase
			if err := vt.Decode(raw, &c); err != nil {
				return err
			}
			return judge(c).err
		},
	})
}
