package drv

import (
	"crypto/sha256"
	"encoding/hex"
	"fmt"
	"sort"
	"strings"
	"sync"
)

// Session is a built and running driver for one (program, generator spec).
type Session struct {
	Mod    *Module
	Proc   *Proc
	ByIDL  map[string][]TypeInfo // registered Go types by the IDL name they write
	Types  []TypeInfo
	Status string // ok | rejected | nocompile
	Detail string
	key    string
}

// Type returns the unique Go type writing the IDL struct name, or false.
func (s *Session) Type(idlName string) (TypeInfo, bool) {
	ts := s.ByIDL[idlName]
	if len(ts) != 1 {
		return TypeInfo{}, false
	}
	return ts[0], true
}

var (
	sessMu  sync.Mutex
	sessLRU []*Session
)

const sessMax = 3

func sessKey(files map[string]string, main, gen string) string {
	var ks []string
	for k := range files {
		ks = append(ks, k)
	}
	sort.Strings(ks)
	h := sha256.New()
	for _, k := range ks {
		h.Write([]byte(k + "\x00" + files[k] + "\x00"))
	}
	h.Write([]byte(main + "\x00" + gen))
	return hex.EncodeToString(h.Sum(nil))
}

// Open generates, builds and starts the driver for a program (cached per
// process, small LRU).  A non-nil error means harness trouble; otherwise
// Status says whether the program could be used.
func Open(files map[string]string, main, gen string, extra func(m *Module) error) (*Session, error) {
	key := sessKey(files, main, gen)
	sessMu.Lock()
	defer sessMu.Unlock()
	for i, s := range sessLRU {
		if s.key == key && (s.Proc == nil || !s.Proc.Dead) {
			sessLRU = append(append(sessLRU[:i:i], sessLRU[i+1:]...), s)
			return s, nil
		}
	}
	m, err := NewModule()
	if err != nil {
		return nil, err
	}
	s := &Session{Mod: m, key: key, ByIDL: map[string][]TypeInfo{}}
	r := m.Generate(files, main, gen)
	switch {
	case r.TimedOut:
		s.Status, s.Detail = "rejected", "thriftgo timed out"
	case r.Exit != 0:
		s.Status, s.Detail = "rejected", fmt.Sprintf("exit %d: %s", r.Exit, firstLines(r.Output, 3))
	case strings.Contains(r.Output, "Recovered from panic"):
		s.Status, s.Detail = "rejected", "recovered panic: "+firstLines(r.Output, 3)
	}
	if s.Status == "" {
		if err := m.Registry(); err != nil {
			s.Status, s.Detail = "nocompile", err.Error()
		}
	}
	if s.Status == "" && extra != nil {
		if err := extra(m); err != nil {
			m.Close()
			return nil, err
		}
	}
	if s.Status == "" {
		out, err := m.Build()
		if err != nil {
			s.Status, s.Detail = "nocompile", firstLines(out, 8)
		}
	}
	if s.Status == "" {
		p, err := m.Start()
		if err != nil {
			m.Close()
			return nil, err
		}
		s.Proc = p
		ts, err := p.Schema()
		if err != nil {
			p.Stop()
			m.Close()
			return nil, err
		}
		s.Types = ts
		for _, t := range ts {
			s.ByIDL[t.IDL] = append(s.ByIDL[t.IDL], t)
		}
		s.Status = "ok"
	}
	sessLRU = append(sessLRU, s)
	for len(sessLRU) > sessMax {
		old := sessLRU[0]
		sessLRU = sessLRU[1:]
		old.close()
	}
	return s, nil
}

func (s *Session) close() {
	if s.Proc != nil {
		s.Proc.Stop()
	}
	s.Mod.Close()
}

// CloseAll ends every cached session (call from TestMain after m.Run).
func CloseAll() {
	sessMu.Lock()
	defer sessMu.Unlock()
	for _, s := range sessLRU {
		s.close()
	}
	sessLRU = nil
}

func firstLines(s string, n int) string {
	ls := strings.Split(strings.TrimSpace(s), "\n")
	if len(ls) > n {
		ls = ls[:n]
	}
	out := strings.Join(ls, " | ")
	if len(out) > 600 {
		out = out[:600] + "..."
	}
	return out
}
