// Command scripted is the thriftgo plugin used by check C11.
//
// It decodes the request thriftgo wrote on stdin with the library every
// plugin uses (plugin.UnmarshalRequest), records what it decoded in a dump file
// and then answers as its script says.  Several plugins may run in one
// thriftgo process (one after the other): the n-th one to start takes dump file
// "<VERIF_PLUGIN_DUMP>.<n>" and script number n.
//
// The file is self-contained (standard library + thriftgo/plugin) because the
// check also builds a copy of it in a scratch module whose go.mod names a
// released thriftgo version (that is what switches include compression on).
package main

import (
	"bytes"
	"encoding/json"
	"fmt"
	"io"
	"os"
	"path/filepath"
	"time"

	"github.com/cloudwego/thriftgo/plugin"
)

// Item is one plugin.Generated of the response.
type Item struct {
	Kind    string `json:"kind"`            // "file", "named_patch", "unnamed_patch"
	Rel     string `json:"rel,omitempty"`   // file / named_patch: name relative to the request's output path
	Point   string `json:"point,omitempty"` // patches: insertion point
	Content string `json:"content"`
}

// Script tells one plugin run how to answer.
type Script struct {
	Items    []Item   `json:"items,omitempty"`
	Warnings []string `json:"warnings,omitempty"`
	Error    *string  `json:"error,omitempty"`
	Stderr   string   `json:"stderr,omitempty"`         // written to stderr before exiting
	Exit     int      `json:"exit,omitempty"`           // exit status
	Trunc    *int     `json:"trunc_permille,omitempty"` // write only the first len*n/1000 bytes of the encoded response (n < 1000)
	Garbage  []byte   `json:"garbage,omitempty"`        // with UseGarbage: written to stdout instead of a response
	UseGarb  bool     `json:"use_garbage,omitempty"`
	SleepMs  int      `json:"sleep_ms,omitempty"` // sleep before answering
}

// ScriptFile is the content of $VERIF_PLUGIN_SCRIPT.
type ScriptFile struct {
	Plugins []Script `json:"plugins"`
}

// Dump is what one run recorded.
type Dump struct {
	Index               int      `json:"index"`
	Pid                 int      `json:"pid"`
	StdinLen            int      `json:"stdin_len"`
	Trailer             bool     `json:"trailer"` // stdin ended with the data trailer (include compression in effect)
	DecodeError         string   `json:"decode_error,omitempty"`
	Version             string   `json:"version"`
	Language            string   `json:"language"`
	OutputPath          string   `json:"output_path"`
	Recursive           bool     `json:"recursive"`
	GeneratorParameters []string `json:"generator_parameters"`
	PluginParameters    []string `json:"plugin_parameters"`
	// the decoded AST in an encoding that shares nothing with the thrift codec
	// (a second pass through the codec could undo what the first one did wrong)
	AST json.RawMessage `json:"ast"`
}

const trailer = "\xffTHRIFTGO_TRAILER_V1\xff"

func die(format string, args ...interface{}) {
	fmt.Fprintf(os.Stderr, "scripted plugin: "+format+"\n", args...)
	os.Exit(97)
}

func main() {
	base := os.Getenv("VERIF_PLUGIN_DUMP")
	if base == "" {
		die("VERIF_PLUGIN_DUMP not set")
	}
	var f *os.File
	idx := 0
	for ; ; idx++ {
		var err error
		f, err = os.OpenFile(fmt.Sprintf("%s.%d", base, idx), os.O_CREATE|os.O_EXCL|os.O_WRONLY, 0o644)
		if err == nil {
			break
		}
		if !os.IsExist(err) || idx > 64 {
			die("dump file: %v", err)
		}
	}
	in, err := io.ReadAll(os.Stdin)
	if err != nil {
		die("stdin: %v", err)
	}
	d := Dump{Index: idx, Pid: os.Getpid(), StdinLen: len(in), Trailer: bytes.HasSuffix(in, []byte(trailer))}
	req, err := decode(in)
	if err != nil {
		d.DecodeError = err.Error()
	} else {
		d.Version, d.Language, d.OutputPath, d.Recursive = req.Version, req.Language, req.OutputPath, req.Recursive
		d.GeneratorParameters, d.PluginParameters = req.GeneratorParameters, req.PluginParameters
		if d.AST, err = json.Marshal(req.AST); err != nil {
			d.DecodeError = "AST not representable in JSON: " + err.Error()
			d.AST = nil
		}
	}
	b, _ := json.Marshal(d)
	if _, err := f.Write(b); err != nil {
		die("dump: %v", err)
	}
	f.Close()
	// the dump is complete only once the marker exists (a killed plugin may leave a partial dump otherwise)
	os.WriteFile(fmt.Sprintf("%s.%d.done", base, idx), nil, 0o644)

	var sf ScriptFile
	if p := os.Getenv("VERIF_PLUGIN_SCRIPT"); p != "" {
		sb, err := os.ReadFile(p)
		if err != nil {
			die("script: %v", err)
		}
		if err := json.Unmarshal(sb, &sf); err != nil {
			die("script: %v", err)
		}
	}
	var s Script
	if idx < len(sf.Plugins) {
		s = sf.Plugins[idx]
	}
	if s.SleepMs > 0 {
		time.Sleep(time.Duration(s.SleepMs) * time.Millisecond)
	}
	outPath := ""
	if req != nil {
		outPath = req.OutputPath
	}
	res := &plugin.Response{Error: s.Error, Warnings: s.Warnings}
	for _, it := range s.Items {
		it := it
		g := &plugin.Generated{Content: it.Content}
		switch it.Kind {
		case "file":
			n := filepath.Join(outPath, it.Rel)
			g.Name = &n
		case "named_patch":
			n := filepath.Join(outPath, it.Rel)
			g.Name = &n
			g.InsertionPoint = &it.Point
		case "unnamed_patch":
			g.InsertionPoint = &it.Point
		default:
			die("unknown item kind %q", it.Kind)
		}
		res.Contents = append(res.Contents, g)
	}
	out, _ := plugin.MarshalResponse(res)
	if s.Trunc != nil && *s.Trunc >= 0 && *s.Trunc < 1000 {
		out = out[:len(out)**s.Trunc/1000]
	}
	if s.UseGarb {
		out = s.Garbage
	}
	os.Stdout.Write(out)
	if s.Stderr != "" {
		os.Stderr.WriteString(s.Stderr)
	}
	os.Exit(s.Exit)
}

func decode(in []byte) (req *plugin.Request, err error) {
	defer func() {
		if r := recover(); r != nil {
			err = fmt.Errorf("UnmarshalRequest panicked: %v", r)
		}
	}()
	return plugin.UnmarshalRequest(in)
}
