// Command recorder is the recording plugin of check C07: a thriftgo plugin
// that copies the request it receives on stdin, byte for byte, into the file
// named by the environment variable VERIF_REC_OUT and answers with a valid
// response.
//
// Plugin parameters (thriftgo -p rec=<path>:<param>,...):
//
//	(none)  the response is empty
//	patch   the response carries two patches for the Go file generated for the
//	        root IDL (insertion points "bof" and "eof"), so that the insertion
//	        point machinery is part of what the check compares
package main

import (
	"fmt"
	"io"
	"os"
	"path/filepath"
	"strings"

	"github.com/cloudwego/thriftgo/plugin"
)

func fail(code int, format string, args ...interface{}) {
	fmt.Fprintf(os.Stderr, "recorder: "+format+"\n", args...)
	os.Exit(code)
}

func main() {
	data, err := io.ReadAll(os.Stdin)
	if err != nil {
		fail(3, "read stdin: %v", err)
	}
	if p := os.Getenv("VERIF_REC_OUT"); p != "" {
		if err := os.WriteFile(p, data, 0o644); err != nil {
			fail(4, "write %s: %v", p, err)
		}
	}
	res := &plugin.Response{}
	if req, err := plugin.UnmarshalRequest(data); err == nil {
		for _, pp := range req.PluginParameters {
			// thriftgo packs "-p rec=<path>:patch" as "patch="
			if pp == "patch" || strings.HasPrefix(pp, "patch=") {
				res.Contents = patches(req)
			}
		}
	} else {
		// the bytes are recorded all the same; the answer stays empty
		fmt.Fprintf(os.Stderr, "recorder: request not decodable: %v\n", err)
	}
	out, err := plugin.MarshalResponse(res)
	if err != nil {
		fail(5, "marshal response: %v", err)
	}
	if _, err := os.Stdout.Write(out); err != nil {
		fail(6, "write stdout: %v", err)
	}
}

// patches aims two patches at <OutputPath>/<go namespace as path>/<base>.go,
// the file the go backend writes for the root IDL when it has a go namespace.
func patches(req *plugin.Request) []*plugin.Generated {
	if req.AST == nil {
		return nil
	}
	ns := ""
	for _, n := range req.AST.Namespaces {
		if n.Language == "go" {
			ns = n.Name
		}
	}
	if ns == "" {
		return nil
	}
	base := strings.TrimSuffix(filepath.Base(req.AST.Filename), ".thrift")
	name := filepath.Join(req.OutputPath, strings.ReplaceAll(ns, ".", "/"), base+".go")
	mk := func(point, content string) *plugin.Generated {
		n, p := name, point
		return &plugin.Generated{Content: content, Name: &n, InsertionPoint: &p}
	}
	return []*plugin.Generated{
		mk("bof", "// recorder: patch at bof\n"),
		mk("eof", "\n// recorder: patch at eof\n"),
		mk("bof", "// recorder: second patch at bof\n"),
	}
}
