#!/bin/bash
# run.sh <Cxx> <quick|thorough|replay> -- the only entry point MANIFEST.json uses.
# exit 0: property held on everything explored; 1: VIOLATION line(s) printed;
# 2: infrastructure trouble (never a violation).
set -u
cd /verif || exit 2
export GOFLAGS=-mod=mod GOPROXY=off GOSUMDB=off GOTOOLCHAIN=local
export VERIF_TIER="${2:-quick}"
mkdir -p .build
if [ ! -x .build/vrun ] || [ -n "$(find cmd/vrun -newer .build/vrun -name '*.go' 2>/dev/null)" ]; then
  go build -o .build/vrun ./cmd/vrun || { echo "harness: cannot build vrun" >&2; exit 2; }
fi
exec .build/vrun "$1" "${2:-quick}"
