package c13

// Reference semantics of a field mask applied to a value, written from
// fieldmask/README.md and the statement of C13 only.
//
//   white list: a field / index / key is kept iff some path passes through it
//               or ends at or above it; the rest of a path below it applies
//               recursively; `*` selects every child; a position no path says
//               anything about below a kept element selects everything.
//   black list: a field / index / key is removed iff a complete path ends at
//               or above it; an element a path merely passes through is kept
//               and the rest of the path applies to it.
//   required fields that are filtered are still written: the current value
//               (unfiltered), or the zero value under field_mask_zero_required.
//   reading:    a selected part is stored (filtered recursively), an unselected
//               one is skipped: the object keeps what its constructor put there.
//
// The exact semantics is only used on conflict-free path sets (no `*` next to a
// specific key at one position, no path ending where another passes through)
// and, in black-list mode, without a path whose last step is `*` (DESIGN §5a).

import (
	"sort"
	"strconv"
	"strings"

	"verif/internal/idl"
	"verif/internal/ref"
)

// pstep is one step of a thrift path.
type pstep struct {
	kind  byte // 'f' field, 'i' list/set index, 'k' int map key, 's' string map key, 'x' map with another key kind (only *)
	star  bool
	byID  bool
	fld   *ref.FieldT
	ints  []int64
	strs  []string
	elemT *ref.Type // type reached by the step
}

func (p pstep) render() string {
	switch p.kind {
	case 'f':
		if p.star {
			return ".*"
		}
		if p.byID {
			return "." + strconv.Itoa(int(p.fld.ID))
		}
		return "." + p.fld.Name
	case 'i':
		if p.star {
			return "[*]"
		}
		return "[" + joinInts(p.ints) + "]"
	case 'k':
		if p.star {
			return "{*}"
		}
		return "{" + joinInts(p.ints) + "}"
	case 's':
		if p.star {
			return "{*}"
		}
		q := make([]string, len(p.strs))
		for i, s := range p.strs {
			q[i] = strconv.Quote(s)
		}
		return "{" + strings.Join(q, ",") + "}"
	}
	return "{*}"
}

func joinInts(v []int64) string {
	q := make([]string, len(v))
	for i, x := range v {
		q[i] = strconv.FormatInt(x, 10)
	}
	return strings.Join(q, ",")
}

func renderPath(steps []pstep) string {
	var b strings.Builder
	b.WriteString("$")
	for _, s := range steps {
		b.WriteString(s.render())
	}
	return b.String()
}

func (p pstep) keys() []string {
	switch {
	case p.star:
		return nil
	case p.kind == 'f':
		return []string{fkey(p.fld.ID)}
	case p.kind == 's':
		out := make([]string, len(p.strs))
		for i, s := range p.strs {
			out[i] = "s" + s
		}
		return out
	}
	out := make([]string, len(p.ints))
	for i, x := range p.ints {
		out[i] = ikey(x)
	}
	return out
}

func fkey(id int32) string { return "f" + strconv.Itoa(int(id)) }
func ikey(i int64) string  { return "i" + strconv.FormatInt(i, 10) }

// node of the reference path trie.
type node struct {
	terminal bool
	star     *node
	kids     map[string]*node
}

func newNode() *node { return &node{kids: map[string]*node{}} }

// conflicts reports whether adding the path would put a `*` (explicit, or the
// implicit one of a path that ends) and a specific key at the same position.
func (n *node) conflicts(steps []pstep) bool {
	if n == nil {
		return false
	}
	if len(steps) == 0 {
		return n.star != nil || len(n.kids) > 0
	}
	if n.terminal {
		return true
	}
	s := steps[0]
	if s.star {
		if len(n.kids) > 0 {
			return true
		}
		if s.kind == 'f' && n.star != nil {
			// the same field `*` a second time (e.g. "$.s.*" and "$.2.*"): harmless as a set, but the
			// library refuses it ("conflicts with previously settled '*'"); counted as a conflict, not asserted
			return true
		}
		return n.star.conflicts(steps[1:])
	}
	if n.star != nil {
		return true
	}
	for _, k := range s.keys() {
		if n.kids[k].conflicts(steps[1:]) {
			return true
		}
	}
	return false
}

func (n *node) insert(steps []pstep) {
	if len(steps) == 0 {
		n.terminal = true
		return
	}
	s := steps[0]
	if s.star {
		if n.star == nil {
			n.star = newNode()
		}
		n.star.insert(steps[1:])
		return
	}
	for _, k := range s.keys() {
		c := n.kids[k]
		if c == nil {
			c = newNode()
			n.kids[k] = c
		}
		c.insert(steps[1:])
	}
}

// blackStarEnd: some path ends with `*` (not asserted in black-list mode).
func blackStarEnd(paths [][]pstep) bool {
	for _, p := range paths {
		if len(p) > 0 && p[len(p)-1].star {
			return true
		}
	}
	return false
}

// child answers, for a key below the non-terminal node n: is it selected, and
// which node applies to it (nil = no path says anything below: everything).
func (n *node) child(key string, black bool) (bool, *node) {
	if n.star != nil {
		return true, n.star
	}
	c := n.kids[key]
	if !black {
		return c != nil, c
	}
	if c == nil {
		return true, nil
	}
	if c.terminal {
		return false, nil
	}
	return true, c
}

type fmode struct {
	black   bool
	zeroReq bool
}

func mapKey(t *ref.Type, k ref.V) string {
	switch t.Kind {
	case ref.Byte, ref.I16, ref.I32, ref.I64, ref.Enum:
		return ikey(k.(int64))
	case ref.String, ref.Binary:
		return "s" + string(k.([]byte))
	}
	return "?" // only `*` can address such a map
}

// filterWrite is the value a writer under the mask node n must emit.
func filterWrite(t *ref.Type, v ref.V, n *node, m fmode) ref.V {
	if v == nil || n == nil || (n.terminal && !m.black) {
		return v
	}
	switch t.Kind {
	case ref.Struct:
		x := v.(*ref.StructV)
		out := ref.NewStruct()
		for id, fv := range x.F {
			f := t.Struct.Field(id)
			sel, c := false, (*node)(nil)
			if !n.terminal {
				sel, c = n.child(fkey(id), m.black)
			}
			switch {
			case sel:
				out.F[id] = filterWrite(f.Type, fv, c, m)
			case f.Req == idl.ReqRequired && m.zeroReq:
				out.F[id] = ref.Zero(f.Type)
			case f.Req == idl.ReqRequired:
				out.F[id] = fv
			}
		}
		return out
	case ref.List, ref.Set:
		if n.terminal {
			return &ref.ListV{}
		}
		x := v.(*ref.ListV)
		out := &ref.ListV{}
		for i, e := range x.E {
			if sel, c := n.child(ikey(int64(i)), m.black); sel {
				out.E = append(out.E, filterWrite(t.Elem, e, c, m))
			}
		}
		return out
	case ref.Map:
		if n.terminal {
			return &ref.MapV{}
		}
		x := v.(*ref.MapV)
		out := &ref.MapV{}
		for i := range x.K {
			if sel, c := n.child(mapKey(t.Key, x.K[i]), m.black); sel {
				out.K = append(out.K, x.K[i])
				out.E = append(out.E, filterWrite(t.Elem, x.E[i], c, m))
			}
		}
		return out
	}
	return v
}

// baselines holds, per struct-like, the dump of a newly constructed object
// (driver op `new`): what a field shows before anything is stored into it.
// Reading "stores exactly the selected part": everything else stays as the
// constructor left it (whether constructors honour the IDL is C06's business).
type baselines map[string]*ref.StructV

func (b baselines) fresh(st *ref.StructT, f *ref.FieldT) ref.V {
	if o := b[st.Name]; o != nil {
		return o.F[f.ID]
	}
	return nil
}

// filterRead is the object a reader under the mask node n must hold after
// reading the complete encoding of v.
func filterRead(t *ref.Type, v ref.V, n *node, m fmode, base baselines) ref.V {
	if v == nil {
		return nil
	}
	all := n == nil || (n.terminal && !m.black)
	switch t.Kind {
	case ref.Struct:
		x := v.(*ref.StructV)
		out := ref.NewStruct()
		for _, f := range t.Struct.Fields {
			fv, has := x.F[f.ID]
			if has {
				sel, c := all, (*node)(nil)
				if !all && !n.terminal {
					sel, c = n.child(fkey(f.ID), m.black)
				}
				if sel {
					out.F[f.ID] = filterRead(f.Type, fv, c, m, base)
					continue
				}
			}
			if b := base.fresh(t.Struct, f); b != nil {
				out.F[f.ID] = b
			}
		}
		return out
	case ref.List, ref.Set:
		x := v.(*ref.ListV)
		out := &ref.ListV{}
		for i, e := range x.E {
			sel, c := all, (*node)(nil)
			if !all && !n.terminal {
				sel, c = n.child(ikey(int64(i)), m.black)
			}
			if sel {
				out.E = append(out.E, filterRead(t.Elem, e, c, m, base))
			}
		}
		return out
	case ref.Map:
		x := v.(*ref.MapV)
		out := &ref.MapV{}
		for i := range x.K {
			sel, c := all, (*node)(nil)
			if !all && !n.terminal {
				sel, c = n.child(mapKey(t.Key, x.K[i]), m.black)
			}
			if sel {
				out.K = append(out.K, x.K[i])
				out.E = append(out.E, filterRead(t.Elem, x.E[i], c, m, base))
			}
		}
		return out
	}
	return v
}

// mergeRead is the content of an object that held cur and then read the
// complete encoding of v under the mask node n: a field that is on the wire and
// selected is replaced by what a fresh child reads under the sub-mask, every
// other field keeps what the object held.
func mergeRead(t *ref.Type, cur, v *ref.StructV, n *node, m fmode, base baselines) *ref.StructV {
	all := n == nil || (n.terminal && !m.black)
	out := ref.NewStruct()
	for _, f := range t.Struct.Fields {
		if fv, has := v.F[f.ID]; has && fv != nil {
			sel, c := all, (*node)(nil)
			if !all && !n.terminal {
				sel, c = n.child(fkey(f.ID), m.black)
			}
			if sel {
				out.F[f.ID] = filterRead(f.Type, fv, c, m, base)
				continue
			}
		}
		if old, ok := cur.F[f.ID]; ok && old != nil {
			out.F[f.ID] = old
		}
	}
	return out
}

// writable: every union inside the value has exactly one member and every set
// has distinct elements (the generated writer refuses anything else).
func writable(t *ref.Type, v ref.V, top bool) bool {
	if v == nil {
		return true
	}
	switch t.Kind {
	case ref.List, ref.Set:
		es := v.(*ref.ListV).E
		for i, e := range es {
			if !writable(t.Elem, e, false) {
				return false
			}
			for j := 0; t.Kind == ref.Set && j < i; j++ {
				if ref.Equal(es[j], e) {
					return false
				}
			}
		}
	case ref.Map:
		x := v.(*ref.MapV)
		for i := range x.K {
			if !writable(t.Key, x.K[i], false) || !writable(t.Elem, x.E[i], false) {
				return false
			}
		}
	case ref.Struct:
		x := v.(*ref.StructV)
		if t.Struct.Kind == "union" && len(x.F) != 1 {
			return false
		}
		for id, fv := range x.F {
			if f := t.Struct.Field(id); f == nil || !writable(f.Type, fv, false) {
				return false
			}
		}
	}
	return true
}

// dedupSets removes set elements that equal an earlier one.  ref.GenStruct
// draws distinct elements, but two of them can become one value once optional
// fields holding their default are dropped (canon) or defaults are spelled out
// (complete); the generated writer refuses a set with equal elements.
func dedupSets(t *ref.Type, v ref.V) ref.V {
	if v == nil {
		return nil
	}
	switch t.Kind {
	case ref.List, ref.Set:
		o := &ref.ListV{}
	next:
		for _, e := range v.(*ref.ListV).E {
			d := dedupSets(t.Elem, e)
			if t.Kind == ref.Set {
				for _, x := range o.E {
					if ref.Equal(x, d) {
						continue next
					}
				}
			}
			o.E = append(o.E, d)
		}
		return o
	case ref.Map:
		x := v.(*ref.MapV)
		o := &ref.MapV{}
		for i := range x.K {
			o.K = append(o.K, dedupSets(t.Key, x.K[i]))
			o.E = append(o.E, dedupSets(t.Elem, x.E[i]))
		}
		return o
	case ref.Struct:
		x := v.(*ref.StructV)
		o := ref.NewStruct()
		for id, fv := range x.F {
			if f := t.Struct.Field(id); f != nil {
				o.F[id] = dedupSets(f.Type, fv)
			}
		}
		return o
	}
	return v
}

// containsStruct: the type is, or holds elements / values that are, a plain struct.
func containsStruct(t *ref.Type) bool {
	switch t.Kind {
	case ref.Struct:
		return t.Struct.Kind == "struct"
	case ref.List, ref.Set, ref.Map:
		return containsStruct(t.Elem)
	}
	return false
}

// canon drops optional fields that hold their declared default (they count as
// unset: the generated writer does not emit them).  Nothing else is changed.
func canon(t *ref.Type, v ref.V) ref.V {
	if v == nil {
		return nil
	}
	switch t.Kind {
	case ref.List, ref.Set:
		o := &ref.ListV{}
		for _, e := range v.(*ref.ListV).E {
			o.E = append(o.E, canon(t.Elem, e))
		}
		return o
	case ref.Map:
		x := v.(*ref.MapV)
		o := &ref.MapV{}
		for i := range x.K {
			o.K = append(o.K, canon(t.Key, x.K[i]))
			o.E = append(o.E, canon(t.Elem, x.E[i]))
		}
		return o
	case ref.Struct:
		x := v.(*ref.StructV)
		o := ref.NewStruct()
		for _, f := range t.Struct.Fields {
			fv, ok := x.F[f.ID]
			if !ok || fv == nil {
				continue
			}
			cv := canon(f.Type, fv)
			if f.Req == idl.ReqOptional && f.HasDef && ref.Equal(cv, canon(f.Type, f.Default)) {
				continue
			}
			o.F[f.ID] = cv
		}
		return o
	}
	return v
}

// complete makes a value explicit about every non-optional field, the way the
// driver builds the object from it: an absent non-optional field holds what
// the constructor puts there (declared default, else zero).  Values drawn by
// ref.GenStruct set these fields, but the evaluated default of a struct-typed
// field names only the fields its literal mentions.  ok is false when a
// non-optional struct-typed field is absent (a nil pointer: DESIGN §5a keeps
// that class away from value oracles).
func complete(t *ref.Type, v ref.V, fuel int) (ref.V, bool) {
	if v == nil {
		return nil, true
	}
	switch t.Kind {
	case ref.List, ref.Set:
		o := &ref.ListV{E: []ref.V{}}
		for _, x := range v.(*ref.ListV).E {
			y, ok := complete(t.Elem, x, fuel)
			if !ok {
				return nil, false
			}
			o.E = append(o.E, y)
		}
		return o, true
	case ref.Map:
		m := v.(*ref.MapV)
		o := &ref.MapV{K: []ref.V{}, E: []ref.V{}}
		for i := range m.K {
			k, ok := complete(t.Key, m.K[i], fuel)
			if !ok {
				return nil, false
			}
			x, ok := complete(t.Elem, m.E[i], fuel)
			if !ok {
				return nil, false
			}
			o.K, o.E = append(o.K, k), append(o.E, x)
		}
		return o, true
	case ref.Struct:
		if fuel <= 0 {
			return nil, false
		}
		sv := v.(*ref.StructV)
		o := ref.NewStruct()
		for _, f := range t.Struct.Fields {
			fv, has := sv.F[f.ID]
			if !has || fv == nil {
				if f.Req == idl.ReqOptional || t.Struct.Kind == "union" {
					continue
				}
				switch {
				case f.HasDef:
					fv = f.Default
				case f.Type.Kind == ref.Struct:
					return nil, false
				default:
					fv = ref.Zero(f.Type)
				}
			}
			y, ok := complete(f.Type, fv, fuel-1)
			if !ok {
				return nil, false
			}
			o.F[f.ID] = y
		}
		return o, true
	}
	return v, true
}

// subValue checks that d occurs inside v: every field / element / entry of d is
// in v at the same key (lists: in the same order) with a sub-value.  Under
// zeroReq a required field may instead hold the zero value.  "" = yes.
func subValue(t *ref.Type, d, v ref.V, zeroReq bool, path string) string {
	switch t.Kind {
	case ref.Struct:
		x, ok1 := d.(*ref.StructV)
		y, ok2 := v.(*ref.StructV)
		if !ok1 || !ok2 {
			return path + ": not a struct"
		}
		for _, id := range x.IDs() {
			f := t.Struct.Field(id)
			if f == nil {
				return path + ": unknown field " + strconv.Itoa(int(id))
			}
			why := path + "." + f.Name + ": present in the output, absent in the original"
			if yv, ok := y.F[id]; ok && yv != nil {
				why = subValue(f.Type, x.F[id], yv, zeroReq, path+"."+f.Name)
			}
			if why != "" && zeroReq && f.Req == idl.ReqRequired && ref.Equal(x.F[id], ref.Zero(f.Type)) {
				why = ""
			}
			if why != "" {
				return why
			}
		}
		return ""
	case ref.List, ref.Set:
		x, ok1 := d.(*ref.ListV)
		y, ok2 := v.(*ref.ListV)
		if !ok1 || !ok2 {
			return path + ": not a list"
		}
		if !embeds(t.Elem, x.E, y.E, zeroReq) {
			return path + ": the elements " + ref.Show(x) + " are not (sub-values of) a subsequence of " + ref.Show(y)
		}
		return ""
	case ref.Map:
		x, ok1 := d.(*ref.MapV)
		y, ok2 := v.(*ref.MapV)
		if !ok1 || !ok2 {
			return path + ": not a map"
		}
		for i := range x.K {
			found := false
			for j := range y.K {
				if ref.Equal(x.K[i], y.K[j]) {
					found = true
					if why := subValue(t.Elem, x.E[i], y.E[j], zeroReq, path+"{"+ref.Show(x.K[i])+"}"); why != "" {
						return why
					}
				}
			}
			if !found {
				return path + ": key " + ref.Show(x.K[i]) + " is not in the original"
			}
			for j := 0; j < i; j++ {
				if ref.Equal(x.K[i], x.K[j]) {
					return path + ": key " + ref.Show(x.K[i]) + " written twice"
				}
			}
		}
		return ""
	}
	if !ref.Equal(d, v) {
		return path + ": " + ref.Show(d) + " instead of " + ref.Show(v)
	}
	return ""
}

func embeds(t *ref.Type, d, v []ref.V, zeroReq bool) bool {
	if len(d) == 0 {
		return true
	}
	if len(d) > len(v) {
		return false
	}
	for j := 0; j+len(d) <= len(v); j++ {
		if subValue(t, d[0], v[j], zeroReq, "") == "" && embeds(t, d[1:], v[j+1:], zeroReq) {
			return true
		}
	}
	return false
}

// ---------- shapes of listed findings (exclusion predicates) ----------

// preCountBug simulates `for i := 0; i < l; i++ { if !sel(i) { l-- } }` and
// reports whether its result differs from the number of selected indices.
func preCountBug(sel []bool) bool {
	l := len(sel)
	for i := 0; i < l; i++ {
		if !sel[i] {
			l--
		}
	}
	n := 0
	for _, s := range sel {
		if s {
			n++
		}
	}
	return l != n
}

// walker visits the value the way a writer under the mask does and reports the
// shapes of the listed findings.
type walker struct {
	m           fmode
	preCount    bool       // a list/set with specific indices whose header pre-count is wrong
	reqTerminal bool       // black list: a complete path ends at a required container / struct field
	blackLeaf   bool       // black list: a path ends with `*` above a non-empty list / set / map
	offenders   [][]pstep  // non-required fields that are set and filtered (written as zero under zero_required)
	maxSel      selStat
}

type selStat struct {
	strictLast  bool // a container of size >= 3 with a strict, non-empty selection that includes the last element
	depth       int  // deepest mask node applied to a value
	structBelow bool // a struct below the root is written under a sub-mask of its own (the writer attaches it to the child object)
}

func (w *walker) walk(t *ref.Type, v ref.V, n *node, prefix []pstep, depth int) {
	if v == nil || n == nil || (n.terminal && !w.m.black) {
		return
	}
	if depth > w.maxSel.depth {
		w.maxSel.depth = depth
	}
	ext := func(s pstep) []pstep { return append(append([]pstep{}, prefix...), s) }
	switch t.Kind {
	case ref.Struct:
		if depth > 0 {
			w.maxSel.structBelow = true
		}
		x := v.(*ref.StructV)
		for _, id := range x.IDs() {
			f := t.Struct.Field(id)
			sel, c := false, (*node)(nil)
			if !n.terminal {
				sel, c = n.child(fkey(id), w.m.black)
			}
			if sel {
				w.walk(f.Type, x.F[id], c, ext(pstep{kind: 'f', fld: f, elemT: f.Type}), depth+1)
				continue
			}
			if f.Req == idl.ReqRequired {
				if w.m.black && !n.terminal && f.Type.Kind >= ref.List {
					w.reqTerminal = true
				}
				continue
			}
			w.offenders = append(w.offenders, ext(pstep{kind: 'f', fld: f, elemT: f.Type}))
		}
	case ref.List, ref.Set:
		x := v.(*ref.ListV)
		if n.terminal {
			// only reached in black-list mode below a `*` that ends a path
			if len(x.E) > 0 {
				w.blackLeaf = true
			}
			return
		}
		sels := make([]bool, len(x.E))
		nsel := 0
		for i, e := range x.E {
			sel, c := n.child(ikey(int64(i)), w.m.black)
			sels[i] = sel
			if sel {
				nsel++
				st := pstep{kind: 'i', ints: []int64{int64(i)}, elemT: t.Elem}
				if n.star != nil {
					st = pstep{kind: 'i', star: true, elemT: t.Elem}
				}
				w.walk(t.Elem, e, c, ext(st), depth+1)
			}
		}
		if n.star == nil && preCountBug(sels) {
			w.preCount = true
		}
		if len(sels) >= 3 && nsel > 0 && nsel < len(sels) && sels[len(sels)-1] {
			w.maxSel.strictLast = true
		}
	case ref.Map:
		x := v.(*ref.MapV)
		if n.terminal {
			if len(x.K) > 0 {
				w.blackLeaf = true
			}
			return
		}
		nsel := 0
		for i := range x.K {
			key := mapKey(t.Key, x.K[i])
			sel, c := n.child(key, w.m.black)
			if sel {
				nsel++
				var st pstep
				switch {
				case n.star != nil || key == "?":
					st = pstep{kind: 'x', star: true, elemT: t.Elem}
				case key[0] == 's':
					st = pstep{kind: 's', strs: []string{key[1:]}, elemT: t.Elem}
				default:
					st = pstep{kind: 'k', ints: []int64{x.K[i].(int64)}, elemT: t.Elem}
				}
				w.walk(t.Elem, x.E[i], c, ext(st), depth+1)
			}
		}
		if len(x.K) >= 3 && nsel > 0 && nsel < len(x.K) {
			w.maxSel.strictLast = true
		}
	}
}

// trieOf builds the trie of a path set; conflict reports whether the set has a conflict.
func trieOf(paths [][]pstep) (root *node, conflict bool) {
	root = newNode()
	for _, p := range paths {
		if root.conflicts(p) {
			conflict = true
		}
		root.insert(p)
	}
	return root, conflict
}

func sortedKeys(m map[string]*node) []string {
	var ks []string
	for k := range m {
		ks = append(ks, k)
	}
	sort.Strings(ks)
	return ks
}
