package c11

// idl.Diff treats a nil slice and an empty one as the same value, which is
// right almost everywhere in the AST.  It is not right for the members of the
// ConstTypedValue union: `[]` and `{}` are values whose List / Map member IS
// set (the parser builds non-nil empty slices on purpose), and a codec that
// drops the member hands the plugin a constant with no value at all.  This
// walk records, for every ConstTypedValue reachable from a tree, which union
// members are set; the compiler's and the plugin's lists must be equal.

import (
	"fmt"
	"reflect"

	"github.com/cloudwego/thriftgo/parser"
	"github.com/cloudwego/thriftgo/plugin"
)

// unionShapes lists the union shapes of one file (included files are not followed).
func unionShapes(root *parser.Thrift) []string {
	var out []string
	tvType := reflect.TypeOf(&parser.ConstTypedValue{})
	thType := reflect.TypeOf(&parser.Thrift{})
	var walk func(v reflect.Value, depth int)
	walk = func(v reflect.Value, depth int) {
		if depth > 300 {
			return
		}
		switch v.Kind() {
		case reflect.Ptr:
			if v.IsNil() || (v.Type() == thType && depth > 0) {
				return
			}
			if v.Type() == tvType {
				tv := v.Interface().(*parser.ConstTypedValue)
				out = append(out, fmt.Sprintf("d=%v i=%v l=%v id=%v list=%v map=%v", tv.Double != nil, tv.Int != nil, tv.Literal != nil, tv.Identifier != nil, tv.List != nil, tv.Map != nil))
			}
			walk(v.Elem(), depth+1)
		case reflect.Interface:
			if !v.IsNil() {
				walk(v.Elem(), depth+1)
			}
		case reflect.Struct:
			for i := 0; i < v.NumField(); i++ {
				if v.Type().Field(i).PkgPath != "" {
					continue // unexported
				}
				walk(v.Field(i), depth+1)
			}
		case reflect.Slice:
			for i := 0; i < v.Len(); i++ {
				walk(v.Index(i), depth+1)
			}
		}
	}
	walk(reflect.ValueOf(root), 0)
	return out
}

func filesOf(root *parser.Thrift) (map[string]*parser.Thrift, []string) {
	m := map[string]*parser.Thrift{}
	var order []string
	var visit func(t *parser.Thrift)
	visit = func(t *parser.Thrift) {
		if t == nil || m[t.Filename] != nil {
			return
		}
		m[t.Filename] = t
		order = append(order, t.Filename)
		for _, inc := range t.Includes {
			visit(inc.Reference)
		}
	}
	visit(root)
	return m, order
}

func astOf(x interface{}) *parser.Thrift {
	switch v := x.(type) {
	case *parser.Thrift:
		return v
	case *plugin.Request:
		if v != nil {
			return v.AST
		}
	}
	return nil
}

// shapeDiff compares the union shapes of two trees, file by file.
func shapeDiff(a, b interface{}) string {
	fa, order := filesOf(astOf(a))
	fb, _ := filesOf(astOf(b))
	for _, name := range order {
		if fb[name] == nil {
			continue // idl.Diff reports missing files
		}
		x, y := unionShapes(fa[name]), unionShapes(fb[name])
		if len(x) != len(y) {
			return fmt.Sprintf("%s: %d constant values on one side, %d on the other", name, len(x), len(y))
		}
		for i := range x {
			if x[i] != y[i] {
				return fmt.Sprintf("%s: constant value #%d: union members set {%s} on one side, {%s} on the other (an empty list / map literal must keep its List / Map member)", name, i, x[i], y[i])
			}
		}
	}
	return ""
}
