//go:build verif

// C19 — concurrent persist: all files written or an error, under every schedule.
//
// Reached through the exported API only: a zero generator.Generator, a test
// backend (backend.Backend + backend.PostProcessor) registered and used through
// Generate (which installs the post-processor and the logger), then
// Persist(res) on a response of n files under a fresh temporary directory.
//
// What the real code lets a black box observe (derived from reading
// asyncPostProcess.OnFinished, and asserted ONLY because the property says so):
//   - both return paths are preceded by wg.Wait(): at return every worker that
//     was started has finished its PostProcess call and its write;
//   - jobs that were never dispatched (early return on an error) are never
//     started afterwards, so their gates may still be closed at return — the
//     oracle therefore never requires "all gates open" at return, only "no
//     PostProcess call running, none starting later, directory stable";
//   - on error nothing is said about which subset of files exists.
package c19

import (
	"encoding/json"
	"errors"
	"fmt"
	"io/fs"
	"os"
	"path/filepath"
	"regexp"
	"runtime"
	"sort"
	"strings"
	"sync"
	"sync/atomic"
	"syscall"
	"testing"
	"time"

	"github.com/cloudwego/thriftgo/generator"
	"github.com/cloudwego/thriftgo/generator/backend"
	"github.com/cloudwego/thriftgo/plugin"
	"pgregory.net/rapid"

	"verif/internal/vt"
)

const prop = "C19"

func TestMain(m *testing.M) { vt.Main(m) }

// ---------- the case: plain data ----------

// Fault kinds of a job.
const (
	faultNone     = 0
	faultPP       = 1 // PostProcess returns the job's own injected error
	faultIsDir    = 2 // the target path exists as a directory
	faultParent   = 3 // the parent of the target path is a regular file
	faultAncestor = 4 // an ancestor two levels up is a regular file
)

var faultNames = []string{"none", "postprocess", "write_isdir", "write_parent_file", "write_ancestor_file"}

// Pause actions (gate pauses, post-gate pauses, yield script).
//
//	0 nothing, 1 Gosched, 2 four Gosched, 3/4/5 yield for 2/30/200 µs,
//	6 a real time.Sleep(1µs) (parks the goroutine; on coarse-timer machines
//	this costs up to a millisecond, so it is drawn rarely)
func pause(a int) {
	switch a {
	case 1:
		runtime.Gosched()
	case 2:
		for i := 0; i < 4; i++ {
			runtime.Gosched()
		}
	case 3:
		yieldFor(2 * time.Microsecond)
	case 4:
		yieldFor(30 * time.Microsecond)
	case 5:
		yieldFor(200 * time.Microsecond)
	case 6:
		time.Sleep(time.Microsecond)
	}
}

// yieldFor keeps yielding the processor for d.  (time.Sleep has millisecond
// granularity on some machines; the wall clock is used only to bound the
// perturbation, never in the oracle.)
func yieldFor(d time.Duration) {
	for t := time.Now(); time.Since(t) < d; {
		runtime.Gosched()
	}
}

type jobSpec struct {
	Sub   int `json:"sub"`   // sub-directory shape 0..3
	Size  int `json:"size"`  // filler bytes after the identifying header
	Fault int `json:"fault"` // fault kind
	Stale int `json:"stale,omitempty"` // > 0: the path already holds a file that is this many bytes longer than the new content (a re-generation)
	Post  int `json:"post"`  // pause action inside PostProcess after its gate opened
}

type yieldScript struct {
	Dispatch    []int `json:"dispatch"` // indexed by job number (cyclic)
	Acquired    []int `json:"acquired"` // indexed by job number (cyclic)
	WorkerStart []int `json:"worker_start"`
	ErrorSend   []int `json:"error_send"`
	WorkerEnd   []int `json:"worker_end"`
	Collect     int   `json:"collect"`
}

type persistCase struct {
	N         int         `json:"n"`
	K         int         `json:"k"` // runtime.GOMAXPROCS = concurrency limit
	Jobs      []jobSpec   `json:"jobs"`
	Head      int         `json:"head"`       // pause of the controller before the first gate
	GateOrder []int       `json:"gate_order"` // permutation of 0..n-1: the order in which gates open
	GatePause []int       `json:"gate_pause"` // pause action before opening the s-th gate
	Yield     yieldScript `json:"yield"`
}

func (c *persistCase) valid() error {
	if c.N < 0 || c.N > 4096 || c.K < 1 || c.K > 256 {
		return fmt.Errorf("n=%d k=%d out of range", c.N, c.K)
	}
	if len(c.Jobs) != c.N || len(c.GateOrder) != c.N || len(c.GatePause) != c.N {
		return fmt.Errorf("lengths disagree with n=%d", c.N)
	}
	seen := make([]bool, c.N)
	for _, j := range c.GateOrder {
		if j < 0 || j >= c.N || seen[j] {
			return fmt.Errorf("gate_order is not a permutation")
		}
		seen[j] = true
	}
	for _, j := range c.Jobs {
		if j.Post < 0 || j.Post > 6 || j.Fault < 0 || j.Fault > faultAncestor || j.Sub < 0 || j.Sub > 3 || j.Size < 0 || j.Size > 1<<22 {
			return fmt.Errorf("job spec out of range")
		}
	}
	return nil
}

func (c *persistCase) faulty() []int {
	var f []int
	for i, j := range c.Jobs {
		if j.Fault != faultNone {
			f = append(f, i)
		}
	}
	return f
}

// lateFailing reports whether some failing job's gate opens after the gate of
// a later job.
func (c *persistCase) lateFailing() bool {
	pos := make([]int, c.N)
	for s, j := range c.GateOrder {
		pos[j] = s
	}
	for i, j := range c.Jobs {
		if j.Fault == faultNone {
			continue
		}
		for l := i + 1; l < c.N; l++ {
			if pos[l] < pos[i] {
				return true
			}
		}
	}
	return false
}

// ---------- the model of one run ----------

var subDirs = []string{"", "a", "b", filepath.Join("a", "c", "d")}

const blockerContent = "c19 blocker: a regular file where a directory is needed\n"

func rawContent(i, n, size int) string {
	line := strings.Repeat(string(rune('a'+i%26)), 63) + "\n"
	var b strings.Builder
	b.Grow(size + 40)
	fmt.Fprintf(&b, "<job %d of %d>", i, n)
	for l := size; l > 0; l -= len(line) {
		if l >= len(line) {
			b.WriteString(line)
		} else {
			b.WriteString(line[:l])
		}
	}
	fmt.Fprintf(&b, "</job %d>", i)
	return b.String()
}

// transform is what the test post-processor does: it embeds the identity of
// the job it believes it works for (derived from the path it was given) around
// the content it was given.
func transform(i int, content []byte) []byte {
	out := make([]byte, 0, len(content)+32)
	out = append(out, fmt.Sprintf("PP[%d]{", i)...)
	out = append(out, content...)
	out = append(out, fmt.Sprintf("}PP[%d]", i)...)
	return out
}

type injected struct{ job int }

func (e *injected) Error() string {
	return fmt.Sprintf("c19: injected post-process failure of job %d", e.job)
}

type run struct {
	c       *persistCase
	dir     string
	paths   []string       // absolute target path per job
	blocker []string       // absolute path of the object that makes the write fail ("" if none)
	idx     map[string]int // path -> job
	raw     []string
	want    []string // transform(own content)
	gates   []chan struct{}
	inj     []*injected

	opened   atomic.Int32 // gates opened so far
	inflight atomic.Int32 // PostProcess calls entered and not yet left
	maxPar   atomic.Int32
	returned atomic.Bool
	ppCalls  []atomic.Int32
	wrLogs   []atomic.Int32
	yctr     [3]atomic.Int64

	mu    sync.Mutex
	notes []string // violations observed from inside the callbacks

	// written by the Persist goroutine before it closes done
	err         error
	pan         interface{}
	atReturn    int32
	openAtRet   int32
	persistDone chan struct{}
}

func (r *run) note(format string, a ...interface{}) {
	r.mu.Lock()
	if len(r.notes) < 8 {
		r.notes = append(r.notes, fmt.Sprintf(format, a...))
	}
	r.mu.Unlock()
}

// whose names the job a piece of content belongs to (for messages).
func whose(content string) string {
	var i, n int
	if k := strings.Index(content, "<job "); k >= 0 {
		if _, err := fmt.Sscanf(content[k:], "<job %d of %d>", &i, &n); err == nil {
			return fmt.Sprintf("content of job %d", i)
		}
	}
	return fmt.Sprintf("%d bytes of unknown origin (%q)", len(content), vt.Truncate(content, 40))
}

// --- the test backend ---

type testBackend struct{ r *run }

func (b *testBackend) Name() string { return "c19" }
func (b *testBackend) Lang() string { return "c19" }
func (b *testBackend) Generate(req *plugin.Request, log backend.LogFunc) *plugin.Response {
	return plugin.NewResponse()
}
func (b *testBackend) Options() []plugin.Option             { return nil }
func (b *testBackend) BuiltinPlugins() []*plugin.Desc       { return nil }
func (b *testBackend) GetPlugin(*plugin.Desc) plugin.Plugin { return nil }

var errUnknownPath = errors.New("c19: PostProcess called with a path that is not in the response")

func (b *testBackend) PostProcess(path string, content []byte) ([]byte, error) {
	r := b.r
	late := r.returned.Load()
	i, ok := r.idx[path]
	if !ok {
		r.note("PostProcess was called with path %q which is not a path of the response", path)
		return nil, errUnknownPath
	}
	if late {
		r.note("PostProcess of job %d started after Persist had returned", i)
	}
	cur := r.inflight.Add(1)
	defer r.inflight.Add(-1)
	for {
		m := r.maxPar.Load()
		if cur <= m || r.maxPar.CompareAndSwap(m, cur) {
			break
		}
	}
	if r.ppCalls[i].Add(1) > 1 {
		r.note("the path of job %d was post-processed more than once", i)
	}
	if string(content) != r.raw[i] {
		r.note("PostProcess for the path of job %d received %s", i, whose(string(content)))
	}
	<-r.gates[i] // opened by the controller, independently of Persist
	pause(r.c.Jobs[i].Post)
	if r.c.Jobs[i].Fault == faultPP {
		return nil, r.inj[i]
	}
	return transform(i, content), nil
}

func (r *run) logInfo(v ...interface{}) {
	// Persist logs Info("Write", path) before each write.  Used only for upper
	// bounds (at most one write per path, none after return): if the log line
	// disappears the check just gets weaker.
	if len(v) != 2 {
		return
	}
	if s, ok := v[0].(string); !ok || s != "Write" {
		return
	}
	p, ok := v[1].(string)
	if !ok {
		return
	}
	i, ok := r.idx[p]
	if !ok {
		return
	}
	if r.returned.Load() {
		r.note("the write of job %d was announced after Persist had returned", i)
	}
	if r.wrLogs[i].Add(1) > 1 {
		r.note("the write of job %d was announced more than once", i)
	}
}

// --- the scheduling hook: installed once, dispatches to the current run ---

var current atomic.Pointer[run]

func init() {
	generator.VerifYield = func(point string, job int) {
		if r := current.Load(); r != nil {
			r.yield(point, job)
		}
	}
}

func pick(s []int, i int64) int {
	if len(s) == 0 || i < 0 {
		return 0
	}
	return s[int(i%int64(len(s)))]
}

func (r *run) yield(point string, job int) {
	y := &r.c.Yield
	switch point {
	case "dispatch":
		pause(pick(y.Dispatch, int64(job)))
	case "acquired":
		pause(pick(y.Acquired, int64(job)))
	case "worker-start":
		pause(pick(y.WorkerStart, r.yctr[0].Add(1)))
	case "error-send":
		pause(pick(y.ErrorSend, r.yctr[1].Add(1)))
	case "worker-end":
		pause(pick(y.WorkerEnd, r.yctr[2].Add(1)))
	case "collect":
		pause(y.Collect)
	}
}

// --- directory snapshots ---

type entry struct {
	dir   bool
	size  int64
	mtime int64
	mode  fs.FileMode
	data  string // regular files, full snapshot only
}

func snapshot(root string, withData bool) (map[string]entry, error) {
	out := map[string]entry{}
	err := filepath.WalkDir(root, func(p string, d fs.DirEntry, err error) error {
		if err != nil {
			return err
		}
		if p == root {
			return nil
		}
		info, err := d.Info()
		if err != nil {
			return err
		}
		e := entry{dir: d.IsDir(), mode: info.Mode().Type()}
		if !e.dir {
			// directories change size/mtime legitimately only while files are
			// created in them; they are compared through their children
			e.size, e.mtime = info.Size(), info.ModTime().UnixNano()
			if withData && info.Mode().IsRegular() {
				b, err := os.ReadFile(p)
				if err != nil {
					return err
				}
				e.data = string(b)
			}
		}
		rel, _ := filepath.Rel(root, p)
		out[rel] = e
		return nil
	})
	return out, err
}

func diffSnap(a, b map[string]entry) string {
	var d []string
	for k, ea := range a {
		eb, ok := b[k]
		switch {
		case !ok:
			d = append(d, k+" disappeared")
		case ea.dir != eb.dir || ea.mode != eb.mode:
			d = append(d, k+" changed type")
		case ea.size != eb.size:
			d = append(d, fmt.Sprintf("%s changed size %d -> %d", k, ea.size, eb.size))
		case ea.mtime != eb.mtime:
			d = append(d, k+" was modified")
		}
	}
	for k := range b {
		if _, ok := a[k]; !ok {
			d = append(d, k+" appeared")
		}
	}
	sort.Strings(d)
	if len(d) > 6 {
		d = append(d[:6], "...")
	}
	return strings.Join(d, "; ")
}

// ---------- one execution ----------

const watchdog = 20 * time.Second

type outcome struct {
	expired   bool // Persist did not return within the watchdog after the last gate opened
	dump      string
	harness   error // trouble of the harness itself (temp dir); never a violation
	verdict   []string
	maxPar    int
	earlyRet  bool // Persist returned while some gates were still closed
	writeErr  bool // the returned error came from a write fault
	stillBusy func() bool
}

func (r *run) setup() error {
	c := r.c
	n := c.N
	r.paths = make([]string, n)
	r.blocker = make([]string, n)
	r.idx = make(map[string]int, n)
	r.raw = make([]string, n)
	r.want = make([]string, n)
	r.gates = make([]chan struct{}, n)
	r.inj = make([]*injected, n)
	r.ppCalls = make([]atomic.Int32, n)
	r.wrLogs = make([]atomic.Int32, n)
	for i, j := range c.Jobs {
		sub := filepath.Join(r.dir, subDirs[j.Sub])
		name := fmt.Sprintf("f%02d.go", i)
		switch j.Fault {
		case faultIsDir:
			r.paths[i] = filepath.Join(sub, name)
			r.blocker[i] = r.paths[i]
			if err := os.MkdirAll(r.paths[i], 0o755); err != nil {
				return err
			}
		case faultParent, faultAncestor:
			blk := filepath.Join(sub, fmt.Sprintf("blk%02d", i))
			if err := os.MkdirAll(sub, 0o755); err != nil {
				return err
			}
			if err := os.WriteFile(blk, []byte(blockerContent), 0o644); err != nil {
				return err
			}
			r.blocker[i] = blk
			if j.Fault == faultParent {
				r.paths[i] = filepath.Join(blk, name)
			} else {
				r.paths[i] = filepath.Join(blk, "x", "y", name)
			}
		default:
			r.paths[i] = filepath.Join(sub, name)
		}
		r.idx[r.paths[i]] = i
		r.raw[i] = rawContent(i, n, j.Size)
		r.want[i] = string(transform(i, []byte(r.raw[i])))
		if j.Stale > 0 && j.Fault != faultIsDir && j.Fault != faultParent && j.Fault != faultAncestor {
			// output of an earlier, longer generation at the same path
			if err := os.MkdirAll(sub, 0o755); err != nil {
				return err
			}
			if err := os.WriteFile(r.paths[i], []byte(strings.Repeat("s", len(r.want[i])+j.Stale)), 0o644); err != nil {
				return err
			}
		}
		r.gates[i] = make(chan struct{})
		r.inj[i] = &injected{job: i}
	}
	return nil
}

var (
	reArgs = regexp.MustCompile(`\(.*\)$`)
	reAddr = regexp.MustCompile(`( \+0x[0-9a-f]+| in goroutine \d+)`)
)

// stacks returns the goroutines that are inside the generator package, with
// identical stacks folded (arguments and addresses dropped).
func stacks() string {
	buf := make([]byte, 4<<20)
	buf = buf[:runtime.Stack(buf, true)]
	count := map[string]int{}
	var order []string
	for _, g := range strings.Split(string(buf), "\n\n") {
		if !strings.Contains(g, "thriftgo/generator.") {
			continue
		}
		lines := strings.Split(g, "\n")
		state := ""
		if k := strings.Index(lines[0], "["); k >= 0 {
			state = strings.TrimRight(lines[0][k:], ":")
			if c := strings.Index(state, ","); c >= 0 {
				state = state[:c] + "]" // drop the waiting time
			}
		}
		for i := 1; i < len(lines); i++ {
			lines[i] = reAddr.ReplaceAllString(reArgs.ReplaceAllString(lines[i], "(...)"), "")
		}
		body := state + "\n" + strings.Join(lines[1:], "\n")
		if count[body] == 0 {
			order = append(order, body)
		}
		count[body]++
	}
	var b strings.Builder
	for _, body := range order {
		fmt.Fprintf(&b, "%d goroutine(s) %s\n\n", count[body], body)
	}
	return vt.Truncate(b.String(), 6000)
}

func runOnce(c *persistCase) (o outcome) {
	dir, err := os.MkdirTemp("", "c19-")
	if err != nil {
		o.harness = err
		return o
	}
	r := &run{c: c, dir: dir, persistDone: make(chan struct{})}
	if err := r.setup(); err != nil {
		os.RemoveAll(dir)
		o.harness = err
		return o
	}

	var g generator.Generator
	be := &testBackend{r: r}
	if err := g.RegisterBackend(be); err != nil {
		os.RemoveAll(dir)
		o.harness = err
		return o
	}
	log := backend.DummyLogFunc()
	log.Info = r.logInfo
	// Generate installs the post-processor and the logger; the backend
	// generates nothing, the response to persist is built below.
	if gr := g.Generate(&generator.Arguments{
		Out: &generator.LangSpec{Language: "c19"},
		Req: &plugin.Request{},
		Log: log,
	}); gr.GetError() != "" {
		os.RemoveAll(dir)
		o.harness = errors.New(gr.GetError())
		return o
	}
	res := plugin.NewResponse()
	for i := range r.paths {
		name := r.paths[i]
		res.Contents = append(res.Contents, &plugin.Generated{Name: &name, Content: r.raw[i]})
	}

	prev := runtime.GOMAXPROCS(c.K)
	restored := false
	restore := func() {
		if !restored {
			restored = true
			runtime.GOMAXPROCS(prev)
		}
	}
	defer restore()
	current.Store(r)
	defer current.Store(nil)

	// the controller opens every gate, no matter what Persist does
	ctrlDone := make(chan struct{})
	go func() {
		defer close(ctrlDone)
		pause(c.Head)
		for s, j := range c.GateOrder {
			pause(c.GatePause[s])
			close(r.gates[j])
			r.opened.Add(1)
		}
	}()
	go func() {
		defer close(r.persistDone)
		defer func() {
			if p := recover(); p != nil {
				r.pan = p
				r.returned.Store(true)
			}
		}()
		err := g.Persist(res)
		r.atReturn = r.inflight.Load()
		r.openAtRet = r.opened.Load()
		r.returned.Store(true)
		r.err = err
	}()

	<-ctrlDone // joins the controller; bounded by the script
	timer := time.NewTimer(watchdog)
	select {
	case <-r.persistDone:
		timer.Stop()
	case <-timer.C:
		o.expired = true
		o.dump = stacks()
		done := r.persistDone
		o.stillBusy = func() bool {
			select {
			case <-done:
				return false
			default:
				return true
			}
		}
		// The goroutines of this run are stuck (or extremely slow); the
		// directory is left in place because they may still write into it.
		restore()
		return o
	}

	// Persist has returned and every gate is open.
	s1, err1 := snapshot(dir, true)
	yieldFor(200 * time.Microsecond) // grace period: stray workers, if any, get to run
	s2, err2 := snapshot(dir, false)

	o.maxPar = int(r.maxPar.Load())
	o.earlyRet = int(r.openAtRet) < c.N
	o.verdict, o.writeErr = r.decide(s1, err1, s2, err2)

	// leave nothing behind: with all gates open, stray workers of a broken
	// implementation finish quickly
	for i := 0; i < 2000 && r.inflight.Load() != 0; i++ {
		time.Sleep(50 * time.Microsecond)
	}
	restore()
	if err := os.RemoveAll(dir); err != nil && len(o.verdict) > 0 {
		time.Sleep(5 * time.Millisecond)
		os.RemoveAll(dir)
	}
	return o
}

func environmental(err error) bool {
	for _, e := range []error{syscall.ENOSPC, syscall.EDQUOT, syscall.EMFILE, syscall.ENFILE, syscall.EIO, syscall.ENOMEM} {
		if errors.Is(err, e) {
			return true
		}
	}
	return false
}

// decide is the oracle proper.
func (r *run) decide(s1 map[string]entry, err1 error, s2 map[string]entry, err2 error) (v []string, writeErr bool) {
	c := r.c
	add := func(format string, a ...interface{}) {
		if len(v) < 10 {
			v = append(v, fmt.Sprintf(format, a...))
		}
	}
	if r.pan != nil {
		add("Persist panicked: %v", r.pan)
		return v, false
	}
	r.mu.Lock()
	for _, n := range r.notes {
		add("%s", n)
	}
	r.mu.Unlock()
	if r.atReturn > 0 {
		add("Persist returned while %d PostProcess call(s) of this call were still running (%d of %d gates open at that moment)", r.atReturn, r.openAtRet, c.N)
	}

	// the return value
	F := c.faulty()
	err := r.err
	switch {
	case err != nil && environmental(err):
		// a full disk or an exhausted descriptor table is trouble of the
		// machine, not of the code under test: judge nothing on this run
		return nil, false
	case len(F) == 0 && err != nil:
		add("no fault was injected, yet Persist failed: %v", err)
	case len(F) != 0 && err == nil:
		add("Persist returned nil although %d job(s) fail (first: job %d, %s)", len(F), F[0], faultNames[c.Jobs[F[0]].Fault])
	case len(F) != 0:
		ok := false
		for _, i := range F {
			if c.Jobs[i].Fault == faultPP {
				if errors.Is(err, r.inj[i]) {
					ok = true
				}
				continue
			}
			var pe *fs.PathError
			if errors.As(err, &pe) && (pe.Path == r.blocker[i] || strings.HasPrefix(pe.Path, r.blocker[i]+string(filepath.Separator))) {
				ok, writeErr = true, true
			}
		}
		if !ok {
			add("the returned error is neither an injected post-process error of a failing job nor a file-system error at the path of a job with a write fault: %v", err)
		}
	}

	// the directory
	if err1 != nil || err2 != nil {
		// a tree that cannot be read right after return is itself changing
		add("the directory could not be read consistently after Persist returned: %v %v", err1, err2)
		return v, writeErr
	}
	allowedDir := map[string]bool{}
	for i, p := range r.paths {
		rel, _ := filepath.Rel(r.dir, p)
		for d := filepath.Dir(rel); d != "." && d != string(filepath.Separator); d = filepath.Dir(d) {
			allowedDir[d] = true
		}
		if c.Jobs[i].Fault == faultIsDir {
			allowedDir[rel] = true
		}
	}
	blockerFile := map[string]int{}
	for i, b := range r.blocker {
		if b != "" && c.Jobs[i].Fault != faultIsDir {
			rel, _ := filepath.Rel(r.dir, b)
			blockerFile[rel] = i
			delete(allowedDir, rel)
		}
	}
	rels := make([]string, 0, len(s1))
	for rel := range s1 {
		rels = append(rels, rel)
	}
	sort.Strings(rels)
	for _, rel := range rels {
		e := s1[rel]
		abs := filepath.Join(r.dir, rel)
		if e.dir {
			if !allowedDir[rel] {
				add("unexpected directory %s", rel)
			}
			continue
		}
		if e.mode != 0 {
			add("unexpected non-regular file %s", rel)
			continue
		}
		if i, ok := blockerFile[rel]; ok {
			if e.data != blockerContent {
				add("the regular file standing in the way of job %d was overwritten", i)
			}
			continue
		}
		i, ok := r.idx[abs]
		if !ok {
			add("a file exists at %s, which is not a path of the response (%s)", rel, whose(e.data))
			continue
		}
		switch {
		case e.data == r.want[i]:
		case c.Jobs[i].Fault == faultPP && e.data == r.raw[i]:
			// the statement does not forbid writing the unprocessed own content
		case c.Jobs[i].Stale > 0 && e.data == strings.Repeat("s", len(r.want[i])+c.Jobs[i].Stale):
			// untouched output of the earlier generation: fine only if the run failed somewhere
			if err == nil {
				add("Persist returned nil but the file of job %d still holds the earlier generation's content", i)
			}
		case c.Jobs[i].Stale > 0 && len(e.data) > len(r.want[i]) && strings.HasPrefix(e.data, r.want[i]):
			add("the file of job %d holds its new content followed by %d bytes of the file that was there before: the file was not truncated", i, len(e.data)-len(r.want[i]))
		case strings.HasPrefix(r.want[i], e.data):
			add("the file of job %d is partial: %d of %d bytes", i, len(e.data), len(r.want[i]))
		default:
			add("the file of job %d does not hold its own post-processed content but %s", i, whose(e.data))
		}
	}
	if err == nil {
		for i, p := range r.paths {
			rel, _ := filepath.Rel(r.dir, p)
			if e, ok := s1[rel]; !ok || e.dir {
				if c.Jobs[i].Fault == faultNone || len(F) == 0 {
					add("Persist returned nil but the file of job %d was not written", i)
				}
			}
		}
	}
	if d := diffSnap(s1, s2); d != "" {
		add("the directory still changed after Persist had returned and all gates were open (a write outlived the call): %s", d)
	}
	return v, writeErr
}

// ---------- the judge ----------

type observed struct {
	maxPar           int
	earlyRet         bool
	writeErr         bool
	watchdogSlowOnly bool
}

const scheduleNote = "NOTE: schedule-dependent — a replay executes the same script (gates, pauses, yields), but the Go scheduler is free to pick another interleaving, so this failure may not reproduce on every run"

func judgeObs(c persistCase) (observed, error) {
	var ob observed
	if err := c.valid(); err != nil {
		return ob, fmt.Errorf("harness: invalid case: %v", err)
	}
	o := runOnce(&c)
	if o.harness != nil {
		return ob, nil // temp-dir trouble is not a property violation
	}
	if o.expired {
		// expiry = deadlock; re-run the same case once before reporting
		o2 := runOnce(&c)
		still := o.stillBusy()
		switch {
		case o2.expired:
			return ob, fmt.Errorf("deadlock: Persist did not return within %v after the last gate had been opened, in two consecutive runs of the case (n=%d k=%d faults=%v)\n%s\ngoroutines inside the generator package at the first expiry (identical stacks folded; stuck goroutines of earlier attempts on the same case are included):\n%s",
				watchdog, c.N, c.K, c.faulty(), scheduleNote, o.dump)
		case still:
			return ob, fmt.Errorf("deadlock: Persist did not return within %v after the last gate had been opened and was still blocked after a complete second run of the same case (which itself returned) (n=%d k=%d faults=%v)\n%s\ngoroutines inside the generator package at the expiry (identical stacks folded):\n%s",
				watchdog, c.N, c.K, c.faulty(), scheduleNote, o.dump)
		default:
			// the first run did return in the end: a stalled machine, not a deadlock
			ob.watchdogSlowOnly = true
			o = o2
			if o.harness != nil {
				return ob, nil
			}
		}
	}
	ob.maxPar, ob.earlyRet, ob.writeErr = o.maxPar, o.earlyRet, o.writeErr
	if len(o.verdict) > 0 {
		return ob, fmt.Errorf("%s\n(n=%d k=%d faults=%v)\n%s", strings.Join(o.verdict, "\n"), c.N, c.K, c.faulty(), scheduleNote)
	}
	return ob, nil
}

func judgePersist(c persistCase) error {
	_, err := judgeObs(c)
	return err
}

// ---------- the generator ----------

var (
	gatePauseGen = rapid.SampledFrom([]int{0, 0, 0, 0, 0, 0, 0, 0, 1, 1, 1, 1, 1, 1, 1, 2, 2, 2, 2, 2, 3, 3, 3, 3, 4, 4, 4, 4, 5, 6})
	postPauseGen = rapid.SampledFrom([]int{0, 0, 0, 0, 0, 0, 0, 0, 0, 1, 1, 1, 2, 2, 3, 3, 4, 4, 5, 6})
	yieldGen     = rapid.SampledFrom([]int{0, 0, 0, 0, 0, 0, 0, 0, 1, 1, 1, 1, 1, 2, 2, 3, 3, 4, 4, 6})
	sizeGen      = rapid.SampledFrom([]int{0, 0, 1, 7, 63, 64, 100, 100, 100, 300, 300, 1000, 1000, 1000, 4095, 4096, 5000, 5000, 20000, 70000})
	nGen         = rapid.OneOf(rapid.IntRange(0, 8), rapid.IntRange(1, 8), rapid.IntRange(2, 20), rapid.IntRange(0, 40), rapid.IntRange(8, 40))
	kGen         = rapid.OneOf(rapid.IntRange(1, 4), rapid.IntRange(1, 16))
)

func genCase(rt *rapid.T) persistCase {
	n := nGen.Draw(rt, "n")
	k := kGen.Draw(rt, "k")
	c := persistCase{N: n, K: k, Jobs: make([]jobSpec, n)}
	mode := rapid.IntRange(0, 3).Draw(rt, "fault_mode") // 0 none, 1 exactly one, 2..3 per job
	one, dens := -1, 0
	if n > 0 {
		switch mode {
		case 1:
			one = rapid.IntRange(0, n-1).Draw(rt, "failing_job")
		case 2, 3:
			dens = rapid.SampledFrom([]int{1, 2, 5}).Draw(rt, "fault_density")
		}
	}
	for i := range c.Jobs {
		j := jobSpec{
			Sub:  rapid.IntRange(0, 3).Draw(rt, "sub"),
			Size: sizeGen.Draw(rt, "size"),
			Post: postPauseGen.Draw(rt, "post"),
		}
		if rapid.IntRange(0, 5).Draw(rt, "stale") == 0 {
			j.Stale = rapid.IntRange(1, 400).Draw(rt, "stale_extra")
		}
		if i == one || (dens > 0 && rapid.IntRange(0, 9).Draw(rt, "faulty") < dens) {
			j.Fault = rapid.SampledFrom([]int{faultPP, faultPP, faultPP, faultIsDir, faultParent, faultAncestor}).Draw(rt, "fault")
		}
		c.Jobs[i] = j
	}
	c.Head = gatePauseGen.Draw(rt, "head")
	ident := make([]int, n)
	for i := range ident {
		ident[i] = i
	}
	switch rapid.IntRange(0, 4).Draw(rt, "order_shape") {
	case 0:
		c.GateOrder = ident
	case 1:
		c.GateOrder = make([]int, n)
		for i := range ident {
			c.GateOrder[i] = n - 1 - i
		}
	default:
		c.GateOrder = rapid.Permutation(ident).Draw(rt, "gate_order")
		if c.GateOrder == nil {
			c.GateOrder = []int{}
		}
	}
	c.GatePause = rapid.SliceOfN(gatePauseGen, n, n).Draw(rt, "gate_pause")
	ys := func(label string) []int { return rapid.SliceOfN(yieldGen, 0, 6).Draw(rt, label) }
	c.Yield = yieldScript{
		Dispatch: ys("y_dispatch"), Acquired: ys("y_acquired"), WorkerStart: ys("y_worker_start"),
		ErrorSend: ys("y_error_send"), WorkerEnd: ys("y_worker_end"), Collect: yieldGen.Draw(rt, "y_collect"),
	}
	return c
}

func TestPersistSchedules(t *testing.T) {
	rapid.Check(t, func(rt *rapid.T) {
		c := genCase(rt)
		F := c.faulty()
		late := c.lateFailing()
		vt.Eval()
		vt.ClassIf(c.N > c.K, "n>k_semaphore_contended")
		vt.ClassIf(c.N == 0, "n==0")
		vt.ClassIf(len(F) == 0, "F_empty")
		vt.ClassIf(len(F) != 0, "F_nonempty")
		kinds := map[int]bool{}
		for _, i := range F {
			kinds[c.Jobs[i].Fault] = true
		}
		vt.ClassIf(kinds[faultPP], "fault:postprocess")
		vt.ClassIf(kinds[faultIsDir] || kinds[faultParent] || kinds[faultAncestor], "fault:write")
		for f := faultIsDir; f <= faultAncestor; f++ {
			vt.ClassIf(kinds[f], "fault:"+faultNames[f])
		}
		vt.ClassIf(late, "failing_job_gate_after_later_jobs_gate")
		if c.N > c.K && len(F) != 0 && late {
			b, _ := json.Marshal(c)
			vt.Nontrivial(string(b))
			vt.Class("nontrivial_by_rule")
		}
		vt.Sample(map[string]interface{}{"n": c.N, "k": c.K, "faulty_jobs": F, "gate_order": c.GateOrder, "head": c.Head, "gate_pause": c.GatePause, "yield": c.Yield})
		ob, err := judgeObs(c)
		// what the executions looked like (evidence only, never part of the oracle)
		vt.ClassIf(ob.maxPar >= 2, "observed:>=2_postprocess_calls_in_parallel")
		vt.ClassIf(ob.maxPar >= c.K && c.N > c.K, "observed:semaphore_full")
		vt.ClassIf(ob.earlyRet, "observed:returned_before_all_gates_open")
		vt.ClassIf(ob.writeErr, "observed:error_from_write_fault")
		vt.ClassIf(ob.watchdogSlowOnly, "observed:watchdog_expired_but_run_completed_later")
		if err != nil {
			vt.Fail(rt, prop, "persist", c, "%v", err)
		}
	})
}

func TestReplay(t *testing.T) {
	vt.Replay(t, prop, map[string]vt.Handler{
		"persist": func(raw json.RawMessage) error {
			var c persistCase
			if err := vt.Decode(raw, &c); err != nil {
				return err
			}
			return judgePersist(c)
		},
		"persist_go_backend": func(raw json.RawMessage) error {
			var c realCase
			if err := vt.Decode(raw, &c); err != nil {
				return err
			}
			return judgeReal(c)
		},
	})
}
