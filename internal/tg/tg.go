// Package tg runs the thriftgo binary built from /repo on generated programs
// and type-checks what it wrote, in process, with the compiler's own front end.
package tg

import (
	"bytes"
	"fmt"
	"go/ast"
	"go/importer"
	"go/parser"
	"go/token"
	"go/types"
	"os"
	"os/exec"
	"path/filepath"
	"sort"
	"strings"
	"sync"
	"time"
)

var (
	binOnce sync.Once
	binPath string
	binErr  error
)

// Thriftgo returns the path of the thriftgo binary built from /repo's working
// tree: the one vrun built (VERIF_THRIFTGO), or one built on first use.
func Thriftgo() (string, error) {
	binOnce.Do(func() {
		if p := os.Getenv("VERIF_THRIFTGO"); p != "" {
			binPath = p
			return
		}
		binPath, binErr = BuildRepoBin(".", "thriftgo")
	})
	return binPath, binErr
}

// BuildRepoBin builds a main package of /repo into a private temp directory.
func BuildRepoBin(pkg, name string) (string, error) {
	dir, err := os.MkdirTemp("", "vbin")
	if err != nil {
		return "", err
	}
	out := filepath.Join(dir, name)
	cmd := exec.Command("go", "build", "-o", out, pkg)
	cmd.Dir = "/repo"
	if r := os.Getenv("VERIF_REPO"); r != "" {
		cmd.Dir = r
	}
	cmd.Env = append(os.Environ(), "GOFLAGS=-mod=readonly", "GOPROXY=off", "GOTOOLCHAIN=local")
	if o, err := cmd.CombinedOutput(); err != nil {
		return "", fmt.Errorf("go build %s: %v\n%s", pkg, err, o)
	}
	return out, nil
}

// Result of one execution of a binary.
type Result struct {
	Args     []string
	Exit     int
	Output   string // stdout and stderr, interleaved
	TimedOut bool
	Dur      time.Duration
}

// Exec runs a binary with a watchdog.
func Exec(bin, cwd string, env []string, limit time.Duration, args ...string) Result {
	cmd := exec.Command(bin, args...)
	cmd.Dir = cwd
	cmd.Env = append(os.Environ(), env...)
	var buf bytes.Buffer
	cmd.Stdout, cmd.Stderr = &buf, &buf
	start := time.Now()
	r := Result{Args: args}
	if err := cmd.Start(); err != nil {
		r.Exit = -1
		r.Output = err.Error()
		return r
	}
	done := make(chan error, 1)
	go func() { done <- cmd.Wait() }()
	select {
	case err := <-done:
		if err != nil {
			if ee, ok := err.(*exec.ExitError); ok {
				r.Exit = ee.ExitCode()
			} else {
				r.Exit = -1
			}
		}
	case <-time.After(limit):
		cmd.Process.Kill()
		<-done
		r.TimedOut = true
		r.Exit = -1
	}
	r.Dur = time.Since(start)
	r.Output = buf.String()
	return r
}

// WriteFiles writes path->content under dir.
func WriteFiles(dir string, files map[string]string) error {
	for p, c := range files {
		full := filepath.Join(dir, p)
		if err := os.MkdirAll(filepath.Dir(full), 0o755); err != nil {
			return err
		}
		if err := os.WriteFile(full, []byte(c), 0o644); err != nil {
			return err
		}
	}
	return nil
}

// ListFiles returns the regular files under dir (relative, sorted).
func ListFiles(dir string) []string {
	var out []string
	filepath.Walk(dir, func(p string, info os.FileInfo, err error) error {
		if err == nil && info.Mode().IsRegular() {
			rel, _ := filepath.Rel(dir, p)
			out = append(out, rel)
		}
		return nil
	})
	sort.Strings(out)
	return out
}

// ---------- in-process type checking ----------

var (
	extMu    sync.Mutex
	extFset  = token.NewFileSet()
	extImp   types.Importer
	extCache = map[string]*types.Package{}
)

func externalImport(path string) (*types.Package, error) {
	extMu.Lock()
	defer extMu.Unlock()
	if p, ok := extCache[path]; ok {
		return p, nil
	}
	if extImp == nil {
		extImp = importer.ForCompiler(extFset, "source", nil)
	}
	p, err := extImp.Import(path)
	if err != nil {
		return nil, err
	}
	extCache[path] = p
	return p, nil
}

type genPkg struct {
	dir     string // relative to the output root
	files   []*ast.File
	names   []string
	imports []string
	pkg     *types.Package
	state   int
}

// CheckResult is the outcome of type-checking one output tree.
type CheckResult struct {
	Errors   []string          // syntax and type errors (empty = compiles)
	Packages map[string]string // dir -> package name
	Info     map[string]*types.Info
	Fset     *token.FileSet
	Pkgs     map[string]*types.Package // by dir
}

// TypeCheck parses every .go file under root and type-checks all packages
// together.  An import path is taken to name a generated package when, with
// the optional prefix removed, it is a directory under root that holds Go
// files; anything else is resolved from source (std, runtime libraries) once
// per process.  `only` restricts which directories are judged (nil = all).
func TypeCheck(root, prefix string) *CheckResult {
	res := &CheckResult{Packages: map[string]string{}, Info: map[string]*types.Info{}, Fset: token.NewFileSet(), Pkgs: map[string]*types.Package{}}
	pkgs := map[string]*genPkg{}
	for _, rel := range ListFiles(root) {
		if !strings.HasSuffix(rel, ".go") {
			continue
		}
		src, err := os.ReadFile(filepath.Join(root, rel))
		if err != nil {
			res.Errors = append(res.Errors, err.Error())
			continue
		}
		f, err := parser.ParseFile(res.Fset, rel, src, parser.ParseComments|parser.SkipObjectResolution)
		if err != nil {
			res.Errors = append(res.Errors, "syntax: "+firstLine(err.Error()))
			continue
		}
		d := filepath.Dir(rel)
		p := pkgs[d]
		if p == nil {
			p = &genPkg{dir: d}
			pkgs[d] = p
		}
		p.files = append(p.files, f)
		p.names = append(p.names, rel)
		for _, im := range f.Imports {
			p.imports = append(p.imports, strings.Trim(im.Path.Value, `"`))
		}
	}
	if len(res.Errors) > 0 {
		return res
	}
	resolve := func(path string) *genPkg {
		cands := []string{path}
		if prefix != "" && strings.HasPrefix(path, prefix+"/") {
			cands = append([]string{strings.TrimPrefix(path, prefix+"/")}, cands...)
		}
		if prefix != "" && path == prefix {
			cands = append([]string{"."}, cands...)
		}
		for _, c := range cands {
			if p, ok := pkgs[filepath.Clean(c)]; ok {
				return p
			}
		}
		return nil
	}
	var check func(p *genPkg) error
	imp := importerFunc(func(path string) (*types.Package, error) {
		if g := resolve(path); g != nil {
			if err := check(g); err != nil {
				return nil, err
			}
			if g.pkg == nil {
				return nil, fmt.Errorf("package %s has errors", path)
			}
			return g.pkg, nil
		}
		return externalImport(path)
	})
	check = func(p *genPkg) error {
		switch p.state {
		case 2:
			return nil
		case 1:
			return fmt.Errorf("import cycle through generated package %s", p.dir)
		}
		p.state = 1
		defer func() { p.state = 2 }()
		// one package clause per directory
		name := p.files[0].Name.Name
		for i, f := range p.files {
			if f.Name.Name != name {
				res.Errors = append(res.Errors, fmt.Sprintf("%s: package %s, but %s declares package %s", p.names[i], f.Name.Name, p.names[0], name))
			}
		}
		res.Packages[p.dir] = name
		info := &types.Info{Uses: map[*ast.Ident]types.Object{}, Defs: map[*ast.Ident]types.Object{}}
		var errs []string
		conf := types.Config{Importer: imp, Error: func(err error) {
			if len(errs) < 8 {
				errs = append(errs, firstLine(err.Error()))
			}
		}}
		path := p.dir
		if prefix != "" {
			path = prefix + "/" + p.dir
		}
		pkg, _ := conf.Check(path, res.Fset, p.files, info)
		if len(errs) > 0 {
			res.Errors = append(res.Errors, errs...)
			return nil
		}
		p.pkg = pkg
		res.Info[p.dir] = info
		res.Pkgs[p.dir] = pkg
		return nil
	}
	var dirs []string
	for d := range pkgs {
		dirs = append(dirs, d)
	}
	sort.Strings(dirs)
	for _, d := range dirs {
		if err := check(pkgs[d]); err != nil {
			res.Errors = append(res.Errors, err.Error())
		}
	}
	return res
}

type importerFunc func(path string) (*types.Package, error)

func (f importerFunc) Import(path string) (*types.Package, error) { return f(path) }

func firstLine(s string) string {
	if i := strings.IndexByte(s, '\n'); i >= 0 {
		s = s[:i]
	}
	if len(s) > 400 {
		s = s[:400] + "..."
	}
	return s
}
