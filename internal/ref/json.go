package ref

import (
	"encoding/base64"
	"fmt"
	"math"
	"strconv"
)

// ToJSON converts a value into the tagged JSON form the driver speaks:
// bool → bool; integers and enums → decimal string; double → "0x<bits>";
// string/binary → base64 string; list/set → array; map → array of [k, v];
// struct → object keyed by field id; absent → null.
func ToJSON(t *Type, v V) interface{} {
	if v == nil {
		return nil
	}
	switch t.Kind {
	case Bool:
		return v.(bool)
	case Byte, I16, I32, I64, Enum:
		return strconv.FormatInt(v.(int64), 10)
	case Double:
		return fmt.Sprintf("0x%016x", math.Float64bits(v.(float64)))
	case String, Binary:
		return base64.StdEncoding.EncodeToString(v.([]byte))
	case List, Set:
		out := []interface{}{}
		for _, e := range v.(*ListV).E {
			out = append(out, ToJSON(t.Elem, e))
		}
		return out
	case Map:
		out := []interface{}{}
		m := v.(*MapV)
		for i := range m.K {
			out = append(out, []interface{}{ToJSON(t.Key, m.K[i]), ToJSON(t.Elem, m.E[i])})
		}
		return out
	}
	return StructToJSON(t.Struct, v.(*StructV))
}

func StructToJSON(st *StructT, v *StructV) interface{} {
	if v == nil {
		return nil
	}
	out := map[string]interface{}{}
	for id, fv := range v.F {
		f := st.Field(id)
		if f == nil {
			panic(fmt.Sprintf("ref: value of %s has unknown field %d", st.Name, id))
		}
		out[strconv.Itoa(int(id))] = ToJSON(f.Type, fv)
	}
	return out
}

// FromJSON reads the driver's JSON form back under a type.
func FromJSON(t *Type, raw interface{}) (V, error) {
	if raw == nil {
		return nil, nil
	}
	bad := func() (V, error) {
		return nil, fmt.Errorf("driver value %v (%T) does not fit type %s", raw, raw, t.Kind)
	}
	switch t.Kind {
	case Bool:
		b, ok := raw.(bool)
		if !ok {
			return bad()
		}
		return b, nil
	case Byte, I16, I32, I64, Enum:
		s, ok := raw.(string)
		if !ok {
			return bad()
		}
		i, err := strconv.ParseInt(s, 10, 64)
		if err != nil {
			return bad()
		}
		return i, nil
	case Double:
		s, ok := raw.(string)
		if !ok || len(s) < 3 {
			return bad()
		}
		u, err := strconv.ParseUint(s[2:], 16, 64)
		if err != nil {
			return bad()
		}
		return math.Float64frombits(u), nil
	case String, Binary:
		s, ok := raw.(string)
		if !ok {
			return bad()
		}
		b, err := base64.StdEncoding.DecodeString(s)
		if err != nil {
			return bad()
		}
		if b == nil {
			b = []byte{}
		}
		return b, nil
	case List, Set:
		a, ok := raw.([]interface{})
		if !ok {
			return bad()
		}
		l := &ListV{E: []V{}}
		for _, e := range a {
			x, err := FromJSON(t.Elem, e)
			if err != nil {
				return nil, err
			}
			if x == nil && t.Elem.Kind == Struct {
				return nil, fmt.Errorf("nil struct element in a container")
			}
			l.E = append(l.E, x)
		}
		return l, nil
	case Map:
		a, ok := raw.([]interface{})
		if !ok {
			return bad()
		}
		m := &MapV{K: []V{}, E: []V{}}
		for _, e := range a {
			p, ok := e.([]interface{})
			if !ok || len(p) != 2 {
				return bad()
			}
			k, err := FromJSON(t.Key, p[0])
			if err != nil {
				return nil, err
			}
			x, err := FromJSON(t.Elem, p[1])
			if err != nil {
				return nil, err
			}
			m.K = append(m.K, k)
			m.E = append(m.E, x)
		}
		return m, nil
	}
	return StructFromJSON(t.Struct, raw)
}

func StructFromJSON(st *StructT, raw interface{}) (V, error) {
	if raw == nil {
		return nil, nil
	}
	o, ok := raw.(map[string]interface{})
	if !ok {
		return nil, fmt.Errorf("driver value %v (%T) is not a struct object", raw, raw)
	}
	v := NewStruct()
	for k, fr := range o {
		id, err := strconv.Atoi(k)
		if err != nil {
			return nil, fmt.Errorf("driver struct key %q", k)
		}
		f := st.Field(int32(id))
		if f == nil {
			return nil, fmt.Errorf("driver reports field id %d which %s does not have", id, st.Name)
		}
		x, err := FromJSON(f.Type, fr)
		if err != nil {
			return nil, fmt.Errorf("%s.%s: %w", st.Name, f.Name, err)
		}
		if x != nil {
			v.F[int32(id)] = x
		}
	}
	return v, nil
}
