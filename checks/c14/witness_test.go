package c14

import (
	"encoding/json"
	"fmt"
	"os"
	"testing"

	"verif/internal/vt"
)

const wIDL = "struct S2 {\n  1: i32 x,\n}\nstruct S {\n  1: i32 a,\n  -2: i32 neg,\n  3: list<i32> l,\n  4: map<string,i32> m,\n  6: S2 s,\n}\n"
const wIDL2 = "struct S2 {\n  1: i32 x,\n}\nstruct S {\n  1: i32 a,\n  3: list<i32> l,\n  4: map<string,i32> m,\n  6: S2 s,\n}\n"
const wTD = "typedef list<i32> IL\ntypedef S2 TS\nstruct S2 {\n  1: i32 x,\n}\nstruct S {\n  7: IL tl,\n  8: TS ts,\n}\n"

func TestWitness(t *testing.T) {
	dir := os.Getenv("WITNESS_DIR")
	if dir == "" {
		t.Skip()
	}
	type w struct {
		id   string
		test string
		c    interface{}
	}
	one := func(idl string, paths ...string) maskCase {
		return maskCase{IDL: idl, Root: "S", Mode: "valid", Paths: paths}
	}
	ws := []w{}
	add := func(id string, c maskCase) { ws = append(ws, w{id, "mask", c}) }
	add(fNegID, one(wIDL, "$.neg"))
	// the property demands an error (and no panic) for these three
	c := one(wIDL2, "$.l[99999999999999999999]")
	c.Mode = "invalid:malformed_index_not_integer"
	add(fAtoi, c)
	c = one(wIDL2, `$.m{"\`)
	c.Mode = "invalid:malformed_unterminated_quote"
	add(fQuoteEOF, c)
	c = one(wIDL2, "$.3000000000")
	c.Mode = "invalid:unknown_field_id"
	add(fInt32, c)
	c = one(wIDL2, `$.m{"a}`)
	c.Mode = "invalid:malformed_unterminated_quote"
	add(fBadQuote, c)
	c = one(wIDL2, "$.s")
	c.PathQs = []pathQ{{Path: "$.s.*", Exp: -1}}
	add(fGetPathStar, c)
	c = one(wIDL2, "$.s")
	c.Walks = []walkQ{{Keys: []qkey{{K: "f", I: 6}}}}
	add(fForEachNil, c)
	add(fForEachEmpty, one(wIDL2))
	c = one(wTD, "$.tl[1]")
	c.Exact = true
	c.PathQs = []pathQ{{Path: "$.tl[1]", Exp: 1}}
	add(fTypedefPath, c)
	c = one(wIDL2, "$.a", ".s")
	c.Mode = "invalid:malformed_no_root"
	add(fLenientRoot, c)
	c = one(wIDL2, "$.l[1")
	c.Mode = "invalid:malformed_unclosed"
	add(fLenientList, c)
	c = one(wIDL2)
	c.Skip = []string{fForEachEmpty}
	add(fEmptyRoundTrip, c)
	add(fStrKeyJSON, one(wIDL2, "$.m{\"\\a\"}"))
	add(fStrKeyUTF8, one(wIDL2, "$.m{\"\\xff\"}"))
	c = one(wTD, "$.ts.x")
	add(fStringTypedef, c)
	ws = append(ws, w{fNegID + "-json", "json", jsonCase{Class: "hand", Doc: []byte(`{"path":"$","type":"Struct","children":[{"path":-1,"type":"Scalar"}]}`)}})
	add(fStringNested, maskCase{IDL: "struct S {\n  1: list<list<S>> b,\n}\n", Root: "S", Mode: "valid", Paths: []string{"$.b[*][*]"}})
	ws = append(ws, w{fFieldNonStruct, "json", jsonCase{Class: "hand", Doc: []byte(`{"path":"$","type":"List","is_black":false,"children":[{"path":0,"type":"Scalar","is_black":false}]}`)}})
	for _, x := range ws {
		var err error
		switch c := x.c.(type) {
		case maskCase:
			err = judgeMask(c)
		case jsonCase:
			err = judgeJSON(c)
		}
		if err == nil {
			fmt.Printf("%-28s PASSES (no violation)\n", x.id)
			continue
		}
		fmt.Printf("%-28s %v\n", x.id, err)
		raw, _ := json.MarshalIndent(x.c, "  ", " ")
		b, _ := json.MarshalIndent(vt.Failure{Property: prop, Test: x.test, Message: err.Error(), Case: raw}, "", " ")
		os.WriteFile(dir+"/"+x.id+".json", b, 0o644)
	}
}
