package c09

// The unknown-fields runtime accepts any TProtocol ("reads an object of a
// generalized type from xprot").  This half drives it through the compact
// protocol, whose field headers are deltas against the previous field id of
// the enclosing struct: the protocol object keeps a stack that struct
// begin/end calls push and pop, so a runtime that forgets one of them writes
// other bytes (or fails) as soon as an unknown field holds a struct.
//
// Oracle: the reference binary field sequence is transcoded to the compact
// protocol by a generic copier written here (apache/thrift protocol objects on
// both sides, no thriftgo code); Append reads that, Write re-writes it inside
// an enclosing struct, and the bytes must equal the transcoded ones.

import (
	"context"
	"encoding/hex"
	"errors"
	"fmt"

	"github.com/apache/thrift/lib/go/thrift"
	"github.com/cloudwego/thriftgo/generator/golang/extension/unknown"

	"verif/internal/vt"
)

func copyValue(i, o thrift.TProtocol, t thrift.TType, depth int) error {
	if depth > 10000 {
		return fmt.Errorf("too deep")
	}
	switch t {
	case thrift.BOOL:
		v, e := i.ReadBool()
		if e != nil {
			return e
		}
		return o.WriteBool(v)
	case thrift.BYTE:
		v, e := i.ReadByte()
		if e != nil {
			return e
		}
		return o.WriteByte(v)
	case thrift.I16:
		v, e := i.ReadI16()
		if e != nil {
			return e
		}
		return o.WriteI16(v)
	case thrift.I32:
		v, e := i.ReadI32()
		if e != nil {
			return e
		}
		return o.WriteI32(v)
	case thrift.I64:
		v, e := i.ReadI64()
		if e != nil {
			return e
		}
		return o.WriteI64(v)
	case thrift.DOUBLE:
		v, e := i.ReadDouble()
		if e != nil {
			return e
		}
		return o.WriteDouble(v)
	case thrift.STRING:
		v, e := i.ReadBinary()
		if e != nil {
			return e
		}
		return o.WriteBinary(v)
	case thrift.LIST:
		et, n, e := i.ReadListBegin()
		if e != nil {
			return e
		}
		if e := o.WriteListBegin(et, n); e != nil {
			return e
		}
		for k := 0; k < n; k++ {
			if e := copyValue(i, o, et, depth+1); e != nil {
				return e
			}
		}
		if e := i.ReadListEnd(); e != nil {
			return e
		}
		return o.WriteListEnd()
	case thrift.SET:
		et, n, e := i.ReadSetBegin()
		if e != nil {
			return e
		}
		if e := o.WriteSetBegin(et, n); e != nil {
			return e
		}
		for k := 0; k < n; k++ {
			if e := copyValue(i, o, et, depth+1); e != nil {
				return e
			}
		}
		if e := i.ReadSetEnd(); e != nil {
			return e
		}
		return o.WriteSetEnd()
	case thrift.MAP:
		kt, vtp, n, e := i.ReadMapBegin()
		if e != nil {
			return e
		}
		if e := o.WriteMapBegin(kt, vtp, n); e != nil {
			return e
		}
		for k := 0; k < n; k++ {
			if e := copyValue(i, o, kt, depth+1); e != nil {
				return e
			}
			if e := copyValue(i, o, vtp, depth+1); e != nil {
				return e
			}
		}
		if e := i.ReadMapEnd(); e != nil {
			return e
		}
		return o.WriteMapEnd()
	case thrift.STRUCT:
		return copyStructBody(i, o, depth+1)
	}
	return fmt.Errorf("wire type %d", t)
}

func copyStructBody(i, o thrift.TProtocol, depth int) error {
	if _, e := i.ReadStructBegin(); e != nil {
		return e
	}
	if e := o.WriteStructBegin(""); e != nil {
		return e
	}
	for {
		_, t, id, e := i.ReadFieldBegin()
		if e != nil {
			return e
		}
		if t == thrift.STOP {
			break
		}
		if e := o.WriteFieldBegin("", t, id); e != nil {
			return e
		}
		if e := copyValue(i, o, t, depth); e != nil {
			return e
		}
		if e := i.ReadFieldEnd(); e != nil {
			return e
		}
		if e := o.WriteFieldEnd(); e != nil {
			return e
		}
	}
	if e := o.WriteFieldStop(); e != nil {
		return e
	}
	if e := i.ReadStructEnd(); e != nil {
		return e
	}
	return o.WriteStructEnd()
}

// judgeRawCompact is judgeRaw with the compact protocol on both sides.
func judgeRawCompact(c rawCase) (err error) {
	in, herr := hex.DecodeString(c.Hex)
	if herr != nil || len(in) == 0 {
		return fmt.Errorf("harness: bad hex")
	}
	// reference: the struct body in the compact protocol
	bbuf := thrift.NewTMemoryBuffer()
	bbuf.Write(in)
	cbuf := thrift.NewTMemoryBuffer()
	if e := copyStructBody(thrift.NewTBinaryProtocol(bbuf, true, true), thrift.NewTCompactProtocol(cbuf), 0); e != nil {
		return fmt.Errorf("harness: transcoding the reference bytes: %v", e)
	}
	want := append([]byte{}, cbuf.Bytes()...)
	defer func() {
		if r := recover(); r != nil {
			err = fmt.Errorf("unknown-fields runtime panicked under the compact protocol: %v\n  binary form of the input %s", r, vt.Truncate(c.Hex, 400))
		}
	}()
	iprot := thrift.NewTCompactProtocol(cbuf)
	if _, e := iprot.ReadStructBegin(); e != nil {
		return fmt.Errorf("harness: %v", e)
	}
	var fs unknown.Fields
	var appendErr error
	n := 0
	for {
		name, tid, id, e := iprot.ReadFieldBegin()
		if e != nil {
			return fmt.Errorf("harness: transcoded input is not a field sequence: %v", e)
		}
		if tid == thrift.STOP {
			break
		}
		if appendErr = fs.Append(iprot, name, tid, id); appendErr != nil {
			break
		}
		n++
		if e := iprot.ReadFieldEnd(); e != nil {
			return fmt.Errorf("harness: %v", e)
		}
	}
	if appendErr != nil {
		if !errors.Is(appendErr, unknown.ErrExceedDepthLimit) {
			return fmt.Errorf("Append (compact protocol) failed on a well-formed field (deepest nesting %d): %v\n  binary form of the input %s", c.Depth, appendErr, vt.Truncate(c.Hex, 400))
		}
		if c.Expect == "same" {
			return fmt.Errorf("Append (compact protocol) reports %v although the deepest nesting is %d (limit %d)", appendErr, c.Depth, depthLimit)
		}
		return nil
	}
	if c.Expect == "depth_error" {
		return fmt.Errorf("Append (compact protocol) accepted a field nested %d deep, beyond the limit of %d", c.Depth, depthLimit)
	}
	if e := iprot.ReadStructEnd(); e != nil {
		return fmt.Errorf("harness: %v", e)
	}
	if cbuf.Len() != 0 {
		return fmt.Errorf("Append (compact protocol) left %d bytes unread", cbuf.Len())
	}
	obuf := thrift.NewTMemoryBuffer()
	oprot := thrift.NewTCompactProtocol(obuf)
	if e := oprot.WriteStructBegin(""); e != nil {
		return fmt.Errorf("harness: %v", e)
	}
	if e := fs.Write(oprot); e != nil {
		return fmt.Errorf("Write (compact protocol) of %d appended fields failed: %v\n  binary form of the input %s", n, e, vt.Truncate(c.Hex, 400))
	}
	if e := oprot.WriteFieldStop(); e != nil {
		return fmt.Errorf("harness: %v", e)
	}
	if e := oprot.WriteStructEnd(); e != nil {
		return fmt.Errorf("harness: %v", e)
	}
	if e := oprot.Flush(context.Background()); e != nil {
		return fmt.Errorf("harness: %v", e)
	}
	if got := obuf.Bytes(); string(got) != string(want) {
		return fmt.Errorf("Write after Append under the compact protocol does not reproduce the struct read (%d fields, deepest nesting %d)\n  read    %x\n  written %x%s\n  binary form of the input %s", n, c.Depth,
			clip(want), clip(got), firstDiff(want, got), vt.Truncate(c.Hex, 400))
	}
	return nil
}
