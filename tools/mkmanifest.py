#!/usr/bin/env python3
"""Regenerates /verif/MANIFEST.json from the table below (keeps it valid at all times)."""
import json, os
ROOT = os.path.dirname(os.path.dirname(os.path.abspath(__file__)))
ids = [json.loads(l)['id'] for l in open(os.path.join(ROOT, 'properties.jsonl'))]

# id -> (technique, level text, level note)
CHECKS = {
 "C03": ("property-based testing (rapid): model-derived expected AST + metamorphic layout relation + totality over bytes/token soups/edited documents; native coverage-guided fuzzing in thorough",
         "Generated-input search. rapid draws IDL models and layouts; oracles: expected AST computed from the model (fidelity), equality of ASTs under two independent layouts (metamorphic), and totality (no panic, exactly one of AST/error, 30 s watchdog confirmed by re-run; deep nesting in a child process).",
         "Trusted: the renderer's reading of parser/thrift.peg, strconv for numeric spellings. Exploration never proves absence."),
 "C05": ("property-based testing (rapid): reference bindings computed from the generating model, compared by denotation; metamorphic definition-order permutation",
         "Generated-input search over multi-file IDL models (include DAGs, same base names, typedef chains across files, all constant spellings). Oracle: every type/constant/base-service/include node of the resolved AST must denote what the model's pointer graph says (category, typedef flag, include of definition, constant/enum binding, include used-ness); second oracle: permuting definitions leaves all facts unchanged.",
         "Trusted: the model generator's own reference graph; include lookup order (cwd first) mirrored in how include literals are spelled."),
 "C17": ("property-based testing (rapid): round-trip oracle parse(dump(ast)) == ast over generated IDL models with hostile literals",
         "Generated-input search: models rendered to text, parsed and resolved by the real front end, every file dumped by dump.DumpIDL, the dumped program re-parsed and re-analysed; oracle = structural equality of the two resolved ASTs (comments and cpp_type aside, integral doubles may return as ints), dumped text must parse and pass semantic analysis, no panic.",
         "Trusted: the front end itself (decided separately by C03/C05)."),
 "C12": ("stateful property-based testing (rapid): generated Feed histories against an independent reference model of the assembly rules, invariants after every step",
         "Generated histories of FileManager.Feed calls and BuildResponse compared with a reference model written from the documented rules; invariants (distinct names, every distinct file present exactly once, no marker survives, no merge) checked after every Feed.",
         "Trusted: the reference model (about 100 lines). Placement of named patches in the documented FIXME area is not asserted."),
 "C20": ("exhaustive enumeration (singles, all ordered pairs, prefix triples) + property-based testing (rapid) of option lists against a fold oracle; cross-check of README, -h and Features tags",
         "Every documented option in every form alone and in all ordered pairs is evaluated in-process (two entry paths) against an oracle that folds the assignments over the documented defaults and applies only documented implications; rapid draws longer lists; the binary is run for invalid values.",
         "Trusted: the README table / -h text as the statement of what each option documents."),
 "C19": ("property-based testing (rapid) over job counts x GOMAXPROCS x fault sets x gate schedules, with build-tag hooks perturbing the interleaving; black-box oracle on Persist's result and the directory; -race in thorough",
         "Generated schedules and fault sets drive Generator.Persist through the exported API with a gating post-processor; the oracle checks success/error, exact directory content, at-most-once processing, nothing in flight after return and a deadlock watchdog. Interleavings are perturbed (gates, yields), not enumerated: detection of an ordering bug is probabilistic, silence on correct code is deterministic.",
         "Trusted: the Go runtime scheduler for perturbation; the oracle never depends on hook events."),
 "C14": ("property-based testing (rapid) against an independent reference path-set semantics + metamorphic permutation/regrouping + JSON round trip; native fuzzing of path strings and JSON in thorough",
         "Generated descriptors, path lists (valid / conflicting / invalid by construction / byte soup), query sequences and JSON documents; oracles: no panic on any input, exact query answers on conflict-free sets from a reference trie, invariance under order and grouping, error on the invalid classes, JSON round trip answering identically, stable JSON text.",
         "Trusted: the reference semantics (validated against the repository's own test vectors without calling the library)."),
 "C02": ("property-based testing (rapid): generated programs compiled into a reflective driver; differential against an independent schema-driven binary-protocol codec in both directions, plus structurally valid wire perturbations",
         "Generated programs are compiled by the thriftgo under test, linked with a generic reflective driver and exercised with generated values: bytes of generated Write must decode under the strict reference decoder to the value; reference encodings must Read back to the value (reflection dump by thrift tags); unknown fields, retagged fields, missing required fields and ill-formed unions must behave as the property states.",
         "Trusted: the reference codec (written from the Thrift binary protocol specification, shares no code with thriftgo/apache/gopkg), apache thrift v0.13.0's TBinaryProtocol/TMemoryBuffer as the transport under the generated code."),
 "C15": ("property-based testing (rapid): descriptor content expected from the generating model vs thrift_reflection.GetFileDescriptor, lookup agreement across includes, Marshal/Unmarshal round trip",
         "Generated multi-file programs go through the real front end; the file descriptors built by thrift_reflection are compared field by field with content computed from the model alone (names, ids, requiredness, type expressions, defaults, enum numbers, annotations with all values, comments, base service, oneway, includes, namespaces); lookups by name and id across included files must reach the model's definition; encode/decode of a descriptor is the identity. The generated half compiles programs with with_reflection and checks the embedded descriptors, Go type <-> descriptor identity and cross-package lookups through the run-time registry.",
         "Trusted: the model-side expectation builder (written from descriptor.thrift's documented field meanings)."),
 "C01": ("property-based testing (rapid): generated multi-file IDL programs x generated option configurations through the thriftgo binary; oracle = the compiler's own front end (go/parser + go/types over all generated packages and the pinned runtime libraries)",
         "Generated programs and configurations are compiled by the thriftgo binary built from the working tree; whenever it exits 0 every written file must parse and the complete set of generated packages must type-check together in process (duplicate declarations, missing/unused imports, unresolved cross-package references are go/types errors).",
         "Trusted: go/parser and go/types (the Go compiler's front end) and the source importer for the runtime libraries. Streaming, code_ref and use_option outputs cannot be type-checked offline and are not generated."),
 "C18": ("property-based testing (rapid): generated value pairs (one-leaf mutations at drawn depth, nil/empty, optional presence, map keys, struct-keyed maps) against a reference structural equality; reflexivity/symmetry/no-panic; set-uniqueness on Write",
         "Generated programs are compiled with gen_deep_equal and driven with generated pairs of values; x.DeepEqual(y) must equal the reference structural equality of the model values, be symmetric and reflexive and never panic; Write must fail exactly for sets with two equal elements.",
         "Trusted: the reference equality written from the property statement; readings the statement leaves open are not asserted."),
 "C11": ("property-based testing (rapid): round-trip oracles for the plugin request codec with and without include compression (build-tag exports), and end-to-end differential between the request a scripted plugin decodes and the request built in-process, with scripted response shapes and injected plugin faults",
         "Generated programs go through the real front end; the plugin request must survive Marshal/Unmarshal (also compressed) structurally unchanged and the compiler's tree must be restored; through the binary, a scripted plugin's decoded request must equal the in-process expectation and every response shape / fault (error, exit status, garbage, truncation, timeout) must be honoured as the property states.",
         "Trusted: the scripted plugin (stdlib + thriftgo/plugin), idl.Diff structural comparison."),
 "C07": ("property-based testing (rapid): metamorphic repeated-execution oracle on the thriftgo binary (same input, k fresh processes, varied GOMAXPROCS / output directory / dirty directory) over generated programs and configurations, incl. bytes sent to a recording plugin",
         "Generated programs biased towards what can vary (annotation maps, map constants, many includes/exceptions) are compiled k times in fresh processes; the set of output files with their hashes and the plugin request bytes must be identical across runs.",
         "Trusted: sha256, the recording plugin. Map-iteration nondeterminism is detected probabilistically per program (see assumptions)."),
 "C06": ("property-based testing (rapid): generated constants/defaults in every spelling evaluated by an independent model evaluator vs the values the compiled generated package exposes (reflective driver)",
         "Generated programs are compiled and linked with the reflective driver; every IDL constant must exist in its Go package with the value of its initializer evaluated by the IDL's rules; NewX()/InitDefault()/getters/IsSet must show the declared defaults.",
         "Trusted: the model evaluator (ref.Eval, a few dozen lines), Go's reading of string literals for the documented literal rule."),
 "C10": ("property-based testing (rapid): differential fast codec vs standard generated codec vs independent reference codec, exactness of BLength, exhaustive truncation sweep and type-byte corruption per value",
         "Programs generated with -g fastgo are compiled into the reflective driver; FastAppend/FastWrite/BLength/FastRead are compared with the reference codec and with the standard generated Read/Write on values, perturbed encodings, every truncation point and type-byte corruptions; a panic is a violation.",
         "Trusted: the reference codec; the standard generated codec as decided by C02."),
 "C16": ("property-based testing (rapid): model-computed reachability closure as reference for the trimmer (API and binary), plus idempotence, front-end acceptance of the dumped result and compile sampling",
         "Generated programs and trimmer arguments; the kept/removed sets must equal the closure computed from the generating model, the result must pass semantic analysis and (sampled) compile, trimming again must change nothing, kept struct-likes keep their fields, -m keeps only matching methods and what they need.",
         "Trusted: the closure (written from the property statement), the front end (C03/C05), the dumper (C17)."),
 "C04": ("property-based testing (rapid): valid generated programs x single rule-breaking edits from a catalogue (fault injection into the input) x backends, black-box oracle on the thriftgo binary; contra-positive run on the unedited program",
         "Every catalogue edit is constructed to break exactly one enforced rule; the binary must exit non-zero with a diagnostic, write nothing, show no Go panic/fatal trace and not hang, wherever in the include graph the error sits; the unedited program must exit 0 with its output complete.",
         "Trusted: the edit constructors (each verified to break only the named rule on hand cases)."),
 "C13": ("property-based testing (rapid): generated (value, path set, mode, option) tuples through compiled with_field_mask code vs an independent reference filter; strict reference decoder for well-formedness of every container header",
         "Programs generated with with_field_mask are compiled into the reflective driver; writing and reading under generated masks must be well-formed (strict decoder: header counts equal elements) and, on conflict-free path sets, equal the reference filter of the model value; a nil mask must behave like code without the option.",
         "Trusted: the reference filter (written from fieldmask/README.md and the property statement, validated on 30 hand cases), the reference codec."),
 "C08": ("stateful property-based testing (rapid): generated call sequences through generated client -> in-memory transport -> generated processor with a synthesised recording handler; wire messages judged by an independent codec",
         "Generated services are compiled with a handler synthesised from the generated interface; sequences of calls with scripted outcomes (value, declared exception, undeclared error, unknown method, oneway) must deliver equal arguments and results, map errors to the right exception kinds, dispatch inherited methods, and put <IDL name, type, seqid> + args/result structs with the IDL ids on the wire.",
         "Trusted: apache thrift v0.13.0 TStandardClient/TBinaryProtocol as the transport machinery around the generated code; the reference codec."),
 "C09": ("property-based testing (rapid): byte-exact round trip of arbitrary unknown fields through the unknown-fields runtime; model-derived (old, new) schema pairs compiled into separate drivers with values travelling along read/write chains, judged by the independent codec under the new schema",
         "Old schemas are derived from generated new ones by removing compatible additions; values of new must be readable by old (common fields intact) and by new from old data (defaults); with keep_unknown_fields the re-written bytes must decode under the new schema to the original value, and CarryingUnknownFields must be exact.",
         "Trusted: the reference codec; the model-level derivation of old from new."),
}
NOT_YET = "check not built yet (work in progress; the technique applies, see DESIGN.md)"

checks = []
for i in ids:
    if i not in CHECKS:
        continue
    tech, text, note = CHECKS[i]
    checks.append({
        "property_id": i,
        "quick_cmd": f"./run.sh {i} quick",
        "thorough_cmd": f"./run.sh {i} thorough",
        "evidence_file": f"evidence/{i}.json",
        "replay_cmd_template": f"./run.sh {i} replay   # re-runs every saved case under replay/{i}/ and known/{i}/ (including {{path}}) without the property library",
        "engine": "vrun",
        "level_claimed": {"category": "exploration", "text": text, "design_ref": f"DESIGN.md §3 {i}"},
        "level_note": note,
        "technique": tech,
    })
hooks = []
try:
    import subprocess
    out = subprocess.check_output(['git', '-C', '/repo', 'log', '--format=%h %s']).decode().splitlines()
    hooks = [l.split()[0] for l in out if l.split(' ', 1)[1].startswith('verif:')]
except Exception:
    pass
m = {
 "version": 1,
 "setup_cmd": "cd /verif && GOFLAGS=-mod=mod GOPROXY=off GOSUMDB=off GOTOOLCHAIN=local go build -o .build/vrun ./cmd/vrun",
 "hooks": {"guard": "verif", "enable": "checks that need hooks build /repo packages with `-tags verif` (files generator/hook_verif.go, plugin/export_verif.go are //go:build verif; generator/hook_noverif.go is the empty !verif twin)",
           "baseline_off_cmd": "cd /repo && go test -vet=off -count=1 ./...", "source_commits": hooks, "add_only": True},
 "engines": [{"name": "vrun", "path": "cmd/vrun", "serves_properties": [c["property_id"] for c in checks],
              "kind_free_text": "orchestrator: builds thriftgo and the check's rapid test binary from /repo's working tree, runs seed-sharded processes, merges statistics into evidence/<id>.json, prints VIOLATION / KNOWN-FINDING lines, exit 0/1/2"}],
 "checks": checks,
 "not_applicable": [{"property_id": i, "reason": NOT_YET} for i in ids if i not in CHECKS],
 "notes": "All checks: ./run.sh <id> <quick|thorough|replay>. VERIF_SEED selects the rapid seed (0 is remapped to 1). Known findings: known_findings.json plus per-property fragments known/<id>/findings.json (same format).",
}
json.dump(m, open(os.path.join(ROOT, 'MANIFEST.json'), 'w'), indent=1)
print("claimed:", [c["property_id"] for c in checks])
