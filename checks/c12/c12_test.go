// C12 — output assembly loses nothing: insertion points and file-name conflicts.
//
// Histories of FileManager.Feed calls followed by BuildResponse are drawn by
// rapid; a small reference model of the documented rules (written from the
// property statement, not from file_manager.go) computes what the assembled
// output has to contain; the judge re-runs the history against the real
// FileManager and compares.
//
// Oracle decisions (all narrowing, to stay sound):
//   - the fresh name of a renamed file is never asserted, only that it is unique
//     and that the content arrives intact (matched by content);
//   - output order is not asserted;
//   - a *named* patch (Name + InsertionPoint) aimed at a name under which more
//     than one file is kept (one of them was renamed — before or after the
//     patch) is the code's documented FIXME: the contents of all files fed under
//     that name are not asserted ("fuzzy"), only the invariants;
//   - an unnamed patch directly after a named patch: "the previous file" can be
//     read two ways; both candidate files become fuzzy;
//   - a named patch whose name nobody owns (never fed / fed later), and any
//     named item whose name has the shape `<stem>_<n><ext>` of a possible fresh
//     name of an already renamed file, make the whole history "loose": only the
//     invariants (names pairwise distinct, no marker survives, no error, no
//     panic) are asserted;
//   - after the expected error (unnamed patch first in a batch) nothing further
//     is asserted;
//   - patch contents never contain markers, point names stay inside the
//     alphabet [$.0-9a-zA-Z_]+ (the empty point name is not generated), and the
//     text segments are chosen so that removing a marker can never splice a new
//     marker together.
package c12

import (
	"encoding/json"
	"fmt"
	"path"
	"strconv"
	"strings"
	"testing"

	"github.com/cloudwego/thriftgo/generator"
	"github.com/cloudwego/thriftgo/generator/backend"
	"github.com/cloudwego/thriftgo/plugin"
	"pgregory.net/rapid"

	"verif/internal/vt"
)

const prop = "C12"

// findingRename: the rename probe picks `<stem>_<count+1><ext>` without
// checking that the name is free.
const findingRename = "rename-onto-fed-name"

func TestMain(m *testing.M) { vt.Main(m) }

// ---------- case ----------

type item struct {
	Name    *string `json:"name,omitempty"`  // nil: unnamed patch
	Point   *string `json:"point,omitempty"` // nil: a file
	Content string  `json:"content"`
}

type feed struct {
	Src   string `json:"src"`
	Items []item `json:"items"`
}

// expFile is one file the reference model expects in the output.
type expFile struct {
	Name    string `json:"name"`            // the name it was fed under
	Renamed bool   `json:"renamed"`         // an earlier file owns Name: must appear under some other, unique name
	Content string `json:"content"`         // content after marker processing
	Fuzzy   bool   `json:"fuzzy,omitempty"` // content not asserted (see header)
}

type asmCase struct {
	History []feed    `json:"history"`
	ErrAt   int       `json:"err_at"` // index of the Feed call that must return an error, -1: none
	Loose   bool      `json:"loose,omitempty"`
	Why     string    `json:"why,omitempty"` // why the history is loose
	Files   []expFile `json:"files"`         // expected output (unordered); ignored when Loose or ErrAt >= 0
}

// ---------- markers (own scanner; the format is documented in plugin.InsertionPointFormat) ----------

const markerHead = "@@thriftgo_insertion_point("

func marker(point string) string { return markerHead + point + ")" }

func isPointChar(c byte) bool {
	return c == '$' || c == '.' || c == '_' || (c >= '0' && c <= '9') || (c >= 'a' && c <= 'z') || (c >= 'A' && c <= 'Z')
}

// nextMarker finds the first marker starting at or after from.
func nextMarker(s string, from int) (start, end int, point string) {
	for from <= len(s) {
		i := strings.Index(s[from:], markerHead)
		if i < 0 {
			break
		}
		i += from
		j := i + len(markerHead)
		for j < len(s) && isPointChar(s[j]) {
			j++
		}
		if j < len(s) && s[j] == ')' {
			return i, j + 1, s[i+len(markerHead) : j]
		}
		from = i + 1
	}
	return -1, -1, ""
}

// ---------- reference model ----------

type mpatch struct{ point, content string }

type mfile struct {
	name    string
	renamed bool
	content string
	patches []mpatch
	fuzzy   bool
}

type model struct {
	files     []*mfile
	owner     map[string]int   // name -> the first file fed under it
	sibs      map[string][]int // name -> every kept file fed under it (owner first)
	fuzzyName map[string]bool  // names whose files' contents are not asserted
	namedHit  map[string]bool  // names that received a named patch
	loose     bool
	why       string
	errAt     int
	nfeed     int

	// per batch
	last       int // target of an unnamed patch, -1: none
	lastFile   int // last kept file item of the batch, -1: none
	afterNamed bool
	dropping   bool

	// facts for classification
	renames, dups, droppedPatches, unnamed, named, namedContested, unnamedAfterNamed int
	renamedAt                                                                        []int // indices of renamed files
	patchedAt                                                                        []int // indices of files that received an asserted patch
}

func newModel() *model {
	return &model{owner: map[string]int{}, sibs: map[string][]int{}, fuzzyName: map[string]bool{}, namedHit: map[string]bool{}, errAt: -1, last: -1, lastFile: -1}
}

func (m *model) beginFeed() {
	m.last, m.lastFile, m.afterNamed, m.dropping = -1, -1, false, false
}

func (m *model) endFeed() { m.nfeed++ }

func (m *model) setLoose(why string) {
	if !m.loose {
		m.loose, m.why = true, why
	}
}

func splitName(name string) (stem, ext string) {
	ext = path.Ext(name)
	return strings.TrimSuffix(name, ext), ext
}

// freshShaped reports whether n looks like a fresh name derived from orig
// (`<stem>_<digits><ext>`, the scheme pinned by the repository's own test).
func freshShaped(n, orig string) bool {
	stem, ext := splitName(orig)
	if !strings.HasPrefix(n, stem+"_") || !strings.HasSuffix(n, ext) || len(n) <= len(stem)+1+len(ext) {
		return false
	}
	mid := n[len(stem)+1 : len(n)-len(ext)]
	for i := 0; i < len(mid); i++ {
		if mid[i] < '0' || mid[i] > '9' {
			return false
		}
	}
	return true
}

// shadowed: n may already be in use as the fresh name of a renamed file.
func (m *model) shadowed(n string) bool {
	for orig, s := range m.sibs {
		if len(s) > 1 && freshShaped(n, orig) {
			return true
		}
	}
	return false
}

func (m *model) add(f *mfile) int {
	m.files = append(m.files, f)
	return len(m.files) - 1
}

// verdict of the model on a named file before it is added
const (
	vNew = iota
	vDup
	vRename
)

func (m *model) classify(name, content string) int {
	if _, ok := m.owner[name]; !ok {
		return vNew
	}
	for _, i := range m.sibs[name] {
		if m.files[i].content == content {
			return vDup
		}
	}
	return vRename
}

// collides: the item would have to be renamed while the name the real probe
// would pick (`<stem>_<k+1><ext>`, k = renamed siblings so far) is in use.
func (m *model) collides(name, content string) bool {
	if m.classify(name, content) != vRename {
		return false
	}
	stem, ext := splitName(name)
	cand := stem + "_" + strconv.Itoa(len(m.sibs[name])) + ext
	_, used := m.owner[cand]
	return used
}

// item applies one submitted item; it returns false when the Feed call must fail.
func (m *model) item(it item) bool {
	switch {
	case it.Name == nil: // unnamed patch
		if m.dropping {
			m.droppedPatches++
			return true
		}
		if m.last < 0 {
			m.errAt = m.nfeed
			return false
		}
		m.unnamed++
		t := m.files[m.last]
		pt := ""
		if it.Point != nil {
			pt = *it.Point
		}
		t.patches = append(t.patches, mpatch{pt, it.Content})
		if m.afterNamed {
			m.unnamedAfterNamed++
			t.fuzzy = true
			if m.lastFile >= 0 {
				m.files[m.lastFile].fuzzy = true
			}
		} else {
			m.patchedAt = append(m.patchedAt, m.last)
		}
	case it.Point != nil: // named patch
		m.dropping = false
		m.named++
		n := *it.Name
		idx, ok := m.owner[n]
		if !ok {
			m.setLoose("named patch for a name nobody owns: " + n)
			idx = m.add(&mfile{name: n, content: it.Content, fuzzy: true})
			m.owner[n] = idx
			m.sibs[n] = []int{idx}
		} else {
			m.files[idx].patches = append(m.files[idx].patches, mpatch{*it.Point, it.Content})
			m.namedHit[n] = true
			if len(m.sibs[n]) > 1 {
				m.namedContested++
				m.fuzzyName[n] = true
			} else {
				m.patchedAt = append(m.patchedAt, idx)
			}
		}
		m.last, m.afterNamed = idx, true
	default: // named file
		m.dropping, m.afterNamed = false, false
		n := *it.Name
		switch m.classify(n, it.Content) {
		case vNew:
			if m.shadowed(n) {
				m.setLoose("file fed under a possible fresh name of a renamed file: " + n)
			}
			idx := m.add(&mfile{name: n, content: it.Content})
			m.owner[n] = idx
			m.sibs[n] = []int{idx}
			m.last, m.lastFile = idx, idx
		case vDup:
			m.dups++
			m.dropping = true
		case vRename:
			m.renames++
			idx := m.add(&mfile{name: n, renamed: true, content: it.Content})
			m.sibs[n] = append(m.sibs[n], idx)
			m.renamedAt = append(m.renamedAt, idx)
			if m.namedHit[n] {
				m.fuzzyName[n] = true // the earlier named patch may have been meant for this one
			}
			m.last, m.lastFile = idx, idx
		}
	}
	return true
}

// render removes every marker and inserts, at each occurrence, the patches of
// that point in submission order.
func render(content string, patches []mpatch) string {
	var b strings.Builder
	pos := 0
	for {
		s, e, p := nextMarker(content, pos)
		if s < 0 {
			b.WriteString(content[pos:])
			return b.String()
		}
		b.WriteString(content[pos:s])
		for _, pt := range patches {
			if pt.point == p {
				b.WriteString(pt.content)
			}
		}
		pos = e
	}
}

func (m *model) expected() []expFile {
	out := make([]expFile, 0, len(m.files))
	for _, f := range m.files {
		out = append(out, expFile{Name: f.name, Renamed: f.renamed, Content: render(f.content, f.patches), Fuzzy: f.fuzzy || m.fuzzyName[f.name]})
	}
	return out
}

// ---------- judge ----------

func invariants(res *plugin.Response) error {
	if res == nil {
		return fmt.Errorf("BuildResponse returned nil")
	}
	if res.IsSetError() {
		return fmt.Errorf("BuildResponse reports an error: %s", res.GetError())
	}
	seen := map[string]int{}
	for i, g := range res.Contents {
		if g == nil || !g.IsSetName() {
			return fmt.Errorf("output file %d has no name", i)
		}
		if j, dup := seen[g.GetName()]; dup {
			return fmt.Errorf("two output files are named %q (positions %d and %d): %q and %q", g.GetName(), j, i, vt.Truncate(res.Contents[j].Content, 200), vt.Truncate(g.Content, 200))
		}
		seen[g.GetName()] = i
		if g.IsSetInsertionPoint() {
			return fmt.Errorf("output file %q still carries an insertion point", g.GetName())
		}
		if s, e, _ := nextMarker(g.Content, 0); s >= 0 {
			return fmt.Errorf("marker %q survives in output file %q", g.Content[s:e], g.GetName())
		}
	}
	return nil
}

func match(exp []expFile, res *plugin.Response) error {
	used := make([]bool, len(res.Contents))
	byName := map[string]int{}
	for i, g := range res.Contents {
		byName[g.GetName()] = i
	}
	for _, e := range exp {
		if e.Renamed {
			continue
		}
		i, ok := byName[e.Name]
		if !ok {
			return fmt.Errorf("file %q (first fed under that name) is missing from the output", e.Name)
		}
		used[i] = true
		if !e.Fuzzy && res.Contents[i].Content != e.Content {
			return fmt.Errorf("file %q: content %q, expected %q", e.Name, vt.Truncate(res.Contents[i].Content, 400), vt.Truncate(e.Content, 400))
		}
	}
	for _, e := range exp {
		if !e.Renamed || e.Fuzzy {
			continue
		}
		found := false
		for i, g := range res.Contents {
			if !used[i] && g.Content == e.Content {
				used[i], found = true, true
				break
			}
		}
		if !found {
			return fmt.Errorf("file fed as %q with different content than the earlier %q: no output file under a fresh name carries its content %q", e.Name, e.Name, vt.Truncate(e.Content, 400))
		}
	}
	if len(res.Contents) != len(exp) {
		return fmt.Errorf("%d output files, expected %d", len(res.Contents), len(exp))
	}
	return nil
}

func outNames(res *plugin.Response) string {
	var ns []string
	for _, g := range res.Contents {
		ns = append(ns, g.GetName())
	}
	return strings.Join(ns, ",")
}

func judge(c asmCase) (err error) {
	defer func() {
		if r := recover(); r != nil {
			err = fmt.Errorf("FileManager panicked: %v", r)
		}
	}()
	fm := generator.NewFileManager(backend.DummyLogFunc())
	for k, fd := range c.History {
		gs := make([]*plugin.Generated, len(fd.Items))
		for i, it := range fd.Items {
			g := &plugin.Generated{Content: it.Content}
			if it.Name != nil {
				n := *it.Name
				g.Name = &n
			}
			if it.Point != nil {
				p := *it.Point
				g.InsertionPoint = &p
			}
			gs[i] = g
		}
		ferr := fm.Feed(fd.Src, gs)
		if k == c.ErrAt {
			if ferr == nil {
				return fmt.Errorf("feed %d starts with a patch that has no target file, Feed returned no error", k)
			}
			return nil
		}
		if ferr != nil {
			return fmt.Errorf("feed %d: unexpected error: %v", k, ferr)
		}
		if e := invariants(fm.BuildResponse()); e != nil {
			return fmt.Errorf("after feed %d: %w", k, e)
		}
	}
	res := fm.BuildResponse()
	if e := invariants(res); e != nil {
		return e
	}
	if c.ErrAt >= 0 || c.Loose {
		return nil
	}
	if e := match(c.Files, res); e != nil {
		return fmt.Errorf("%w (output names: %s)", e, outNames(res))
	}
	return nil
}

// ---------- generator ----------

var (
	namePool = []string{"a.go", "a_1.go", "a_2.go", "d/a.go", "b"}
	srcPool  = []string{"go", "plugA", "plugB"}
	points   = []string{"imports", "p.q", "$x_1", "Z9"}
	// Text segments.  None ends in '@', none starts with '(' and every "@@" is
	// followed by a byte that breaks the marker syntax, so joining segments
	// after a marker was removed cannot form a new marker.
	segments = []string{
		"x", "\n", "package a\n", "import (\n", ")\n", "func f() {}\n", "é",
		"@@thriftgo_insertion_point", "@@thriftgo_insertion_point(a-b)", "@@ thriftgo_insertion_point(imports)", "thriftgo_insertion_point(p.q)", "// @@ none\n",
	}
	patchTexts = []string{"", "P1;", "P2;", "\t\"fmt\"\n", "x", "import q\n"}
	parts      = func() []string {
		ps := append([]string{}, segments...)
		for _, p := range points {
			ps = append(ps, marker(p), marker(p), marker(p))
		}
		return ps
	}()
)

// drawPoint prefers a point that occurs in the target (more often one that
// occurs more often) but also yields points the target does not have.
func drawPoint(rt *rapid.T, target string) string {
	var occ []string
	for pos := 0; ; {
		s, e, p := nextMarker(target, pos)
		if s < 0 {
			break
		}
		occ = append(occ, p)
		pos = e
	}
	if len(occ) > 0 && rapid.IntRange(0, 3).Draw(rt, "hit") > 0 {
		return rapid.SampledFrom(occ).Draw(rt, "occurring")
	}
	return rapid.SampledFrom(points).Draw(rt, "point")
}

type genInfo struct {
	excluded bool
}

func genCase(rt *rapid.T) (asmCase, *model, genInfo) {
	m := newModel()
	var info genInfo
	known := vt.Known(prop, findingRename)
	var hist []feed
	nf := rapid.IntRange(1, 5).Draw(rt, "feeds")
	for k := 0; k < nf && m.errAt < 0; k++ {
		fd := feed{Src: rapid.SampledFrom(srcPool).Draw(rt, "src"), Items: []item{}}
		m.beginFeed()
		ni := rapid.IntRange(0, 6).Draw(rt, "items")
		for i := 0; i < ni; i++ {
			var kind int // 0 file, 1 unnamed patch, 2 named patch
			if len(fd.Items) == 0 && len(m.files) == 0 {
				kind = [40]int{38: 2, 39: 1}[rapid.IntRange(0, 39).Draw(rt, "kind00")]
			} else if len(fd.Items) == 0 {
				kind = [40]int{34: 2, 35: 2, 36: 2, 37: 2, 38: 2, 39: 1}[rapid.IntRange(0, 39).Draw(rt, "kind0")]
			} else if m.afterNamed {
				kind = [10]int{0, 0, 0, 0, 0, 0, 2, 2, 2, 1}[rapid.IntRange(0, 9).Draw(rt, "kindn")]
			} else {
				kind = [11]int{0, 0, 0, 0, 0, 1, 1, 1, 1, 2, 2}[rapid.IntRange(0, 10).Draw(rt, "kind")]
			}
			var it item
			switch kind {
			case 0:
				n := rapid.SampledFrom(namePool).Draw(rt, "name")
				var content string
				var prev []string
				for _, j := range m.sibs[n] {
					prev = append(prev, m.files[j].content)
				}
				if len(prev) > 0 && rapid.IntRange(0, 2).Draw(rt, "again") == 0 {
					content = rapid.SampledFrom(prev).Draw(rt, "same")
				} else {
					content = strings.Join(rapid.SliceOfN(rapid.SampledFrom(parts), 0, 6).Draw(rt, "content"), "")
				}
				if known && m.collides(n, content) {
					info.excluded = true
					continue
				}
				it = item{Name: &n, Content: content}
			case 1:
				target := ""
				if m.last >= 0 && !m.dropping {
					target = m.files[m.last].content
				}
				p := drawPoint(rt, target)
				it = item{Point: &p, Content: rapid.SampledFrom(patchTexts).Draw(rt, "patch")}
			default:
				var n string
				var owned []string
				for _, f := range m.files {
					if !f.renamed {
						owned = append(owned, f.name)
					}
				}
				if len(owned) > 0 && rapid.IntRange(0, 19).Draw(rt, "aimed") > 0 {
					n = rapid.SampledFrom(owned).Draw(rt, "target")
				} else {
					n = rapid.SampledFrom(namePool).Draw(rt, "name")
				}
				target := ""
				if i, ok := m.owner[n]; ok {
					target = m.files[i].content
				}
				p := drawPoint(rt, target)
				it = item{Name: &n, Point: &p, Content: rapid.SampledFrom(patchTexts).Draw(rt, "patch")}
			}
			fd.Items = append(fd.Items, it)
			if !m.item(it) {
				break
			}
		}
		hist = append(hist, fd)
		m.endFeed()
	}
	c := asmCase{History: hist, ErrAt: m.errAt, Loose: m.loose, Why: m.why, Files: m.expected()}
	return c, m, info
}

func summary(c asmCase) string {
	var b strings.Builder
	for k, fd := range c.History {
		if k > 0 {
			b.WriteString(" | ")
		}
		b.WriteString(fd.Src + ":")
		for _, it := range fd.Items {
			switch {
			case it.Name == nil:
				fmt.Fprintf(&b, " +%s", *it.Point)
			case it.Point != nil:
				fmt.Fprintf(&b, " %s+%s", *it.Name, *it.Point)
			default:
				fmt.Fprintf(&b, " %s[%d]", *it.Name, len(it.Content))
			}
		}
	}
	return b.String()
}

func TestAssembly(t *testing.T) {
	rapid.Check(t, func(rt *rapid.T) {
		c, m, info := genCase(rt)
		vt.Eval()
		if info.excluded {
			vt.Excluded(findingRename)
		}
		fuzzy, multi, multiPatched, absent := 0, false, false, false
		for i, f := range m.files {
			if c.Files[i].Fuzzy {
				fuzzy++
			}
			occ := map[string]int{}
			for pos := 0; ; {
				s, e, p := nextMarker(f.content, pos)
				if s < 0 {
					break
				}
				occ[p]++
				pos = e
			}
			for _, n := range occ {
				if n > 1 {
					multi = true
				}
			}
			for _, p := range f.patches {
				if occ[p.point] > 1 {
					multiPatched = true
				}
				if occ[p.point] == 0 {
					absent = true
				}
			}
		}
		early := false
		if !m.loose && m.errAt < 0 {
			for _, r := range m.renamedAt {
				for _, p := range m.patchedAt {
					if p < r && !c.Files[p].Fuzzy {
						early = true
					}
				}
			}
		}
		vt.ClassIf(m.renames > 0, "rename")
		vt.ClassIf(m.renames > 1, "renames>=2")
		vt.ClassIf(m.dups > 0, "identical_duplicate")
		vt.ClassIf(m.droppedPatches > 0, "patch_dropped_with_duplicate")
		vt.ClassIf(m.unnamed > 0, "unnamed_patch")
		vt.ClassIf(m.named > 0, "named_patch")
		vt.ClassIf(m.namedContested > 0, "named_patch_to_contested_name")
		vt.ClassIf(m.unnamedAfterNamed > 0, "unnamed_after_named_patch")
		vt.ClassIf(m.errAt >= 0, "patch_error")
		vt.ClassIf(multi, "point_occurs_multiple_times")
		vt.ClassIf(multiPatched, "patch_for_multi_occurrence_point")
		vt.ClassIf(absent, "patch_for_absent_point")
		vt.ClassIf(m.loose, "loose_only_invariants")
		vt.ClassIf(m.loose && strings.HasPrefix(m.why, "named patch"), "loose:named_patch_for_unowned_name")
		vt.ClassIf(m.loose && strings.HasPrefix(m.why, "file fed"), "loose:file_under_possible_fresh_name")
		vt.ClassIf(fuzzy > 0 && !m.loose, "some_file_content_not_asserted")
		vt.ClassIf(early, "rename_and_patch_on_earlier_file")
		if early {
			b, _ := json.Marshal(c.History)
			vt.Nontrivial(string(b))
		}
		if len(c.Files) >= 3 && rapid.IntRange(0, 40).Draw(rt, "sample") == 0 {
			vt.Sample(map[string]interface{}{"test": "assembly", "history": vt.Truncate(summary(c), 400), "expected_files": len(c.Files), "loose": c.Loose, "err_at": c.ErrAt})
		}
		// the model must never expect a marker in the output (generator self-check)
		for _, f := range c.Files {
			if s, _, _ := nextMarker(f.Content, 0); s >= 0 {
				rt.Fatalf("harness: the model expects a marker in an output file: %q", f.Content)
			}
		}
		if err := judge(c); err != nil {
			vt.Fail(rt, prop, "assembly", c, "%v", err)
		}
	})
}

func TestReplay(t *testing.T) {
	vt.Replay(t, prop, map[string]vt.Handler{
		"assembly": func(raw json.RawMessage) error {
			var c asmCase
			if err := vt.Decode(raw, &c); err != nil {
				return err
			}
			return judge(c)
		},
	})
}
