//go:build verif

// C11 — plugins see the compiler's AST and options, and their answers are honoured.
//
// Part A (in process): requests built from ASTs of the real front end survive
// MarshalRequest/UnmarshalRequest, with and without include compression, and
// compression leaves the compiler's own tree as it was; compact option strings
// round-trip through ParseCompactArguments/Pack.
// Part B (end to end): the thriftgo binary runs a scripted plugin
// (plugins/scripted); what the plugin decoded is compared with the request the
// same front end builds in process, and the plugin's answer (files, patches,
// warnings, faults) must be honoured.
package c11

import (
	"encoding/json"
	"errors"
	"fmt"
	"os"
	"os/exec"
	"path/filepath"
	"reflect"
	"regexp"
	"sort"
	"strconv"
	"strings"
	"sync"
	"syscall"
	"testing"
	"time"

	"github.com/cloudwego/thriftgo/parser"
	"github.com/cloudwego/thriftgo/plugin"
	"github.com/cloudwego/thriftgo/semantic"
	"pgregory.net/rapid"

	"verif/internal/idl"
	"verif/internal/tg"
	"verif/internal/vt"
)

const prop = "C11"

func TestMain(m *testing.M) { vt.Main(m) }

// ---------- outcome plumbing ----------

// harnessErr is trouble of the harness itself (never a violation).
type harnessErr struct{ msg string }

func (e *harnessErr) Error() string { return "harness: " + e.msg }

func harness(format string, args ...interface{}) error {
	return &harnessErr{fmt.Sprintf(format, args...)}
}

// errRejected: the program did not get as far as the plugin interface (front
// end or backend refused it); other properties decide that.
var errRejected = errors.New("program rejected before the plugin interface was reached")

func settle(rt *rapid.T, test string, c interface{}, err error) {
	if err == nil {
		return
	}
	var h *harnessErr
	switch {
	case errors.As(err, &h):
		rt.Fatalf("%v", err) // no replay file: vrun reports harness trouble, not a violation
	case errors.Is(err, errRejected):
		vt.Class("rejected_before_plugin_interface")
	default:
		vt.Fail(rt, prop, test, c, "%v", err)
	}
}

func replayErr(err error) error {
	if errors.Is(err, errRejected) {
		return nil
	}
	return err
}

// guard turns a panic of the code under test into an error.
func guard(what string, f func() error) (err error) {
	defer func() {
		if r := recover(); r != nil {
			err = fmt.Errorf("%s panicked: %v", what, r)
		}
	}()
	return f()
}

// analyse runs the real front end the way sdk.InvokeThriftgo does.
func analyse(main string, files map[string]string) (ast *parser.Thrift, err error) {
	defer func() {
		if r := recover(); r != nil {
			ast, err = nil, fmt.Errorf("%w: front end panicked: %v", errRejected, r)
		}
	}()
	ast, err = parser.ParseBatchString(main, files, nil)
	if err != nil {
		return nil, fmt.Errorf("%w: parse: %v", errRejected, err)
	}
	if path := parser.CircleDetect(ast); len(path) > 0 {
		return nil, fmt.Errorf("%w: include circle", errRejected)
	}
	if _, err = semantic.NewChecker(semantic.Options{FixWarnings: true}).CheckAll(ast); err != nil {
		return nil, fmt.Errorf("%w: check: %v", errRejected, err)
	}
	if err = semantic.ResolveSymbols(ast); err != nil {
		return nil, fmt.Errorf("%w: resolve: %v", errRejected, err)
	}
	return ast, nil
}

// edges lists the include references in depth-first order; a file reached
// over several paths appears once per path.
func edges(ast *parser.Thrift) []*parser.Thrift {
	var out []*parser.Thrift
	var walk func(t *parser.Thrift, depth int)
	walk = func(t *parser.Thrift, depth int) {
		if t == nil || depth > 16 {
			return
		}
		for _, inc := range t.Includes {
			out = append(out, inc.Reference)
			walk(inc.Reference, depth+1)
		}
	}
	walk(ast, 0)
	return out
}

// hasDiamond: some included file is reached over two paths (pointer-shared).
func hasDiamond(ast *parser.Thrift) bool {
	seen := map[*parser.Thrift]bool{}
	for _, t := range edges(ast) {
		if seen[t] {
			return true
		}
		seen[t] = true
	}
	return false
}

var refType = reflect.TypeOf(&parser.Reference{})

// hasExternalRef: the resolver bound at least one name to a definition of an included file.
func hasExternalRef(ast *parser.Thrift) bool {
	seen := map[*parser.Thrift]bool{}
	var walk func(v reflect.Value) bool
	walk = func(v reflect.Value) bool {
		switch v.Kind() {
		case reflect.Ptr:
			if v.IsNil() {
				return false
			}
			if v.Type() == refType {
				return true
			}
			if t, ok := v.Interface().(*parser.Thrift); ok {
				if seen[t] {
					return false
				}
				seen[t] = true
			}
			return walk(v.Elem())
		case reflect.Struct:
			for i := 0; i < v.NumField(); i++ {
				if v.Type().Field(i).PkgPath == "" && walk(v.Field(i)) {
					return true
				}
			}
		case reflect.Slice:
			for i := 0; i < v.Len(); i++ {
				if walk(v.Index(i)) {
					return true
				}
			}
		}
		return false
	}
	return walk(reflect.ValueOf(ast))
}

func textsKey(m map[string]string) string {
	var ks []string
	for k := range m {
		ks = append(ks, k)
	}
	sort.Strings(ks)
	var b strings.Builder
	for _, k := range ks {
		b.WriteString(k + "\x00" + m[k] + "\x00")
	}
	return b.String()
}

// ---------- Part A: codec and include compression ----------

type reqCase struct {
	Main       string            `json:"main"`
	Files      map[string]string `json:"files"`
	Version    string            `json:"version"`
	Language   string            `json:"language"`
	OutputPath string            `json:"output_path"`
	Recursive  bool              `json:"recursive"`
	GenParams  []string          `json:"generator_parameters"`
	PlugParams []string          `json:"plugin_parameters"`
}

func (c reqCase) request(ast *parser.Thrift) *plugin.Request {
	return &plugin.Request{Version: c.Version, Language: c.Language, OutputPath: c.OutputPath, Recursive: c.Recursive,
		GeneratorParameters: c.GenParams, PluginParameters: c.PlugParams, AST: ast}
}

// judgeRoundTrip: UnmarshalRequest(MarshalRequest(r)) is structurally equal to r.
func judgeRoundTrip(c reqCase) (inf astInfo, err error) {
	ast, err := analyse(c.Main, c.Files)
	if err != nil {
		return inf, err
	}
	inf = infoOf(ast)
	req := c.request(ast)
	var got *plugin.Request
	if err := guard("MarshalRequest/UnmarshalRequest", func() error {
		data, err := plugin.MarshalRequest(req)
		if err != nil {
			return fmt.Errorf("MarshalRequest failed: %v", err)
		}
		if got, err = plugin.UnmarshalRequest(data); err != nil {
			return fmt.Errorf("UnmarshalRequest failed on MarshalRequest's own output: %v", err)
		}
		return nil
	}); err != nil {
		return inf, err
	}
	if d := idl.Diff(req, got, nil); d != "" {
		return inf, fmt.Errorf("decoded request differs from the encoded one: %s", d)
	}
	if d := shapeDiff(req, got); d != "" {
		return inf, fmt.Errorf("decoded request differs from the encoded one: %s", d)
	}
	return inf, nil
}

// astInfo says which classes an analysed program falls into.
type astInfo struct {
	diamond, extRef, smaller bool
}

func infoOf(ast *parser.Thrift) astInfo {
	return astInfo{diamond: hasDiamond(ast), extRef: hasExternalRef(ast)}
}

func (i astInfo) count(nfiles int) (nontrivial bool) {
	vt.ClassIf(i.diamond, "diamond_include_graph")
	vt.ClassIf(i.extRef, "resolved_external_reference")
	vt.ClassIf(nfiles >= 3, "files>=3")
	return i.diamond && i.extRef
}

func samePartition(a, b []*parser.Thrift) bool {
	if len(a) != len(b) {
		return false
	}
	for i := range a {
		for j := i + 1; j < len(a); j++ {
			if (a[i] == a[j]) != (b[i] == b[j]) {
				return false
			}
		}
	}
	return true
}

// judgeCompress: with include compression (what external.Execute does for
// plugins built against thriftgo >= v0.4.2) a plugin still decodes a request
// equal to the original, and reverting the compression restores the
// compiler's tree, including which includes are shared.
func judgeCompress(c reqCase) (inf astInfo, err error) {
	ast, err := analyse(c.Main, c.Files)
	if err != nil {
		return inf, err
	}
	inf = infoOf(ast)
	snap, err := analyse(c.Main, c.Files) // independent snapshot: the same files parsed again
	if err != nil {
		return inf, err
	}
	if d := idl.Diff(ast, snap, nil); d != "" {
		return inf, harness("front end is not deterministic: %s", d)
	}
	req, want := c.request(ast), c.request(snap)
	before := edges(ast)
	var got *plugin.Request
	if err := guard("compressed request transport", func() error {
		plain, _ := plugin.MarshalRequest(req)
		plugin.VerifCompressThriftInclude(ast)
		data, err := plugin.MarshalRequest(req)
		if err != nil {
			return fmt.Errorf("MarshalRequest failed: %v", err)
		}
		inf.smaller = len(data) < len(plain)
		data = plugin.VerifAppendDataTrailer(data, plugin.VerifFeatureCompressInclude)
		if !plugin.VerifHasDataTrailerFeature(data, plugin.VerifFeatureCompressInclude) {
			return fmt.Errorf("trailer appended for include compression is not recognised")
		}
		if got, err = plugin.UnmarshalRequest(data); err != nil {
			return fmt.Errorf("UnmarshalRequest failed on a compressed request: %v", err)
		}
		return nil
	}); err != nil {
		return inf, err
	}
	if d := idl.Diff(want, got, nil); d != "" {
		return inf, fmt.Errorf("request decoded from the compressed form differs from the original: %s", d)
	}
	if d := shapeDiff(want, got); d != "" {
		return inf, fmt.Errorf("request decoded from the compressed form differs from the original: %s", d)
	}
	if err := guard("decompressThriftInclude", func() error { plugin.VerifDecompressThriftInclude(ast); return nil }); err != nil {
		return inf, err
	}
	if d := idl.Diff(snap, ast, nil); d != "" {
		return inf, fmt.Errorf("compiler's tree not restored after compress+decompress: %s", d)
	}
	if !samePartition(before, edges(ast)) {
		return inf, fmt.Errorf("includes that were shared before compression are not shared in the same way after decompression")
	}
	return inf, nil
}

func cfgA() idl.Cfg {
	c := idl.Full()
	c.MaxFiles = 4
	return c
}

var someStrings = []string{"", "go", "0.4.5", "./gen-go", "/abs/out dir", "k=v", "naming_style=golint", "a=b=c", "ü,:;=\n\t", "世界", "\x00\x01", "x"}

func genString(rt *rapid.T, label string) string {
	if rapid.Bool().Draw(rt, label+"?") {
		return rapid.SampledFrom(someStrings).Draw(rt, label)
	}
	return rapid.StringN(0, 12, 40).Draw(rt, label)
}

func genReqCase(rt *rapid.T) reqCase {
	p := idl.Gen(rt, cfgA())
	c := reqCase{Main: p.Files[0].Path, Files: p.Texts(nil)}
	c.Version = genString(rt, "version")
	c.Language = genString(rt, "language")
	c.OutputPath = genString(rt, "out")
	c.Recursive = rapid.Bool().Draw(rt, "recursive")
	for i := rapid.IntRange(0, 4).Draw(rt, "ngen"); i > 0; i-- {
		c.GenParams = append(c.GenParams, genString(rt, "genparam"))
	}
	for i := rapid.IntRange(0, 4).Draw(rt, "nplug"); i > 0; i-- {
		c.PlugParams = append(c.PlugParams, genString(rt, "plugparam"))
	}
	return c
}

func TestRoundTrip(t *testing.T) {
	rapid.Check(t, func(rt *rapid.T) {
		c := genReqCase(rt)
		vt.Eval()
		vt.Class("codec_round_trip")
		inf, err := judgeRoundTrip(c)
		if inf.count(len(c.Files)) {
			vt.Nontrivial("rt" + textsKey(c.Files) + c.Version)
		}
		vt.Sample(map[string]interface{}{"test": "roundtrip", "files": len(c.Files), "genparams": c.GenParams})
		settle(rt, "roundtrip", c, err)
	})
}

func TestCompression(t *testing.T) {
	rapid.Check(t, func(rt *rapid.T) {
		c := genReqCase(rt)
		vt.Eval()
		vt.Class("compression_on(in-process)")
		inf, err := judgeCompress(c)
		if inf.count(len(c.Files)) {
			vt.Nontrivial("cz" + textsKey(c.Files) + c.Version)
		}
		vt.ClassIf(inf.smaller, "compression_removed_a_duplicate")
		settle(rt, "compress", c, err)
	})
}

// ---------- Part A: compact option strings ----------

type optKV struct {
	K  string `json:"k"`
	V  string `json:"v,omitempty"`
	Eq bool   `json:"eq"` // written "k=v" (true) or "k" (false, V empty)
}

func (o optKV) String() string {
	if o.Eq {
		return o.K + "=" + o.V
	}
	return o.K
}

func compact(name string, opts []optKV) string {
	if len(opts) == 0 {
		return name
	}
	ss := make([]string, len(opts))
	for i, o := range opts {
		ss[i] = o.String()
	}
	return name + ":" + strings.Join(ss, ",")
}

type optCase struct {
	Name string  `json:"name"`
	Opts []optKV `json:"opts"`
}

// judgeOptions: name[:k=v,k2,...] parses into exactly the written name, keys
// and values (in order) and Pack's output parses back to the same options.
// Precondition (documented form): name without ':', keys without ',' and '=',
// values without ','.
func judgeOptions(c optCase) error {
	str := compact(c.Name, c.Opts)
	if str == "" {
		return harness("empty option string generated")
	}
	return guard("ParseCompactArguments/Pack", func() error {
		d, err := plugin.ParseCompactArguments(str)
		if err != nil {
			return fmt.Errorf("ParseCompactArguments(%q) failed: %v", str, err)
		}
		if d.Name != c.Name {
			return fmt.Errorf("ParseCompactArguments(%q): name %q, want %q", str, d.Name, c.Name)
		}
		if len(d.Options) != len(c.Opts) {
			return fmt.Errorf("ParseCompactArguments(%q): %d options, want %d", str, len(d.Options), len(c.Opts))
		}
		for i, o := range c.Opts {
			if d.Options[i].Name != o.K || d.Options[i].Desc != o.V {
				return fmt.Errorf("ParseCompactArguments(%q): option %d is (%q,%q), want (%q,%q)", str, i, d.Options[i].Name, d.Options[i].Desc, o.K, o.V)
			}
		}
		packed := plugin.Pack(d.Options)
		if len(packed) != len(c.Opts) {
			return fmt.Errorf("Pack returned %d strings for %d options", len(packed), len(c.Opts))
		}
		for i, o := range c.Opts {
			if k, v := splitParam(packed[i]); k != o.K || v != o.V {
				return fmt.Errorf("Pack: parameter %d is %q, want key %q value %q", i, packed[i], o.K, o.V)
			}
		}
		if len(packed) > 0 {
			d2, err := plugin.ParseCompactArguments(c.Name + ":" + strings.Join(packed, ","))
			if err != nil {
				return fmt.Errorf("packed options do not parse: %v", err)
			}
			if !reflect.DeepEqual(d2.Options, d.Options) || d2.Name != d.Name {
				return fmt.Errorf("Pack/ParseCompactArguments round trip changed the options: %v vs %v", d2.Options, d.Options)
			}
		}
		return nil
	})
}

// splitParam reads a parameter "key=val" or "key" (documented forms; a bare
// key and a key with an empty value are the same thing).
func splitParam(s string) (string, string) {
	if i := strings.IndexByte(s, '='); i >= 0 {
		return s[:i], s[i+1:]
	}
	return s, ""
}

var keyRunes = []rune("abcXYZ019_.-/ é世")
var valRunes = []rune("abcXYZ019_.-/ é世=:;|@%+\"'\\")

func genKV(rt *rapid.T, minKey int) optKV {
	o := optKV{K: rapid.StringOfN(rapid.SampledFrom(keyRunes), minKey, 8, -1).Draw(rt, "key")}
	if rapid.IntRange(0, 2).Draw(rt, "form") > 0 {
		o.Eq = true
		o.V = rapid.StringOfN(rapid.SampledFrom(valRunes), 0, 10, -1).Draw(rt, "val")
	}
	return o
}

func TestOptions(t *testing.T) {
	rapid.Check(t, func(rt *rapid.T) {
		var c optCase
		c.Name = rapid.StringOfN(rapid.SampledFrom([]rune("abcXYZ019_.-/ é世=,")), 0, 12, -1).Draw(rt, "name")
		for i := rapid.IntRange(0, 6).Draw(rt, "nopts"); i > 0; i-- {
			c.Opts = append(c.Opts, genKV(rt, 0))
		}
		if c.Name == "" && len(c.Opts) == 0 {
			c.Name = "x"
		}
		vt.Eval()
		vt.Class("compact_options")
		dupKey := false
		seen := map[string]bool{}
		for _, o := range c.Opts {
			if seen[o.K] {
				dupKey = true
			}
			seen[o.K] = true
		}
		vt.ClassIf(dupKey, "options_repeat_a_key")
		settle(rt, "options", c, judgeOptions(c))
	})
}

// ---------- Part B: end to end ----------

// item, script, scriptFile and dump mirror the types of plugins/scripted/main.go.
type item struct {
	Kind    string `json:"kind"`
	Rel     string `json:"rel,omitempty"`
	Point   string `json:"point,omitempty"`
	Content string `json:"content"`
}

type script struct {
	Items    []item   `json:"items,omitempty"`
	Warnings []string `json:"warnings,omitempty"`
	Error    *string  `json:"error,omitempty"`
	Stderr   string   `json:"stderr,omitempty"`
	Exit     int      `json:"exit,omitempty"`
	Trunc    *int     `json:"trunc_permille,omitempty"`
	Garbage  []byte   `json:"garbage,omitempty"`
	UseGarb  bool     `json:"use_garbage,omitempty"`
	SleepMs  int      `json:"sleep_ms,omitempty"`
}

type scriptFile struct {
	Plugins []script `json:"plugins"`
}

type dump struct {
	Index               int             `json:"index"`
	Pid                 int             `json:"pid"`
	StdinLen            int             `json:"stdin_len"`
	Trailer             bool            `json:"trailer"`
	DecodeError         string          `json:"decode_error"`
	Version             string          `json:"version"`
	Language            string          `json:"language"`
	OutputPath          string          `json:"output_path"`
	Recursive           bool            `json:"recursive"`
	GeneratorParameters []string        `json:"generator_parameters"`
	PluginParameters    []string        `json:"plugin_parameters"`
	AST                 json.RawMessage `json:"ast"`
}

type plugCase struct {
	Opts   []optKV `json:"opts"`
	Shape  string  `json:"shape"` // label for the histogram only; the judge reads the script
	Script script  `json:"script"`
}

type e2eCase struct {
	Main       string            `json:"main"`
	Files      map[string]string `json:"files"`
	GenOpts    []optKV           `json:"gen_opts"`
	Recursive  bool              `json:"recursive"`
	OutMode    string            `json:"out_mode"` // abs | rel | default
	LimitMs    int               `json:"limit_ms"` // <0: no --plugin-time-limit flag
	Compress   bool              `json:"compress"` // plugin reports thriftgo v0.4.5 and THRIFTGO_PLUGIN_COMPRESS_INCLUDE=1
	Plugins    []plugCase        `json:"plugins"`
	MainGo     string            `json:"main_go"`     // the Go file of the root IDL, relative to the output root
	MainPoints []string          `json:"main_points"` // insertion points that occur (once) in that file
}

const (
	slack         = 20 * time.Second
	markerPrefix  = "@@thriftgo_insertion_point("
	timeoutFactor = 10
)

var markerRe = regexp.MustCompile(`@@thriftgo_insertion_point\(([$.0-9a-zA-Z_]*)\)`)

// faultKind reads a script: "" = well-formed answer, otherwise why thriftgo must fail.
func faultKind(s script, limitMs int) (string, error) {
	if s.SleepMs > 0 && limitMs > 0 {
		switch {
		case s.SleepMs >= timeoutFactor*limitMs:
			return "timeout", nil
		case s.SleepMs*timeoutFactor <= limitMs:
		default:
			return "", harness("sleep %d ms is too close to the limit %d ms to be judged", s.SleepMs, limitMs)
		}
	}
	switch {
	case s.Exit != 0:
		return "exit_status", nil
	case s.UseGarb:
		if len(s.Garbage) > 0 {
			switch s.Garbage[0] {
			case 0:
				return "", harness("garbage starts with a STOP byte: it is an empty response")
			case 2, 3, 4, 6, 8, 10, 11, 12, 13, 14, 15:
				if len(s.Garbage) >= 3 { // shorter: an incomplete field header, certainly malformed
					return "", harness("garbage starts with a valid thrift field header: it may decode")
				}
			}
		}
		if len(s.Garbage) == 0 {
			return "empty_stdout", nil
		}
		return "garbage_stdout", nil
	case s.Trunc != nil:
		if *s.Trunc < 0 || *s.Trunc >= 1000 {
			return "", harness("bad truncation %d", *s.Trunc)
		}
		return "truncated_stdout", nil
	case s.Error != nil && *s.Error != "":
		return "error_string", nil
	}
	return "", nil
}

var (
	verOnce  sync.Once
	verStr   string
	verErr   error
	plugOnce [2]sync.Once
	plugPath [2]string
	plugErr  [2]error
)

func binVersion(bin string) (string, error) {
	verOnce.Do(func() {
		r := tg.Exec(bin, "", nil, 60*time.Second, "--version")
		out := strings.TrimSpace(r.Output)
		if r.Exit != 0 || !strings.HasPrefix(out, "thriftgo ") || strings.ContainsAny(out, "\n") {
			verErr = harness("thriftgo --version: exit %d, output %q", r.Exit, out)
			return
		}
		verStr = strings.TrimPrefix(out, "thriftgo ")
	})
	return verStr, verErr
}

func goEnv() []string {
	return append(os.Environ(), "GOFLAGS=-mod=mod", "GOPROXY=off", "GOSUMDB=off", "GOTOOLCHAIN=local")
}

// pluginBin builds the scripted plugin once per process.  released=false: in
// module verif (its build info reports thriftgo v0.0.0, so thriftgo never
// compresses for it).  released=true: a copy in a scratch module whose go.mod
// requires thriftgo v0.4.5 (replaced by the same source tree), which is what
// makes external.Execute use include compression.
func pluginBin(released bool) (string, error) {
	i := 0
	if released {
		i = 1
	}
	plugOnce[i].Do(func() {
		dir, err := os.MkdirTemp("", "c11plug")
		if err != nil {
			plugErr[i] = harness("%v", err)
			return
		}
		out := filepath.Join(dir, "scripted")
		var cmd *exec.Cmd
		if !released {
			cmd = exec.Command("go", "build", "-o", out, "./plugins/scripted")
			cmd.Dir = vt.Root()
		} else {
			gomod, err := os.ReadFile(filepath.Join(vt.Root(), "go.mod"))
			if err != nil {
				plugErr[i] = harness("%v", err)
				return
			}
			m := regexp.MustCompile(`github.com/cloudwego/thriftgo\s*=>\s*(\S+)`).FindSubmatch(gomod)
			if m == nil {
				plugErr[i] = harness("no replace directive for thriftgo in go.mod")
				return
			}
			repo := string(m[1])
			if !filepath.IsAbs(repo) {
				repo = filepath.Join(vt.Root(), repo)
			}
			src := filepath.Join(dir, "src")
			os.MkdirAll(src, 0o755)
			main, err := os.ReadFile(filepath.Join(vt.Root(), "plugins", "scripted", "main.go"))
			if err != nil {
				plugErr[i] = harness("%v", err)
				return
			}
			sum, _ := os.ReadFile(filepath.Join(repo, "go.sum"))
			os.WriteFile(filepath.Join(src, "main.go"), main, 0o644)
			os.WriteFile(filepath.Join(src, "go.sum"), sum, 0o644)
			os.WriteFile(filepath.Join(src, "go.mod"), []byte("module scriptedrel\n\ngo 1.23\n\nrequire github.com/cloudwego/thriftgo v0.4.5\n\nreplace github.com/cloudwego/thriftgo => "+repo+"\n"), 0o644)
			cmd = exec.Command("go", "build", "-o", out, ".")
			cmd.Dir = src
		}
		cmd.Env = goEnv()
		if o, err := cmd.CombinedOutput(); err != nil {
			plugErr[i] = harness("building the scripted plugin: %v\n%s", err, o)
			return
		}
		plugPath[i] = out
	})
	return plugPath[i], plugErr[i]
}

// expectedOutputs is the model of what the plugins' answers must produce:
// the final content of every file a plugin supplied, and for the root's Go
// file how often each patch text must occur.
func expectedOutputs(c e2eCase) (files map[string]string, mainTokens map[string]int, err error) {
	type patch struct{ point, content string }
	content := map[string]string{}
	patches := map[string][]patch{}
	var order []string
	for pi, p := range c.Plugins {
		last := ""
		for _, it := range p.Script.Items {
			switch it.Kind {
			case "file":
				if _, dup := content[it.Rel]; dup || it.Rel == c.MainGo {
					return nil, nil, harness("plugin %d: file name %q is not fresh", pi, it.Rel)
				}
				content[it.Rel] = it.Content
				order = append(order, it.Rel)
				last = it.Rel
			case "named_patch":
				if it.Point == "" {
					return nil, nil, harness("plugin %d: named patch with the empty insertion point name", pi)
				}
				if _, ok := content[it.Rel]; !ok && it.Rel != c.MainGo {
					return nil, nil, harness("plugin %d: named patch for unknown file %q", pi, it.Rel)
				}
				patches[it.Rel] = append(patches[it.Rel], patch{it.Point, it.Content})
				last = it.Rel
			case "unnamed_patch":
				if last == "" {
					return nil, nil, harness("plugin %d: unnamed patch without a preceding named item", pi)
				}
				patches[last] = append(patches[last], patch{it.Point, it.Content})
			default:
				return nil, nil, harness("item kind %q", it.Kind)
			}
			if it.Kind != "file" && strings.Contains(it.Content, markerPrefix) {
				return nil, nil, harness("patch content contains a marker")
			}
		}
	}
	files = map[string]string{}
	for _, rel := range order {
		ps := patches[rel]
		files[rel] = markerRe.ReplaceAllStringFunc(content[rel], func(m string) string {
			name := markerRe.FindStringSubmatch(m)[1]
			var b strings.Builder
			for _, p := range ps {
				if p.point == name {
					b.WriteString(p.content)
				}
			}
			return b.String()
		})
	}
	mainTokens = map[string]int{}
	exists := map[string]bool{}
	for _, p := range c.MainPoints {
		exists[p] = true
	}
	for _, p := range patches[c.MainGo] {
		tok := strings.TrimSpace(p.content)
		if !strings.HasPrefix(tok, "// vp") || strings.ContainsAny(tok, "\n") {
			return nil, nil, harness("patch for the Go file is not a token comment: %q", p.content)
		}
		if _, dup := mainTokens[tok]; dup {
			return nil, nil, harness("token %q used twice", tok)
		}
		if exists[p.point] {
			mainTokens[tok] = 1
		} else {
			mainTokens[tok] = 0
		}
	}
	return files, mainTokens, nil
}

func paramsDiffer(got []string, want []optKV) string {
	if len(got) != len(want) {
		return fmt.Sprintf("%d parameters %q, want %d %v", len(got), got, len(want), want)
	}
	for i, w := range want {
		if k, v := splitParam(got[i]); k != w.K || v != w.V {
			return fmt.Sprintf("parameter %d is %q, want key %q value %q (command-line order)", i, got[i], w.K, w.V)
		}
	}
	return ""
}

func processAlive(pid int, exe string) bool {
	if pid <= 0 || syscall.Kill(pid, 0) != nil {
		return false
	}
	// guard against pid reuse: it must still be our plugin
	if l, err := os.Readlink(fmt.Sprintf("/proc/%d/exe", pid)); err == nil {
		return strings.TrimSuffix(l, " (deleted)") == exe
	}
	if b, err := os.ReadFile(fmt.Sprintf("/proc/%d/stat", pid)); err == nil {
		if f := strings.Fields(string(b)); len(f) > 2 && f[2] == "Z" {
			return false
		}
	}
	return true
}

type e2eInfo struct {
	ran         bool
	diamond     bool
	extRef      bool
	compression bool
	fault       string
	faultAt     int // index of the first failing plugin, -1 = none
}

func clip(s string) string { return vt.Truncate(s, 1500) }

func judgeE2E(c e2eCase) (inf e2eInfo, err error) {
	bin, err := tg.Thriftgo()
	if err != nil {
		return inf, harness("%v", err)
	}
	ver, err := binVersion(bin)
	if err != nil {
		return inf, err
	}
	plug, err := pluginBin(c.Compress)
	if err != nil {
		return inf, err
	}
	if len(c.Plugins) == 0 {
		return inf, harness("case without plugins")
	}
	// what the scripts mean
	faultAt, fault := -1, ""
	for i, p := range c.Plugins {
		k, err := faultKind(p.Script, c.LimitMs)
		if err != nil {
			return inf, err
		}
		if k != "" {
			faultAt, fault = i, k
			break
		}
	}
	inf.fault, inf.faultAt = fault, faultAt
	wantFiles, wantTokens, err := expectedOutputs(c)
	if err != nil {
		return inf, err
	}

	dir, err := os.MkdirTemp("", "c11")
	if err != nil {
		return inf, harness("%v", err)
	}
	defer os.RemoveAll(dir)
	idlDir := filepath.Join(dir, "idl")
	if err := tg.WriteFiles(idlDir, c.Files); err != nil {
		return inf, harness("%v", err)
	}
	var args []string
	outRoot, wantOutPath := "", ""
	switch c.OutMode {
	case "abs":
		outRoot = filepath.Join(dir, "out")
		wantOutPath = outRoot
		args = append(args, "-o", outRoot)
	case "rel":
		outRoot = filepath.Join(dir, "out")
		wantOutPath = "../out"
		args = append(args, "-o", "../out")
	case "default":
		outRoot = filepath.Join(idlDir, "gen-go")
		wantOutPath = "./gen-go" // documented default: ./gen-<language>
	default:
		return inf, harness("out mode %q", c.OutMode)
	}
	args = append(args, "-g", compact("go", c.GenOpts))
	if c.Recursive {
		args = append(args, "-r")
	}
	var sf scriptFile
	for i, p := range c.Plugins {
		args = append(args, "-p", compact(fmt.Sprintf("scr%d=%s", i, plug), p.Opts))
		sf.Plugins = append(sf.Plugins, p.Script)
	}
	if c.LimitMs >= 0 {
		args = append(args, "--plugin-time-limit", strconv.Itoa(c.LimitMs)+"ms")
	}
	args = append(args, c.Main)
	sb, _ := json.Marshal(sf)
	scriptPath, dumpBase := filepath.Join(dir, "script.json"), filepath.Join(dir, "dump")
	if err := os.WriteFile(scriptPath, sb, 0o644); err != nil {
		return inf, harness("%v", err)
	}
	env := []string{"VERIF_PLUGIN_DUMP=" + dumpBase, "VERIF_PLUGIN_SCRIPT=" + scriptPath, "THRIFTGO_PLUGIN_COMPRESS_INCLUDE=0"}
	if c.Compress {
		env[2] = "THRIFTGO_PLUGIN_COMPRESS_INCLUDE=1"
	}
	watchdog := 90 * time.Second
	if fault == "timeout" {
		watchdog = time.Duration(c.LimitMs)*time.Millisecond + slack
	}
	r := tg.Exec(bin, idlDir, env, watchdog, args...)
	cmdline := "thriftgo " + strings.Join(args, " ")
	if os.Getenv("VERIF_SURVEY") == "2" { // development aid
		fmt.Fprintf(os.Stderr, "SURVEY dur=%v exit=%d fault=%s\n", r.Dur, r.Exit, fault)
	}

	// what the plugins recorded
	dumps := make([]*dump, len(c.Plugins))
	for i := range c.Plugins {
		if _, err := os.Stat(fmt.Sprintf("%s.%d.done", dumpBase, i)); err != nil {
			continue
		}
		b, err := os.ReadFile(fmt.Sprintf("%s.%d", dumpBase, i))
		if err != nil {
			return inf, harness("%v", err)
		}
		d := new(dump)
		if err := json.Unmarshal(b, d); err != nil {
			return inf, harness("dump %d: %v", i, err)
		}
		dumps[i] = d
	}
	defer func() { // never leave a sleeping plugin behind
		for _, d := range dumps {
			if d != nil && processAlive(d.Pid, plug) {
				syscall.Kill(d.Pid, syscall.SIGKILL)
			}
		}
	}()
	if r.TimedOut {
		if fault == "timeout" && dumps[faultAt] != nil {
			return inf, fmt.Errorf("plugin %d sleeps past --plugin-time-limit %d ms but thriftgo had not returned %v later\n  %s", faultAt, c.LimitMs, slack, cmdline)
		}
		return inf, harness("thriftgo did not finish within %v: %s", watchdog, cmdline)
	}
	if dumps[0] == nil {
		if strings.Contains(r.Output, "executable file not found") || strings.Contains(r.Output, "scripted plugin:") {
			return inf, harness("plugin could not be started: %s", clip(r.Output))
		}
		if r.Exit != 0 || strings.Contains(r.Output, "Recovered from panic") {
			if os.Getenv("VERIF_SURVEY") != "" { // development aid
				fmt.Fprintf(os.Stderr, "SURVEY rejected: %s\n%s\n", cmdline, clip(r.Output))
			}
			return inf, errRejected
		}
		return inf, fmt.Errorf("thriftgo exited 0 without running the plugin named with -p\n  %s\n%s", cmdline, clip(r.Output))
	}
	inf.ran = true

	// the request every plugin that ran decoded
	ast, err := analyse(c.Main, c.Files)
	if err != nil {
		return inf, harness("thriftgo ran the plugin but the same front end rejects the files in process: %v", err)
	}
	inf.diamond, inf.extRef = hasDiamond(ast), hasExternalRef(ast)
	want := &plugin.Request{Version: ver, Language: "go", OutputPath: wantOutPath, Recursive: c.Recursive, AST: ast}
	lastRun := len(c.Plugins) - 1
	if faultAt >= 0 {
		lastRun = faultAt
	}
	for i := 0; i <= lastRun; i++ {
		d := dumps[i]
		if d == nil {
			if r.Exit != 0 && faultAt < 0 {
				break // reported below with thriftgo's output
			}
			return inf, fmt.Errorf("plugin %d of %d was not run (exit %d)\n  %s\n%s", i, len(c.Plugins), r.Exit, cmdline, clip(r.Output))
		}
		where := fmt.Sprintf("request decoded by plugin %d", i)
		if strings.HasPrefix(d.DecodeError, "AST not representable") {
			return inf, harness("dump %d: %s", i, d.DecodeError)
		}
		if d.DecodeError != "" {
			return inf, fmt.Errorf("%s: plugin.UnmarshalRequest failed on thriftgo's bytes: %s\n  %s", where, d.DecodeError, cmdline)
		}
		if c.Compress && !d.Trailer {
			return inf, harness("compression requested but the request carried no trailer (plugin build info?)")
		}
		inf.compression = inf.compression || d.Trailer
		got := new(parser.Thrift)
		if err := json.Unmarshal(d.AST, got); err != nil {
			return inf, harness("dump %d does not decode: %v", i, err)
		}
		switch {
		case d.Version != ver:
			return inf, fmt.Errorf("%s: version %q, thriftgo --version says %q", where, d.Version, ver)
		case d.Language != "go":
			return inf, fmt.Errorf("%s: language %q, want \"go\"", where, d.Language)
		case d.OutputPath != wantOutPath:
			return inf, fmt.Errorf("%s: output path %q, want %q", where, d.OutputPath, wantOutPath)
		case d.Recursive != c.Recursive:
			return inf, fmt.Errorf("%s: recursive %v, want %v", where, d.Recursive, c.Recursive)
		}
		if s := paramsDiffer(d.GeneratorParameters, c.GenOpts); s != "" {
			return inf, fmt.Errorf("%s: generator parameters: %s\n  %s", where, s, cmdline)
		}
		if s := paramsDiffer(d.PluginParameters, c.Plugins[i].Opts); s != "" {
			return inf, fmt.Errorf("%s: plugin parameters: %s\n  %s", where, s, cmdline)
		}
		if s := idl.Diff(want.AST, got, nil); s != "" {
			return inf, fmt.Errorf("%s: AST differs from the compiler's own (compiler vs plugin): %s\n  %s", where, s, cmdline)
		}
		// (which union member of an empty `[]` / `{}` constant is set is compared by the in-process
		// halves only: the recording plugin reports through JSON, which drops empty slices)
	}

	// warnings of every well-formed answer are shown
	for i := 0; i <= lastRun; i++ {
		if i == faultAt && fault != "error_string" {
			continue
		}
		if dumps[i] == nil {
			continue
		}
		for _, w := range c.Plugins[i].Script.Warnings {
			if !strings.Contains(r.Output, w) {
				return inf, fmt.Errorf("warning %q of plugin %d is not shown\n  %s\n%s", w, i, cmdline, clip(r.Output))
			}
		}
	}

	written := tg.ListFiles(outRoot)
	if faultAt >= 0 {
		if r.Exit == 0 {
			return inf, fmt.Errorf("plugin %d fails (%s) but thriftgo exits 0\n  %s\n%s", faultAt, fault, cmdline, clip(r.Output))
		}
		// Generate returns an error response before Persist writes anything
		if len(written) > 0 {
			return inf, fmt.Errorf("plugin %d fails (%s), thriftgo exits %d, but the run wrote %d files (%s ...)\n  %s", faultAt, fault, r.Exit, len(written), written[0], cmdline)
		}
		if fault == "timeout" {
			if d := dumps[faultAt]; processAlive(d.Pid, plug) {
				return inf, fmt.Errorf("plugin %d (pid %d) exceeded --plugin-time-limit %d ms and is still running after thriftgo returned\n  %s", faultAt, d.Pid, c.LimitMs, cmdline)
			}
		}
		return inf, nil
	}
	if r.Exit != 0 || strings.Contains(r.Output, "Recovered from panic") {
		return inf, fmt.Errorf("all plugins answered well-formed responses but thriftgo failed (exit %d)\n  %s\n%s", r.Exit, cmdline, clip(r.Output))
	}
	for rel, wantContent := range wantFiles {
		b, err := os.ReadFile(filepath.Join(outRoot, rel))
		if err != nil {
			return inf, fmt.Errorf("file %q supplied by a plugin is not in the output: %v\n  %s", rel, err, cmdline)
		}
		if string(b) != wantContent {
			return inf, fmt.Errorf("file %q supplied by a plugin: content %q, want %q\n  %s", rel, clip(string(b)), clip(wantContent), cmdline)
		}
	}
	if len(wantTokens) > 0 {
		b, err := os.ReadFile(filepath.Join(outRoot, c.MainGo))
		if err != nil {
			return inf, fmt.Errorf("the root's Go file %q (target of a plugin's patch) is not in the output: %v\n  %s", c.MainGo, err, cmdline)
		}
		text := string(b)
		for tok, n := range wantTokens {
			// tokens end in a letter, so none is a substring of another
			if got := strings.Count(text, tok); got != n {
				return inf, fmt.Errorf("patch %q occurs %d times in %s, want %d\n  %s", tok, got, c.MainGo, n, cmdline)
			}
		}
		if strings.Contains(text, markerPrefix) {
			return inf, fmt.Errorf("insertion point marker left in %s\n  %s", c.MainGo, cmdline)
		}
	}
	return inf, nil
}

// generator options that leave the AST alone and always keep the backend
// working on Go-safe programs.  Left out: trim_idl and reorder_fields (the Go
// backend rewrites the request's AST in place before plugins run: that is how
// these options are implemented, the plugin then sees the compiler's tree as
// the backend left it, which an in-process front end cannot predict),
// thrift_streaming-related, template and code_ref options.
var genOptPool = []string{"gen_setter", "gen_deep_equal", "json_enum_as_text", "frugal_tag", "gen_json_tag=false", "omitempty_for_optional",
	"validate_set=false", "naming_style=golint", "naming_style=apache", "package_prefix=vmod/gen", "no_fmt", "compatible_names",
	"reserve_comments", "nil_safe", "keep_unknown_fields", "gen_type_meta", "no_processor", "gen_setter=false", "enum_marshal", "with_reflection",
	"ignore_initialisms=true", "use_type_alias=false", "value_type_in_container", "gen_db_tag="}

func kvOf(s string) optKV {
	if i := strings.IndexByte(s, '='); i >= 0 {
		return optKV{K: s[:i], V: s[i+1:], Eq: true}
	}
	return optKV{K: s}
}

func cfgB(services bool) idl.Cfg {
	c := idl.GoSafe()
	c.MaxFiles = 4
	c.MaxDefs = 2
	c.Services = services // services make the Go output (and the run) several times larger
	return c
}

var textChunks = []string{"hello", " world\n", "\n", "é世界", "@@", "(x)", "%s %d", "\t{}\n", "package x", "0"}
var pointNames = []string{"x", "y.z", "$a_1", "", "Q9"}

// A *named* item whose insertion point is the empty name is taken for a file,
// not a patch (FileManager.Feed tests GetInsertionPoint() != ""); whether the
// marker with the empty name can be addressed by name is not documented, so
// named patches use non-empty names (unnamed ones may use the empty name).
var namedPoints = []string{"x", "y.z", "$a_1", "Q9"}

type scriptGen struct {
	rt  *rapid.T
	idx int
	n   int
	c   *e2eCase
}

func (g *scriptGen) tok() string {
	g.n++
	return fmt.Sprintf("vp%d_%dz", g.idx, g.n)
}

// okScript draws a well-formed answer of the given shape.  prev lists the
// files earlier plugins supplied.
func (g *scriptGen) okScript(shape string, prev []string) (s script, mine []string) {
	rt := g.rt
	files := func(withPatches bool) {
		for j := rapid.IntRange(1, 2).Draw(rt, "nfiles"); j > 0; j-- {
			var rel, content string
			switch rapid.IntRange(0, 3).Draw(rt, "namekind") {
			case 0:
				rel = fmt.Sprintf("plug%d/f%d.txt", g.idx, len(mine))
			case 1:
				rel = fmt.Sprintf("x%d_%d.json", g.idx, len(mine))
			case 2:
				rel = fmt.Sprintf("deep/a%d/b/n%d", g.idx, len(mine))
			default:
				rel = fmt.Sprintf("plug%d/g%d.go", g.idx, len(mine))
			}
			if strings.HasSuffix(rel, ".go") {
				content = "package plug\n\n// " + g.tok() + "\nvar V = 1\n" // gofmt leaves it alone
			} else {
				var b strings.Builder
				for k := rapid.IntRange(0, 5).Draw(rt, "nseg"); k > 0; k-- {
					if withPatches && rapid.IntRange(0, 2).Draw(rt, "marker?") == 0 {
						b.WriteString(plugin.InsertionPoint(rapid.SampledFrom(pointNames).Draw(rt, "marker")))
					} else {
						b.WriteString(rapid.SampledFrom(textChunks).Draw(rt, "chunk"))
					}
				}
				content = b.String()
			}
			s.Items = append(s.Items, item{Kind: "file", Rel: rel, Content: content})
			mine = append(mine, rel)
			if withPatches {
				for k := rapid.IntRange(0, 3).Draw(rt, "nunnamed"); k > 0; k-- {
					s.Items = append(s.Items, item{Kind: "unnamed_patch", Point: rapid.SampledFrom(pointNames).Draw(rt, "point"), Content: "<" + g.tok() + ">"})
				}
			}
		}
	}
	goPatches := func() {
		pts := append([]string{"nosuchpoint"}, g.c.MainPoints...)
		s.Items = append(s.Items, item{Kind: "named_patch", Rel: g.c.MainGo, Point: rapid.SampledFrom(pts).Draw(rt, "gopoint"), Content: "// " + g.tok() + "\n"})
		for k := rapid.IntRange(0, 2).Draw(rt, "ngounnamed"); k > 0; k-- {
			s.Items = append(s.Items, item{Kind: "unnamed_patch", Point: rapid.SampledFrom(pts).Draw(rt, "gopoint"), Content: "// " + g.tok() + "\n"})
		}
	}
	foreign := func() {
		if len(prev) == 0 {
			return
		}
		s.Items = append(s.Items, item{Kind: "named_patch", Rel: rapid.SampledFrom(prev).Draw(rt, "foreign"), Point: rapid.SampledFrom(namedPoints).Draw(rt, "point"), Content: "[" + g.tok() + "]"})
	}
	warns := func() {
		for k := rapid.IntRange(1, 2).Draw(rt, "nwarn"); k > 0; k-- {
			s.Warnings = append(s.Warnings, "warn "+g.tok()+rapid.SampledFrom([]string{"", " é世", ": a=b, c"}).Draw(rt, "warntail"))
		}
	}
	switch shape {
	case "empty_response":
	case "files":
		files(false)
	case "files+unnamed_patches":
		files(true)
	case "named_patch":
		goPatches()
	case "warnings":
		warns()
	case "mixed":
		if rapid.Bool().Draw(rt, "gofirst") {
			goPatches()
			files(true)
		} else {
			files(true)
			goPatches()
		}
		foreign()
		warns()
	case "delay_within_limit":
		s.SleepMs = 100
		files(true)
	}
	if rapid.IntRange(0, 5).Draw(rt, "stderr?") == 0 {
		s.Stderr = "note on stderr\n"
	}
	return s, mine
}

var okShapes = []string{"empty_response", "files", "files+unnamed_patches", "named_patch", "named_patch", "warnings", "mixed", "mixed", "mixed"}
var faultShapes = []string{"error_string", "exit_status", "truncated_stdout", "garbage_stdout", "empty_stdout"}
var garbageSamples = []string{"hello from the plugin\n", "panic: runtime error\n\ngoroutine 1 [running]:\n", "{\"error\":null}", "\x0b", "\x0b\x00", "\xff\xfe\xfd\xfc\xfb", "\x01\x00\x01", "\x10\x00\x01\x00\x00\x00\x01a\x00", "<html>"}

func genE2E(rt *rapid.T) e2eCase {
	p := idl.Gen(rt, cfgB(rapid.IntRange(0, 2).Draw(rt, "services") == 0))
	c := e2eCase{Main: p.Files[0].Path, Files: p.Texts(nil), LimitMs: -1}
	ns := ""
	for _, n := range p.Files[0].Namespaces {
		if n.Lang == "go" {
			ns = n.Name
		}
	}
	if ns == "" {
		ns = "main" // no go namespace: the package is named after the file
	}
	c.MainGo = strings.ReplaceAll(ns, ".", "/") + "/main.go"
	c.MainPoints = []string{"bof", "imports", "eof"}
	for _, d := range p.Files[0].Defs {
		if d.Kind.IsStructLike() {
			c.MainPoints = append(c.MainPoints, d.Kind.String()+"."+d.Name)
		}
	}
	for i := rapid.IntRange(0, 3).Draw(rt, "ngenopts"); i > 0; i-- {
		c.GenOpts = append(c.GenOpts, kvOf(rapid.SampledFrom(genOptPool).Draw(rt, "genopt")))
	}
	c.Recursive = rapid.Bool().Draw(rt, "recursive")
	c.OutMode = rapid.SampledFrom([]string{"abs", "abs", "rel", "default"}).Draw(rt, "outmode")
	c.Compress = rapid.IntRange(0, 2).Draw(rt, "compress") == 0
	switch rapid.IntRange(0, 5).Draw(rt, "limit") {
	case 0:
		c.LimitMs = 0 // documented: no limit
	case 1:
		c.LimitMs = 30000
	}
	// two plugins in one run: the second one sees the tree after the first request
	// was built from it (with compression: after compress + revert)
	nplug := 1
	if n := rapid.IntRange(0, 11).Draw(rt, "twoplugins"); n < 4 || (c.Compress && n < 9) {
		nplug = 2
	}
	var prev []string
	for i := 0; i < nplug; i++ {
		g := &scriptGen{rt: rt, idx: i, c: &c}
		var pc plugCase
		for k := rapid.IntRange(0, 4).Draw(rt, "nplugopts"); k > 0; k-- {
			pc.Opts = append(pc.Opts, genKV(rt, 1))
		}
		kind := rapid.IntRange(0, 99).Draw(rt, "kind")
		if c.Compress && nplug == 2 && i == 0 {
			kind %= 62 // let the second plugin run
		}
		var mine []string
		switch {
		case kind < 62:
			pc.Shape = rapid.SampledFrom(okShapes).Draw(rt, "shape")
			pc.Script, mine = g.okScript(pc.Shape, prev)
		case kind < 65:
			pc.Shape = "delay_within_limit"
			pc.Script, mine = g.okScript(pc.Shape, prev)
			if c.LimitMs > 0 && c.LimitMs < 5000 {
				pc.Script.SleepMs = 0
			}
		case kind < 98:
			pc.Shape = rapid.SampledFrom(faultShapes).Draw(rt, "fault")
			pc.Script, _ = g.okScript(rapid.SampledFrom(okShapes).Draw(rt, "shape"), prev)
			switch pc.Shape {
			case "error_string":
				e := "boom " + g.tok()
				pc.Script.Error = &e
			case "exit_status":
				pc.Script.Exit = rapid.SampledFrom([]int{1, 2, 3, 97, 127, 255}).Draw(rt, "exit")
			case "truncated_stdout":
				n := rapid.IntRange(0, 999).Draw(rt, "permille")
				pc.Script.Trunc = &n
			case "garbage_stdout":
				pc.Script.UseGarb = true
				pc.Script.Garbage = []byte(rapid.SampledFrom(garbageSamples).Draw(rt, "garbage"))
				if vt.Known(prop, "garbled-stdout-panic-exit0") && pc.Script.Garbage[0] >= 0x80 {
					// a field type byte >= 0x80 makes UnmarshalResponse panic (exit 0): keep the bytes unknown-typed but below 0x80
					pc.Script.Garbage[0] = 0x7f
					vt.Excluded("garbled-stdout-panic-exit0")
				}
			case "empty_stdout":
				pc.Script.UseGarb = true
			}
		default:
			pc.Shape = "timeout"
			pc.Script, _ = g.okScript("files", nil)
			c.LimitMs = rapid.SampledFrom([]int{500, 1500}).Draw(rt, "limitms")
			pc.Script.SleepMs = 80 * c.LimitMs
			// the sleeper runs first: on a loaded machine an earlier, well-behaved
			// plugin could itself exceed so short a limit
			c.Plugins, prev = nil, nil
		}
		prev = append(prev, mine...)
		c.Plugins = append(c.Plugins, pc)
	}
	return c
}

func e2eKey(c e2eCase) string {
	b, _ := json.Marshal(c)
	return string(b)
}

func TestEndToEnd(t *testing.T) {
	rapid.Check(t, func(rt *rapid.T) {
		c := genE2E(rt)
		vt.Eval()
		inf, err := judgeE2E(c)
		vt.Class("e2e_runs")
		vt.ClassIf(inf.ran, "e2e_plugin_ran")
		vt.ClassIf(inf.diamond, "e2e:diamond_include_graph")
		vt.ClassIf(inf.extRef, "e2e:resolved_external_reference")
		vt.ClassIf(inf.compression, "compression_on(end-to-end)")
		vt.ClassIf(len(c.Plugins) > 1, "e2e:two_plugins")
		vt.Class("out:" + c.OutMode)
		for i, p := range c.Plugins {
			if inf.ran && (inf.fault == "" || i <= inf.faultAt) { // later ones never run
				vt.Class("shape:" + p.Shape)
			}
		}
		vt.ClassIf(inf.ran && inf.fault != "", "fault:"+inf.fault)
		if inf.ran && (inf.fault != "" || (inf.diamond && inf.extRef)) {
			vt.Nontrivial(e2eKey(c))
		}
		shapes := []string{}
		for _, p := range c.Plugins {
			shapes = append(shapes, p.Shape)
		}
		vt.Sample(map[string]interface{}{"test": "e2e", "files": len(c.Files), "gen": compact("go", c.GenOpts), "shapes": shapes, "compress": c.Compress, "out": c.OutMode})
		settle(rt, "e2e", c, err)
	})
}

func TestReplay(t *testing.T) {
	vt.Replay(t, prop, map[string]vt.Handler{
		"roundtrip": func(raw json.RawMessage) error {
			var c reqCase
			if err := vt.Decode(raw, &c); err != nil {
				return err
			}
			_, err := judgeRoundTrip(c)
			return replayErr(err)
		},
		"compress": func(raw json.RawMessage) error {
			var c reqCase
			if err := vt.Decode(raw, &c); err != nil {
				return err
			}
			_, err := judgeCompress(c)
			return replayErr(err)
		},
		"options": func(raw json.RawMessage) error {
			var c optCase
			if err := vt.Decode(raw, &c); err != nil {
				return err
			}
			return replayErr(judgeOptions(c))
		},
		"e2e": func(raw json.RawMessage) error {
			var c e2eCase
			if err := vt.Decode(raw, &c); err != nil {
				return err
			}
			_, err := judgeE2E(c)
			return replayErr(err)
		},
	})
}
