package c15

// What a file descriptor must STATE, as plain data ("content form"), built on
// one side from the model alone (expectedFileDescriptor) and on the other side
// read off a thrift_reflection.FileDescriptor (contentOf).  The content form
// exists because (a) ConstValueDescriptor.ValueMap is keyed by pointers, which
// neither encoding/json nor idl.Diff can handle, and (b) descriptor.thrift
// leaves some representations open; the content form keeps exactly what the
// property demands and nothing else (see the comments marked ORACLE).

import (
	"fmt"
	"reflect"
	"sort"
	"strings"

	tr "github.com/cloudwego/thriftgo/thrift_reflection"

	"verif/internal/idl"
)

// xRef says what a written type name (or base service name) denotes according
// to the model: the definition, and what it finally is behind typedefs.  It is
// not part of the descriptor content (ignored by the content comparison); the
// lookup oracle uses it.
type xRef struct {
	Kind      string `json:"kind"` // struct union exception enum typedef service
	File      string `json:"file"`
	Name      string `json:"name"`
	FinalKind string `json:"final_kind,omitempty"` // struct union exception enum, or the written base type name
	FinalFile string `json:"final_file,omitempty"`
	FinalName string `json:"final_name,omitempty"`
}

type xType struct {
	Name  string `json:"name"`
	Key   *xType `json:"key,omitempty"`
	Value *xType `json:"value,omitempty"`
	Ref   *xRef  `json:"ref,omitempty"`
}

type xEntry struct {
	Key   *xValue `json:"key"`
	Value *xValue `json:"value"`
}

type xValue struct {
	Kind   string    `json:"kind"` // int double string bool ident list map
	Int    int64     `json:"int,omitempty"`
	Double float64   `json:"double,omitempty"`
	Str    string    `json:"str,omitempty"`
	Bool   bool      `json:"bool,omitempty"`
	Ident  string    `json:"ident,omitempty"`
	List   []*xValue `json:"list,omitempty"`
	Map    []xEntry  `json:"map,omitempty"` // sorted by the canonical text of the entry (a map states no order)
}

type xField struct {
	ID      int32               `json:"id"`
	Name    string              `json:"name"`
	Req     string              `json:"req"` // required optional default
	Type    *xType              `json:"type"`
	Default *xValue             `json:"default,omitempty"`
	Annos   map[string][]string `json:"annos,omitempty"`
	Comment string              `json:"comment,omitempty"`
}

type xStruct struct {
	Name    string              `json:"name"`
	Fields  []xField            `json:"fields"`
	Annos   map[string][]string `json:"annos,omitempty"`
	Comment string              `json:"comment,omitempty"`
}

type xEnumValue struct {
	Name    string              `json:"name"`
	Value   int64               `json:"value"`
	Annos   map[string][]string `json:"annos,omitempty"`
	Comment string              `json:"comment,omitempty"`
}

type xEnum struct {
	Name    string              `json:"name"`
	Values  []xEnumValue        `json:"values"`
	Annos   map[string][]string `json:"annos,omitempty"`
	Comment string              `json:"comment,omitempty"`
}

type xTypedef struct {
	Alias   string              `json:"alias"`
	Type    *xType              `json:"type"`
	Annos   map[string][]string `json:"annos,omitempty"`
	Comment string              `json:"comment,omitempty"`
}

type xConst struct {
	Name    string              `json:"name"`
	Type    *xType              `json:"type"`
	Value   *xValue             `json:"value"`
	Annos   map[string][]string `json:"annos,omitempty"`
	Comment string              `json:"comment,omitempty"`
}

type xMethod struct {
	Name    string              `json:"name"`
	Oneway  bool                `json:"oneway"`
	Ret     *xType              `json:"ret,omitempty"` // nil: void
	Args    []xField            `json:"args"`
	Throws  []xField            `json:"throws"`
	Annos   map[string][]string `json:"annos,omitempty"`
	Comment string              `json:"comment,omitempty"`
}

type xService struct {
	Name    string              `json:"name"`
	Base    string              `json:"base,omitempty"`
	BaseRef *xRef               `json:"base_ref,omitempty"`
	Methods []xMethod           `json:"methods"`
	Annos   map[string][]string `json:"annos,omitempty"`
	Comment string              `json:"comment,omitempty"`
}

type xInclude struct {
	Alias string `json:"alias"`
	Path  string `json:"path"`
}

type xFile struct {
	Path       string            `json:"path"`
	Includes   []xInclude        `json:"includes"` // sorted by alias, path
	Namespaces map[string]string `json:"namespaces"`
	Structs    []xStruct         `json:"structs"`
	Unions     []xStruct         `json:"unions"`
	Exceptions []xStruct         `json:"exceptions"`
	Enums      []xEnum           `json:"enums"`
	Typedefs   []xTypedef        `json:"typedefs"`
	Consts     []xConst          `json:"consts"`
	Services   []xService        `json:"services"`
}

// refs are not descriptor content
var ignoreRefs = map[string]bool{"Ref": true, "BaseRef": true}

// ---------- expected content, from the model alone ----------

func expAnnos(as []idl.Anno) map[string][]string {
	m := map[string][]string{}
	for _, a := range as {
		m[a.Key] = append(m[a.Key], a.Val.Text()) // every value, in source order
	}
	return m
}

func expRef(d *idl.Def) *xRef {
	r := &xRef{Kind: d.Kind.String(), File: d.File.Path, Name: d.Name}
	if d.Kind == idl.KService {
		return r
	}
	fin := (&idl.Type{Ref: d}).Final()
	if fin.Ref != nil {
		r.FinalKind, r.FinalFile, r.FinalName = fin.Ref.Kind.String(), fin.Ref.File.Path, fin.Ref.Name
	} else {
		r.FinalKind = fin.Base
	}
	return r
}

// expType: a type is stated by its name as written in the file that uses it
// (a definition of an included file is named "<include alias>.<Name>", which
// FileDescriptor.includes maps to a path), containers by their key/value types.
func expType(from *idl.File, t *idl.Type) *xType {
	if t == nil {
		return nil
	}
	switch {
	case t.Ref != nil:
		return &xType{Name: idl.TypeRefText(from, t.Ref), Ref: expRef(t.Ref)}
	case t.Base == "map":
		return &xType{Name: "map", Key: expType(from, t.Key), Value: expType(from, t.Elem)}
	case t.Base == "list" || t.Base == "set":
		return &xType{Name: t.Base, Value: expType(from, t.Elem)}
	}
	return &xType{Name: t.Base}
}

func expValue(v *idl.Value) *xValue {
	if v == nil {
		return nil
	}
	switch v.Kind {
	case idl.VInt:
		return &xValue{Kind: "int", Int: v.Int}
	case idl.VDouble:
		return &xValue{Kind: "double", Double: v.Dbl}
	case idl.VLit:
		return &xValue{Kind: "string", Str: v.Lit.Text()}
	case idl.VIdent:
		if v.IsBoolKw {
			return &xValue{Kind: "bool", Bool: v.Ident == "true"}
		}
		return &xValue{Kind: "ident", Ident: v.Ident}
	case idl.VList:
		r := &xValue{Kind: "list"}
		for _, e := range v.List {
			r.List = append(r.List, expValue(e))
		}
		return r
	case idl.VMap:
		r := &xValue{Kind: "map"}
		for i, e := range v.List {
			r.Map = append(r.Map, xEntry{Key: expValue(v.Keys[i]), Value: expValue(e)})
		}
		sortEntries(r.Map)
		return r
	}
	return nil
}

func canonValue(v *xValue) string {
	if v == nil {
		return "nil"
	}
	switch v.Kind {
	case "int":
		return fmt.Sprintf("i%d", v.Int)
	case "double":
		return fmt.Sprintf("d%v", v.Double)
	case "string":
		return fmt.Sprintf("s%q", v.Str)
	case "bool":
		return fmt.Sprintf("b%v", v.Bool)
	case "ident":
		return "id:" + v.Ident
	case "list":
		var p []string
		for _, e := range v.List {
			p = append(p, canonValue(e))
		}
		return "[" + strings.Join(p, ",") + "]"
	case "map":
		var p []string
		for _, e := range v.Map {
			p = append(p, canonValue(e.Key)+":"+canonValue(e.Value))
		}
		return "{" + strings.Join(p, ",") + "}"
	}
	return "?" + v.Kind
}

func sortEntries(es []xEntry) {
	sort.SliceStable(es, func(i, j int) bool {
		return canonValue(es[i].Key)+":"+canonValue(es[i].Value) < canonValue(es[j].Key)+":"+canonValue(es[j].Value)
	})
}

const (
	posStruct = iota // struct / exception member
	posUnion
	posArg
	posThrow
)

// expReq — ORACLE: requiredness is compared as one of required / optional /
// default, case-insensitively (descriptor.thrift writes the words in lower
// case, FieldDescriptor.IsOptional compares with "Optional").  A union member
// and a throws entry are optional by the language's definition whatever is
// written (the semantic checker normalises them to optional and says so in a
// warning), so in these two positions "default" and "optional" state the same
// thing and are not distinguished.
func expReq(r idl.Req, pos int) string {
	s := [...]string{"default", "required", "optional"}[r]
	return foldReq(s, pos)
}

func foldReq(s string, pos int) string {
	s = strings.ToLower(s)
	if (pos == posUnion || pos == posThrow) && s == "default" {
		return "optional"
	}
	return s
}

func expFields(from *idl.File, fs []*idl.Field, pos int) []xField {
	r := []xField{}
	for _, f := range fs {
		r = append(r, xField{ID: f.ID, Name: f.Name, Req: expReq(f.Req, pos), Type: expType(from, f.Type),
			Default: expValue(f.Default), Annos: expAnnos(f.Annos)})
	}
	return r
}

// expectedFileDescriptor states, from the model alone, what the descriptor of
// file f must say.
func expectedFileDescriptor(f *idl.File) *xFile {
	x := &xFile{Path: f.Path, Namespaces: map[string]string{}}
	for _, inc := range f.Includes {
		x.Includes = append(x.Includes, xInclude{Alias: inc.Prefix(), Path: inc.Path})
	}
	sortIncludes(x.Includes)
	for _, ns := range f.Namespaces {
		x.Namespaces[ns.Lang] = ns.Name
	}
	for _, d := range f.Defs {
		an, cm := expAnnos(d.Annos), d.Comment
		switch d.Kind {
		case idl.KConst:
			x.Consts = append(x.Consts, xConst{Name: d.Name, Type: expType(f, d.Type), Value: expValue(d.Value), Annos: an, Comment: cm})
		case idl.KTypedef:
			x.Typedefs = append(x.Typedefs, xTypedef{Alias: d.Name, Type: expType(f, d.Type), Annos: an, Comment: cm})
		case idl.KEnum:
			e := xEnum{Name: d.Name, Annos: an, Comment: cm, Values: []xEnumValue{}}
			for _, v := range d.Values {
				e.Values = append(e.Values, xEnumValue{Name: v.Name, Value: v.Value, Annos: expAnnos(v.Annos)})
			}
			x.Enums = append(x.Enums, e)
		case idl.KStruct:
			x.Structs = append(x.Structs, xStruct{Name: d.Name, Fields: expFields(f, d.Fields, posStruct), Annos: an, Comment: cm})
		case idl.KException:
			x.Exceptions = append(x.Exceptions, xStruct{Name: d.Name, Fields: expFields(f, d.Fields, posStruct), Annos: an, Comment: cm})
		case idl.KUnion:
			x.Unions = append(x.Unions, xStruct{Name: d.Name, Fields: expFields(f, d.Fields, posUnion), Annos: an, Comment: cm})
		case idl.KService:
			s := xService{Name: d.Name, Annos: an, Comment: cm, Methods: []xMethod{}}
			if d.Extends != nil {
				s.Base = idl.TypeRefText(f, d.Extends)
				s.BaseRef = expRef(d.Extends)
			}
			for _, fn := range d.Funcs {
				s.Methods = append(s.Methods, xMethod{Name: fn.Name, Oneway: fn.Oneway, Ret: expType(f, fn.Ret),
					Args: expFields(f, fn.Args, posArg), Throws: expFields(f, fn.Throws, posThrow), Annos: expAnnos(fn.Annos)})
			}
			x.Services = append(x.Services, s)
		}
	}
	return x
}

func sortIncludes(is []xInclude) {
	sort.Slice(is, func(i, j int) bool {
		if is[i].Alias != is[j].Alias {
			return is[i].Alias < is[j].Alias
		}
		return is[i].Path < is[j].Path
	})
}

// ---------- content of an actual descriptor ----------

// commentContent — ORACLE: descriptor.thrift only says `string comments`; the
// builder stores the comment block verbatim with its markers ("// text", "#"
// rewritten to "//", block comments as written).  What is asserted is the
// text: markers and surrounding blanks are removed, lines joined by "\n".
func commentContent(raw string) string {
	var out []string
	for _, ln := range strings.Split(raw, "\n") {
		ln = strings.TrimSpace(ln)
		switch {
		case strings.HasPrefix(ln, "//"):
			ln = ln[2:]
		case strings.HasPrefix(ln, "#"):
			ln = ln[1:]
		}
		ln = strings.TrimPrefix(ln, "/*")
		ln = strings.TrimSuffix(ln, "*/")
		ln = strings.TrimSpace(ln)
		if ln != "" {
			out = append(out, ln)
		}
	}
	return strings.Join(out, "\n")
}

func actType(t *tr.TypeDescriptor) *xType {
	if t == nil {
		return nil
	}
	return &xType{Name: t.Name, Key: actType(t.KeyType), Value: actType(t.ValueType)}
}

// actValue — ORACLE: a constant value is read by its declared type tag; only
// the member that the tag selects is looked at.  An identifier is compared by
// its text as written (descriptor.thrift: "for identifier, such as another
// constant's name"), `true`/`false` are the BOOL values, a map is a set of
// entries (the schema's map cannot state an order).
func actValue(v *tr.ConstValueDescriptor) *xValue {
	if v == nil {
		return nil
	}
	switch v.Type {
	case tr.ConstValueType_INT:
		return &xValue{Kind: "int", Int: v.ValueInt}
	case tr.ConstValueType_DOUBLE:
		return &xValue{Kind: "double", Double: v.ValueDouble}
	case tr.ConstValueType_STRING:
		return &xValue{Kind: "string", Str: v.ValueString}
	case tr.ConstValueType_BOOL:
		return &xValue{Kind: "bool", Bool: v.ValueBool}
	case tr.ConstValueType_IDENTIFIER:
		return &xValue{Kind: "ident", Ident: v.ValueIdentifier}
	case tr.ConstValueType_LIST:
		r := &xValue{Kind: "list"}
		for _, e := range v.ValueList {
			r.List = append(r.List, actValue(e))
		}
		return r
	case tr.ConstValueType_MAP:
		r := &xValue{Kind: "map"}
		for k, e := range v.ValueMap {
			r.Map = append(r.Map, xEntry{Key: actValue(k), Value: actValue(e)})
		}
		sortEntries(r.Map)
		return r
	}
	return &xValue{Kind: fmt.Sprintf("unknown(%d)", int64(v.Type))}
}

func actFields(fs []*tr.FieldDescriptor, pos int) []xField {
	r := []xField{}
	for _, f := range fs {
		if f == nil {
			r = append(r, xField{Name: "<nil field descriptor>"})
			continue
		}
		r = append(r, xField{ID: f.ID, Name: f.Name, Req: foldReq(f.Requiredness, pos), Type: actType(f.Type),
			Default: actValue(f.DefaultValue), Annos: f.Annotations, Comment: commentContent(f.Comments)})
	}
	return r
}

func actStructs(ss []*tr.StructDescriptor, pos int) []xStruct {
	var r []xStruct
	for _, s := range ss {
		if s == nil {
			r = append(r, xStruct{Name: "<nil struct descriptor>"})
			continue
		}
		r = append(r, xStruct{Name: s.Name, Fields: actFields(s.Fields, pos), Annos: s.Annotations, Comment: commentContent(s.Comments)})
	}
	return r
}

// contentOf reads the content form off an actual descriptor.
func contentOf(fd *tr.FileDescriptor) *xFile {
	x := &xFile{Path: fd.Filepath, Namespaces: fd.Namespaces}
	for a, p := range fd.Includes {
		x.Includes = append(x.Includes, xInclude{Alias: a, Path: p})
	}
	sortIncludes(x.Includes)
	x.Structs = actStructs(fd.Structs, posStruct)
	x.Exceptions = actStructs(fd.Exceptions, posStruct)
	x.Unions = actStructs(fd.Unions, posUnion)
	for _, e := range fd.Enums {
		xe := xEnum{Name: e.Name, Annos: e.Annotations, Comment: commentContent(e.Comments), Values: []xEnumValue{}}
		for _, v := range e.Values {
			xe.Values = append(xe.Values, xEnumValue{Name: v.Name, Value: v.Value, Annos: v.Annotations, Comment: commentContent(v.Comments)})
		}
		x.Enums = append(x.Enums, xe)
	}
	for _, t := range fd.Typedefs {
		x.Typedefs = append(x.Typedefs, xTypedef{Alias: t.Alias, Type: actType(t.Type), Annos: t.Annotations, Comment: commentContent(t.Comments)})
	}
	for _, c := range fd.Consts {
		x.Consts = append(x.Consts, xConst{Name: c.Name, Type: actType(c.Type), Value: actValue(c.Value), Annos: c.Annotations, Comment: commentContent(c.Comments)})
	}
	for _, s := range fd.Services {
		xs := xService{Name: s.Name, Base: s.Base, Annos: s.Annotations, Comment: commentContent(s.Comments), Methods: []xMethod{}}
		for _, m := range s.Methods {
			xm := xMethod{Name: m.Name, Oneway: m.IsOneway, Ret: actType(m.Response), Args: actFields(m.Args, posArg),
				Throws: actFields(m.ThrowExceptions, posThrow), Annos: m.Annotations, Comment: commentContent(m.Comments)}
			// ORACLE: descriptor.thrift says the response of a oneway method "should be
			// nil"; the builder states a type named "void" for every void method.  Both
			// say "returns nothing"; they are not distinguished.
			if xm.Ret != nil && xm.Ret.Name == "void" && xm.Ret.Key == nil && xm.Ret.Value == nil {
				xm.Ret = nil
			}
			xs.Methods = append(xs.Methods, xm)
		}
		x.Services = append(x.Services, xs)
	}
	return x
}

// filepaths checks that every part of the descriptor names the file it was
// built from (descriptor.thrift: "filepath // the name of idl file"; the type
// descriptors' filepath is what lookups start from).
func filepaths(fd *tr.FileDescriptor) error {
	want := fd.Filepath
	var bad string
	chk := func(where, got string) {
		if got != want && bad == "" {
			bad = fmt.Sprintf("%s has filepath %q, the file is %q", where, got, want)
		}
	}
	var typ func(where string, t *tr.TypeDescriptor)
	typ = func(where string, t *tr.TypeDescriptor) {
		if t == nil {
			return
		}
		chk(where, t.Filepath)
		typ(where+".key", t.KeyType)
		typ(where+".value", t.ValueType)
	}
	fields := func(where string, fs []*tr.FieldDescriptor) {
		for _, f := range fs {
			chk(where+"."+f.Name, f.Filepath)
			typ(where+"."+f.Name+":type", f.Type)
		}
	}
	for _, ss := range [][]*tr.StructDescriptor{fd.Structs, fd.Unions, fd.Exceptions} {
		for _, s := range ss {
			chk("struct-like "+s.Name, s.Filepath)
			fields(s.Name, s.Fields)
		}
	}
	for _, e := range fd.Enums {
		chk("enum "+e.Name, e.Filepath)
		for _, v := range e.Values {
			chk("enum value "+e.Name+"."+v.Name, v.Filepath)
		}
	}
	for _, t := range fd.Typedefs {
		chk("typedef "+t.Alias, t.Filepath)
		typ("typedef "+t.Alias+":type", t.Type)
	}
	for _, c := range fd.Consts {
		chk("const "+c.Name, c.Filepath)
		typ("const "+c.Name+":type", c.Type)
	}
	for _, s := range fd.Services {
		chk("service "+s.Name, s.Filepath)
		for _, m := range s.Methods {
			chk("method "+s.Name+"."+m.Name, m.Filepath)
			typ("method "+s.Name+"."+m.Name+":response", m.Response)
			fields(s.Name+"."+m.Name+":args", m.Args)
			fields(s.Name+"."+m.Name+":throws", m.ThrowExceptions)
		}
	}
	if bad != "" {
		return fmt.Errorf("%s", bad)
	}
	return nil
}

// ---------- plain form, for the encode/decode identity ----------

// plain turns any value into a tree of map[string]interface{} / []interface{}
// / scalars that idl.Diff can compare: struct fields by name, slices in order,
// maps as entry lists sorted by the canonical text of the key (so maps keyed
// by pointers compare by what the keys say), nil pointers as nil.
func plain(v reflect.Value) interface{} {
	if !v.IsValid() {
		return nil
	}
	switch v.Kind() {
	case reflect.Ptr, reflect.Interface:
		if v.IsNil() {
			return nil
		}
		return plain(v.Elem())
	case reflect.Struct:
		m := map[string]interface{}{}
		for i := 0; i < v.NumField(); i++ {
			if v.Type().Field(i).PkgPath != "" {
				continue
			}
			m[v.Type().Field(i).Name] = plain(v.Field(i))
		}
		return m
	case reflect.Slice, reflect.Array:
		r := []interface{}{}
		for i := 0; i < v.Len(); i++ {
			r = append(r, plain(v.Index(i)))
		}
		return r
	case reflect.Map:
		type ent struct {
			k string
			v interface{}
		}
		var es []ent
		for _, k := range v.MapKeys() {
			kp := plain(k)
			es = append(es, ent{fmt.Sprintf("%v", canonPlain(kp)), []interface{}{kp, plain(v.MapIndex(k))}})
		}
		sort.SliceStable(es, func(i, j int) bool { return es[i].k < es[j].k })
		r := []interface{}{}
		for _, e := range es {
			r = append(r, e.v)
		}
		return r
	case reflect.Int, reflect.Int8, reflect.Int16, reflect.Int32, reflect.Int64:
		return v.Int()
	case reflect.Float32, reflect.Float64:
		return v.Float()
	case reflect.Bool:
		return v.Bool()
	case reflect.String:
		return v.String()
	}
	if v.CanInterface() {
		return v.Interface()
	}
	return nil
}

// canonPlain renders a plain tree deterministically (map keys sorted).
func canonPlain(p interface{}) string {
	switch x := p.(type) {
	case nil:
		return "nil"
	case map[string]interface{}:
		ks := make([]string, 0, len(x))
		for k := range x {
			ks = append(ks, k)
		}
		sort.Strings(ks)
		var b strings.Builder
		b.WriteString("{")
		for _, k := range ks {
			b.WriteString(k + ":" + canonPlain(x[k]) + ";")
		}
		b.WriteString("}")
		return b.String()
	case []interface{}:
		var b strings.Builder
		b.WriteString("[")
		for _, e := range x {
			b.WriteString(canonPlain(e) + ",")
		}
		b.WriteString("]")
		return b.String()
	case string:
		return fmt.Sprintf("%q", x)
	}
	return fmt.Sprintf("%v", p)
}
