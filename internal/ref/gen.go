package ref

import (
	"math"

	"pgregory.net/rapid"

	"verif/internal/idl"
)

// GenOpts tune the value generator.
type GenOpts struct {
	MaxDepth  int  // nesting depth of structs/containers (default 3)
	NoNaN     bool // no NaN doubles anywhere
	MaxLen    int  // container length bound (default 3)
	AllFields bool // set every optional field
}

func (o GenOpts) depth() int {
	if o.MaxDepth == 0 {
		return 3
	}
	return o.MaxDepth
}
func (o GenOpts) maxLen() int {
	if o.MaxLen == 0 {
		return 3
	}
	return o.MaxLen
}

// GenStruct draws a value of a struct-like.  Unions get exactly one member
// (nil is returned for a union without usable members).
func GenStruct(rt *rapid.T, st *StructT, o GenOpts) *StructV {
	return genStruct(rt, st, o, o.depth())
}

func genStruct(rt *rapid.T, st *StructT, o GenOpts, depth int) *StructV {
	v := NewStruct()
	if st.Kind == "union" {
		var cands []*FieldT
		for _, f := range st.Fields {
			if depth > 0 || f.Type.Kind != Struct {
				cands = append(cands, f)
			}
		}
		if len(cands) == 0 {
			return nil
		}
		f := rapid.SampledFrom(cands).Draw(rt, "member")
		fv := genValue(rt, f.Type, o, depth-1, false)
		if fv == nil {
			return nil
		}
		if f.HasDef && HoldsDefault(f, fv) {
			// a member holding its declared default counts as unset (optional-with-default rule),
			// so such a union has no member set and cannot be written: not a value of the union
			return nil
		}
		v.F[f.ID] = fv
		return v
	}
	for _, f := range st.Fields {
		optional := f.Req == idl.ReqOptional
		if optional && !o.AllFields && rapid.IntRange(0, 2).Draw(rt, "present") == 0 {
			continue
		}
		if f.HasDef && rapid.IntRange(0, 2).Draw(rt, "usedefault") == 0 {
			// the declared default as the object holds it; a literal that leaves out
			// required struct fields is not a value a reader accepts: draw another
			// (and one that leaves out any non-optional struct field is a nil pointer there: what it
			// means on the wire differs between the write and the read direction)
			if d := WireForm(f.Type, f.Default, 0); Readable(f.Type, d) && Equal(d, WireForm(f.Type, d, 0)) && Equal(Normalise(f.Type, d), Normalise(f.Type, f.Default)) {
				v.F[f.ID] = d
				continue
			}
		}
		if f.Type.Kind == Struct && depth <= 0 {
			if optional {
				continue
			}
		}
		fv := genValue(rt, f.Type, o, depth-1, false)
		if fv == nil {
			if optional {
				continue
			}
			// a non-optional union-typed field whose union cannot be built: leave the struct without it is not
			// possible on the wire; callers treat a nil struct as "cannot build"
			return nil
		}
		v.F[f.ID] = fv
	}
	return v
}

var edgeDoubles = []float64{0, math.Copysign(0, -1), 1, -1.5, math.Inf(1), math.Inf(-1), math.MaxFloat64, math.SmallestNonzeroFloat64, 1e23}

func genValue(rt *rapid.T, t *Type, o GenOpts, depth int, unique bool) V {
	switch t.Kind {
	case Bool:
		return rapid.Bool().Draw(rt, "bool")
	case Byte:
		return int64(rapid.Int8().Draw(rt, "byte"))
	case I16:
		return int64(rapid.Int16().Draw(rt, "i16"))
	case I32:
		return int64(rapid.Int32().Draw(rt, "i32"))
	case I64:
		return rapid.Int64().Draw(rt, "i64")
	case Enum:
		if len(t.Enum.Values) > 0 && rapid.IntRange(0, 4).Draw(rt, "knownmember") > 0 {
			return rapid.SampledFrom(t.Enum.Values).Draw(rt, "member").Value
		}
		return int64(rapid.Int32().Draw(rt, "enumnum"))
	case Double:
		switch rapid.IntRange(0, 3).Draw(rt, "dblshape") {
		case 0:
			d := rapid.SampledFrom(edgeDoubles).Draw(rt, "edge")
			if unique && d == 0 {
				return float64(0) // -0 and 0 are one element for Go's ==
			}
			return d
		case 1:
			if !o.NoNaN && !unique {
				return math.NaN()
			}
			return 2.5
		default:
			d := rapid.Float64().Draw(rt, "dbl")
			if unique && d == 0 {
				return float64(0) // rapid draws -0 too
			}
			return d
		}
	case String:
		return []byte(rapid.StringOfN(rapid.RuneFrom([]rune("abcXYZ09 _\"\\'\n\t\u00e9\u4e16\U0001F600")), 0, 6, -1).Draw(rt, "str"))
	case Binary:
		return rapid.SliceOfN(rapid.Byte(), 0, 6).Draw(rt, "bin")
	case List, Set:
		l := &ListV{E: []V{}}
		if depth < 0 {
			return l
		}
		n := rapid.IntRange(0, o.maxLen()).Draw(rt, "len")
		for i := 0; i < n; i++ {
			e := genValue(rt, t.Elem, o, depth-1, t.Kind == Set || unique)
			if e == nil {
				continue
			}
			if t.Kind == Set && containsNorm(t.Elem, l.E, e) {
				continue
			}
			l.E = append(l.E, e)
		}
		return l
	case Map:
		m := &MapV{K: []V{}, E: []V{}}
		if depth < 0 {
			return m
		}
		n := rapid.IntRange(0, o.maxLen()).Draw(rt, "len")
		for i := 0; i < n; i++ {
			k := genValue(rt, t.Key, o, depth-1, true)
			if k == nil || containsNorm(t.Key, m.K, k) {
				continue
			}
			e := genValue(rt, t.Elem, o, depth-1, unique)
			if e == nil {
				continue
			}
			m.K = append(m.K, k)
			m.E = append(m.E, e)
		}
		return m
	}
	if depth < -1 {
		// deep enough: the smallest value of the struct (only non-optional fields, recursively small)
		return minimalStruct(t.Struct, 4)
	}
	sv := genStruct(rt, t.Struct, o, depth)
	if sv == nil {
		return nil
	}
	return sv
}

// minimalStruct builds a value with only the non-optional fields (zero values).
func minimalStruct(st *StructT, fuel int) V {
	if fuel < 0 {
		return nil
	}
	v := NewStruct()
	if st.Kind == "union" {
		for _, f := range st.Fields {
			if f.Type.Kind != Struct {
				v.F[f.ID] = Zero(f.Type)
				return v
			}
		}
		for _, f := range st.Fields {
			if x := minimalStruct(f.Type.Struct, fuel-1); x != nil {
				v.F[f.ID] = x
				return v
			}
		}
		return nil
	}
	for _, f := range st.Fields {
		if f.Req == idl.ReqOptional {
			continue
		}
		if f.Type.Kind == Struct {
			x := minimalStruct(f.Type.Struct, fuel-1)
			if x == nil {
				return nil
			}
			v.F[f.ID] = x
			continue
		}
		v.F[f.ID] = Zero(f.Type)
	}
	return v
}

// containsNorm: equality of set elements and map keys is equality of what the
// generated code sees (an optional field holding its default is unset, -0 is 0).
func containsNorm(t *Type, vs []V, v V) bool {
	n := Normalise(t, v)
	for _, x := range vs {
		if Equal(Normalise(t, x), n) {
			return true
		}
	}
	return false
}

func contains(vs []V, v V) bool {
	for _, x := range vs {
		if Equal(x, v) {
			return true
		}
	}
	return false
}
