package c15

import (
	"bytes"
	"fmt"
	"go/ast"
	"go/parser"
	"go/token"
	"os"
	"path/filepath"
	"sort"
	"strconv"
	"strings"

	"verif/internal/drv"
)

// reflSrc adds the operations `descriptors` and `lookup` to the driver
// (package vdriver of the scratch module).  The driver states nothing about
// the IDL: it calls what the generated packages and thrift_reflection offer
// and reports what came back, naming every descriptor by WHERE the run-time
// registry holds that very pointer ("struct|d1/base.thrift|S": the object is
// element S of the Structs list of the descriptor registered for that path);
// the comparison with the model happens on the harness side.
//
//	descriptors {probe: [ints]} ->
//	  registered: path -> Go package path        (GlobalDescriptor.ShowRegisterInfo)
//	  files:  one entry per GetFileDescriptorFor* function of a generated package:
//	          pkg, func, path, hex (thrift_reflection's own Marshal), registered_same
//	  types:  one entry per struct type of the driver registry: GetDescriptor /
//	          GetTypeDescriptor of the object, GetStructDescriptorByGoType and
//	          StructDescriptor.GetGoType
//	  enums:  the same for every enum Go type (GetEnumDescriptorByGoType), plus
//	          String() of the probe numbers
//	  refs:   every named type occurrence of every registered descriptor with the
//	          result of the five lookups through the type descriptor and of
//	          following the typedef descriptors to the end
//	lookup {queries: [...]} -> answers: [...]   (by name / id, through a file or the registry)
//
// A panic of the code under test is data (`panic`) on the entry it belongs to.
const reflSrc = `package vdriver

import (
	"encoding/hex"
	"fmt"
	"reflect"
	"sort"
	"strconv"

	tr "github.com/cloudwego/thriftgo/thrift_reflection"
)

type xreflFD struct {
	Pkg, Func string
	Fn        interface{}
}

type xreflEnum struct {
	Pkg, GoName string
	T           reflect.Type
}

var xreflFDs []xreflFD
var xreflEnums []xreflEnum

// RegisterFD / RegisterEnum are called from zz_verif_refl.go of every generated package.
func RegisterFD(pkg, fn string, f interface{}) { xreflFDs = append(xreflFDs, xreflFD{pkg, fn, f}) }
func RegisterEnum(pkg, goName string, zero interface{}) {
	xreflEnums = append(xreflEnums, xreflEnum{pkg, goName, reflect.TypeOf(zero)})
}

type xreflIdx struct {
	gd    *tr.GlobalDescriptor
	ids   map[interface{}]string
	paths []string
}

func xreflNil(v interface{}) bool {
	if v == nil {
		return true
	}
	rv := reflect.ValueOf(v)
	return rv.Kind() == reflect.Ptr && rv.IsNil()
}

func xreflBuild() *xreflIdx {
	// a descriptor without a registry tag belongs to the process-wide registry,
	// the one the generated init functions fill
	gd := tr.GetGlobalDescriptor(tr.NewTypeDescriptor())
	x := &xreflIdx{gd: gd, ids: map[interface{}]string{}}
	for p := range gd.ShowRegisterInfo() {
		x.paths = append(x.paths, p)
	}
	sort.Strings(x.paths)
	for _, p := range x.paths {
		fd := gd.LookupFD(p)
		if fd == nil {
			continue
		}
		x.ids[fd] = "file|" + p
		for _, s := range fd.Structs {
			if s != nil {
				x.ids[s] = "struct|" + p + "|" + s.Name
			}
		}
		for _, s := range fd.Unions {
			if s != nil {
				x.ids[s] = "union|" + p + "|" + s.Name
			}
		}
		for _, s := range fd.Exceptions {
			if s != nil {
				x.ids[s] = "exception|" + p + "|" + s.Name
			}
		}
		for _, s := range fd.Enums {
			if s != nil {
				x.ids[s] = "enum|" + p + "|" + s.Name
			}
		}
		for _, s := range fd.Typedefs {
			if s != nil {
				x.ids[s] = "typedef|" + p + "|" + s.Alias
			}
		}
		for _, s := range fd.Consts {
			if s != nil {
				x.ids[s] = "const|" + p + "|" + s.Name
			}
		}
		for _, s := range fd.Services {
			if s == nil {
				continue
			}
			x.ids[s] = "service|" + p + "|" + s.Name
			for _, m := range s.Methods {
				if m != nil {
					x.ids[m] = "method|" + p + "|" + s.Name + "." + m.Name
				}
			}
		}
	}
	return x
}

// ident names a descriptor by its place in the registry ("" for nothing).
func (x *xreflIdx) ident(v interface{}) string {
	if xreflNil(v) {
		return ""
	}
	if id, ok := x.ids[v]; ok {
		return id
	}
	s := fmt.Sprintf("unregistered %T", v)
	rv := reflect.ValueOf(v).Elem()
	for _, f := range []string{"Filepath", "Name", "Alias"} {
		if fv := rv.FieldByName(f); fv.IsValid() && fv.Kind() == reflect.String {
			s += "|" + fv.String()
		}
	}
	return s
}

func xreflPtr(v interface{}) string {
	if xreflNil(v) {
		return ""
	}
	return fmt.Sprintf("%p", v)
}

func xreflTName(t reflect.Type) string {
	if t == nil {
		return ""
	}
	return t.PkgPath() + "." + t.Name()
}

var xreflPlain = map[string]bool{"bool": true, "byte": true, "i8": true, "i16": true, "i32": true, "i64": true, "double": true, "string": true, "binary": true,
	"map": true, "list": true, "set": true, "void": true}

func (x *xreflIdx) five(td *tr.TypeDescriptor) (map[string]interface{}, map[string]interface{}) {
	found := map[string]interface{}{}
	s, _ := td.GetStructDescriptor()
	found["struct"] = x.ident(s)
	u, _ := td.GetUnionDescriptor()
	found["union"] = x.ident(u)
	e, _ := td.GetExceptionDescriptor()
	found["exception"] = x.ident(e)
	en, _ := td.GetEnumDescriptor()
	found["enum"] = x.ident(en)
	t, _ := td.GetTypedefDescriptor()
	found["typedef"] = x.ident(t)
	preds := map[string]interface{}{"struct": td.IsStruct(), "union": td.IsUnion(), "exception": td.IsException(), "enum": td.IsEnum(), "typedef": td.IsTypedef()}
	return found, preds
}

// look runs the lookups that start at one type descriptor naming a definition.
func (x *xreflIdx) look(td *tr.TypeDescriptor) (out map[string]interface{}) {
	out = map[string]interface{}{}
	defer func() {
		if r := recover(); r != nil {
			out["panic"] = fmt.Sprint(r)
		}
	}()
	if td == nil {
		out["nil"] = true
		return
	}
	out["name"], out["filepath"] = td.Name, td.Filepath
	out["found"], out["preds"] = x.five(td)
	cur := td
	for i := 0; i < 64; i++ {
		if xreflPlain[cur.Name] {
			break
		}
		t, _ := cur.GetTypedefDescriptor()
		if t == nil {
			break
		}
		if t.Type == nil {
			out["chain_err"] = "typedef " + t.Alias + " of " + t.Filepath + " has no type"
			break
		}
		cur = t.Type
	}
	out["final_name"], out["final_filepath"] = cur.Name, cur.Filepath
	if !xreflPlain[cur.Name] {
		out["final_found"], _ = x.five(cur)
	}
	return
}

func (x *xreflIdx) walk(refs *[]interface{}, where string, td *tr.TypeDescriptor) {
	if td == nil {
		return
	}
	if !xreflPlain[td.Name] {
		e := x.look(td)
		e["where"] = where
		*refs = append(*refs, e)
	}
	x.walk(refs, where+".k", td.KeyType)
	x.walk(refs, where+".v", td.ValueType)
}

func (x *xreflIdx) refs() []interface{} {
	refs := []interface{}{}
	for _, p := range x.paths {
		fd := x.gd.LookupFD(p)
		if fd == nil {
			continue
		}
		for _, ss := range [][]*tr.StructDescriptor{fd.Structs, fd.Unions, fd.Exceptions} {
			for _, s := range ss {
				if s == nil {
					continue
				}
				for _, f := range s.Fields {
					if f != nil {
						x.walk(&refs, p+"|S|"+s.Name+"|"+f.Name, f.Type)
					}
				}
			}
		}
		for _, t := range fd.Typedefs {
			if t != nil {
				x.walk(&refs, p+"|T|"+t.Alias, t.Type)
			}
		}
		for _, c := range fd.Consts {
			if c != nil {
				x.walk(&refs, p+"|C|"+c.Name, c.Type)
			}
		}
		for _, s := range fd.Services {
			if s == nil {
				continue
			}
			for _, m := range s.Methods {
				if m == nil {
					continue
				}
				w := p + "|M|" + s.Name + "." + m.Name
				x.walk(&refs, w+"|ret", m.Response)
				for _, f := range m.Args {
					if f != nil {
						x.walk(&refs, w+"|arg|"+f.Name, f.Type)
					}
				}
				for _, f := range m.ThrowExceptions {
					if f != nil {
						x.walk(&refs, w+"|thr|"+f.Name, f.Type)
					}
				}
			}
		}
	}
	return refs
}

func xreflGuard(ent map[string]interface{}, f func()) {
	defer func() {
		if r := recover(); r != nil {
			ent["panic"] = fmt.Sprint(r)
		}
	}()
	f()
}

func xreflDescriptors(req map[string]interface{}) (resp map[string]interface{}) {
	resp = map[string]interface{}{}
	defer func() {
		if r := recover(); r != nil {
			resp["panic"] = fmt.Sprint(r)
		}
	}()
	x := xreflBuild()
	resp["registered"] = x.gd.ShowRegisterInfo()

	files := []interface{}{}
	for _, f := range xreflFDs {
		ent := map[string]interface{}{"pkg": f.Pkg, "func": f.Func}
		xreflGuard(ent, func() {
			out := reflect.ValueOf(f.Fn).Call(nil)[0].Interface()
			fd, ok := out.(*tr.FileDescriptor)
			if !ok {
				ent["wrong"] = fmt.Sprintf("%T", out)
				return
			}
			if fd == nil {
				ent["nil"] = true
				return
			}
			ent["path"] = fd.Filepath
			ent["registered_same"] = x.gd.LookupFD(fd.Filepath) == fd
			b, err := fd.Marshal()
			if err != nil {
				ent["err"] = err.Error()
				return
			}
			ent["hex"] = hex.EncodeToString(b)
		})
		files = append(files, ent)
	}
	resp["files"] = files

	ts := []interface{}{}
	for _, k := range typeOrder {
		e := types[k]
		ent := map[string]interface{}{"key": k, "pkg": e.Pkg, "go": e.GoName}
		xreflGuard(ent, func() {
			ent["self"] = xreflTName(e.rt.Elem())
			by := tr.GetStructDescriptorByGoType(reflect.Zero(e.rt).Interface()) // (*T)(nil), as the generated type list spells it
			ent["by_ident"], ent["by_ptr"] = x.ident(by), xreflPtr(by)
			obj := reflect.ValueOf(e.New())
			m := obj.MethodByName("GetDescriptor")
			if !m.IsValid() || m.Type().NumIn() != 0 || m.Type().NumOut() != 1 {
				return
			}
			ent["has"] = true
			out := m.Call(nil)[0].Interface()
			sd, ok := out.(*tr.StructDescriptor)
			if !ok {
				ent["wrong"] = fmt.Sprintf("%T", out)
				return
			}
			if sd == nil {
				ent["nil"] = true
			} else {
				ent["name"], ent["filepath"], ent["ident"], ent["ptr"] = sd.Name, sd.Filepath, x.ident(sd), xreflPtr(sd)
				ent["gotype_back"] = xreflTName(sd.GetGoType())
			}
			if tm := obj.MethodByName("GetTypeDescriptor"); tm.IsValid() && tm.Type().NumIn() == 0 && tm.Type().NumOut() == 1 {
				if td, ok := tm.Call(nil)[0].Interface().(*tr.TypeDescriptor); ok {
					ent["td"] = x.look(td)
				}
			}
		})
		ts = append(ts, ent)
	}
	resp["types"] = ts

	var probe []int64
	if ps, ok := req["probe"].([]interface{}); ok {
		for _, p := range ps {
			if s, ok := p.(string); ok {
				if n, err := strconv.ParseInt(s, 10, 64); err == nil {
					probe = append(probe, n)
				}
			}
		}
	}
	es := []interface{}{}
	for _, en := range xreflEnums {
		en := en
		ent := map[string]interface{}{"key": en.Pkg + "#" + en.GoName, "pkg": en.Pkg, "go": en.GoName}
		xreflGuard(ent, func() {
			ent["self"] = xreflTName(en.T)
			zp := reflect.New(en.T) // *E
			by := tr.GetEnumDescriptorByGoType(reflect.Zero(zp.Type()).Interface())
			ent["by_ident"], ent["by_ptr"] = x.ident(by), xreflPtr(by)
			strs := map[string]interface{}{}
			if sm := zp.Elem().MethodByName("String"); sm.IsValid() && sm.Type().NumIn() == 0 && sm.Type().NumOut() == 1 {
				for _, n := range probe {
					v := reflect.New(en.T).Elem()
					if v.OverflowInt(n) {
						continue
					}
					v.SetInt(n)
					if s := v.MethodByName("String").Call(nil)[0].String(); s != "<UNSET>" {
						strs[strconv.FormatInt(n, 10)] = s
					}
				}
			}
			ent["strings"] = strs
			m := zp.Elem().MethodByName("GetDescriptor")
			if !m.IsValid() {
				m = zp.MethodByName("GetDescriptor")
			}
			if !m.IsValid() || m.Type().NumIn() != 0 || m.Type().NumOut() != 1 {
				return
			}
			ent["has"] = true
			out := m.Call(nil)[0].Interface()
			ed, ok := out.(*tr.EnumDescriptor)
			if !ok {
				ent["wrong"] = fmt.Sprintf("%T", out)
				return
			}
			if ed == nil {
				ent["nil"] = true
			} else {
				ent["name"], ent["filepath"], ent["ident"], ent["ptr"] = ed.Name, ed.Filepath, x.ident(ed), xreflPtr(ed)
				ent["gotype_back"] = xreflTName(ed.GetGoType())
			}
			if tm := zp.MethodByName("GetTypeDescriptor"); tm.IsValid() && tm.Type().NumIn() == 0 && tm.Type().NumOut() == 1 {
				if td, ok := tm.Call(nil)[0].Interface().(*tr.TypeDescriptor); ok {
					ent["td"] = x.look(td)
				}
			}
		})
		es = append(es, ent)
	}
	resp["enums"] = es
	resp["refs"] = x.refs()
	return resp
}

func (x *xreflIdx) byName(fd *tr.FileDescriptor, kind, name string) interface{} {
	switch kind {
	case "struct":
		return fd.GetStructDescriptor(name)
	case "union":
		return fd.GetUnionDescriptor(name)
	case "exception":
		return fd.GetExceptionDescriptor(name)
	case "enum":
		return fd.GetEnumDescriptor(name)
	case "typedef":
		return fd.GetTypedefDescriptor(name)
	case "const":
		return fd.GetConstDescriptor(name)
	case "service":
		return fd.GetServiceDescriptor(name)
	}
	panic("harness: unknown kind " + kind)
}

func xreflGlobal(kind, name, file string) interface{} {
	switch kind {
	case "struct":
		return tr.LookupStruct(name, file)
	case "union":
		return tr.LookupUnion(name, file)
	case "exception":
		return tr.LookupException(name, file)
	case "enum":
		return tr.LookupEnum(name, file)
	case "typedef":
		return tr.LookupTypedef(name, file)
	case "const":
		return tr.LookupConst(name, file)
	case "service":
		return tr.LookupService(name, file)
	}
	panic("harness: unknown kind " + kind)
}

func xreflLookup(req map[string]interface{}) (resp map[string]interface{}) {
	resp = map[string]interface{}{}
	defer func() {
		if r := recover(); r != nil {
			resp["panic"] = fmt.Sprint(r)
		}
	}()
	x := xreflBuild()
	qs, _ := req["queries"].([]interface{})
	answers := []interface{}{}
	str := func(q map[string]interface{}, k string) string { s, _ := q[k].(string); return s }
	for _, raw := range qs {
		q, _ := raw.(map[string]interface{})
		a := map[string]interface{}{}
		xreflGuard(a, func() {
			file, kind, name := str(q, "file"), str(q, "kind"), str(q, "name")
			switch str(q, "q") {
			case "fd": // by (possibly qualified) name, starting at the descriptor of one file
				a["id"] = x.ident(x.byName(tr.LookupFD(file), kind, name))
			case "global": // through the registry, with or without a file name
				a["id"] = x.ident(xreflGlobal(kind, name, file))
			case "include":
				a["id"] = x.ident(tr.LookupFD(file).GetIncludeFD(name))
			case "field":
				sd, _ := x.byName(tr.LookupFD(file), kind, name).(*tr.StructDescriptor)
				if sd == nil {
					a["id"] = ""
					return
				}
				var f *tr.FieldDescriptor
				if fn := str(q, "field"); fn != "" {
					f = sd.GetFieldByName(fn)
				} else {
					id, _ := strconv.ParseInt(str(q, "id"), 10, 32)
					f = sd.GetFieldById(int32(id))
				}
				if f == nil {
					a["id"] = ""
					return
				}
				pos := -1
				for i, g := range sd.Fields {
					if g == f {
						pos = i
					}
				}
				a["id"] = fmt.Sprintf("field|%d|%s|%d", f.ID, f.Name, pos)
			case "parent":
				svc := tr.LookupFD(file).GetServiceDescriptor(name)
				if svc == nil {
					a["id"] = "no such service"
					return
				}
				a["id"] = x.ident(svc.GetParent())
			case "method_all":
				svc := tr.LookupFD(file).GetServiceDescriptor(name)
				if svc == nil {
					a["id"] = "no such service"
					return
				}
				a["id"] = x.ident(svc.GetMethodByNameFromAll(str(q, "method")))
				a["n"] = len(svc.GetAllMethods())
			case "method":
				a["id"] = x.ident(tr.LookupMethod(str(q, "method"), name, file))
			default:
				a["harness"] = "unknown query " + str(q, "q")
			}
		})
		answers = append(answers, a)
	}
	resp["answers"] = answers
	return resp
}

func init() {
	Hooks["descriptors"] = xreflDescriptors
	Hooks["lookup"] = xreflLookup
}
`

// reflExtra is the `extra` hook of drv.Open: it adds the operations above and
// writes zz_verif_refl.go into every generated package.  That file hands the
// package-level GetFileDescriptorFor* functions and a zero value of every enum
// type to the driver.  Both are found syntactically: the functions by their
// name and shape, the enum types as the defined (not alias) integer types that
// carry a String method with a value receiver — i.e. without asking the
// reflection code, so that a missing accessor is seen as missing.
func reflExtra(m *drv.Module) error {
	if m.Extra == nil {
		m.Extra = map[string]string{}
	}
	m.Extra["vdriver/x_refl.go"] = reflSrc
	for _, d := range m.PkgDirs {
		dir := filepath.Join(m.GenDir, d)
		// drv.Registry's zz_verif.go imports vdriver even when the package has nothing to register
		zp := filepath.Join(dir, "zz_verif.go")
		zsrc, zerr := os.ReadFile(zp)
		if zerr == nil && !bytes.Contains(zsrc, []byte("vdriver.Register")) {
			os.WriteFile(zp, append(zsrc, []byte("\nvar _ = vdriver.Hooks\n")...), 0o644)
		}
		ents, err := os.ReadDir(dir)
		if err != nil {
			return err
		}
		fset := token.NewFileSet()
		pkgName := ""
		intTypes := map[string]bool{}
		stringers := map[string]bool{}
		structTypes := map[string]bool{}
		writers := map[string]string{} // struct type -> the name its Write passes to WriteStructBegin
		var fdFuncs []string
		for _, e := range ents {
			if e.IsDir() || !strings.HasSuffix(e.Name(), ".go") || strings.HasPrefix(e.Name(), "zz_verif") {
				continue
			}
			f, err := parser.ParseFile(fset, filepath.Join(dir, e.Name()), nil, parser.SkipObjectResolution)
			if err != nil {
				return nil // drv.Registry parsed it already; leave the judgement to the build
			}
			pkgName = f.Name.Name
			for _, decl := range f.Decls {
				switch x := decl.(type) {
				case *ast.GenDecl:
					for _, sp := range x.Specs {
						ts, ok := sp.(*ast.TypeSpec)
						if !ok || ts.Assign != token.NoPos {
							continue
						}
						if id, ok := ts.Type.(*ast.Ident); ok && (id.Name == "int64" || id.Name == "int32") {
							intTypes[ts.Name.Name] = true
						}
						if _, ok := ts.Type.(*ast.StructType); ok {
							structTypes[ts.Name.Name] = true
						}
					}
				case *ast.FuncDecl:
					if x.Recv == nil {
						if strings.HasPrefix(x.Name.Name, "GetFileDescriptorFor") && x.Type.Params.NumFields() == 0 && x.Type.Results.NumFields() == 1 {
							fdFuncs = append(fdFuncs, x.Name.Name)
						}
						continue
					}
					if x.Name.Name == "String" && len(x.Recv.List) == 1 {
						if id, ok := x.Recv.List[0].Type.(*ast.Ident); ok {
							stringers[id.Name] = true
						}
					}
					if x.Name.Name == "Write" && len(x.Recv.List) == 1 && x.Body != nil {
						if st, ok := x.Recv.List[0].Type.(*ast.StarExpr); ok {
							if id, ok := st.X.(*ast.Ident); ok {
								ast.Inspect(x.Body, func(n ast.Node) bool {
									c, ok := n.(*ast.CallExpr)
									if !ok {
										return true
									}
									if sel, ok := c.Fun.(*ast.SelectorExpr); ok && sel.Sel.Name == "WriteStructBegin" && len(c.Args) == 1 {
										if lit, ok := c.Args[0].(*ast.BasicLit); ok && lit.Kind == token.STRING {
											if s, err := strconv.Unquote(lit.Value); err == nil {
												writers[id.Name] = s
											}
										}
									}
									return true
								})
							}
						}
					}
				}
			}
		}
		if pkgName == "" {
			continue
		}
		var enums []string
		for n := range intTypes {
			if stringers[n] {
				enums = append(enums, n)
			}
		}
		sort.Strings(enums)
		sort.Strings(fdFuncs)
		var b strings.Builder
		fmt.Fprintf(&b, "package %s\n\nimport \"vmod/vdriver\"\n\nvar _ = vdriver.Hooks\n\nfunc init() {\n", pkgName)
		for _, fn := range fdFuncs {
			fmt.Fprintf(&b, "\tvdriver.RegisterFD(%q, %q, %s)\n", d, fn, fn)
		}
		for _, en := range enums {
			fmt.Fprintf(&b, "\tvdriver.RegisterEnum(%q, %q, %s(0))\n", d, en, en)
		}
		// drv.Registry leaves out a struct without tagged fields that is not empty in Go
		// (an empty IDL struct under keep_unknown_fields / with_field_mask): register it here
		var missing []string
		for n := range structTypes {
			if writers[n] != "" && !bytes.Contains(zsrc, []byte(fmt.Sprintf("vdriver.RegisterType(%q, %q,", d, n))) {
				missing = append(missing, n)
			}
		}
		sort.Strings(missing)
		for _, n := range missing {
			fmt.Fprintf(&b, "\tvdriver.RegisterType(%q, %q, %q, func() interface{} { return &%s{} })\n", d, n, writers[n], n)
		}
		b.WriteString("}\n")
		if err := os.WriteFile(filepath.Join(dir, "zz_verif_refl.go"), []byte(b.String()), 0o644); err != nil {
			return err
		}
	}
	return nil
}
