// C17 — dumping an AST to IDL text and parsing it back gives the same IDL.
package c17

import (
	"encoding/json"
	"fmt"
	"math"
	"sort"
	"strings"
	"testing"

	"github.com/cloudwego/thriftgo/parser"
	"github.com/cloudwego/thriftgo/semantic"
	"github.com/cloudwego/thriftgo/tool/trimmer/dump"
	"pgregory.net/rapid"

	"verif/internal/idl"
	"verif/internal/vt"
)

const prop = "C17"

func TestMain(m *testing.M) { vt.Main(m) }

type dumpCase struct {
	Main  string            `json:"main"`
	Files map[string]string `json:"files"`
}

func front(main string, files map[string]string) (ast *parser.Thrift, err error) {
	defer func() {
		if r := recover(); r != nil {
			err = fmt.Errorf("front end panicked: %v", r)
		}
	}()
	ast, err = parser.ParseBatchString(main, files, nil)
	if err != nil {
		return nil, fmt.Errorf("parse: %w", err)
	}
	if _, err = semantic.NewChecker(semantic.Options{FixWarnings: true}).CheckAll(ast); err != nil {
		return nil, fmt.Errorf("check: %w", err)
	}
	if err = semantic.ResolveSymbols(ast); err != nil {
		return nil, fmt.Errorf("resolve: %w", err)
	}
	return ast, nil
}

func allFiles(root *parser.Thrift) map[string]*parser.Thrift {
	m := map[string]*parser.Thrift{}
	var walk func(t *parser.Thrift)
	walk = func(t *parser.Thrift) {
		if t == nil || m[t.Filename] != nil {
			return
		}
		m[t.Filename] = t
		for _, inc := range t.Includes {
			walk(inc.Reference)
		}
	}
	walk(root)
	return m
}

func safeDump(ast *parser.Thrift) (s string, err error) {
	defer func() {
		if r := recover(); r != nil {
			err = fmt.Errorf("DumpIDL panicked: %v", r)
		}
	}()
	return dump.DumpIDL(ast)
}

// normalise applies the one tolerance the property grants: a double constant
// with an integral value may come back as an integer literal of equal value.
func normalise(t *parser.Thrift) {
	var cv func(v *parser.ConstValue)
	cv = func(v *parser.ConstValue) {
		if v == nil || v.TypedValue == nil {
			return
		}
		switch v.Type {
		case parser.ConstType_ConstDouble:
			d := v.TypedValue.GetDouble()
			if d == math.Trunc(d) && math.Abs(d) < 1<<53 {
				i := int64(d)
				v.Type = parser.ConstType_ConstInt
				v.TypedValue = &parser.ConstTypedValue{Int: &i}
			}
		case parser.ConstType_ConstList:
			for _, e := range v.TypedValue.List {
				cv(e)
			}
		case parser.ConstType_ConstMap:
			for _, e := range v.TypedValue.Map {
				cv(e.Key)
				cv(e.Value)
			}
		}
	}
	for _, c := range t.Constants {
		cv(c.Value)
	}
	for _, s := range t.GetStructLikes() {
		for _, f := range s.Fields {
			cv(f.Default)
		}
	}
	for _, s := range t.Services {
		for _, fn := range s.Functions {
			for _, a := range fn.Arguments {
				cv(a.Default)
			}
			for _, a := range fn.Throws {
				cv(a.Default)
			}
		}
	}
}

// CppType is not named by the property's list of preserved parts and the
// dumper does not write it; Reference of an include is compared per file.
var ignore = map[string]bool{"ReservedComments": true, "CppType": true, "Reference": true}
var ignoreTop = map[string]bool{"ReservedComments": true, "CppType": true}

func judgeDump(c dumpCase) error {
	a, err := front(c.Main, c.Files)
	if err != nil {
		return fmt.Errorf("harness: generated program rejected by the front end: %v", err)
	}
	orig := allFiles(a)
	dumped := map[string]string{}
	for name, t := range orig {
		s, err := safeDump(t)
		if err != nil {
			return fmt.Errorf("dump of %s failed: %v", name, err)
		}
		dumped[name] = s
	}
	// every dumped file parses on its own ...
	for name, s := range dumped {
		if _, err := parser.ParseString(name, s); err != nil {
			return fmt.Errorf("dumped text of %s is not accepted by the parser: %v\n--- dumped text ---\n%s", name, firstLine(err.Error()), vt.Truncate(s, 1500))
		}
	}
	// ... and the dumped program passes semantic analysis
	b, err := front(c.Main, dumped)
	if err != nil {
		return fmt.Errorf("dumped program rejected: %v", err)
	}
	back := allFiles(b)
	if len(back) != len(orig) {
		return fmt.Errorf("dumped program has %d files, original %d", len(back), len(orig))
	}
	for name, t := range orig {
		u := back[name]
		if u == nil {
			return fmt.Errorf("file %s missing after the round trip", name)
		}
		normalise(t)
		normalise(u)
		if d := idl.Diff(t, u, ignore); d != "" {
			return fmt.Errorf("round trip changed %s (original vs re-parsed) at %s\n--- dumped text ---\n%s", name, d, vt.Truncate(dumped[name], 1500))
		}
	}
	return nil
}

func firstLine(s string) string {
	s = strings.TrimSpace(s)
	if len(s) > 300 {
		s = s[:300]
	}
	return s
}

func cfg() idl.Cfg {
	c := idl.Full()
	c.MaxFiles = 3
	c.MaxDefs = 3
	if vt.Known(prop, "large-double") {
		c.ExpDoubles = false // the only doubles outside the exactly-printable integer range come from exponent spellings
		vt.Excluded("large-double")
	}
	return c
}

func hasLit(p *idl.Program, pred func(string) bool) bool {
	found := false
	var an func(as []idl.Anno)
	an = func(as []idl.Anno) {
		for _, a := range as {
			if pred(a.Val.Text()) {
				found = true
			}
		}
	}
	var val func(v *idl.Value)
	val = func(v *idl.Value) {
		if v == nil {
			return
		}
		if v.Kind == idl.VLit && pred(v.Lit.Text()) {
			found = true
		}
		for _, e := range v.List {
			val(e)
		}
		for _, e := range v.Keys {
			val(e)
		}
	}
	for _, f := range p.Files {
		for _, ns := range f.Namespaces {
			an(ns.Annos)
		}
		for _, d := range f.Defs {
			an(d.Annos)
			val(d.Value)
			for _, fl := range d.Fields {
				an(fl.Annos)
				val(fl.Default)
			}
			for _, ev := range d.Values {
				an(ev.Annos)
			}
			for _, fn := range d.Funcs {
				an(fn.Annos)
			}
		}
	}
	return found
}

func TestDumpRoundTrip(t *testing.T) {
	rapid.Check(t, func(rt *rapid.T) {
		c0 := cfg()
		p := idl.Gen(rt, c0)
		restrict(p)
		c := dumpCase{Main: p.Files[0].Path, Files: p.Texts(nil)}
		vt.Eval()
		q := hasLit(p, func(s string) bool { return strings.ContainsAny(s, `"'`) })
		amp := hasLit(p, func(s string) bool { return strings.ContainsAny(s, `&\`) })
		ph := hasLit(p, func(s string) bool {
			return strings.Contains(s, "#OUTQUOTES") || strings.Contains(s, "##34;") || strings.Contains(s, "&#34;") || strings.Contains(s, "&amp;")
		})
		vt.ClassIf(q, "literal_with_quote")
		vt.ClassIf(amp, "literal_with_amp_or_backslash")
		vt.ClassIf(ph, "literal_with_dumper_placeholder")
		vt.ClassIf(len(p.Files) > 1, "multi_file")
		if q && amp {
			vt.Nontrivial(key(c.Files))
		}
		vt.Sample(map[string]interface{}{"program": p.Describe(), "main_text": vt.Truncate(c.Files[c.Main], 400)})
		if err := judgeDump(c); err != nil {
			vt.Fail(rt, prop, "dump", c, "%v", err)
		}
	})
}

// restrict removes, from a generated program, the literal shapes behind known
// findings (each listed in known_findings with its own witness) so that the
// search continues behind them.
func restrict(p *idl.Program) {
	bsq := vt.Known(prop, "backslash-before-quote")
	ph := vt.Known(prop, "dumper-placeholder")
	if !bsq && !ph {
		return
	}
	fix := func(l *idl.Lit) {
		var out []idl.LitTok
		for i, t := range l.Toks {
			// drop a backslash pair that directly precedes a double quote
			if bsq && t.Kind == 1 && i+1 < len(l.Toks) && l.Toks[i+1].Kind == 2 && l.Toks[i+1].S == `"` {
				vt.Excluded("backslash-before-quote")
				continue
			}
			// drop the dumper's own placeholder strings
			if ph && (strings.Contains(t.S, "#OUTQUOTES") || strings.Contains(t.S, "##34;")) {
				vt.Excluded("dumper-placeholder")
				continue
			}
			out = append(out, t)
		}
		l.Toks = idl.FixLit(out)
	}
	var an func(as []idl.Anno)
	an = func(as []idl.Anno) {
		for i := range as {
			fix(&as[i].Val)
		}
	}
	var val func(v *idl.Value)
	val = func(v *idl.Value) {
		if v == nil {
			return
		}
		if v.Kind == idl.VLit {
			fix(&v.Lit)
		}
		for _, e := range v.List {
			val(e)
		}
		for _, e := range v.Keys {
			val(e)
		}
	}
	var typ func(t *idl.Type)
	typ = func(t *idl.Type) {
		if t == nil {
			return
		}
		an(t.Annos)
		typ(t.Key)
		typ(t.Elem)
	}
	for _, f := range p.Files {
		for i := range f.Namespaces {
			an(f.Namespaces[i].Annos)
		}
		for _, d := range f.Defs {
			an(d.Annos)
			val(d.Value)
			typ(d.Type)
			for _, fl := range d.Fields {
				an(fl.Annos)
				val(fl.Default)
				typ(fl.Type)
			}
			for _, ev := range d.Values {
				an(ev.Annos)
			}
			for _, fn := range d.Funcs {
				an(fn.Annos)
				typ(fn.Ret)
				for _, a := range fn.Args {
					an(a.Annos)
					typ(a.Type)
					val(a.Default)
				}
				for _, a := range fn.Throws {
					an(a.Annos)
					typ(a.Type)
				}
			}
		}
	}
}

func key(m map[string]string) string {
	var ks []string
	for k := range m {
		ks = append(ks, k)
	}
	sort.Strings(ks)
	var b strings.Builder
	for _, k := range ks {
		b.WriteString(k + "\x00" + m[k] + "\x00")
	}
	return b.String()
}

func TestReplay(t *testing.T) {
	vt.Replay(t, prop, map[string]vt.Handler{
		"dump": func(raw json.RawMessage) error {
			var c dumpCase
			if err := vt.Decode(raw, &c); err != nil {
				return err
			}
			return judgeDump(c)
		},
		"rewrite": func(raw json.RawMessage) error {
			var c rewriteCase
			if err := vt.Decode(raw, &c); err != nil {
				return err
			}
			return judgeRewrite(c)
		},
	})
}
