// Package c11 holds check C11 (plugins see the compiler's AST and options, and
// their answers are honoured).  The tests need the export-only hooks of
// thriftgo's plugin package and are built with `-tags verif`.
package c11
