// vrun is the orchestrator behind run.sh: it builds what a check needs from
// /repo's current working tree, runs the check's test binary in seed-sharded
// processes, merges their statistics into evidence/<id>.json and maps the
// outcome to the exit codes of the interface (0 held, 1 violation, 2 trouble).
package main

import (
	"bytes"
	"encoding/binary"
	"encoding/json"
	"fmt"
	"os"
	"os/exec"
	"path/filepath"
	"sort"
	"strconv"
	"strings"
	"sync"
	"time"
)

const root = "/verif"

// job is one rapid test (or a group selected by -test.run) of a check.
type job struct {
	Run              string // -test.run pattern
	Quick, Thor      int    // -rapid.checks per shard
	QShards, TShards int
	Steps            int // -rapid.steps (0 = default)
}

type fuzzJob struct {
	Target string
	Dur    string // e.g. 120s
}

type check struct {
	ID       string
	Pkg      string // directory under /verif/checks
	Tags     string
	NeedBin  bool // needs the thriftgo binary built from /repo
	NeedTrim bool // needs the trimmer binary
	Race     bool // thorough tier runs under -race
	Jobs     []job
	Fuzz     []fuzzJob // thorough only
	Rule     string
	Assume   []string
	MaxPar   int // max parallel processes (0 = 16)
	Timeout  time.Duration
	TTimeout time.Duration
}

func main() {
	if len(os.Args) < 3 {
		fmt.Fprintln(os.Stderr, "usage: vrun <Cxx> <quick|thorough|replay>")
		os.Exit(2)
	}
	id, tier := os.Args[1], os.Args[2]
	c, ok := checks[id]
	if !ok {
		fmt.Fprintln(os.Stderr, "unknown check", id)
		os.Exit(2)
	}
	os.Exit(runCheck(c, tier))
}

func env() []string {
	e := os.Environ()
	e = append(e, "GOFLAGS=-mod=mod", "GOPROXY=off", "GOSUMDB=off", "GOTOOLCHAIN=local", "GONOSUMDB=*", "GONOSUMCHECK=1")
	return e
}

func sh(dir string, extraEnv []string, name string, args ...string) (string, error) {
	cmd := exec.Command(name, args...)
	cmd.Dir = dir
	cmd.Env = append(env(), extraEnv...)
	var buf bytes.Buffer
	cmd.Stdout = &buf
	cmd.Stderr = &buf
	err := cmd.Run()
	return buf.String(), err
}

var buildMu sync.Mutex

// repoDir is /repo; VERIF_REPO redirects to another checkout (evaluation of
// seeded changes in scratch worktrees only).
func repoDir() string {
	if r := os.Getenv("VERIF_REPO"); r != "" {
		return r
	}
	return "/repo"
}

// modFlags returns extra go flags: with VERIF_REPO set, an alternative go.mod
// whose replace directive points at that checkout.
func modFlags(build string) ([]string, error) {
	r := os.Getenv("VERIF_REPO")
	if r == "" {
		return nil, nil
	}
	b, err := os.ReadFile(filepath.Join(root, "go.mod"))
	if err != nil {
		return nil, err
	}
	alt := filepath.Join(build, "alt-"+sanitize(r)+".mod")
	if err := os.WriteFile(alt, []byte(strings.Replace(string(b), "=> /repo", "=> "+r, 1)), 0o644); err != nil {
		return nil, err
	}
	sum, _ := os.ReadFile(filepath.Join(root, "go.sum"))
	os.WriteFile(strings.TrimSuffix(alt, ".mod")+".sum", sum, 0o644)
	return []string{"-modfile=" + alt}, nil
}

// buildRepoBin builds a main package of /repo into /verif/.build.  The build
// runs inside /repo with -mod=readonly so that go.sum there is never touched.
func buildRepoBin(pkg, out string) error {
	o, err := sh(repoDir(), []string{"GOFLAGS=-mod=readonly"}, "go", "build", "-o", out, pkg)
	if err != nil {
		return fmt.Errorf("go build %s: %v\n%s", pkg, err, o)
	}
	return nil
}

type shardResult struct {
	job     job
	seed    uint64
	out     string
	dir     string
	err     error
	timeout bool
}

type statsFile struct {
	Evaluations int64            `json:"evaluations"`
	Classes     map[string]int64 `json:"classes"`
	Samples     []interface{}    `json:"samples"`
	Failures    []string         `json:"failures"`
	Known       []string         `json:"known"`
	Violations  []string         `json:"violations"`
}

func runCheck(c check, tier string) int {
	start := time.Now()
	seed := uint64(1)
	if s := os.Getenv("VERIF_SEED"); s != "" {
		if v, err := strconv.ParseUint(s, 10, 64); err == nil {
			seed = v
		} else if v, err := strconv.ParseInt(s, 10, 64); err == nil {
			seed = uint64(-v)
		}
	}
	if seed == 0 {
		seed = 1
	}
	seed %= 1 << 40
	build := filepath.Join(root, ".build")
	if r := os.Getenv("VERIF_REPO"); r != "" {
		build = filepath.Join(root, ".build", "alt-"+sanitize(r))
	}
	os.MkdirAll(build, 0o755)
	work, err := os.MkdirTemp("", "vrun-"+c.ID+"-")
	if err != nil {
		fmt.Fprintln(os.Stderr, err)
		return 2
	}
	defer os.RemoveAll(work)

	extra := []string{"VERIF_TIER=" + tier, "VERIF_WORK=" + work}
	if c.NeedBin {
		bin := filepath.Join(build, "thriftgo-"+c.ID)
		if err := buildRepoBin(".", bin); err != nil {
			fmt.Fprintln(os.Stderr, "harness: cannot build thriftgo from /repo:", err)
			return 2
		}
		extra = append(extra, "VERIF_THRIFTGO="+bin)
	}
	if c.NeedTrim {
		bin := filepath.Join(build, "trimmer-"+c.ID)
		if err := buildRepoBin("./tool/trimmer", bin); err != nil {
			fmt.Fprintln(os.Stderr, "harness: cannot build trimmer from /repo:", err)
			return 2
		}
		extra = append(extra, "VERIF_TRIMMER="+bin)
	}
	// the test binary
	testBin := filepath.Join(build, c.ID+".test")
	args := []string{"test", "-c", "-vet=off", "-o", testBin}
	mf, err := modFlags(build)
	if err != nil {
		fmt.Fprintln(os.Stderr, "harness:", err)
		return 2
	}
	args = append(args, mf...)
	if c.Tags != "" {
		args = append(args, "-tags", c.Tags)
	}
	race := c.Race && tier == "thorough"
	if race {
		args = append(args, "-race")
	}
	args = append(args, "./checks/"+c.Pkg)
	if o, err := sh(root, nil, "go", args...); err != nil {
		fmt.Fprintf(os.Stderr, "harness: cannot build check %s (a compile error here means the exported API the check uses changed, or the harness is broken):\n%s\n", c.ID, o)
		return 2
	}

	pkgDir := filepath.Join(root, "checks", c.Pkg)
	var results []shardResult
	var mu sync.Mutex
	var wg sync.WaitGroup
	par := c.MaxPar
	if par == 0 {
		par = 16
	}
	sem := make(chan struct{}, par)
	timeout := c.Timeout
	if tier == "thorough" {
		timeout = c.TTimeout
	}
	if timeout == 0 {
		timeout = 20 * time.Minute
		if tier == "thorough" {
			timeout = 3 * time.Hour
		}
	}
	launch := func(j job, sd uint64, runPat string, rapidArgs []string) {
		wg.Add(1)
		go func() {
			defer wg.Done()
			sem <- struct{}{}
			defer func() { <-sem }()
			dir := filepath.Join(work, fmt.Sprintf("shard-%s-%d", sanitize(runPat), sd))
			os.MkdirAll(dir, 0o755)
			a := []string{"-test.run", runPat, "-test.timeout", (timeout + time.Minute).String(), "-test.count=1"}
			a = append(a, rapidArgs...)
			cmd := exec.Command(testBin, a...)
			cmd.Dir = pkgDir
			cmd.Env = append(env(), extra...)
			cmd.Env = append(cmd.Env, "VERIF_OUT="+dir, fmt.Sprintf("VERIF_SHARD_SEED=%d", sd), "TMPDIR="+dir)
			var buf bytes.Buffer
			cmd.Stdout = &buf
			cmd.Stderr = &buf
			done := make(chan error, 1)
			if err := cmd.Start(); err != nil {
				mu.Lock()
				results = append(results, shardResult{job: j, seed: sd, err: err, dir: dir})
				mu.Unlock()
				return
			}
			go func() { done <- cmd.Wait() }()
			var err error
			to := false
			select {
			case err = <-done:
			case <-time.After(timeout):
				cmd.Process.Kill()
				err = <-done
				to = true
			}
			mu.Lock()
			results = append(results, shardResult{job: j, seed: sd, out: buf.String(), err: err, dir: dir, timeout: to})
			mu.Unlock()
		}()
	}

	// replay tier first (also part of quick and thorough)
	launch(job{Run: "^TestReplay$"}, 0, "^TestReplay$", nil)
	wg.Wait()
	if tier != "replay" {
		for _, j := range c.Jobs {
			n, shards := j.Quick, j.QShards
			if tier == "thorough" {
				n, shards = j.Thor, j.TShards
			}
			if shards == 0 {
				shards = 1
			}
			for s := 0; s < shards; s++ {
				sd := seed*1000 + uint64(s) + 1
				ra := []string{fmt.Sprintf("-rapid.checks=%d", n), fmt.Sprintf("-rapid.seed=%d", sd), "-rapid.nofailfile"}
				if tier == "thorough" {
					ra = append(ra, "-rapid.shrinktime=3m")
				} else {
					ra = append(ra, "-rapid.shrinktime=30s")
				}
				if j.Steps > 0 {
					ra = append(ra, fmt.Sprintf("-rapid.steps=%d", j.Steps))
				}
				launch(j, sd, j.Run, ra)
			}
		}
		wg.Wait()
	}

	// merge
	ev := int64(0)
	classes := map[string]int64{}
	var samples []interface{}
	hashes := map[uint64]struct{}{}
	var violations, known []string
	trouble := false
	seenV := map[string]bool{}
	for _, r := range results {
		var sf statsFile
		b, rerr := os.ReadFile(filepath.Join(r.dir, "stats.json"))
		if rerr == nil {
			json.Unmarshal(b, &sf)
		}
		ev += sf.Evaluations
		for k, v := range sf.Classes {
			classes[k] += v
		}
		if len(samples) < 8 {
			for _, s := range sf.Samples {
				if len(samples) < 8 {
					samples = append(samples, s)
				}
			}
		}
		if hb, err := os.ReadFile(filepath.Join(r.dir, "hashes.bin")); err == nil {
			for i := 0; i+8 <= len(hb); i += 8 {
				hashes[binary.LittleEndian.Uint64(hb[i:])] = struct{}{}
			}
		}
		for _, k := range sf.Known {
			if !seenV[k] {
				seenV[k] = true
				known = append(known, k)
			}
		}
		for _, v := range sf.Violations {
			if !seenV[v] {
				seenV[v] = true
				violations = append(violations, v)
			}
		}
		for _, f := range sf.Failures {
			line := fmt.Sprintf("VIOLATION property=%s replay=%s", c.ID, f)
			if !seenV[line] {
				seenV[line] = true
				violations = append(violations, line)
			}
		}
		bad := r.err != nil || rerr != nil
		if bad && len(sf.Failures) == 0 && len(sf.Violations) == 0 {
			trouble = true
			fmt.Fprintf(os.Stderr, "harness: shard %s seed %d ended abnormally (err=%v timeout=%v, stats=%v); last output:\n%s\n", r.job.Run, r.seed, r.err, r.timeout, rerr, tail(r.out, 60))
		} else if bad {
			fmt.Fprintf(os.Stderr, "---- failing shard %s seed %d ----\n%s\n", r.job.Run, r.seed, failSummary(r.out))
		}
	}

	// native fuzzing (thorough only; cannot be seeded, the saved input is the reproducible unit)
	if tier == "thorough" && len(violations) == 0 && !trouble {
		for _, fz := range c.Fuzz {
			n, v, tr := runFuzz(c, fz, pkgDir, extra, work)
			ev += n
			classes["native_fuzz_execs:"+fz.Target] += n
			violations = append(violations, v...)
			if tr {
				trouble = true
			}
		}
	}

	sort.Strings(known)
	for _, k := range known {
		fmt.Println(k)
	}
	for _, v := range violations {
		fmt.Println(v)
	}
	if len(samples) == 0 {
		samples = append(samples, "no sample recorded")
	}
	evid := map[string]interface{}{
		"property_id": c.ID,
		"tier":        map[bool]string{true: "thorough", false: "quick"}[tier == "thorough"],
		"seed":        seed,
		"level":       "exploration",
		"coverage": map[string]interface{}{
			"evaluations":         ev,
			"distinct_nontrivial": len(hashes),
			"rule":                c.Rule,
			"samples":             samples,
			"classes":             classes,
			"known_findings":      known,
			"shards":              len(results),
		},
		"assumptions": c.Assume,
		"wall_s":      time.Since(start).Seconds(),
		"violations":  len(violations),
	}
	if tier != "replay" {
		evDir := filepath.Join(root, "evidence")
		if d := os.Getenv("VERIF_SCRATCH"); d != "" {
			evDir = filepath.Join(d, "evidence") // evaluation of a seeded change: not evidence about /repo
		}
		os.MkdirAll(evDir, 0o755)
		b, _ := json.MarshalIndent(evid, "", " ")
		if err := os.WriteFile(filepath.Join(evDir, c.ID+".json"), b, 0o644); err != nil {
			fmt.Fprintln(os.Stderr, "harness: cannot write evidence:", err)
			trouble = true
		}
	}
	fmt.Fprintf(os.Stderr, "%s %s: %d evaluations, %d distinct non-trivial, %d violations, %d known findings, %.1fs\n", c.ID, tier, ev, len(hashes), len(violations), len(known), time.Since(start).Seconds())
	switch {
	case len(violations) > 0:
		return 1
	case trouble:
		return 2
	}
	return 0
}

func runFuzz(c check, fz fuzzJob, pkgDir string, extra []string, work string) (execs int64, violations []string, trouble bool) {
	cache := filepath.Join(work, "fuzzcache-"+fz.Target)
	args := []string{"test", "-vet=off", "-run", "^$", "-fuzz", "^" + fz.Target + "$", "-fuzztime", fz.Dur, "-test.fuzzcachedir", cache}
	if c.Tags != "" {
		args = append(args, "-tags", c.Tags)
	}
	args = append(args, ".")
	before := listFuzzCorpus(pkgDir, fz.Target)
	savedBefore := listSaved(c.ID)
	o, err := sh(pkgDir, append(extra, "VERIF_OUT="+filepath.Join(work, "fuzz-"+fz.Target), "VERIF_SHARD_SEED=fuzz"), "go", args...)
	// parse "execs: N"
	for _, ln := range strings.Split(o, "\n") {
		if i := strings.Index(ln, "execs: "); i >= 0 {
			f := strings.Fields(ln[i+7:])
			if len(f) > 0 {
				if v, e := strconv.ParseInt(f[0], 10, 64); e == nil && v > execs {
					execs = v
				}
			}
		}
	}
	if err != nil {
		found := false
		// oracle failures inside the target leave a JSON replay file
		for p := range listSaved(c.ID) {
			if !savedBefore[p] {
				found = true
				violations = append(violations, fmt.Sprintf("VIOLATION property=%s replay=%s", c.ID, p[:strings.LastIndex(p, "@")]))
			}
		}
		// crashes the target could not catch leave a corpus file; move it out of testdata
		for p := range listFuzzCorpus(pkgDir, fz.Target) {
			if !before[p] {
				dst := filepath.Join(root, "replay", c.ID, "fuzzcrash-"+fz.Target+"-"+filepath.Base(p))
				os.MkdirAll(filepath.Dir(dst), 0o755)
				b, _ := os.ReadFile(p)
				os.WriteFile(dst, b, 0o644)
				os.Remove(p)
				if !found {
					violations = append(violations, fmt.Sprintf("VIOLATION property=%s replay=%s", c.ID, dst))
				}
				found = true
			}
		}
		if !found {
			trouble = true
		}
		fmt.Fprintf(os.Stderr, "---- native fuzz %s ----\n%s\n", fz.Target, tail(o, 60))
	}
	return
}

func listSaved(id string) map[string]bool {
	m := map[string]bool{}
	fs, _ := filepath.Glob(filepath.Join(root, "replay", id, "*.json"))
	for _, f := range fs {
		if st, err := os.Stat(f); err == nil {
			m[f+"@"+st.ModTime().String()] = true
		}
	}
	return m
}

func listFuzzCorpus(pkgDir, target string) map[string]bool {
	m := map[string]bool{}
	fs, _ := filepath.Glob(filepath.Join(pkgDir, "testdata", "fuzz", target, "*"))
	for _, f := range fs {
		m[f] = true
	}
	return m
}

// failSummary keeps the failure message of a rapid run and drops the draw log.
func failSummary(s string) string {
	var out []string
	for _, l := range strings.Split(s, "\n") {
		if strings.Contains(l, "[rapid] draw") || strings.TrimSpace(l) == "" {
			continue
		}
		if len(l) > 400 {
			l = l[:400] + "..."
		}
		out = append(out, l)
		if len(out) >= 14 {
			out = append(out, "...")
			break
		}
	}
	return strings.Join(out, "\n")
}

func tail(s string, n int) string {
	ls := strings.Split(strings.TrimRight(s, "\n"), "\n")
	if len(ls) > n {
		ls = ls[len(ls)-n:]
	}
	for i, l := range ls {
		if len(l) > 600 {
			ls[i] = l[:600] + "..."
		}
	}
	return strings.Join(ls, "\n")
}

func sanitize(s string) string {
	var b strings.Builder
	for _, r := range s {
		if r >= 'a' && r <= 'z' || r >= 'A' && r <= 'Z' || r >= '0' && r <= '9' {
			b.WriteRune(r)
		}
	}
	return b.String()
}
