module verif

go 1.23

toolchain go1.23.5

require (
	github.com/apache/thrift v0.13.0
	github.com/cloudwego/gopkg v0.2.0
	github.com/cloudwego/thriftgo v0.0.0
	pgregory.net/rapid v1.3.0
)

require (
	github.com/bytedance/gopkg v0.1.4 // indirect
	github.com/dlclark/regexp2 v1.11.0 // indirect
	golang.org/x/text v0.14.0 // indirect
	gopkg.in/yaml.v3 v3.0.1 // indirect
)

replace github.com/cloudwego/thriftgo => /repo
